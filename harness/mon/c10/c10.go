// Package c10 monitors C10: messages survive segmentation and reassembly
// unchanged. Real protocol.Protocol endpoints exchange message sequences over
// two real muxers and a netsim connection with scripted read fragmentation;
// the verdict compares what the receiving handler observed with what was
// queued, byte for byte and in order, and an independent parse of the wire.
package c10

import (
	"bytes"
	"crypto/sha256"
	"fmt"
	"hash/fnv"
	"os"
	"runtime"
	"sync"
	"sync/atomic"
	"time"

	"github.com/blinklabs-io/gouroboros/protocol"
	"github.com/blinklabs-io/gouroboros/protocol/blockfetch"
	pcommon "github.com/blinklabs-io/gouroboros/protocol/common"

	"verifharness/core"
	"verifharness/netsim"
	"verifharness/protorig"
)

func init() {
	core.Register(&core.Monitor{
		ID:   "C10",
		Race: true,
		Rule: "a case = one conversation between two real Protocol endpoints: (a) one-way stream of 1..200 messages, (b) ping-pong with server replies sent from the handler, (c) block-fetch batches with the library's state map and codec; message sizes from {1..40, 65520..65550, 131070..131080, 1 MiB, 5 MiB, 12 MiB} and random, plus messages and packed two-message batches whose encoded size is k x 65535 + d (k 1..2, d -1..1; thorough k 1..4, d -3..3) sent as the last thing of the conversation; send timing burst/trickle/mixed; receiver read fragmentation scripts; yields/sleeps at the protocol's perturbation points. Non-trivial = at least one segment carried >1 message or one message spanned >1 segment; distinct = hash of the (messages-per-segment / segments-per-message) pattern on the wire",
		MinNontrivial: 30,
		RaceAnchors:   []string{"protocol.(*Protocol).sendLoop", "protocol.(*Protocol).readLoop", "protocol.(*Protocol).recvLoop", "muxer.(*Muxer)"},
		Assumptions: []string{
			"netsim in-memory connection stands in for TCP",
			"one sending goroutine per endpoint defines the queue order",
		},
		QuickTimeout: 1800,
		Run:          run,
	})
}

const protoID = 77

// quiescence window (no handled message, no byte written or read on the
// connection) and hard watchdog (inconclusive)
const (
	quiet = 30 * time.Second
	hard  = 300 * time.Second
)

var sizeGrid = func() []int {
	var s []int
	for i := 0; i <= 40; i++ {
		s = append(s, i)
	}
	for i := 65520; i <= 65550; i++ {
		s = append(s, i)
	}
	for i := 131070; i <= 131080; i++ {
		s = append(s, i)
	}
	return s
}()

// budgeted wraps pickSize: once the case has spent its byte budget only small
// sizes are drawn (keeps a -race run affordable; thorough has a larger budget).
type sizer struct {
	c      *core.Ctx
	budget int
}

func newSizer(c *core.Ctx) *sizer { return &sizer{c: c, budget: c.N(500_000, 4_000_000)} }

func (z *sizer) pick(r *core.Rand, allowHuge int) int {
	n := pickSize(r, allowHuge)
	if n >= 1<<20 {
		return n // huge messages are budgeted by the caller
	}
	if n > z.budget {
		return r.Range(0, 40)
	}
	z.budget -= n
	return n
}

func pickSize(r *core.Rand, allowHuge int) int {
	switch k := r.Intn(20); {
	case k < 8:
		return r.Range(0, 40)
	case k < 11:
		return core.Pick(r, sizeGrid)
	case k < 14:
		return r.Range(0, 4000)
	case k < 16:
		return r.Range(65400, 65700)
	case k < 17:
		return r.Range(131000, 131200)
	case k == 17 && allowHuge > 0:
		return []int{1 << 20, 5 << 20, 12 << 20}[r.Intn(allowHuge)]
	default:
		return r.Range(0, 300)
	}
}

// ChunkScript returns a read fragmentation script.
func chunkScript(r *core.Rand, mode int) netsim.ChunkFunc {
	var mu sync.Mutex
	switch mode {
	case 0:
		return nil
	case 1:
		n := 0
		return func() int {
			mu.Lock()
			defer mu.Unlock()
			if n < 8192 {
				k := r.Range(1, 7)
				n += k
				return k
			}
			return r.Range(1, 65536)
		}
	case 2:
		return func() int { mu.Lock(); defer mu.Unlock(); return r.Range(1, 70000) }
	default:
		return func() int {
			mu.Lock()
			defer mu.Unlock()
			if r.Chance(1, 4) {
				return r.Range(1, 9)
			}
			return r.Range(1, 20000)
		}
	}
}

func perturb(r *core.Rand, mode int) func() {
	if mode == 0 {
		protocol.VerifSetPoint(nil)
		return func() {}
	}
	var mu sync.Mutex
	protocol.VerifSetPoint(func(name string, _ *protocol.Protocol) {
		mu.Lock()
		k := r.Intn(10)
		mu.Unlock()
		switch {
		case k < 4:
			runtime.Gosched()
		case k == 4 && mode == 2:
			time.Sleep(30 * time.Microsecond)
		}
	})
	return func() { protocol.VerifSetPoint(nil) }
}

type recorder struct {
	mu    sync.Mutex
	cbors [][]byte
	msgs  []protocol.Message
	n     atomic.Int64
}

func (rc *recorder) handler(delay func()) protocol.MessageHandlerFunc {
	return func(m protocol.Message) error {
		cp := append([]byte(nil), m.Cbor()...)
		rc.mu.Lock()
		rc.cbors = append(rc.cbors, cp)
		rc.msgs = append(rc.msgs, m)
		rc.mu.Unlock()
		rc.n.Add(1)
		if delay != nil {
			delay()
		}
		return nil
	}
}

func run(c *core.Ctx) {
	sigs := map[uint64]struct{}{}
	nStream := c.N(40, 4000)
	for i := 0; i < nStream; i++ {
		streamCase(c, i, c.Rand("stream", i), sigs, nil)
	}
	// enumerated boundary sizes: every grid size once as the only message and once in the middle of small ones
	grid := sizeGrid
	step := 1
	if c.Quick() {
		step = 4
	}
	for gi := 0; gi < len(grid); gi += step {
		streamCase(c, 200000+gi, c.Rand("grid", gi), sigs, []int{3, grid[gi], 5, grid[gi], 1})
		c.Count("grid_cases", 1)
	}
	// messages and packed batches whose ENCODED size ends exactly on (or next
	// to) a multiple of the 65535-byte segment payload limit, as the LAST thing
	// sent: nothing follows that could flush a reassembly buffer which wrongly
	// expects a continuation after a full segment
	for bi, sizes := range boundaryCases(c) {
		streamCase(c, 300000+bi, c.Rand("boundary", bi), sigs, sizes)
		c.Count("segment_boundary_cases", 1)
	}
	nPing := c.N(25, 2000)
	for i := 0; i < nPing; i++ {
		pingPongCase(c, i, c.Rand("ping", i), sigs)
	}
	nBF := c.N(15, 1200)
	for i := 0; i < nBF; i++ {
		blockFetchCase(c, i, c.Rand("bf", i), sigs)
	}
	c.Note("distinct_wire_patterns", len(sigs))
}

// payloadFor returns the payload length whose protorig encoding has exactly
// enc bytes (ok=false where no such length exists).
func payloadFor(enc int) (int, bool) {
	for _, over := range []int{3, 4, 5, 7} {
		n := enc - over
		if n >= 0 && protorig.EncodedOverhead(n) == over {
			return n, true
		}
	}
	return 0, false
}

func boundaryCases(c *core.Ctx) [][]int {
	var out [][]int
	ks, ds := []int{1, 2}, []int{-1, 0, 1}
	if c.Thorough() {
		ks, ds = []int{1, 2, 3, 4}, []int{-3, -2, -1, 0, 1, 2, 3}
	}
	for _, k := range ks {
		for _, d := range ds {
			enc := k*65535 + d
			if n, ok := payloadFor(enc); ok {
				out = append(out, []int{n}, []int{3, n}, []int{n, n})
			}
			// a packed batch of two messages that ends on the boundary
			for _, first := range []int{10, 30000} {
				e1 := first + protorig.EncodedOverhead(first)
				if n, ok := payloadFor(enc - e1); ok {
					out = append(out, []int{first, n})
				}
			}
		}
	}
	return out
}

// wireCheck parses one direction's tap and compares the concatenated payload of
// protocol `id` with want; returns the packing pattern signature.
func wireCheck(c *core.Ctx, label string, conn *netsim.Conn, id uint16, want [][]byte, wit map[string]any) (sig uint64, nontrivial bool) {
	segs, err := netsim.ParseSegs(conn.TapBytes())
	if err != nil {
		c.Violation("C10:wire:unparseable:"+label, fmt.Sprintf("wire stream does not parse into whole segments: %v", err), wit)
		return 0, false
	}
	total := 0
	for _, w := range want {
		total += len(w)
	}
	stream := make([]byte, 0, total+16)
	var lens []int
	for _, s := range segs {
		if s.Proto != id {
			continue
		}
		if len(s.Payload) > 65535 || len(s.Payload) == 0 {
			c.Violation("C10:wire:segment-size:"+label, fmt.Sprintf("segment with %d payload bytes on the wire", len(s.Payload)), wit)
		}
		stream = append(stream, s.Payload...)
		lens = append(lens, len(s.Payload))
	}
	all := make([]byte, 0, total)
	for _, w := range want {
		all = append(all, w...)
	}
	if !bytes.Equal(stream, all) {
		// find first divergence
		d := 0
		for d < len(stream) && d < len(all) && stream[d] == all[d] {
			d++
		}
		c.Violation("C10:wire:content:"+label, fmt.Sprintf("bytes on the wire differ from the queued messages (wire %d bytes, queued %d bytes, first difference at offset %d)", len(stream), len(all), d), wit)
		return 0, false
	}
	// packing pattern: for each segment how many message starts it contains
	h := fnv.New64a()
	var starts []int // ascending message start offsets
	off := 0
	for _, w := range want {
		starts = append(starts, off)
		off += len(w)
	}
	pos, si := 0, 0
	for _, l := range lens {
		cnt := 0
		for si < len(starts) && starts[si] < pos+l {
			cnt++
			si++
		}
		if cnt > 1 {
			nontrivial = true
		}
		if cnt == 0 {
			nontrivial = true // continuation segment: a message spans several segments
		}
		fmt.Fprintf(h, "%d,", cnt)
		pos += l
	}
	c.Count("wire_segments", len(lens))
	return h.Sum64(), nontrivial
}

func streamCase(c *core.Ctx, idx int, r *core.Rand, sigs map[uint64]struct{}, fixedSizes []int) {
	c.Journal("C10 stream case %d", idx)
	if os.Getenv("VERIF_DEBUG") != "" {
		t0 := time.Now()
		defer func() { fmt.Fprintf(os.Stderr, "stream %d: %v\n", idx, time.Since(t0)) }()
	}
	rig := protorig.NewRig()
	rig.CA.EnableTap()
	cm, pm := r.Intn(4), r.Intn(3)
	if os.Getenv("VERIF_DEBUG") != "" {
		fmt.Fprintf(os.Stderr, "  chunk=%d perturb=%d\n", cm, pm)
	}
	rig.CB.SetReadChunks(chunkScript(r.Fork(1), cm))
	undo := perturb(r.Fork(2), pm)
	defer undo()
	rec := &recorder{}
	var delay func()
	if r.Chance(1, 4) {
		dr := r.Fork(5)
		var mu sync.Mutex
		delay = func() {
			mu.Lock()
			k := dr.Intn(4)
			mu.Unlock()
			if k == 0 {
				time.Sleep(50 * time.Microsecond)
			}
		}
	}
	cfg := protocol.ProtocolConfig{
		Name: "vstream", ProtocolId: protoID, Mode: protocol.ProtocolModeNodeToNode,
		MessageFromCborFunc: protorig.FromCbor, StateMap: protorig.StreamMap(0, 0), InitialState: protorig.StStream,
	}
	scfg := cfg
	scfg.Role = protocol.ProtocolRoleClient
	scfg.MessageHandlerFunc = func(protocol.Message) error { return nil }
	rcfg := cfg
	rcfg.Role = protocol.ProtocolRoleServer
	rcfg.MessageHandlerFunc = rec.handler(delay)
	if r.Bool() {
		rcfg.RecvQueueSize = r.Range(1, 8)
	}
	S := rig.Endpoint(0, scfg)
	R := rig.Endpoint(1, rcfg)
	S.Start()
	R.Start()
	rig.Start()

	var sizes []int
	if fixedSizes != nil {
		sizes = fixedSizes
	} else {
		n := r.Range(1, c.N(80, 200))
		huge := 0
		zs := newSizer(c)
		for i := 0; i < n; i++ {
			ah := 0
			if huge < 1 && c.Thorough() {
				ah = 3 // 1, 5 or 12 MiB
			} else if huge < 1 && idx%20 == 0 {
				ah = 1 // quick: one 1 MiB message in a twentieth of the cases (the receiver re-scans its buffer per segment: quadratic cost under -race)
			}
			sz := zs.pick(r, ah)
			if sz >= 1<<20 {
				huge++
			}
			sizes = append(sizes, sz)
		}
	}
	var want [][]byte
	timing := r.Intn(3)
	tr := r.Fork(7)
	sendErr := error(nil)
	for i, sz := range sizes {
		p := r.Bytes(sz)
		if sz >= 4 {
			p[0], p[1], p[2], p[3] = byte(i>>24), byte(i>>16), byte(i>>8), byte(i)
		}
		want = append(want, protorig.Encoded(0, p))
		if err := S.SendMessage(protorig.NewMsg(0, p)); err != nil {
			sendErr = err
			break
		}
		switch timing {
		case 1:
			if tr.Chance(1, 2) {
				runtime.Gosched()
			}
			if tr.Chance(1, 10) {
				time.Sleep(20 * time.Microsecond)
			}
		case 2:
			if tr.Chance(1, 8) {
				time.Sleep(100 * time.Microsecond)
			}
		}
	}
	c.Eval()
	if os.Getenv("VERIF_DEBUG") != "" {
		tot := 0
		for _, s := range sizes {
			tot += s
		}
		fmt.Fprintf(os.Stderr, "  n=%d total=%d timing=%d rq=%d delay=%v sent at %v\n", len(sizes), tot, timing, rcfg.RecvQueueSize, delay != nil, time.Now().Format("05.000"))
	}
	wit := map[string]any{"case": idx, "seed": c.Seed, "sizes": sizes, "timing": timing}
	if sendErr != nil {
		c.Violation("C10:stream:send-error", fmt.Sprintf("SendMessage failed during a legal conversation: %v", sendErr), wit)
		rig.Close()
		return
	}
	n := int64(len(sizes))
	ok, frozen := protorig.WaitUntil(func() bool {
		if rec.n.Load() >= n {
			return true
		}
		a, b := rig.MuxErrors()
		return len(a)+len(b) > 0 || len(rig.ErrA)+len(rig.ErrB) > 0
	}, func() int64 { return rec.n.Load()*1000003 + int64(rig.CA.Written()) + int64(rig.CB.ReadCount()) }, quiet, hard)
	if os.Getenv("VERIF_DEBUG") != "" {
		fmt.Fprintf(os.Stderr, "  delivered at %v\n", time.Now().Format("05.000"))
	}
	ea, eb := rig.ProtoErrors()
	ma, mb := rig.MuxErrors()
	// stop the sender after the last message was delivered; nothing more may arrive
	S.Stop()
	time.Sleep(2 * time.Millisecond)
	extra := rec.n.Load() - n
	rig.Close()
	protorig.WaitDone(R.DoneChan(), 5*time.Second)
	if len(ea)+len(eb)+len(ma)+len(mb) > 0 {
		c.Violation("C10:stream:unexpected-error", fmt.Sprintf("error during a legal conversation: protoA=%v protoB=%v muxA=%v muxB=%v", ea, eb, ma, mb), wit)
		c.Count("broken", 1)
		return
	}
	if !ok {
		if frozen {
			c.Violation("C10:stream:stalled", fmt.Sprintf("receiver handled %d of %d messages and nothing moved for 30 s", rec.n.Load(), n), wit)
			c.Count("broken", 1)
		} else {
			c.Inconclusive(fmt.Sprintf("stream case %d did not finish within the watchdog", idx))
		}
		return
	}
	if extra > 0 {
		c.Violation("C10:stream:extra-message", fmt.Sprintf("%d more messages than were queued reached the handler", extra), wit)
	}
	compare(c, "stream", want, rec, wit)
	sig, nt := wireCheck(c, "stream", rig.CA, protoID, want, wit)
	note(c, sigs, sig, nt)
	c.Count("messages_delivered", int(n))
	if idx%25 == 0 {
		c.Sample(map[string]any{"kind": "stream", "case": idx, "messages": len(sizes), "first_sizes": head(sizes, 12), "timing": timing, "delivered": rec.n.Load()})
	}
}

func head(s []int, n int) []int {
	if len(s) > n {
		return s[:n]
	}
	return s
}

func note(c *core.Ctx, sigs map[uint64]struct{}, sig uint64, nontrivial bool) {
	if !nontrivial {
		return
	}
	if _, ok := sigs[sig]; !ok {
		sigs[sig] = struct{}{}
		c.Distinct("pattern", sig)
	}
	c.Count("cases_with_packing_or_splitting", 1)
}

func compare(c *core.Ctx, label string, want [][]byte, rec *recorder, wit map[string]any) {
	rec.mu.Lock()
	defer rec.mu.Unlock()
	if len(rec.cbors) < len(want) {
		c.Violation("C10:"+label+":lost", fmt.Sprintf("%d messages queued, %d handled", len(want), len(rec.cbors)), wit)
		return
	}
	for i := range want {
		if !bytes.Equal(want[i], rec.cbors[i]) {
			c.Violation("C10:"+label+":content-or-order", fmt.Sprintf("message %d differs: queued %d bytes (%s), handled %d bytes (%s)", i, len(want[i]), core.Hex(want[i]), len(rec.cbors[i]), core.Hex(rec.cbors[i])), wit)
			return
		}
		// late re-read: the message object handed to the application must
		// still hold the same bytes after the read buffer was reused
		if !bytes.Equal(rec.msgs[i].Cbor(), want[i]) {
			c.Violation("C10:"+label+":aliased-after-delivery", fmt.Sprintf("message %d changed after it was delivered (stored bytes alias a reused buffer)", i), wit)
			return
		}
		if m, ok := rec.msgs[i].(*protorig.Msg); ok {
			if !bytes.Equal(protorig.Encoded(m.Type(), m.Payload), want[i]) {
				c.Violation("C10:"+label+":decoded-fields", fmt.Sprintf("message %d: decoded payload does not match the queued payload", i), wit)
				return
			}
		}
	}
}

func pingPongCase(c *core.Ctx, idx int, r *core.Rand, sigs map[uint64]struct{}) {
	c.Journal("C10 pingpong case %d", idx)
	if os.Getenv("VERIF_DEBUG") != "" {
		t0 := time.Now()
		defer func() { fmt.Fprintf(os.Stderr, "pingpong %d: %v\n", idx, time.Since(t0)) }()
	}
	rig := protorig.NewRig()
	rig.CA.EnableTap()
	rig.CB.EnableTap()
	rig.CA.SetReadChunks(chunkScript(r.Fork(1), r.Intn(4)))
	rig.CB.SetReadChunks(chunkScript(r.Fork(2), r.Intn(4)))
	undo := perturb(r.Fork(3), r.Intn(3))
	defer undo()
	rounds := r.Range(1, 60)
	// server: for each request sends k stream messages (type 3) then the reply (type 1)
	type plan struct {
		req    []byte
		stream [][]byte
		reply  []byte
	}
	plans := make([]plan, rounds)
	zs := newSizer(c)
	for i := range plans {
		plans[i].req = r.Bytes(zs.pick(r, 0))
		for k := r.Intn(4); k > 0; k-- {
			plans[i].stream = append(plans[i].stream, r.Bytes(zs.pick(r, 0)))
		}
		plans[i].reply = r.Bytes(zs.pick(r, 0))
	}
	var srv *protocol.Protocol
	srvRec := &recorder{}
	var round atomic.Int64
	srvErr := make(chan error, 1)
	cfg := protocol.ProtocolConfig{
		Name: "vpingpong", ProtocolId: protoID, Mode: protocol.ProtocolModeNodeToNode,
		MessageFromCborFunc: protorig.FromCbor, StateMap: protorig.PingPongMap(0, 0, 0, 0), InitialState: protorig.StIdle,
	}
	scfg := cfg
	scfg.Role = protocol.ProtocolRoleServer
	inner := srvRec.handler(nil)
	scfg.MessageHandlerFunc = func(m protocol.Message) error {
		inner(m)
		i := int(round.Add(1) - 1)
		if i >= len(plans) {
			return nil
		}
		for _, s := range plans[i].stream {
			if err := srv.SendMessage(protorig.NewMsg(3, s)); err != nil {
				select {
				case srvErr <- err:
				default:
				}
				return nil
			}
		}
		if err := srv.SendMessage(protorig.NewMsg(1, plans[i].reply)); err != nil {
			select {
			case srvErr <- err:
			default:
			}
		}
		return nil
	}
	cliRec := &recorder{}
	replies := make(chan struct{}, 1024)
	ccfg := cfg
	ccfg.Role = protocol.ProtocolRoleClient
	cinner := cliRec.handler(nil)
	ccfg.MessageHandlerFunc = func(m protocol.Message) error {
		cinner(m)
		if m.Type() == 1 {
			replies <- struct{}{}
		}
		return nil
	}
	cli := rig.Endpoint(0, ccfg)
	srv = rig.Endpoint(1, scfg)
	cli.Start()
	srv.Start()
	rig.Start()
	var wantReq, wantResp [][]byte
	wit := map[string]any{"case": idx, "seed": c.Seed, "rounds": rounds}
	c.Eval()
	broken := ""
	for i := 0; i < rounds && broken == ""; i++ {
		wantReq = append(wantReq, protorig.Encoded(0, plans[i].req))
		for _, s := range plans[i].stream {
			wantResp = append(wantResp, protorig.Encoded(3, s))
		}
		wantResp = append(wantResp, protorig.Encoded(1, plans[i].reply))
		if err := cli.SendMessage(protorig.NewMsg(0, plans[i].req)); err != nil {
			broken = fmt.Sprintf("client SendMessage: %v", err)
			break
		}
		// wait for the reply (bounded progress)
		got := false
		ok, frozen := protorig.WaitUntil(func() bool {
			select {
			case <-replies:
				got = true
				return true
			default:
			}
			return len(rig.ErrA)+len(rig.ErrB) > 0
		}, func() int64 {
			return cliRec.n.Load() + srvRec.n.Load() + int64(rig.CA.Written()+rig.CB.Written()+rig.CA.ReadCount()+rig.CB.ReadCount())
		}, quiet, hard)
		if !got {
			if ok {
				broken = "protocol error"
			} else if frozen {
				broken = fmt.Sprintf("round %d: no reply and nothing moved for 30 s", i)
			} else {
				c.Inconclusive(fmt.Sprintf("pingpong case %d watchdog", idx))
				rig.Close()
				return
			}
		}
	}
	ea, eb := rig.ProtoErrors()
	ma, mb := rig.MuxErrors()
	select {
	case e := <-srvErr:
		broken = fmt.Sprintf("server SendMessage: %v", e)
	default:
	}
	cli.Stop()
	srv.Stop()
	rig.Close()
	if len(ea)+len(eb)+len(ma)+len(mb) > 0 || broken != "" {
		c.Violation("C10:pingpong:unexpected-error", fmt.Sprintf("legal ping-pong conversation failed: %s protoA=%v protoB=%v muxA=%v muxB=%v", broken, ea, eb, ma, mb), wit)
		c.Count("broken", 1)
		return
	}
	compare(c, "pingpong-requests", wantReq, srvRec, wit)
	compare(c, "pingpong-replies", wantResp, cliRec, wit)
	s1, n1 := wireCheck(c, "pingpong-requests", rig.CA, protoID, wantReq, wit)
	s2, n2 := wireCheck(c, "pingpong-replies", rig.CB, protoID, wantResp, wit)
	note(c, sigs, s1^(s2*31), n1 || n2)
	c.Count("messages_delivered", len(wantReq)+len(wantResp))
	if idx%20 == 0 {
		c.Sample(map[string]any{"kind": "pingpong", "case": idx, "rounds": rounds, "replies": len(wantResp)})
	}
}

// blockFetchCase uses the library's block-fetch state map and codec with
// recording handlers: RequestRange, then StartBatch, Block x n, BatchDone.
func blockFetchCase(c *core.Ctx, idx int, r *core.Rand, sigs map[uint64]struct{}) {
	c.Journal("C10 blockfetch case %d", idx)
	if os.Getenv("VERIF_DEBUG") != "" {
		t0 := time.Now()
		defer func() { fmt.Fprintf(os.Stderr, "blockfetch %d: %v\n", idx, time.Since(t0)) }()
	}
	rig := protorig.NewRig()
	rig.CB.EnableTap()
	rig.CA.SetReadChunks(chunkScript(r.Fork(1), r.Intn(4)))
	undo := perturb(r.Fork(3), r.Intn(3))
	defer undo()
	cfg := protocol.ProtocolConfig{
		Name: blockfetch.ProtocolName, ProtocolId: blockfetch.ProtocolId, Mode: protocol.ProtocolModeNodeToNode,
		MessageFromCborFunc: blockfetch.NewMsgFromCbor, StateMap: blockfetch.StateMap.Copy(), InitialState: blockfetch.StateIdle,
		RecvQueueSize: blockfetch.DefaultRecvQueueSize,
	}
	// make the library's timeouts irrelevant for this check
	for k, e := range cfg.StateMap {
		e.Timeout = 0
		e.TimeoutFunc = nil
		cfg.StateMap[k] = e
	}
	cliRec := &recorder{}
	type snap struct {
		typ  uint8
		hash [32]byte
	}
	var snaps []snap
	var snapMu sync.Mutex
	batchDone := make(chan struct{}, 16)
	ccfg := cfg
	ccfg.Role = protocol.ProtocolRoleClient
	inner := cliRec.handler(nil)
	ccfg.MessageHandlerFunc = func(m protocol.Message) error {
		inner(m)
		if b, ok := m.(*blockfetch.MsgBlock); ok {
			snapMu.Lock()
			snaps = append(snaps, snap{m.Type(), sha256.Sum256(b.WrappedBlock)})
			snapMu.Unlock()
		}
		if m.Type() == blockfetch.MessageTypeBatchDone || m.Type() == blockfetch.MessageTypeNoBlocks {
			batchDone <- struct{}{}
		}
		return nil
	}
	reqs := make(chan struct{}, 16)
	scfg := cfg
	scfg.Role = protocol.ProtocolRoleServer
	scfg.MessageHandlerFunc = func(m protocol.Message) error {
		reqs <- struct{}{}
		return nil
	}
	cli := rig.Endpoint(0, ccfg)
	srv := rig.Endpoint(1, scfg)
	cli.Start()
	srv.Start()
	rig.Start()
	batches := r.Range(1, 4)
	zs := newSizer(c)
	var want [][]byte
	var wantBlocks [][]byte
	wit := map[string]any{"case": idx, "seed": c.Seed, "batches": batches}
	c.Eval()
	fail := ""
	for b := 0; b < batches && fail == ""; b++ {
		p1 := pcommon.NewPoint(uint64(10+b), r.Bytes(32))
		p2 := pcommon.NewPoint(uint64(20+b), r.Bytes(32))
		if err := cli.SendMessage(blockfetch.NewMsgRequestRange(p1, p2)); err != nil {
			fail = fmt.Sprintf("client SendMessage: %v", err)
			break
		}
		select {
		case <-reqs:
		case <-time.After(60 * time.Second):
			c.Inconclusive(fmt.Sprintf("blockfetch case %d: request did not arrive within the watchdog", idx))
			rig.Close()
			return
		}
		var msgs []protocol.Message
		if r.Chance(1, 6) {
			msgs = append(msgs, blockfetch.NewMsgNoBlocks())
		} else {
			msgs = append(msgs, blockfetch.NewMsgStartBatch())
			for k := r.Range(0, 30); k > 0; k-- {
				sz := zs.pick(r, 0)
				if r.Chance(1, 8) && zs.budget > 200000 {
					sz = r.Range(60000, 200000)
					zs.budget -= sz
				}
				// wrapped block = tag 24 byte string, as block-fetch carries it
				inner := r.Bytes(sz)
				wb := wrapTag24(inner)
				wantBlocks = append(wantBlocks, wb)
				msgs = append(msgs, blockfetch.NewMsgBlock(wb))
			}
			msgs = append(msgs, blockfetch.NewMsgBatchDone())
		}
		for _, m := range msgs {
			if err := srv.SendMessage(m); err != nil {
				fail = fmt.Sprintf("server SendMessage: %v", err)
				break
			}
			want = append(want, append([]byte(nil), m.Cbor()...))
		}
		ok, frozen := protorig.WaitUntil(func() bool {
			select {
			case <-batchDone:
				return true
			default:
			}
			return len(rig.ErrA)+len(rig.ErrB) > 0
		}, func() int64 { return cliRec.n.Load() + int64(rig.CB.Written()+rig.CA.ReadCount()) }, quiet, hard)
		if !ok {
			if frozen {
				fail = fmt.Sprintf("batch %d: client handled %d of %d messages and nothing moved for 30 s", b, cliRec.n.Load(), len(want))
			} else {
				c.Inconclusive(fmt.Sprintf("blockfetch case %d watchdog", idx))
				rig.Close()
				return
			}
		}
	}
	ea, eb := rig.ProtoErrors()
	ma, mb := rig.MuxErrors()
	cli.Stop()
	srv.Stop()
	rig.Close()
	if len(ea)+len(eb)+len(ma)+len(mb) > 0 || fail != "" {
		c.Violation("C10:blockfetch:unexpected-error", fmt.Sprintf("legal block-fetch conversation failed: %s protoA=%v protoB=%v muxA=%v muxB=%v", fail, ea, eb, ma, mb), wit)
		c.Count("broken", 1)
		return
	}
	compare(c, "blockfetch", want, cliRec, wit)
	// late re-read of decoded block payloads
	cliRec.mu.Lock()
	bi := 0
	for _, m := range cliRec.msgs {
		if b, ok := m.(*blockfetch.MsgBlock); ok {
			if bi < len(wantBlocks) && !bytes.Equal(b.WrappedBlock, wantBlocks[bi]) {
				c.Violation("C10:blockfetch:block-bytes", fmt.Sprintf("block %d: wrapped block bytes differ from what the server queued (late read)", bi), wit)
				break
			}
			if bi < len(snaps) && sha256.Sum256(b.WrappedBlock) != snaps[bi].hash {
				c.Violation("C10:blockfetch:aliased-after-delivery", fmt.Sprintf("block %d changed after delivery", bi), wit)
				break
			}
			bi++
		}
	}
	cliRec.mu.Unlock()
	sig, nt := wireCheck(c, "blockfetch", rig.CB, blockfetch.ProtocolId, want, wit)
	note(c, sigs, sig, nt)
	c.Count("messages_delivered", len(want))
	c.Count("blocks_delivered", len(wantBlocks))
	if idx%12 == 0 {
		c.Sample(map[string]any{"kind": "blockfetch", "case": idx, "batches": batches, "messages": len(want), "blocks": len(wantBlocks)})
	}
}

func wrapTag24(inner []byte) []byte {
	out := []byte{0xd8, 0x18}
	n := len(inner)
	switch {
	case n < 24:
		out = append(out, 0x40|byte(n))
	case n <= 0xff:
		out = append(out, 0x58, byte(n))
	case n <= 0xffff:
		out = append(out, 0x59, byte(n>>8), byte(n))
	default:
		out = append(out, 0x5a, byte(n>>24), byte(n>>16), byte(n>>8), byte(n))
	}
	return append(out, inner...)
}
