// Package c39 monitors C39: KES signatures are forward-secure and period-bound.
//
// For every seed and depth 1..6 the key is evolved through all periods. At
// the selected periods t (all for depth <= 4, boundary + random ones for 5-6):
// sigma = Sign(key evolved t times, t, m) must verify under the key's public
// key at t and at no other period (all t' for depth <= 4; tree neighbours,
// boundaries and random ones for 5-6; t' >= 2^depth), for no other message,
// under no other public key, and after no single-bit flip of sigma. PublicKey
// must be invariant under Update. An evolved key must not be able to sign for
// an earlier period: through Sign (directly, and with the exported Period
// field rewritten) and through its key material (the evolved key's Data must
// not contain the leaf seed of an earlier period nor the seed of a subtree that
// contains one; the seeds come from an independent derivation that is
// self-checked against the genuine signature's leaf key).
package c39

import (
	"bytes"
	"crypto/ed25519"
	"fmt"

	"github.com/blinklabs-io/gouroboros/kes"
	"github.com/blinklabs-io/gouroboros/ledger"
	"golang.org/x/crypto/blake2b"

	"verifharness/core"
)

func init() {
	core.Register(&core.Monitor{
		ID:            "C39",
		Rule:          "PRNG seeds x depths 1..6, messages of 0..100 bytes; each key is evolved through all 2^depth periods; selected periods: all for depth <= 4, {0,1,2^(d-1)-1,2^(d-1),2^d-2,2^d-1} + 4 random for depth 5-6; per selected period: verification at every t' < 2^depth (depth <= 4) or tree neighbours t xor 2^k, t+-1, 0, last, 3 random (5-6), at t' >= 2^depth, changed messages, foreign / bit-flipped / mis-sized public keys, signature bit flips (all bits at one period per key, 32 sampled at the others), earlier-period signing attempts, key-material scan; per selected period and entry point a history genuine -> tampered -> genuine ...: signature bits (all 3584 at one period per depth-6 key through VerifySignedKES and VerifyKesComponents, sampled otherwise), replaced vk path, key / message flips, other periods, each as a fresh copy and written IN PLACE into the buffers the genuine call used, arguments compared for modification, buffers overwritten afterwards; depth 6 additionally through kes.VerifySignedKES and ledger.VerifyKesComponents (slot arithmetic); a case is one Verify/Sign/scan call; distinct by (depth, key hash, period, kind, position)",
		MinNontrivial: 100000,
		Assumptions: []string{
			"crypto/ed25519 and golang.org/x/crypto/blake2b are correct",
			"the key layout / seed expansion documented in kes/sign.go (blake2b-256(0x01||seed), blake2b-256(0x02||seed)) is what the reference derivation mirrors; a mismatch makes the key-material scan inconclusive, never a violation",
		},
		QuickTimeout: 600,
		Run:          run,
	})
}

func expand(seed []byte, sep byte) []byte {
	h := blake2b.Sum256(append([]byte{sep}, seed...))
	return h[:]
}

// secret is a piece of key material that allows signing for periods [lo,hi].
type secret struct {
	lo, hi uint64
	seed   []byte
	leaf   bool
}

// refSecrets derives every subtree seed and leaf seed of the sum composition.
func refSecrets(depth uint64, seed []byte, lo uint64, out *[]secret) {
	if depth == 0 {
		*out = append(*out, secret{lo, lo, seed, true})
		return
	}
	half := uint64(1) << (depth - 1)
	*out = append(*out, secret{lo, lo + 2*half - 1, seed, false})
	refSecrets(depth-1, expand(seed, 1), lo, out)
	refSecrets(depth-1, expand(seed, 2), lo+half, out)
}

func flip(b []byte, bit int) []byte {
	o := append([]byte(nil), b...)
	o[bit/8] ^= 1 << (bit % 8)
	return o
}

type kcase struct {
	c      *core.Ctx
	depth  uint64
	seed   []byte
	pk     []byte
	msg    []byte
	kh     string
	nper   uint64
	others [][]byte // foreign public keys
}

func (k *kcase) wit(extra map[string]any) map[string]any {
	w := map[string]any{"depth": k.depth, "key_seed": core.HexFull(k.seed), "pk": core.HexFull(k.pk), "msg": core.HexFull(k.msg)}
	for a, b := range extra {
		w[a] = b
	}
	return w
}

// verify wraps NewSumKesFromBytes(depth).Verify; a parse error counts as false.
func (k *kcase) verify(sig []byte, period uint64, pk, msg []byte) (ok bool, panicked bool, pv any) {
	panicked, pv, _ = core.Safely(func() {
		s, err := kes.NewSumKesFromBytes(k.depth, sig)
		if err != nil {
			ok = false
			return
		}
		ok = s.Verify(period, pk, msg)
	})
	k.c.Eval()
	return
}

// expect runs one verification and reports a deviation from want.
func (k *kcase) expect(want bool, kind, key string, t uint64, sig []byte, period uint64, pk, msg []byte, extra map[string]any) bool {
	ok, p, pv := k.verify(sig, period, pk, msg)
	k.c.Count("v_"+kind, 1)
	if p {
		k.c.Violation("C39:Verify:panic:"+kind, fmt.Sprintf("Verify panicked (%s): %v", kind, pv),
			k.wit(merge(extra, map[string]any{"signed_period": t, "verify_period": period, "sig": core.HexFull(sig), "used_pk": core.HexFull(pk), "used_msg": core.HexFull(msg)})))
		return false
	}
	if ok {
		k.c.Count("accepts", 1)
	} else {
		k.c.Count("rejects", 1)
	}
	if ok != want {
		what := fmt.Sprintf("depth %d: signature made at period %d: Verify(period=%d, %s) = %v, want %v", k.depth, t, period, kind, ok, want)
		k.c.Violation(key, what, k.wit(merge(extra, map[string]any{"signed_period": t, "verify_period": period, "sig": core.HexFull(sig), "used_pk": core.HexFull(pk), "used_msg": core.HexFull(msg)})))
		return false
	}
	return true
}

func merge(a, b map[string]any) map[string]any {
	o := map[string]any{}
	for k, v := range a {
		o[k] = v
	}
	for k, v := range b {
		o[k] = v
	}
	return o
}

func dkey(depth uint64) string {
	return fmt.Sprintf("depth%d", depth)
}

func run(c *core.Ctx) {
	seeds := c.N(40, 2000)
	type cs struct {
		seedIdx int
		depth   uint64
	}
	var cases []cs
	for s := 0; s < seeds; s++ {
		for d := uint64(6); d >= 1; d-- { // heavy ones first
			cases = append(cases, cs{s, d})
		}
	}
	c.Parallel("case", len(cases), 0, func(i int, r *core.Rand) {
		runCase(c, cases[i].seedIdx, cases[i].depth, r)
	})
	if c.Counter("accepts") == 0 {
		c.Inconclusive("no signature verified: only one outcome observed")
	}
}

func runCase(c *core.Ctx, seedIdx int, depth uint64, r *core.Rand) {
	k := &kcase{c: c, depth: depth, seed: r.Bytes(32), nper: uint64(1) << depth}
	mlen := r.Range(0, 100)
	if seedIdx == 0 {
		mlen = 0
	}
	k.msg = r.Bytes(mlen)
	c.Journal("C39 case seed#%d depth=%d keyseed=%x", seedIdx, depth, k.seed)

	var sk *kes.SecretKey
	var err error
	if p, pv, st := core.Safely(func() { sk, k.pk, err = kes.KeyGen(depth, k.seed) }); p || err != nil || sk == nil {
		c.Eval()
		c.Violation("C39:KeyGen:failed", fmt.Sprintf("KeyGen(depth=%d) failed: err=%v panic=%v", depth, err, pv), map[string]any{"depth": depth, "key_seed": core.HexFull(k.seed), "stack": st})
		return
	}
	k.pk = append([]byte(nil), k.pk...)
	k.kh = fmt.Sprintf("%x", k.pk[:8])
	for j := 0; j < 2; j++ {
		_, opk, e := kes.KeyGen(depth, r.Bytes(32))
		if e == nil && !bytes.Equal(opk, k.pk) {
			k.others = append(k.others, append([]byte(nil), opk...))
		}
	}
	var secrets []secret
	refSecrets(depth, k.seed, 0, &secrets)
	leafSeed := map[uint64][]byte{}
	for _, s := range secrets {
		if s.leaf {
			leafSeed[s.lo] = s.seed
		}
	}

	// selected periods
	sel := map[uint64]bool{}
	if depth <= 4 {
		for t := uint64(0); t < k.nper; t++ {
			sel[t] = true
		}
	} else {
		half := k.nper / 2
		for _, t := range []uint64{0, 1, half - 1, half, k.nper - 2, k.nper - 1} {
			sel[t] = true
		}
		for j := 0; j < 4; j++ {
			sel[uint64(r.Intn(int(k.nper)))] = true
		}
	}
	var selList []uint64
	for t := uint64(0); t < k.nper; t++ {
		if sel[t] {
			selList = append(selList, t)
		}
	}
	fullFlipAt := selList[r.Intn(len(selList))]
	refOK := true

	for t := uint64(0); t < k.nper; t++ {
		// ---- PublicKey invariant under Update
		c.Eval()
		c.Count("pk_invariant_checks", 1)
		if got := kes.PublicKey(sk); !bytes.Equal(got, k.pk) {
			c.Violation("C39:PublicKey:changed-by-Update:"+dkey(depth), fmt.Sprintf("depth %d: PublicKey after %d updates = %x, KeyGen returned %x", depth, t, got, k.pk), k.wit(map[string]any{"updates": t}))
			return
		}
		// ---- key material of earlier periods must be gone
		if refOK && len(sk.Data) > 0 {
			c.Eval()
			c.Count("material_scans", 1)
			c.Distinct(depth, k.kh, t, "scan")
			for _, s := range secrets {
				if s.lo < t && bytes.Contains(sk.Data, s.seed) {
					kind := "subtree-seed"
					if s.leaf {
						kind = "leaf-seed"
					}
					c.Violation("C39:Update:retains-earlier-"+kind, fmt.Sprintf("depth %d: key evolved %d times still contains the %s for periods [%d,%d]: it can sign for period %d", depth, t, kind, s.lo, s.hi, s.lo),
						k.wit(map[string]any{"updates": t, "secret_periods": []uint64{s.lo, s.hi}, "key_data": core.HexFull(sk.Data)}))
					break
				}
			}
		}
		if sel[t] {
			if !atPeriod(k, sk, t, r, t == fullFlipAt, leafSeed, &refOK) {
				return
			}
		}
		// ---- evolve
		var next *kes.SecretKey
		p, pv, st := core.Safely(func() { next, err = kes.Update(sk) })
		c.Eval()
		if p {
			c.Violation("C39:Update:panic", fmt.Sprintf("Update panicked at period %d depth %d: %v", t, depth, pv), k.wit(map[string]any{"updates": t, "stack": st}))
			return
		}
		if t == k.nper-1 {
			c.Count("update_at_last_period", 1)
			if err == nil && next != nil {
				c.Count("update_past_last_period_succeeded", 1)
				// a key evolved 2^depth times must not sign for any period < 2^depth
				if !earlier(k, next, k.nper, r) {
					return
				}
			}
			break
		}
		if err != nil || next == nil {
			c.Violation("C39:Update:failed-before-last-period", fmt.Sprintf("depth %d: Update at period %d failed: %v", depth, t, err), k.wit(map[string]any{"updates": t}))
			return
		}
		sk = next
	}
}

// atPeriod checks everything about the signature made at period t.
func atPeriod(k *kcase, sk *kes.SecretKey, t uint64, r *core.Rand, fullFlips bool, leafSeed map[uint64][]byte, refOK *bool) bool {
	c := k.c
	depth := k.depth
	var sig []byte
	var err error
	p, pv, st := core.Safely(func() { sig, err = kes.Sign(sk, t, k.msg) })
	c.Eval()
	if p || err != nil {
		c.Violation("C39:Sign:current-period-failed", fmt.Sprintf("depth %d: Sign at the key's own period %d failed: err=%v panic=%v", depth, t, err, pv), k.wit(map[string]any{"updates": t, "stack": st}))
		return false
	}
	if len(sig) != 64+64*int(depth) {
		c.Violation("C39:Sign:size", fmt.Sprintf("depth %d: signature has %d bytes, want %d", depth, len(sig), 64+64*int(depth)), k.wit(map[string]any{"updates": t}))
		return false
	}
	if c.SampleN() < 6 && t == 1 {
		c.Sample(map[string]any{"depth": depth, "key_seed": core.HexFull(k.seed), "period": t, "msg_len": len(k.msg), "sig": core.Hex(sig)})
	}
	// reference derivation self-check: the leaf key of period t made sigma[0:64]
	if *refOK {
		leafPk := ed25519.NewKeyFromSeed(leafSeed[t]).Public().(ed25519.PublicKey)
		if !ed25519.Verify(leafPk, k.msg, sig[:64]) {
			*refOK = false
			c.Count("reference_derivation_mismatch", 1)
			c.Inconclusive(fmt.Sprintf("depth %d period %d: reference seed derivation does not reproduce the library's leaf key; key-material scan skipped for this key", depth, t))
		}
	}
	dk := func(kind string, pos any) { c.Distinct(depth, k.kh, t, kind, pos) }

	// ---- periods
	var periods []uint64
	if depth <= 4 {
		for q := uint64(0); q < k.nper; q++ {
			periods = append(periods, q)
		}
	} else {
		seen := map[uint64]bool{}
		add := func(q uint64) {
			if q < k.nper && !seen[q] {
				seen[q] = true
				periods = append(periods, q)
			}
		}
		add(t)
		add(t + 1)
		if t > 0 {
			add(t - 1)
		}
		add(0)
		add(k.nper - 1)
		for b := uint64(0); b < depth; b++ {
			add(t ^ (1 << b))
		}
		for j := 0; j < 3; j++ {
			add(uint64(r.Intn(int(k.nper))))
		}
	}
	for _, q := range periods {
		dk("period", q)
		if q == t {
			if !k.expect(true, "same-period", "C39:Verify:genuine-rejected:"+dkey(depth), t, sig, q, k.pk, k.msg, nil) {
				return false
			}
		} else {
			k.expect(false, "other-period", "C39:Verify:other-period-accepted:"+dkey(depth), t, sig, q, k.pk, k.msg, nil)
		}
	}
	for _, q := range []uint64{k.nper, k.nper + t, 2*k.nper + t, k.nper * k.nper, 1 << 32, 1<<32 + t, 1 << 63, 1<<63 + t, ^uint64(0), ^uint64(0) - k.nper + 1 + t} {
		dk("period-oob", q)
		k.expect(false, "period-out-of-range", "C39:Verify:period-out-of-range-accepted:"+dkey(depth), t, sig, q, k.pk, k.msg, nil)
	}
	// ---- messages
	var msgs [][]byte
	if len(k.msg) > 0 {
		nb := 8 * len(k.msg)
		for _, b := range []int{0, nb - 1, r.Intn(nb), r.Intn(nb)} {
			msgs = append(msgs, flip(k.msg, b))
		}
		msgs = append(msgs, k.msg[:len(k.msg)-1], k.msg[1:], []byte{})
	}
	msgs = append(msgs, append(append([]byte(nil), k.msg...), 0), append([]byte{0}, k.msg...), r.Bytes(r.Range(1, 100)))
	for j, m := range msgs {
		if bytes.Equal(m, k.msg) {
			continue
		}
		dk("msg", j)
		k.expect(false, "other-message", "C39:Verify:other-message-accepted", t, sig, t, k.pk, m, nil)
	}
	// ---- public keys
	for j, opk := range k.others {
		dk("foreignpk", j)
		k.expect(false, "foreign-pk", "C39:Verify:other-pk-accepted", t, sig, t, opk, k.msg, nil)
	}
	var pkbits []int
	if fullFlips {
		for b := 0; b < 256; b++ {
			pkbits = append(pkbits, b)
		}
	} else {
		pkbits = []int{0, 255, r.Intn(256), r.Intn(256)}
	}
	for _, b := range pkbits {
		dk("pkbit", b)
		k.expect(false, "pk-bitflip", "C39:Verify:other-pk-accepted", t, sig, t, flip(k.pk, b), k.msg, map[string]any{"flipped_pk_bit": b})
	}
	for _, bad := range [][]byte{k.pk[:31], append(append([]byte(nil), k.pk...), 0), {}, nil} {
		dk("pklen", len(bad))
		k.expect(false, "pk-length", "C39:Verify:other-pk-accepted", t, sig, t, bad, k.msg, nil)
	}
	// ---- signature bit flips
	nbits := 8 * len(sig)
	var sbits []int
	if fullFlips {
		for b := 0; b < nbits; b++ {
			sbits = append(sbits, b)
		}
		c.Count("full_sig_flip_sets", 1)
	} else {
		sbits = append(sbits, 0, 255, 256, 511, nbits-1)
		for j := 0; j < 27; j++ {
			sbits = append(sbits, r.Intn(nbits))
		}
	}
	for _, b := range sbits {
		part := "ed25519-sig"
		if b >= 512 {
			part = "vk-path"
		}
		dk("sigbit", b)
		k.expect(false, "sig-bitflip-"+part, "C39:Verify:sig-bitflip-accepted:"+part, t, flip(sig, b), t, k.pk, k.msg, map[string]any{"flipped_sig_bit": b})
	}
	for _, bad := range [][]byte{sig[:len(sig)-1], append(append([]byte(nil), sig...), 0), sig[:64], {}} {
		dk("siglen", len(bad))
		k.expect(false, "sig-length", "C39:Verify:sig-length-accepted", t, bad, t, k.pk, k.msg, nil)
	}
	// ---- depth 6: the Cardano entry points
	if depth == kes.CardanoKesDepth {
		for _, q := range periods {
			var ok bool
			p, pv, _ := core.Safely(func() { ok = kes.VerifySignedKES(k.pk, q, k.msg, sig) })
			c.Eval()
			c.Count("v_VerifySignedKES", 1)
			dk("vsk", q)
			if p || ok != (q == t) {
				c.Violation("C39:VerifySignedKES:period-binding", fmt.Sprintf("VerifySignedKES(period=%d) = %v (panic=%v) for a signature made at period %d", q, ok, pv, t), k.wit(map[string]any{"signed_period": t, "verify_period": q, "sig": core.HexFull(sig)}))
			}
		}
		spkp := uint64(r.Range(1, 200000))
		start := uint64(r.Range(0, 1000))
		type sl struct {
			slot uint64
			want bool
			name string
		}
		slots := []sl{
			{(start + t) * spkp, true, "first-slot-of-period"},
			{(start+t+1)*spkp - 1, true, "last-slot-of-period"},
			{(start+t)*spkp + uint64(r.Intn(int(spkp))), true, "inside-period"},
			{(start + t + 1) * spkp, false, "first-slot-of-next-period"},
		}
		if start+t > 0 {
			slots = append(slots, sl{(start+t)*spkp - 1, false, "last-slot-of-previous-period"})
		}
		if start > 0 {
			slots = append(slots, sl{start*spkp - 1, false, "before-certificate-start"}, sl{0, false, "slot-0-before-start"})
		}
		for _, q := range periods {
			if q != t {
				slots = append(slots, sl{(start+q)*spkp + uint64(r.Intn(int(spkp))), false, "other-period"})
			}
		}
		for _, s := range slots {
			var ok bool
			var err error
			p, pv, _ := core.Safely(func() { ok, err = ledger.VerifyKesComponents(k.msg, sig, k.pk, start, s.slot, spkp) })
			c.Eval()
			c.Count("v_VerifyKesComponents", 1)
			dk("vkc", s.name)
			got := ok && err == nil
			if got {
				c.Count("accepts", 1)
			} else {
				c.Count("rejects", 1)
			}
			if p || got != s.want {
				c.Violation("C39:VerifyKesComponents:"+s.name, fmt.Sprintf("VerifyKesComponents(start=%d, slot=%d, slotsPerKesPeriod=%d) = %v err=%v panic=%v for a signature made at evolution %d; want %v", start, s.slot, spkp, ok, err, pv, t, s.want),
					k.wit(map[string]any{"signed_period": t, "start": start, "slot": s.slot, "slots_per_kes_period": spkp, "sig": core.HexFull(sig)}))
			}
		}
	}
	// ---- the same tamper classes right after a genuine verification, fresh copy and in place
	k.afterGenuine(sig, t, r, fullFlips)
	// ---- the evolved key cannot sign for an earlier period
	return earlier(k, sk, t, r)
}

// earlier: sk has been evolved t times; no way of calling Sign with it may
// yield a signature that verifies at a period < t.
func earlier(k *kcase, sk *kes.SecretKey, t uint64, r *core.Rand) bool {
	c := k.c
	if t == 0 {
		return true
	}
	var targets []uint64
	if k.depth <= 4 {
		for q := uint64(0); q < t; q++ {
			targets = append(targets, q)
		}
	} else {
		seen := map[uint64]bool{}
		for _, q := range []uint64{0, t - 1, t / 2, uint64(r.Intn(int(t)))} {
			if !seen[q] {
				seen[q] = true
				targets = append(targets, q)
			}
		}
	}
	savedPeriod := sk.Period
	defer func() { sk.Period = savedPeriod }()
	for _, q := range targets {
		for variant := 0; variant < 2; variant++ {
			name := "direct"
			use := sk
			if variant == 1 {
				// the exported Period field rewritten by whoever holds the evolved key
				name = "period-field-rewritten"
				cp := *sk
				cp.Period = q
				use = &cp
			}
			var sig []byte
			var err error
			p, pv, st := core.Safely(func() { sig, err = kes.Sign(use, q, k.msg) })
			c.Eval()
			c.Count("earlier_sign_attempts", 1)
			c.Distinct(k.depth, k.kh, t, "earlier", q, variant)
			if p {
				c.Violation("C39:Sign:panic:earlier-period", fmt.Sprintf("Sign panicked: %v", pv), k.wit(map[string]any{"updates": t, "period": q, "variant": name, "stack": st}))
				return false
			}
			if err != nil || sig == nil {
				c.Count("earlier_sign_refused", 1)
				continue
			}
			c.Count("earlier_sign_returned_signature", 1)
			for v := uint64(0); v < t && v < k.nper; v++ {
				ok, pp, _ := k.verify(sig, v, k.pk, k.msg)
				if pp {
					continue
				}
				if ok {
					c.Violation("C39:Sign:evolved-key-signs-earlier-period:"+name, fmt.Sprintf("depth %d: key evolved %d times: Sign(period=%d) returned a signature that verifies at period %d", k.depth, t, q, v),
						k.wit(map[string]any{"updates": t, "sign_period": q, "verifies_at": v, "variant": name, "sig": core.HexFull(sig)}))
					return false
				}
				c.Count("rejects", 1)
			}
		}
	}
	return true
}
