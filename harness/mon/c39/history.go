package c39

// History / buffer-discipline checks. Every tamper class is also presented
// right after a successful verification of the genuine signature in the same
// process (any memo of verified signatures is primed), through every entry
// point - NewSumKesFromBytes(depth).Verify for all depths, and for depth 6
// kes.VerifySignedKES and ledger.VerifyKesComponents - in two buffer
// disciplines: a fresh copy of the tampered bytes, and the SAME backing arrays
// the genuine call used, mutated in place and restored. The verdict must be
// "reject" each time, the genuine statement must keep verifying in between,
// verification must not modify its arguments, and overwriting the argument
// buffers afterwards must not change later results.

import (
	"bytes"
	"fmt"

	"github.com/blinklabs-io/gouroboros/kes"
	"github.com/blinklabs-io/gouroboros/ledger"

	"verifharness/core"
)

type kentry struct {
	name string
	call func(pk []byte, period uint64, msg, sig []byte) bool
}

func (k *kcase) entries(r *core.Rand, t uint64) []kentry {
	es := []kentry{{"Verify", func(pk []byte, period uint64, msg, sig []byte) bool {
		s, err := kes.NewSumKesFromBytes(k.depth, sig)
		if err != nil {
			return false
		}
		return s.Verify(period, pk, msg)
	}}}
	if k.depth == kes.CardanoKesDepth {
		es = append(es, kentry{"VerifySignedKES", func(pk []byte, period uint64, msg, sig []byte) bool {
			return kes.VerifySignedKES(pk, period, msg, sig)
		}})
		spkp := uint64(r.Range(1, 100000))
		start := uint64(r.Range(0, 1000))
		off := uint64(r.Intn(int(spkp)))
		es = append(es, kentry{"VerifyKesComponents", func(pk []byte, period uint64, msg, sig []byte) bool {
			ok, err := ledger.VerifyKesComponents(msg, sig, pk, start, (start+period)*spkp+off, spkp)
			return ok && err == nil
		}})
	}
	return es
}

// afterGenuine runs the histories for the signature sig made at period t.
func (k *kcase) afterGenuine(sig []byte, t uint64, r *core.Rand, full bool) {
	c := k.c
	for _, e := range k.entries(r, t) {
		pkB, msgB, sigB := append([]byte{}, k.pk...), append([]byte{}, k.msg...), append([]byte{}, sig...)
		restore := func() { copy(pkB, k.pk); copy(msgB, k.msg); copy(sigB, sig) }
		call := func(pk []byte, period uint64, msg, s []byte) (ok, panicked bool) {
			p, _, _ := core.Safely(func() { ok = e.call(pk, period, msg, s) })
			c.Eval()
			return ok, p
		}
		wit := func(extra map[string]any) map[string]any {
			return k.wit(merge(extra, map[string]any{"signed_period": t, "sig": core.HexFull(sig), "entry_point": e.name}))
		}
		genuine := func(where string) bool {
			restore()
			ok, p := call(pkB, t, msgB, sigB)
			c.Count("history_genuine", 1)
			if !bytes.Equal(pkB, k.pk) || !bytes.Equal(msgB, k.msg) || !bytes.Equal(sigB, sig) {
				c.Violation("C39:"+e.name+":mutates-argument", "verification modified one of its argument buffers", wit(map[string]any{"after": where}))
				restore()
			}
			if !ok || p {
				c.Violation("C39:"+e.name+":history:genuine-rejected:"+dkey(k.depth), fmt.Sprintf("the genuine signature stopped verifying %s (panic=%v)", where, p), wit(map[string]any{"after": where}))
				return false
			}
			c.Count("accepts", 1)
			return true
		}
		reject := func(kind, discipline string, pk []byte, period uint64, msg, s []byte, extra map[string]any) {
			ok, p := call(pk, period, msg, s)
			c.Count("history_"+discipline, 1)
			c.Distinct(k.depth, k.kh, t, "history", e.name, kind, discipline, fmt.Sprint(extra))
			if p {
				c.Violation("C39:"+e.name+":panic:after-genuine:"+kind, "panic", wit(extra))
				return
			}
			if ok {
				c.Violation("C39:"+e.name+":after-genuine:"+discipline+":"+kind,
					fmt.Sprintf("depth %d: %s accepted a tampered input (%s, %s) presented right after the genuine signature had verified", k.depth, e.name, kind, discipline),
					wit(merge(extra, map[string]any{"used_pk": core.HexFull(pk), "used_msg": core.HexFull(msg), "used_sig": core.HexFull(s), "verify_period": period, "discipline": discipline})))
				return
			}
			c.Count("rejects", 1)
		}
		if !genuine("at the start of the history") {
			continue
		}
		// ---- signature bits
		nbits := 8 * len(sig)
		var bits []int
		if full && e.name != "Verify" {
			for b := 0; b < nbits; b++ {
				bits = append(bits, b)
			}
		} else {
			bits = append(bits, 0, 511, nbits-1)
			if nbits > 512 {
				bits = append(bits, 512, 512+r.Intn(nbits-512), 512+r.Intn(nbits-512), 512+r.Intn(nbits-512))
			}
			for j := 0; j < 24; j++ {
				bits = append(bits, r.Intn(nbits))
			}
		}
		for n, b := range bits {
			part := "ed25519-sig"
			if b >= 512 {
				part = "vk-path"
			}
			sigB[b/8] ^= 1 << (b % 8) // the array the genuine call used
			reject("sig-bitflip-"+part, "in-place", pkB, t, msgB, sigB, map[string]any{"flipped_sig_bit": b})
			sigB[b/8] ^= 1 << (b % 8)
			if n%16 == 15 || n < 4 {
				if !genuine("after an in-place signature flip was restored") {
					break
				}
				reject("sig-bitflip-"+part, "fresh-copy", pkB, t, msgB, flip(sig, b), map[string]any{"flipped_sig_bit": b})
			}
		}
		// the whole verification-key path replaced (bytes 64..) in place
		if len(sig) > 64 {
			copy(sigB[64:], r.Bytes(len(sig)-64))
			reject("sig-path-replaced", "in-place", pkB, t, msgB, sigB, nil)
			restore()
		}
		// ---- public key, message, period
		if !genuine("before the key / message flips") {
			continue
		}
		for j := 0; j < 10; j++ {
			b := r.Intn(256)
			pkB[b/8] ^= 1 << (b % 8)
			reject("pk-bitflip", "in-place", pkB, t, msgB, sigB, map[string]any{"flipped_pk_bit": b})
			pkB[b/8] ^= 1 << (b % 8)
		}
		for j, opk := range k.others {
			copy(pkB, opk)
			reject("foreign-pk", "in-place", pkB, t, msgB, sigB, map[string]any{"other": j})
			restore()
		}
		if len(k.msg) > 0 {
			if !genuine("before the message flips") {
				continue
			}
			for j := 0; j < 6; j++ {
				b := r.Intn(8 * len(k.msg))
				msgB[b/8] ^= 1 << (b % 8)
				reject("other-message", "in-place", pkB, t, msgB, sigB, map[string]any{"flipped_msg_bit": b})
				msgB[b/8] ^= 1 << (b % 8)
			}
			reject("other-message", "in-place", pkB, t, msgB[:len(msgB)-1], sigB, nil)
			reject("other-message", "fresh-copy", pkB, t, flip(k.msg, r.Intn(8*len(k.msg))), sigB, nil)
		}
		if genuine("before the period changes") {
			for _, q := range []uint64{t + 1, t ^ 1, (t + k.nper/2) % k.nper, k.nper + t} {
				if q != t {
					reject("other-period", "same-buffers", pkB, q, msgB, sigB, nil)
				}
			}
		}
		// ---- retention: overwrite every buffer the library has seen
		if !genuine("before the buffers are overwritten") {
			continue
		}
		copy(pkB, r.Bytes(32))
		copy(msgB, r.Bytes(len(msgB)))
		copy(sigB, r.Bytes(len(sigB)))
		reject("overwritten-buffers", "in-place", pkB, t, msgB, sigB, nil)
		if ok, p := call(append([]byte{}, k.pk...), t, append([]byte{}, k.msg...), append([]byte{}, sig...)); !ok || p {
			c.Violation("C39:"+e.name+":history:genuine-rejected:"+dkey(k.depth), "after the earlier argument buffers were overwritten the genuine signature (fresh copies) no longer verifies", wit(map[string]any{"after": "buffers overwritten"}))
		} else {
			c.Count("accepts", 1)
		}
	}
}
