// Package c28 monitors C28: spending requires a valid signature from the owner.
//
// Observation points: the signature-related rules of the era's rule list –
// UtxoValidateSignatures, UtxoValidateCollateralVKeyWitnesses (Alonzo+) and
// UtxoValidateRequiredVKeyWitnesses – each alone, their conjunction
// ("signature validation"), and the era's complete rule list, on decoded
// transactions written by ledgergen against an explicit UTxO set.
//
// The generator owns every key. A case is a scenario (which inputs,
// collateral inputs and required signers, each with its owner: a key behind an
// enterprise / base / pointer address, a native script, or a Byron address) and
// a witness-set manipulation applied to the complete witness set (drop the
// witness of one owner while keeping an unrelated valid one, replace it by a
// valid witness of another key, flip a signature bit, sign another
// transaction's id, duplicate a witness, for bootstrap witnesses also a wrong
// chain code / wrong attributes).
//
// Oracle, written from the statement and evaluated on the witness set exactly
// as the generator wrote it (crypto/ed25519, own Byron address-root
// computation):
//
//	P1  every vkey and bootstrap witness signature verifies over the tx id
//	    (Blake2b-256 of the body bytes)
//	P2  every key-locked input's payment key hash is the hash of a witness
//	    vkey; every Byron input's address root is derived by a bootstrap
//	    witness: Blake2b-224(SHA3-256(cbor [0, [0, pub ‖ chain code], attrs]))
//	P3  the same for every collateral input
//	P4  every required signer hash is the hash of a witness vkey
//
//	UtxoValidateSignatures accepts                => P1 and P2
//	UtxoValidateCollateralVKeyWitnesses accepts   => P3
//	UtxoValidateRequiredVKeyWitnesses accepts     => P4
//	all signature rules of the list accept        => P1..P4   (and so does the full list)
package c28

import (
	"crypto/ed25519"
	"crypto/sha3"
	"fmt"
	"hash/crc32"
	"sort"
	"strings"
	"sync"

	"github.com/blinklabs-io/gouroboros/ledger/common"

	"verifharness/cborx"
	"verifharness/core"
	lg "verifharness/ledgergen"
)

func init() {
	core.Register(&core.Monitor{
		ID:            "C28",
		Rule:          "era (Shelley..Dijkstra) x scenario (14 fixed + PRNG (quick 200, thorough 3000 per era): 1-3 inputs owned by keys behind enterprise / base / pointer addresses, a native script or Byron addresses with empty / network-magic attributes; Alonzo+: 0-2 collateral inputs and 0-2 required signers) x witness manipulation (complete; per owner / collateral owner / required signer: dropped with an unrelated valid witness kept, replaced by another key's valid witness, signature bit flipped, witness replayed from a previously accepted transaction (same / other era), duplicated, duplicated with a corrupted copy; unrelated witness corrupted; bootstrap: dropped, other key, wrong chain code, wrong attributes, bit flipped, other tx id); x presentation (body / witness-set map key order ascending, descending, shuffled, e.g. bootstrap before vkey witnesses; witness arrays reversed: all six for the fixed scenarios, PRNG otherwise); every reject case is validated right after its accepted sibling / donor, every rule call is repeated on the same objects (lg.Checked); a case is non-trivial when the transaction decodes; distinct by transaction id + witness bytes",
		MinNontrivial: 5000,
		Assumptions: []string{
			"crypto/ed25519, crypto/sha3 and golang.org/x/crypto/blake2b are correct",
			"Byron owners use a plain ed25519 key as the 32-byte public key of the extended key plus an arbitrary 32-byte chain code (signatures of extended keys verify with plain ed25519)",
			"withdrawal accounts, certificates and votes also need witnesses in the ledger; the statement does not mention them and they are not generated",
		},
		Run: run,
	})
}

// ---------------------------------------------------------------- owners

type ownerKind int

const (
	oEnterprise ownerKind = iota
	oBase
	oPointer
	oScript
	oByron
	oByronMagic
)

var ownerKindName = [...]string{"enterprise-key", "base-key", "pointer-key", "native-script", "byron", "byron-with-attributes"}

type owner struct {
	kind ownerKind
	key  lg.Key // payment key (Byron: the 32-byte public key of the extended key)
	cc   []byte // Byron chain code
	name string
}

func newOwner(kind ownerKind, name string) owner {
	o := owner{kind: kind, key: lg.NewKey("c28-" + name), name: name}
	if kind == oByron || kind == oByronMagic {
		h := lg.Blake256([]byte("c28-chaincode-" + name))
		o.cc = h[:]
	}
	return o
}

// byronAttrs returns the attributes map of the owner's Byron address.
func (o owner) byronAttrs() *cborx.Node {
	if o.kind == oByronMagic {
		return cborx.M(cborx.U(2), cborx.B(cborx.U(1097911063).Encode()))
	}
	return cborx.M()
}

// byronRoot is the reference derivation of a Byron address root.
func byronRoot(pub, cc []byte, attrs []byte) lg.Hash28 {
	xpub := append(append([]byte(nil), pub...), cc...)
	pre := cborx.A(cborx.U(0), cborx.A(cborx.U(0), cborx.B(xpub)), cborx.Raw(attrs)).Encode()
	s := sha3.Sum256(pre)
	return lg.Blake224(s[:])
}

var alwaysScript = lg.NativeAll()

func (o owner) address() []byte {
	h := o.key.Hash()
	stake := lg.NewKey("c28-stake-" + o.name).Hash()
	switch o.kind {
	case oEnterprise:
		return lg.EnterpriseKeyAddr(lg.Mainnet, h)
	case oBase:
		return lg.BaseKeyKeyAddr(lg.Mainnet, h, stake)
	case oPointer:
		return append(append([]byte{0x40 | lg.Mainnet}, h[:]...), 0x81, 0x00, 0x02, 0x03) // slot 128, tx 2, cert 3
	case oScript:
		return lg.EnterpriseScriptAddr(lg.Mainnet, lg.ScriptHash(0, alwaysScript.Encode()))
	}
	attrs := o.byronAttrs()
	root := byronRoot(o.key.Pub, o.cc, attrs.Encode())
	payload := cborx.A(cborx.B(root[:]), attrs, cborx.U(0)).Encode()
	return cborx.A(cborx.T(24, cborx.B(payload)), cborx.U(uint64(crc32.ChecksumIEEE(payload)))).Encode()
}

func (o owner) isByron() bool { return o.kind == oByron || o.kind == oByronMagic }
func (o owner) isKey() bool   { return o.kind <= oPointer }

// ---------------------------------------------------------------- witnesses

type vkeyWit struct {
	pub, sig []byte
	note     string
}

type bootWit struct {
	pub, sig, cc, attrs []byte
	note                string
}

func (w vkeyWit) node() *cborx.Node { return cborx.A(cborx.B(w.pub), cborx.B(w.sig)) }
func (w bootWit) node() *cborx.Node {
	return cborx.A(cborx.B(w.pub), cborx.B(w.sig), cborx.B(w.cc), cborx.B(w.attrs))
}

func flipBit(b []byte, bit int) []byte {
	c := append([]byte(nil), b...)
	c[(bit/8)%len(c)] ^= 1 << uint(bit%8)
	return c
}

// ---------------------------------------------------------------- scenario

type scenario struct {
	name       string
	inputs     []owner
	collateral []owner
	required   []owner // required signers (key owners)
}

// target names one witness obligation of a scenario.
type target struct {
	role string // "input" | "collateral" | "required"
	o    owner
}

func (s scenario) targets() []target {
	var out []target
	seen := map[string]bool{}
	add := func(role string, o owner) {
		if o.kind == oScript || seen[role+o.name] {
			return
		}
		seen[role+o.name] = true
		out = append(out, target{role, o})
	}
	for _, o := range s.inputs {
		add("input", o)
	}
	for _, o := range s.collateral {
		add("collateral", o)
	}
	for _, o := range s.required {
		add("required", o)
	}
	return out
}

type manip struct {
	name   string
	byron  bool // applies to Byron targets (bootstrap witness)
	shared bool // does not need a target
}

var manips = []manip{
	{name: "complete", shared: true},
	{name: "unrelated-witness-corrupted", shared: true},
	{name: "dropped"},
	{name: "other-key"},
	{name: "bit-flipped"},
	{name: "other-tx-id"},
	{name: "duplicated"},
	{name: "duplicated-corrupted-copy"},
	{name: "dropped", byron: true},
	{name: "other-key", byron: true},
	{name: "wrong-chain-code", byron: true},
	{name: "wrong-attributes", byron: true},
	{name: "bit-flipped", byron: true},
	{name: "other-tx-id", byron: true},
}

type tcase struct {
	era   lg.Era
	sc    scenario
	m     manip
	tgt   *target
	bit   int
	index int
	// fee / inLabel vary the body and the spent UTxO (donor transactions)
	fee     uint64
	inLabel string
	// donorEra: era of the previously validated transaction a replayed
	// witness ("other-tx-id") is taken from; nil = the case's own era
	donorEra *lg.Era
	// pres: presentation of the same transaction (the ledger prescribes no
	// map key order and no witness order); see presName
	pres int
}

var presName = [...]string{"canonical", "witness-map-descending", "witness-map-shuffled", "body-and-witness-map-descending", "witness-arrays-reversed", "body-shuffled-witness-map-descending-arrays-reversed"}

func (t tcase) orders() (body, wits lg.KeyOrder, reverse bool) {
	switch t.pres {
	case 1:
		return lg.Ascending(), lg.Descending(), false
	case 2:
		return lg.Ascending(), lg.Shuffled(uint64(t.bit) + 7), false
	case 3:
		return lg.Descending(), lg.Descending(), false
	case 4:
		return lg.Ascending(), lg.Ascending(), true
	case 5:
		return lg.Shuffled(uint64(t.bit) + 11), lg.Descending(), true
	}
	return lg.Ascending(), lg.Ascending(), false
}

func (t tcase) String() string {
	s := fmt.Sprintf("era=%s scenario=%s manipulation=%s", t.era, t.sc.name, t.m.name)
	if t.tgt != nil {
		s += fmt.Sprintf(" target=%s:%s(%s)", t.tgt.role, t.tgt.o.name, ownerKindName[t.tgt.o.kind])
	}
	if t.pres != 0 {
		s += " presentation=" + presName[t.pres]
	}
	if t.m.name == "other-tx-id" {
		de := t.era
		if t.donorEra != nil {
			de = *t.donorEra
		}
		s += " witness_replayed_from_accepted_" + de.String() + "_tx"
	}
	return s
}

// ---------------------------------------------------------------- building

type built struct {
	spec  *lg.TxSpec
	state *lg.State
	tx    *lg.Built
	vkeys []vkeyWit
	boots []bootWit
	txid  lg.Hash32
}

const utxoCoin = 10_000_000

// donorCase is the transaction a replayed witness comes from: a complete,
// properly signed payment (other fee, another UTxO of the same owner) that is
// validated - and accepted - earlier in the same process.
func donorCase(t tcase) tcase {
	e := t.era
	if t.donorEra != nil {
		e = *t.donorEra
	}
	return tcase{era: e, sc: scenario{name: "donor", inputs: []owner{t.tgt.o}}, m: manips[0], fee: 500_000, inLabel: "donor"}
}

// build writes the transaction of a case. otherID is the id the
// "other-tx-id" manipulations sign (the id of the donor transaction).
func build(t tcase, otherID *lg.Hash32) (*built, error) {
	e := t.era
	w := lg.NewWorld(e)
	st := w.State
	spec := &lg.TxSpec{Era: e, Fee: 400_000}
	bodyOrder, witOrder, reverse := t.orders()
	spec.BodyOrder, spec.WitnessOrder = bodyOrder, witOrder
	if t.fee != 0 {
		spec.Fee = t.fee
	}
	inLabel := "in"
	if t.inLabel != "" {
		inLabel = t.inLabel
	}
	if e == lg.Shelley {
		spec.TTL = lg.U64(1 << 40) // mandatory in Shelley; far in the future
	}
	total := uint64(0)
	addUtxo := func(label string, o owner) (lg.Input, error) {
		in := lg.In(fmt.Sprintf("c28-%s-%s", label, o.name), 0)
		if _, ok := st.Utxos[in.String()]; ok {
			return in, nil
		}
		return in, st.AddUtxo(e, in, lg.Output{Addr: o.address(), Coin: utxoCoin, MapForm: e >= lg.Babbage})
	}
	seenIn := map[string]bool{}
	for _, o := range t.sc.inputs {
		in, err := addUtxo(inLabel, o)
		if err != nil {
			return nil, err
		}
		if seenIn[in.String()] {
			continue
		}
		seenIn[in.String()] = true
		spec.Inputs = append(spec.Inputs, in)
		total += utxoCoin
	}
	for _, o := range t.sc.collateral {
		in, err := addUtxo("coll", o)
		if err != nil {
			return nil, err
		}
		spec.Collateral = append(spec.Collateral, in)
	}
	for _, o := range t.sc.required {
		spec.RequiredSigners = append(spec.RequiredSigners, o.key.Hash())
	}
	spec.Outputs = []lg.Output{w.PayerOutput(total - spec.Fee)}
	needScript := false
	for _, o := range t.sc.inputs {
		if o.kind == oScript {
			needScript = true
		}
	}
	if needScript {
		spec.NativeScripts = []*cborx.Node{alwaysScript}
	}
	body := spec.BodyNode().Encode()
	txid := lg.Blake256(body)
	other := lg.Blake256(append([]byte("another transaction"), body...))
	if otherID != nil {
		other = *otherID
	}

	b := &built{spec: spec, state: st, txid: txid}
	// complete witness set: one witness per distinct obligation + one unrelated
	haveV := map[string]bool{}
	haveB := map[string]bool{}
	for _, tg := range t.sc.targets() {
		o := tg.o
		if o.isByron() {
			if !haveB[o.name] {
				haveB[o.name] = true
				b.boots = append(b.boots, bootWit{o.key.Pub, o.key.Sign(txid[:]), o.cc, o.byronAttrs().Encode(), o.name})
			}
			continue
		}
		if !haveV[o.name] {
			haveV[o.name] = true
			b.vkeys = append(b.vkeys, vkeyWit{o.key.Pub, o.key.Sign(txid[:]), o.name})
		}
	}
	unrelated := lg.NewKey("c28-unrelated")
	b.vkeys = append(b.vkeys, vkeyWit{unrelated.Pub, unrelated.Sign(txid[:]), "unrelated"})
	stranger := lg.NewKey("c28-stranger")

	findV := func(name string) int {
		for i, v := range b.vkeys {
			if v.note == name {
				return i
			}
		}
		return -1
	}
	findB := func(name string) int {
		for i, v := range b.boots {
			if v.note == name {
				return i
			}
		}
		return -1
	}
	switch {
	case t.m.name == "complete":
	case t.m.name == "unrelated-witness-corrupted":
		i := findV("unrelated")
		b.vkeys[i].sig = flipBit(b.vkeys[i].sig, t.bit)
	case t.m.byron:
		i := findB(t.tgt.o.name)
		switch t.m.name {
		case "dropped":
			b.boots = append(b.boots[:i], b.boots[i+1:]...)
		case "other-key":
			b.boots[i].pub, b.boots[i].sig = stranger.Pub, stranger.Sign(txid[:])
		case "wrong-chain-code":
			b.boots[i].cc = flipBit(b.boots[i].cc, t.bit)
		case "wrong-attributes":
			if t.tgt.o.kind == oByronMagic {
				b.boots[i].attrs = cborx.M().Encode()
			} else {
				b.boots[i].attrs = cborx.M(cborx.U(2), cborx.B(cborx.U(42).Encode())).Encode()
			}
		case "bit-flipped":
			b.boots[i].sig = flipBit(b.boots[i].sig, t.bit)
		case "other-tx-id":
			b.boots[i].sig = t.tgt.o.key.Sign(other[:])
		}
	default:
		i := findV(t.tgt.o.name)
		switch t.m.name {
		case "dropped":
			b.vkeys = append(b.vkeys[:i], b.vkeys[i+1:]...)
		case "other-key":
			b.vkeys[i] = vkeyWit{stranger.Pub, stranger.Sign(txid[:]), "stranger"}
		case "bit-flipped":
			b.vkeys[i].sig = flipBit(b.vkeys[i].sig, t.bit)
		case "other-tx-id":
			b.vkeys[i].sig = t.tgt.o.key.Sign(other[:])
		case "duplicated":
			b.vkeys = append(b.vkeys, b.vkeys[i])
		case "duplicated-corrupted-copy":
			c := b.vkeys[i]
			c.sig = flipBit(c.sig, t.bit)
			if t.bit%2 == 0 {
				b.vkeys = append(b.vkeys, c)
			} else { // corrupted copy first
				b.vkeys = append([]vkeyWit{c}, b.vkeys...)
			}
		}
	}
	for _, v := range b.vkeys {
		spec.ExtraVkeyWitnesses = append(spec.ExtraVkeyWitnesses, v.node())
	}
	for _, v := range b.boots {
		spec.BootstrapWitnesses = append(spec.BootstrapWitnesses, v.node())
	}
	if reverse {
		for _, l := range [][]*cborx.Node{spec.ExtraVkeyWitnesses, spec.BootstrapWitnesses} {
			for i, j := 0, len(l)-1; i < j; i, j = i+1, j-1 {
				l[i], l[j] = l[j], l[i]
			}
		}
	}
	b.tx = spec.Build()
	if b.tx.TxId != txid {
		return nil, fmt.Errorf("generator: tx id changed between signing and building")
	}
	return b, nil
}

// ---------------------------------------------------------------- reference predicate

type verdict struct {
	p1, p2, p3, p4 bool
	why            []string
}

func reference(t tcase, b *built) verdict {
	v := verdict{p1: true, p2: true, p3: true, p4: true}
	keyHashes := map[lg.Hash28]bool{}
	for _, w := range b.vkeys {
		if len(w.pub) != ed25519.PublicKeySize || len(w.sig) != ed25519.SignatureSize || !ed25519.Verify(w.pub, b.txid[:], w.sig) {
			v.p1 = false
			v.why = append(v.why, "vkey witness "+w.note+" does not verify over the tx id")
		}
		keyHashes[lg.Blake224(w.pub)] = true
	}
	roots := map[lg.Hash28]bool{}
	for _, w := range b.boots {
		if len(w.pub) != ed25519.PublicKeySize || len(w.sig) != ed25519.SignatureSize || !ed25519.Verify(w.pub, b.txid[:], w.sig) {
			v.p1 = false
			v.why = append(v.why, "bootstrap witness "+w.note+" does not verify over the tx id")
		}
		if len(w.pub) == 32 && len(w.cc) == 32 {
			roots[byronRoot(w.pub, w.cc, w.attrs)] = true
		}
	}
	owned := func(o owner) bool {
		switch {
		case o.isKey():
			return keyHashes[o.key.Hash()]
		case o.isByron():
			return roots[byronRoot(o.key.Pub, o.cc, o.byronAttrs().Encode())]
		}
		return true // script-locked: no key obligation
	}
	for _, o := range t.sc.inputs {
		if !owned(o) {
			v.p2 = false
			v.why = append(v.why, "input owner "+o.name+" ("+ownerKindName[o.kind]+") has no witness")
		}
	}
	for _, o := range t.sc.collateral {
		if !owned(o) {
			v.p3 = false
			v.why = append(v.why, "collateral owner "+o.name+" has no witness")
		}
	}
	for _, o := range t.sc.required {
		if !keyHashes[o.key.Hash()] {
			v.p4 = false
			v.why = append(v.why, "required signer "+o.name+" has no witness")
		}
	}
	return v
}

func (v verdict) all() bool { return v.p1 && v.p2 && v.p3 && v.p4 }

// ---------------------------------------------------------------- cases

func scenarios(e lg.Era, c *core.Ctx) []scenario {
	k := func(kind ownerKind, name string) owner { return newOwner(kind, name) }
	ent, base, ptr := k(oEnterprise, "alice"), k(oBase, "bob"), k(oPointer, "carol")
	scr, byr, byrM := k(oScript, "script"), k(oByron, "dave"), k(oByronMagic, "erin")
	collK, req1, req2 := k(oEnterprise, "frank"), k(oEnterprise, "grace"), k(oEnterprise, "heidi")
	out := []scenario{
		{name: "one-enterprise-input", inputs: []owner{ent}},
		{name: "one-base-input", inputs: []owner{base}},
		{name: "one-pointer-input", inputs: []owner{ptr}},
		{name: "three-key-inputs", inputs: []owner{ent, base, ptr}},
		{name: "key-and-script-input", inputs: []owner{ent, scr}},
		{name: "one-byron-input", inputs: []owner{byr}},
		{name: "byron-input-with-attributes", inputs: []owner{byrM}},
		{name: "key-and-byron-input", inputs: []owner{base, byr}},
		{name: "two-byron-inputs", inputs: []owner{byr, byrM}},
	}
	if e.HasPlutus() {
		out = append(out,
			scenario{name: "collateral-other-key", inputs: []owner{ent}, collateral: []owner{collK}},
			scenario{name: "collateral-two-keys", inputs: []owner{ent}, collateral: []owner{collK, base}},
			scenario{name: "required-signer", inputs: []owner{ent}, required: []owner{req1}},
			scenario{name: "two-required-signers-and-collateral", inputs: []owner{base}, collateral: []owner{collK}, required: []owner{req1, req2}},
			scenario{name: "script-input-collateral-required", inputs: []owner{scr}, collateral: []owner{collK}, required: []owner{req1}},
		)
	}
	r := c.Rand("scenarios", e.String())
	pool := []owner{ent, base, ptr, scr, byr, byrM, k(oEnterprise, "ivan"), k(oBase, "judy")}
	for i := 0; i < c.N(200, 3000); i++ {
		s := scenario{name: fmt.Sprintf("random-%d", i)}
		perm := r.Perm(len(pool))
		for j := 0; j < 1+r.Intn(3); j++ {
			s.inputs = append(s.inputs, pool[perm[j]])
		}
		if e.HasPlutus() {
			for j := r.Intn(3); j > 0; j-- {
				s.collateral = append(s.collateral, core.Pick(r, []owner{collK, ent, base, k(oPointer, "kim")}))
			}
			for j := r.Intn(3); j > 0; j-- {
				s.required = append(s.required, core.Pick(r, []owner{req1, req2, ent}))
			}
		}
		out = append(out, s)
	}
	return out
}

func cases(c *core.Ctx) []tcase {
	var out []tcase
	for _, e := range lg.AllEras {
		r := c.Rand("bits", e.String())
		for _, s := range scenarios(e, c) {
			random := strings.HasPrefix(s.name, "random-")
			tg := s.targets()
			for _, m := range manips {
				if m.shared {
					out = append(out, tcase{era: e, sc: s, m: m, bit: r.Intn(512)})
					continue
				}
				for i := range tg {
					if tg[i].o.isByron() != m.byron {
						continue
					}
					if random && !r.Chance(1, 3) {
						continue
					}
					out = append(out, tcase{era: e, sc: s, m: m, tgt: &tg[i], bit: r.Intn(512)})
					if m.name == "other-tx-id" && !random {
						// the witness comes from a transaction of another era
						de := lg.AllEras[(int(e)+1+r.Intn(len(lg.AllEras)-1))%len(lg.AllEras)]
						out = append(out, tcase{era: e, sc: s, m: m, tgt: &tg[i], bit: r.Intn(512), donorEra: &de})
					}
				}
			}
		}
	}
	// presentation dimension: every case gets a PRNG presentation; the fixed
	// scenarios run the decisive manipulations in every presentation
	rp := c.Rand("presentation")
	base := len(out)
	for i := 0; i < base; i++ {
		t := out[i]
		fixed := !strings.HasPrefix(t.sc.name, "random-")
		decisive := t.m.name == "complete" || t.m.name == "dropped" || t.m.name == "other-tx-id" || t.m.name == "bit-flipped"
		if fixed && decisive && t.donorEra == nil {
			for p := 1; p < len(presName); p++ {
				x := t
				x.pres = p
				out = append(out, x)
			}
			continue
		}
		if rp.Chance(2, 3) {
			out[i].pres = 1 + rp.Intn(len(presName)-1)
		}
	}
	for i := range out {
		out[i].index = i
	}
	return out
}

// ---------------------------------------------------------------- findings

type finding struct {
	key, what string
	witness   map[string]any
	weight    int
	count     int
}

type collector struct {
	mu sync.Mutex
	m  map[string]*finding
}

func (co *collector) add(f finding) {
	co.mu.Lock()
	defer co.mu.Unlock()
	old := co.m[f.key]
	if old == nil {
		f.count = 1
		co.m[f.key] = &f
		return
	}
	old.count++
	if f.weight < old.weight {
		f.count = old.count
		co.m[f.key] = &f
	}
}

func (co *collector) flush(c *core.Ctx) {
	var ks []string
	for k := range co.m {
		ks = append(ks, k)
	}
	sort.Strings(ks)
	for _, k := range ks {
		f := co.m[k]
		f.witness["cases_in_this_class"] = f.count
		c.Violation(f.key, fmt.Sprintf("%s (%d such cases)", f.what, f.count), f.witness)
	}
}

// ---------------------------------------------------------------- run

type sigRule struct {
	name string
	f    common.UtxoValidationRuleFunc
}

func run(c *core.Ctx) {
	lg.EnableChecks(c).Revalidations = 1 // the monitor repeats every validation itself as well
	co := &collector{m: map[string]*finding{}}
	rules := map[lg.Era][]sigRule{}
	for _, e := range lg.AllEras {
		for _, n := range []string{"UtxoValidateSignatures", "UtxoValidateCollateralVKeyWitnesses", "UtxoValidateRequiredVKeyWitnesses"} {
			if f, ok := lg.Rule(e, n); ok {
				rules[e] = append(rules[e], sigRule{n, f})
			}
		}
		var ns []string
		for _, r := range rules[e] {
			ns = append(ns, lg.RuleName(r.f))
		}
		c.Note("signature_rules_"+e.String(), strings.Join(ns, ","))
	}
	cs := cases(c)
	c.Note("cases", len(cs))
	c.Parallel("case", len(cs), 0, func(i int, _ *core.Rand) {
		t := cs[i]
		en := t.era.String()
		desc := t.String()
		pp := lg.DefaultParams(t.era).For(t.era)
		// evaluate runs the signature rules of an era on a decoded transaction
		evaluate := func(e lg.Era, tx common.Transaction, st *lg.State) (map[string]error, bool) {
			res := map[string]error{}
			ok := true
			epp := lg.DefaultParams(e).For(e)
			for _, r := range rules[e] {
				var rerr error
				if pn, val, _ := core.Safely(func() {
					rerr = lg.Checked(e, tx, st, func() error { return r.f(tx, 1000, st, epp) })
				}); pn {
					rerr = fmt.Errorf("panic: %v", val)
				}
				res[r.name] = rerr
				if rerr != nil {
					ok = false
				}
			}
			return res, ok
		}
		// accepted siblings first: every reject case is validated right after
		// the transaction it was derived from has been validated and accepted
		// in this process
		var donor *built
		var otherID *lg.Hash32
		if t.m.name == "other-tx-id" {
			d, derr := build(donorCase(t), nil)
			if derr != nil {
				c.Count("donor_not_buildable_"+en, 1)
				return
			}
			donor = d
			otherID = &d.txid
		}
		b, err := build(t, otherID)
		if err != nil {
			c.Count("not_buildable_"+en, 1)
			if c.Counter("not_buildable_"+en) <= 2 {
				c.Note("build_error_example_"+en, err.Error())
			}
			return
		}
		c.Journal("C28 case %d %s tx=%x", i, desc, b.tx.Cbor)
		tx, derr := b.tx.Decode()
		c.Eval()
		if derr != nil {
			c.Count("decode_rejected_"+en+":"+t.m.name, 1)
			if c.Counter("decode_rejected_"+en+":"+t.m.name) <= 1 {
				c.Note("decode_error_example_"+en+"_"+t.m.name, derr.Error())
			}
			return
		}
		witBytes := b.tx.Node.Items[1].Slice(b.tx.Cbor)
		c.Distinct(en, core.HexFull(b.tx.TxId[:]), core.HexFull(witBytes))
		c.Count("manipulation:"+t.m.name, 1)
		c.Count("presentation:"+presName[t.pres], 1)
		v := reference(t, b)
		history := map[string]any{}
		// verdict before the history exists
		_, beforeOK := evaluate(t.era, tx, b.state)
		if donor != nil {
			dc := donorCase(t)
			if dtx, e2 := donor.tx.Decode(); e2 == nil {
				_, dOK := evaluate(dc.era, dtx, donor.state)
				dFull := lg.Verify(dc.era, dtx, 1000, donor.state, lg.DefaultParams(dc.era).For(dc.era))
				history["donor_tx_cbor"] = core.HexFull(donor.tx.Cbor)
				history["donor_era"] = dc.era.String()
				history["donor_accepted_by_signature_rules"] = dOK
				history["donor_full_rule_list"] = fmt.Sprint(dFull)
				if dOK && dFull == nil {
					c.Count("donor_accepted_"+dc.era.String(), 1)
				} else {
					c.Count("donor_not_accepted_"+dc.era.String(), 1)
				}
			}
		} else if t.m.name != "complete" {
			ct := t
			ct.m, ct.tgt = manips[0], nil
			if cb, e2 := build(ct, nil); e2 == nil {
				if ctx2, e3 := cb.tx.Decode(); e3 == nil {
					_, sOK := evaluate(t.era, ctx2, cb.state)
					history["complete_sibling_accepted"] = sOK
					if sOK {
						c.Count("accepted_sibling_validated_first_"+en, 1)
					}
				}
			}
		}
		// the judged validation: a freshly decoded object, after the history
		if tx2, e2 := b.tx.Decode(); e2 == nil {
			tx = tx2
		}
		res, allOK := evaluate(t.era, tx, b.state)
		// and once more on the same object: the verdict must not change
		_, againOK := evaluate(t.era, tx, b.state)
		full := lg.Verify(t.era, tx, 1000, b.state, pp)
		if full == nil {
			c.Count("full_list_accept_"+en, 1)
		} else {
			c.Count("full_list_reject_"+en, 1)
			if v.all() {
				c.Count("full_list_reject_fully_witnessed:"+lg.ErrType(full), 1)
			}
		}
		switch {
		case allOK && v.all():
			c.Count("witnessed_accepted_"+en, 1)
		case !allOK && !v.all():
			c.Count("unwitnessed_rejected_"+en, 1)
		case !allOK && v.all():
			c.Count("witnessed_rejected_"+en, 1)
			for n, e := range res {
				if e != nil {
					c.Count("witnessed_rejected_by:"+n, 1)
				}
			}
		}
		if i%397 == 0 {
			c.Sample(map[string]any{"case": desc, "reference_holds": v.all(), "signature_rules_accept": allOK, "full_list": fmt.Sprint(full), "tx_cbor": core.Hex(b.tx.Cbor)})
		}
		wit := func() map[string]any {
			rr := map[string]string{}
			for n, e := range res {
				rr[n] = fmt.Sprint(e)
			}
			return map[string]any{"case": desc, "era": en, "validated_before_in_this_process": history, "tx_cbor": core.HexFull(b.tx.Cbor), "tx_id": fmt.Sprintf("%x", b.txid[:]), "reference_failures": v.why,
				"rule_results": rr, "full_rule_list_result": fmt.Sprint(full), "utxo_addresses": utxoAddrs(t)}
		}
		weight := len(b.tx.Cbor)
		report := func(cond, site string) {
			co.add(finding{key: "C28:" + en + ":" + cond, weight: weight, witness: wit(),
				what: fmt.Sprintf("%s: %s accepts although %s (%s)", en, site, strings.Join(v.why, "; "), desc)})
		}
		// per rule
		if e, ok := res["UtxoValidateSignatures"]; ok && e == nil {
			if !v.p1 {
				report("invalid-signature-accepted", "UtxoValidateSignatures")
			}
			if !v.p2 {
				report(ownerCond(t, "input"), "UtxoValidateSignatures")
			}
		}
		if e, ok := res["UtxoValidateCollateralVKeyWitnesses"]; ok && e == nil && !v.p3 {
			report("collateral-owner-unwitnessed", "UtxoValidateCollateralVKeyWitnesses")
		}
		if e, ok := res["UtxoValidateRequiredVKeyWitnesses"]; ok && e == nil && !v.p4 {
			report("required-signer-unwitnessed", "UtxoValidateRequiredVKeyWitnesses")
		}
		// the conjunction (a rule missing from the era's list shows here)
		if allOK && !v.all() {
			cond := "invalid-signature-accepted"
			switch {
			case !v.p2:
				cond = ownerCond(t, "input")
			case !v.p3:
				cond = "collateral-owner-unwitnessed"
			case !v.p4:
				cond = "required-signer-unwitnessed"
			}
			report(cond, "the signature rules of the era's list ("+strings.Join(ruleNames(rules[t.era]), ", ")+")")
		}
		if beforeOK != allOK || againOK != allOK {
			co.add(finding{key: "C28:" + en + ":verdict-depends-on-validation-history", weight: weight, witness: wit(),
				what: fmt.Sprintf("%s: the signature rules give different verdicts for the same transaction: before its sibling / donor transaction was validated %v, afterwards %v, repeated on the same object %v (%s)", en, beforeOK, allOK, againOK, desc)})
		}
		if full == nil && !v.all() {
			co.add(finding{key: "C28:" + en + ":full-list-accepts-unwitnessed", weight: weight, witness: wit(),
				what: fmt.Sprintf("%s: the complete rule list accepts although %s (%s)", en, strings.Join(v.why, "; "), desc)})
		}
	})
	co.flush(c)
	for _, e := range lg.AllEras {
		en := e.String()
		if c.Counter("witnessed_accepted_"+en) == 0 {
			forceInconclusive(c, en+": no fully witnessed transaction was accepted by the signature rules")
		}
		if c.Counter("unwitnessed_rejected_"+en) == 0 {
			forceInconclusive(c, en+": no deficient witness set was rejected")
		}
		if c.Counter("full_list_accept_"+en) == 0 {
			forceInconclusive(c, en+": the full rule list never accepted a fully witnessed transaction")
		}
	}
}

func ruleNames(rs []sigRule) []string {
	var out []string
	for _, r := range rs {
		out = append(out, r.name)
	}
	return out
}

// ownerCond names the unmet ownership condition, separating Byron owners.
func ownerCond(t tcase, role string) string {
	if t.tgt != nil && t.tgt.o.isByron() {
		return "byron-" + role + "-owner-unwitnessed"
	}
	return role + "-owner-unwitnessed"
}

func utxoAddrs(t tcase) map[string]string {
	m := map[string]string{}
	for _, o := range t.sc.inputs {
		m["input:"+o.name] = fmt.Sprintf("%x", o.address())
	}
	for _, o := range t.sc.collateral {
		m["collateral:"+o.name] = fmt.Sprintf("%x", o.address())
	}
	return m
}

func forceInconclusive(c *core.Ctx, what string) {
	n := int(c.Evals()/50) + 1
	for i := 0; i < n; i++ {
		c.Inconclusive(what)
	}
}
