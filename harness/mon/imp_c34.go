//go:build only_c34

package mon

import _ "verifharness/mon/c34"
