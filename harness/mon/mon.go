// Package mon pulls in the monitor packages. Each property has its own
// package mon/cNN and an import file imp_cNN.go guarded by the build tag
// only_cNN, so every check builds a binary that contains just its monitor.
package mon
