//go:build only_c09

package mon

import _ "verifharness/mon/c09"
