//go:build only_c17

package mon

import _ "verifharness/mon/c17"
