//go:build only_c11

package mon

import _ "verifharness/mon/c11"
