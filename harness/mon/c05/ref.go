package c05

// Independent CIP-19 reference codec. Nothing in this file calls into
// gouroboros or btcutil: header nibble table, base-128 varints, bech32
// (BIP-173), base58 and the Byron CBOR envelope are written out here.

import (
	"bytes"
	"errors"
	"hash/crc32"
	"math/big"
	"strings"

	"verifharness/cborx"
)

// ---------------------------------------------------------------- type table

type credKind int

const (
	credNone credKind = iota
	credKey
	credScript
	credPointer
)

type typeInfo struct {
	known   bool
	payment credKind // credNone | credKey | credScript
	stake   credKind
	hrp     string // "addr" | "stake"
	kind    string // low-cardinality class name for keys
}

// CIP-19 header type nibble table (Shelley family).
var typeTable = map[uint8]typeInfo{
	0:  {true, credKey, credKey, "addr", "base"},
	1:  {true, credScript, credKey, "addr", "base"},
	2:  {true, credKey, credScript, "addr", "base"},
	3:  {true, credScript, credScript, "addr", "base"},
	4:  {true, credKey, credPointer, "addr", "pointer"},
	5:  {true, credScript, credPointer, "addr", "pointer"},
	6:  {true, credKey, credNone, "addr", "enterprise"},
	7:  {true, credScript, credNone, "addr", "enterprise"},
	14: {true, credNone, credKey, "stake", "reward"},
	15: {true, credNone, credScript, "stake", "reward"},
}

var shelleyTypes = []uint8{0, 1, 2, 3, 4, 5, 6, 7, 14, 15}

func refHRP(t uint8, net uint8) string {
	h := typeTable[t].hrp
	if net != 1 {
		h += "_test"
	}
	return h
}

var allHRPs = []string{"addr", "addr_test", "stake", "stake_test"}

// The documented whitelist of trailing byte strings found on mainnet
// (cardano-multiplatform-lib TRAILING_WHITELIST; the code under test calls it
// knownMalformedAddressTrailers). Copied here as data, not imported.
var trailerWhitelist = [][]byte{
	{203, 87, 175, 176, 179, 95, 200, 156, 99, 6, 28, 153, 20, 224, 85, 0, 26, 81, 140, 117, 22},
	{19, 213, 244, 163, 254, 4, 120, 178, 36, 30, 1, 104, 227, 203, 165, 0, 26, 34, 193, 90, 17},
	{0},
	{106, 51, 48, 102, 53, 97, 109, 107, 119, 104, 119, 113, 97, 52, 119, 118, 102, 121, 106, 100, 101, 122, 121, 97, 101, 108, 109, 110, 110, 103, 100, 54, 100, 52, 101},
	{53, 97, 99, 121, 50, 114, 48, 101, 107, 114, 112, 113, 122, 113, 106, 108, 113, 100, 107, 56, 108, 122, 113, 110, 53, 114, 52, 53, 110},
	{6, 29, 7, 12, 13, 4, 27, 7, 2, 15, 11, 13, 11, 15, 2, 9, 18, 5, 29, 28, 16, 9, 17, 4, 14, 31, 7, 19, 17, 3, 1, 0, 11, 16, 22, 0},
	{18, 110, 119, 53, 51, 53, 103, 54, 118, 115, 112, 55, 120, 55, 102, 104, 120, 112, 113, 50, 112, 116, 115, 104, 57, 103, 107, 114},
	{44},
}

func whitelisted(tr []byte) bool {
	for _, w := range trailerWhitelist {
		if bytes.Equal(w, tr) {
			return true
		}
	}
	return false
}

// ---------------------------------------------------------------- varints

// putVar writes the minimal big-endian base-128 encoding (continuation bit on
// all but the last byte).
func putVar(dst []byte, v uint64) []byte {
	var groups []byte
	groups = append(groups, byte(v&0x7f))
	v >>= 7
	for v != 0 {
		groups = append(groups, byte(v&0x7f))
		v >>= 7
	}
	for i := len(groups) - 1; i >= 0; i-- {
		b := groups[i]
		if i != 0 {
			b |= 0x80
		}
		dst = append(dst, b)
	}
	return dst
}

type varStatus int

const (
	varOK        varStatus = iota
	varTruncated           // ran out of bytes
	varOdd                 // non-minimal or does not fit 64 bits: not judged
)

// getVar reads one varint. Non-minimal encodings (leading 0x80 group) and
// values above 2^64-1 are flagged varOdd: the property speaks about minimal
// varints only.
func getVar(b []byte) (v uint64, n int, st varStatus) {
	acc := new(big.Int)
	odd := false
	for n < len(b) {
		c := b[n]
		if n == 0 && c == 0x80 {
			odd = true
		}
		acc.Lsh(acc, 7)
		acc.Or(acc, big.NewInt(int64(c&0x7f)))
		n++
		if c&0x80 == 0 {
			if acc.BitLen() > 64 {
				odd = true
			}
			if odd {
				return 0, n, varOdd
			}
			return acc.Uint64(), n, varOK
		}
	}
	return 0, n, varTruncated
}

// ---------------------------------------------------------------- Shelley

type refAddr struct {
	typ     uint8
	net     uint8
	pay     []byte // 28 bytes or nil
	stake   []byte // 28 bytes or nil
	ptr     [3]uint64
	trailer []byte // only ever a whitelisted trailer
}

func (a *refAddr) info() typeInfo { return typeTable[a.typ] }

func (a *refAddr) encode() []byte {
	out := []byte{a.typ<<4 | a.net&0x0f}
	ti := a.info()
	if ti.payment != credNone {
		out = append(out, a.pay...)
	}
	switch ti.stake {
	case credKey, credScript:
		out = append(out, a.stake...)
	case credPointer:
		for _, v := range a.ptr {
			out = putVar(out, v)
		}
	}
	out = append(out, a.trailer...)
	return out
}

type verdict int

const (
	vValid    verdict = iota // must be accepted, round-trips
	vInvalid                 // must be rejected
	vUnjudged                // outside the statement (odd varints, Byron garbage)
)

// refDecodeShelley classifies raw bytes whose type nibble is not 8.
// reason is a low-cardinality class name.
func refDecodeShelley(b []byte) (verdict, *refAddr, string) {
	if len(b) == 0 {
		return vInvalid, nil, "empty"
	}
	t := b[0] >> 4
	net := b[0] & 0x0f
	if net > 1 {
		return vInvalid, nil, "network-nibble"
	}
	ti, ok := typeTable[t]
	if !ok {
		return vInvalid, nil, "reserved-type"
	}
	a := &refAddr{typ: t, net: net}
	rest := b[1:]
	if ti.payment != credNone {
		if len(rest) < 28 {
			return vInvalid, nil, "short"
		}
		a.pay = rest[:28]
		rest = rest[28:]
	}
	switch ti.stake {
	case credKey, credScript:
		if len(rest) < 28 {
			return vInvalid, nil, "short"
		}
		a.stake = rest[:28]
		rest = rest[28:]
	case credPointer:
		odd := false
		for i := 0; i < 3; i++ {
			v, n, st := getVar(rest)
			switch st {
			case varTruncated:
				if odd {
					return vUnjudged, nil, "odd-varint"
				}
				return vInvalid, nil, "pointer-truncated"
			case varOdd:
				odd = true
			}
			a.ptr[i] = v
			rest = rest[n:]
		}
		if odd {
			return vUnjudged, nil, "odd-varint"
		}
	}
	if len(rest) > 0 {
		if net == 1 && whitelisted(rest) {
			a.trailer = rest
			return vValid, a, "trailer-whitelist"
		}
		if whitelisted(rest) {
			return vInvalid, nil, "trailing-testnet-whitelist"
		}
		return vInvalid, nil, "trailing"
	}
	return vValid, a, ti.kind
}

// ---------------------------------------------------------------- bech32

const b32chars = "qpzry9x8gf2tvdw0s3jn54khce6mua7l"

func b32polymod(vals []byte) uint32 {
	gen := [5]uint32{0x3b6a57b2, 0x26508e6d, 0x1ea119fa, 0x3d4233dd, 0x2a1462b3}
	chk := uint32(1)
	for _, v := range vals {
		top := chk >> 25
		chk = (chk&0x1ffffff)<<5 ^ uint32(v)
		for i := 0; i < 5; i++ {
			if (top>>uint(i))&1 == 1 {
				chk ^= gen[i]
			}
		}
	}
	return chk
}

func b32expand(hrp string) []byte {
	var out []byte
	for i := 0; i < len(hrp); i++ {
		out = append(out, hrp[i]>>5)
	}
	out = append(out, 0)
	for i := 0; i < len(hrp); i++ {
		out = append(out, hrp[i]&31)
	}
	return out
}

const (
	bech32Const  = 1
	bech32mConst = 0x2bc830a3
)

// to5 regroups bytes into 5-bit groups, zero padded.
func to5(data []byte) []byte {
	var out []byte
	acc, bits := uint32(0), 0
	for _, b := range data {
		acc = acc<<8 | uint32(b)
		bits += 8
		for bits >= 5 {
			bits -= 5
			out = append(out, byte(acc>>uint(bits))&31)
		}
	}
	if bits > 0 {
		out = append(out, byte(acc<<uint(5-bits))&31)
	}
	return out
}

// b32encodeRaw builds hrp + "1" + data5 + checksum with the given constant.
func b32encodeRaw(hrp string, data5 []byte, konst uint32) string {
	vals := append(b32expand(hrp), data5...)
	vals = append(vals, 0, 0, 0, 0, 0, 0)
	pm := b32polymod(vals) ^ konst
	var sb strings.Builder
	sb.WriteString(hrp)
	sb.WriteByte('1')
	for _, d := range data5 {
		sb.WriteByte(b32chars[d])
	}
	for i := 0; i < 6; i++ {
		sb.WriteByte(b32chars[(pm>>uint(5*(5-i)))&31])
	}
	return sb.String()
}

func b32encode(hrp string, data []byte) string {
	return b32encodeRaw(hrp, to5(data), bech32Const)
}

// b32decode is the strict BIP-173 decoder (no length limit): one case,
// checksum constant 1, zero padding of fewer than 5 bits.
func b32decode(s string) (hrp string, data []byte, err error) {
	lower, upper := false, false
	for i := 0; i < len(s); i++ {
		c := s[i]
		if c < 33 || c > 126 {
			return "", nil, errors.New("character out of range")
		}
		if c >= 'a' && c <= 'z' {
			lower = true
		}
		if c >= 'A' && c <= 'Z' {
			upper = true
		}
	}
	if lower && upper {
		return "", nil, errors.New("mixed case")
	}
	s = strings.ToLower(s)
	pos := strings.LastIndexByte(s, '1')
	if pos < 1 || pos+7 > len(s) {
		return "", nil, errors.New("separator")
	}
	hrp = s[:pos]
	var d5 []byte
	for i := pos + 1; i < len(s); i++ {
		k := strings.IndexByte(b32chars, s[i])
		if k < 0 {
			return "", nil, errors.New("bad data character")
		}
		d5 = append(d5, byte(k))
	}
	if b32polymod(append(b32expand(hrp), d5...)) != bech32Const {
		return "", nil, errors.New("checksum")
	}
	d5 = d5[:len(d5)-6]
	acc, bits := uint32(0), 0
	for _, v := range d5 {
		acc = acc<<5 | uint32(v)
		bits += 5
		if bits >= 8 {
			bits -= 8
			data = append(data, byte(acc>>uint(bits)))
			acc &= (1 << uint(bits)) - 1
		}
	}
	if bits >= 5 || acc != 0 {
		return "", nil, errors.New("padding")
	}
	return hrp, data, nil
}

// ---------------------------------------------------------------- base58

const b58chars = "123456789ABCDEFGHJKLMNPQRSTUVWXYZabcdefghijkmnopqrstuvwxyz"

func b58encode(b []byte) string {
	zeros := 0
	for zeros < len(b) && b[zeros] == 0 {
		zeros++
	}
	n := new(big.Int).SetBytes(b)
	radix := big.NewInt(58)
	mod := new(big.Int)
	var rev []byte
	for n.Sign() > 0 {
		n.DivMod(n, radix, mod)
		rev = append(rev, b58chars[mod.Int64()])
	}
	for i := 0; i < zeros; i++ {
		rev = append(rev, '1')
	}
	for i, j := 0, len(rev)-1; i < j; i, j = i+1, j-1 {
		rev[i], rev[j] = rev[j], rev[i]
	}
	return string(rev)
}

func b58decode(s string) ([]byte, bool) {
	n := new(big.Int)
	radix := big.NewInt(58)
	zeros := 0
	lead := true
	for i := 0; i < len(s); i++ {
		k := strings.IndexByte(b58chars, s[i])
		if k < 0 {
			return nil, false
		}
		if lead && s[i] == '1' {
			zeros++
		} else {
			lead = false
		}
		n.Mul(n, radix)
		n.Add(n, big.NewInt(int64(k)))
	}
	out := append(make([]byte, zeros), n.Bytes()...)
	return out, true
}

// ---------------------------------------------------------------- Byron

type refByron struct {
	hash     []byte  // 28 bytes when valid
	path     []byte  // attribute 1 (nil = absent)
	magic    *uint32 // attribute 2 (nil = absent)
	addrType uint64
}

// encodeWith builds the canonical CBOR envelope; crcXor lets the caller
// corrupt the checksum.
func (a *refByron) encodeWith(crcXor uint32) []byte {
	var kv []*cborx.Node
	if a.path != nil {
		kv = append(kv, cborx.U(1), cborx.B(a.path))
	}
	if a.magic != nil {
		kv = append(kv, cborx.U(2), cborx.B(cborx.U(uint64(*a.magic)).Encode()))
	}
	payload := cborx.A(cborx.B(a.hash), cborx.M(kv...), cborx.U(a.addrType)).Encode()
	sum := crc32.ChecksumIEEE(payload) ^ crcXor
	return cborx.A(cborx.T(24, cborx.B(payload)), cborx.U(uint64(sum))).Encode()
}

func (a *refByron) encode() []byte { return a.encodeWith(0) }

// refDecodeByron classifies bytes whose first byte has type nibble 8. Only
// the canonical envelope [24(bytes), uint] with a payload [bytes, map, uint]
// is judged; everything else is outside the statement.
func refDecodeByron(b []byte) (verdict, *refByron, string) {
	n, err := cborx.ParseExact(b)
	if err != nil || n.Kind != cborx.Array || len(n.Items) != 2 || n.Form == cborx.FormIndef {
		return vUnjudged, nil, "byron-not-envelope"
	}
	tag, sum := n.Items[0], n.Items[1]
	if tag.Kind != cborx.Tag || tag.Arg != 24 || len(tag.Items) != 1 || tag.Items[0].Kind != cborx.Bytes ||
		tag.Items[0].Form == cborx.FormIndef || sum.Kind != cborx.Uint || sum.Arg > 0xffffffff {
		return vUnjudged, nil, "byron-not-envelope"
	}
	payload := tag.Items[0].StringData()
	if uint64(crc32.ChecksumIEEE(payload)) != sum.Arg {
		return vInvalid, nil, "byron-crc"
	}
	p, err := cborx.ParseExact(payload)
	if err != nil || p.Kind != cborx.Array || len(p.Items) != 3 || p.Items[0].Kind != cborx.Bytes ||
		p.Items[0].Form == cborx.FormIndef ||
		p.Items[1].Kind != cborx.Map || p.Items[2].Kind != cborx.Uint {
		return vUnjudged, nil, "byron-payload-shape"
	}
	h := p.Items[0].StringData()
	if len(h) != 28 {
		return vInvalid, nil, "byron-hash-len"
	}
	a := &refByron{hash: h, addrType: p.Items[2].Arg}
	m := p.Items[1]
	for i := 0; i+1 < len(m.Items); i += 2 {
		k, v := m.Items[i], m.Items[i+1]
		if k.Kind != cborx.Uint || v.Kind != cborx.Bytes || v.Form == cborx.FormIndef {
			return vUnjudged, nil, "byron-attr-shape"
		}
		switch k.Arg {
		case 1:
			if len(v.StringData()) == 0 {
				// an empty attribute is not one of the "random attributes"
				// of the statement (the encoder omits it): not judged
				return vUnjudged, nil, "byron-empty-attr"
			}
			a.path = v.StringData()
		case 2:
			mn, err := cborx.ParseExact(v.StringData())
			if err != nil || mn.Kind != cborx.Uint || mn.Arg > 0xffffffff {
				return vUnjudged, nil, "byron-attr-shape"
			}
			mg := uint32(mn.Arg)
			a.magic = &mg
		default:
			return vUnjudged, nil, "byron-attr-shape"
		}
	}
	// round-trip identity is only promised for the canonical form
	if !bytes.Equal(a.encode(), b) {
		return vUnjudged, nil, "byron-non-canonical"
	}
	return vValid, a, "byron"
}
