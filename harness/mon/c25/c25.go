// Package c25 monitors C25: local request/response calls get their own
// answers. Real clients (local-state-query, local-tx-monitor,
// local-tx-submission over a node-to-client ouroboros.NewConnection;
// peer-sharing over a node-to-node one) are called from 1..8 goroutines. The
// remote end is a tagging server built on the raw peer (rawpeer + cborx, no
// gouroboros code): every reply embeds the tag of the request it answers and
// the server's own counters,
//
//	local-state-query   result value = flavour tag | era | acquire epoch | query count,
//	                    where the flavour tag says which acquire message the server
//	                    last accepted: volatile tip / immutable tip / point (with 16
//	                    bits of hash(slot, block hash)), sent as acquire or re-acquire;
//	                    GetStakeDelegDeposits echoes the credential (= query id);
//	                    Acquire(point) fails by the point's slot (slot%4 = 1 too
//	                    old, 2 not on chain), also as a re-acquire
//	local-tx-monitor    Acquired(slot = epoch); HasTx(id) = parity of hash(id);
//	                    NextTx = (epoch, cursor, request count), empty from cursor 3;
//	                    GetSizes = (epoch | hash(id of the last HasTx)<<12, cursor, count)
//	local-tx-submission accept iff hash(tx, era id) is odd, reject reason = that hash | count
//	peer-sharing        n addresses, each carrying (n, index, request count)
//
// Every call is recorded as a porcupine operation (Call stamped before the
// invocation, Return after it, one atomic counter) and each protocol
// instance's history is checked with porcupine.CheckOperationsVerbose against
// a small sequential model of the tagging server. An error return is "no
// answer": the operation stays open to the end of the history and the model
// lets it have had any prefix of its effects. Illegal => violation with the
// history as witness; Unknown (60 s) => inconclusive.
package c25

import (
	"encoding/binary"
	"errors"
	"fmt"
	"hash/fnv"
	"os"
	"runtime"
	"sort"
	"strings"
	"sync"
	"sync/atomic"
	"time"

	"github.com/anishathalye/porcupine"
	ouroboros "github.com/blinklabs-io/gouroboros"
	"github.com/blinklabs-io/gouroboros/protocol"
	pcommon "github.com/blinklabs-io/gouroboros/protocol/common"
	"github.com/blinklabs-io/gouroboros/protocol/localstatequery"
	"github.com/blinklabs-io/gouroboros/protocol/localtxmonitor"
	"github.com/blinklabs-io/gouroboros/protocol/localtxsubmission"
	"github.com/blinklabs-io/gouroboros/protocol/peersharing"

	"verifharness/cborx"
	"verifharness/core"
	"verifharness/rawpeer"
)

func init() {
	core.Register(&core.Monitor{
		ID:   "C25",
		Race: true,
		Rule: "one case = one connection of a kind from {lsq, ltm, lts, ps, ntc-mixed (lsq+ltm+lts on one connection)} with 1..8 caller goroutines (one third of the cases 8) and at most 60 calls per protocol instance, op lists from the PRNG (lsq: GetChainBlockNo, GetEpochNo, GetEraHistory, GetSystemStart, GetChainPoint, GetStakeDelegDeposits(id), every result tagged with the sequence number of the query it answers; in half of the lsq cases goroutine 0 starts with a repetition block of one query kind: twice within one acquisition, again after a re-acquire, again after release + implicit acquire; AcquireVolatileTip / AcquireImmutableTip / Acquire(point incl. refused points) each in first-acquire and re-acquire position (38% of the lsq calls), implicit acquires by queries, Release; ltm: HasTx(id), NextTx, GetSizes, Acquire, Release; lts: SubmitTx(era 0..7, tx); ps: GetPeers(0..12)); 15% of the node-to-client cases lose the connection after a PRNG number of requests, 25% run against a server that delays some replies by 1-3 ms. One evaluation = one protocol instance's history checked by porcupine; it is non-trivial when at least 4 calls were answered; distinct by the history shape (per call in Call order: goroutine, kind, outcome class, number of calls open at that moment)",
		MinNontrivial: 150,
		RaceAnchors: []string{
			"localstatequery.(*Client)", "localtxmonitor.(*Client)", "localtxsubmission.(*Client)", "peersharing.(*Client)",
		},
		Assumptions: []string{
			"the tagging server answers every request exactly once, in order, with the tags described in the package comment",
			"Release is only called by one goroutine and only directly after a call of its own that was answered (calling Release on a client that is not acquired is a misuse that ends the protocol)",
			"an error return is no answer; such a call stays open to the end of the history and may have had any prefix of its effects on the server",
			"a failed re-acquire leaves the local-state-query client unusable (its next message ends the protocol); the errors that follow are not judged",
			"client-side state timeouts are raised to 10 minutes through the public Config options (time is not this property's subject)",
			"porcupine v1.3.0 decides linearizability correctly; a check that does not finish in 60 s is inconclusive",
			"runtime.Gosched() at the verif perturbation points recv.beforeHandle / send.afterDequeue only widens interleavings the program can have anyway",
		},
		QuickTimeout:    900,
		ThoroughTimeout: 4 * 3600,
		Run:             run,
	})
}

const (
	netMagic     = uint32(764824073)
	protoLTS     = uint16(6)
	protoLSQ     = uint16(7)
	protoLTM     = uint16(9)
	protoPS      = uint16(10)
	caseWatchdog = 90 * time.Second
	stallWindow  = 15 * time.Second
	maxStalled   = 12 // the run stops starting new cases after this many stalled ones
	maxOpsProto  = 60
	longTimeout  = 10 * time.Minute
)

var protoName = map[uint16]string{protoLTS: "local-tx-submission", protoLSQ: "local-state-query", protoLTM: "local-tx-monitor", protoPS: "peer-sharing"}

// ---------------------------------------------------------------- operations

type opKind uint8

const (
	lsqAcqVolatile opKind = iota
	lsqAcqImmutable
	lsqAcqPoint
	lsqRelease
	lsqBlockNo
	lsqEpochNo
	lsqDeposits
	lsqEraHistory
	lsqSystemStart
	lsqChainPoint
	ltmAcquire
	ltmRelease
	ltmHasTx
	ltmNextTx
	ltmSizes
	ltsSubmit
	psGetPeers
)

var kindName = [...]string{"lsq.AcquireVolatileTip", "lsq.AcquireImmutableTip", "lsq.Acquire(point)", "lsq.Release", "lsq.GetChainBlockNo",
	"lsq.GetEpochNo", "lsq.GetStakeDelegDeposits", "lsq.GetEraHistory", "lsq.GetSystemStart", "lsq.GetChainPoint", "ltm.Acquire", "ltm.Release", "ltm.HasTx", "ltm.NextTx", "ltm.GetSizes", "lts.SubmitTx", "ps.GetPeers"}

func (k opKind) String() string { return kindName[k] }

func protoOf(k opKind) uint16 {
	switch {
	case k <= lsqChainPoint:
		return protoLSQ
	case k <= ltmSizes:
		return protoLTM
	case k == ltsSubmit:
		return protoLTS
	}
	return protoPS
}

// input / output of one call (comparable; used as porcupine Input / Output).
type input struct {
	Kind opKind
	Arg  uint64
}

const (
	stOK       = 0 // answered
	stAcqFail  = 1 // answered: acquire refused, A = reason
	stNoAnswer = 2 // error return
)

type output struct {
	St      uint8
	A, B, C uint64
	Empty   bool
	Err     string
}

func (o output) String() string {
	switch o.St {
	case stNoAnswer:
		return "error(" + o.Err + ")"
	case stAcqFail:
		return fmt.Sprintf("acquire-failure(%d)", o.A)
	}
	if o.Empty {
		return "ok(empty)"
	}
	return fmt.Sprintf("ok(%#x,%#x,%#x)", o.A, o.B, o.C)
}

func hash64(b []byte) uint64 {
	h := fnv.New64a()
	h.Write(b)
	return h.Sum64()
}

func argBytes(arg uint64, n int) []byte {
	b := make([]byte, n)
	binary.BigEndian.PutUint64(b, arg)
	for i := 8; i < n; i++ {
		b[i] = byte(arg>>uint(8*(i%8))) ^ byte(i)
	}
	return b
}

// txBytes: the "transaction" of a SubmitTx(arg) call.
func txBytes(arg uint64) []byte { return append([]byte{0x84, 0xa0, 0xa0}, argBytes(arg, 13)...) }

// lsqValue packs what a local-state-query result carries: the query count
// (20 bits), the acquire epoch (20 bits), the era the query named (3 bits) and
// the flavour tag of the acquire the server is currently serving (19 bits).
func lsqValue(ftag, era, epoch, k uint32) uint64 {
	return uint64(ftag&0x7ffff)<<43 | uint64(era&7)<<40 | uint64(epoch&0xfffff)<<20 | uint64(k&0xfffff)
}
func lsqUnpack(v uint64) (ftag, era, epoch, k uint32) {
	return uint32(v>>43) & 0x7ffff, uint32(v>>40) & 7, uint32(v>>20) & 0xfffff, uint32(v) & 0xfffff
}
func lsqEra(k uint32) uint32 { return 1 + k%6 }

// Acquire flavours as the server reads them off the wire.
const (
	flavVolatile  = 1 // MsgAcquireVolatileTip (8) / MsgReAcquireVolatileTip (9)
	flavImmutable = 2 // MsgAcquireImmutableTip (10) / MsgReAcquireImmutableTip (11)
	flavPoint     = 3 // MsgAcquire (0) / MsgReAcquire (6), with the point
)

var flavName = [...]string{"none", "volatile", "immutable", "point"}

// lsqFlavourTag: flavour | re-acquire bit | 16 bits of hash(point).
func lsqFlavourTag(flavour uint32, re bool, slot uint64, hash []byte) uint32 {
	t := flavour & 3
	if re {
		t |= 4
	}
	if flavour == flavPoint {
		b := make([]byte, 8, 8+len(hash))
		binary.BigEndian.PutUint64(b, slot)
		t |= uint32(hash64(append(b, hash...))&0xffff) << 3
	}
	return t
}

// lsqTagOfCall: the tag an acquire call of this kind must leave at the server
// when it is sent as an acquire (re=false) or as a re-acquire (re=true).
func lsqTagOfCall(in input, re bool) uint32 {
	switch in.Kind {
	case lsqAcqImmutable:
		return lsqFlavourTag(flavImmutable, re, 0, nil)
	case lsqAcqPoint:
		return lsqFlavourTag(flavPoint, re, in.Arg, argBytes(in.Arg, 32))
	}
	return lsqFlavourTag(flavVolatile, re, 0, nil) // explicit and implicit volatile tip
}

// ---------------------------------------------------------------- tagging server

type lsqSrv struct {
	Acq      bool
	Epoch, K uint32
	Tag      uint32 // flavour tag of the acquire being served
}
type ltmSrv struct {
	Acq              bool
	Epoch, Cursor, K uint32
	Has              uint32 // 20 bits of the id of the last HasTx since the acquire
}

// ltmHasTag: what GetSizes carries about the id of the last HasTx request.
func ltmHasTag(id []byte) uint32 { return uint32(hash64(id)>>8) & 0xfffff }

// ltsEra / ltsHash: a SubmitTx(arg) call names era ltsEra(arg); the server's
// verdict and reject reason depend on the era and the bytes it received.
func ltsEra(arg uint64) uint16 { return uint16(arg % 8) }
func ltsHash(era uint64, tx []byte) uint64 {
	return hash64(append(append([]byte(nil), tx...), byte(era)))
}

type server struct {
	p         *rawpeer.Peer
	inbox     map[uint16][]byte
	lsq       lsqSrv
	ltm       ltmSrv
	ltsK, psK uint32
	killAfter int // close instead of answering request number killAfter (0: never)
	handled   int
	slow      *core.Rand // non-nil: delay some replies
	exited    chan struct{}

	mu      sync.Mutex
	seen    map[string]int
	oddity  []string
	reacqKO int
}

func (s *server) count(k string) {
	s.mu.Lock()
	s.seen[k]++
	s.mu.Unlock()
}

func (s *server) odd(format string, a ...any) {
	s.mu.Lock()
	if len(s.oddity) < 8 {
		s.oddity = append(s.oddity, fmt.Sprintf(format, a...))
	}
	s.mu.Unlock()
}

func u(n *cborx.Node) (uint64, bool) {
	if n == nil || n.Kind != cborx.Uint {
		return 0, false
	}
	return n.Arg, true
}

// handshake answers the proposal with the highest offered version.
func (s *server) handshake(ntn bool) error {
	m, _, err := s.p.RecvMsg(rawpeer.ProtoHandshake)
	if err != nil {
		return err
	}
	offered, err := rawpeer.ParseProposeVersions(m)
	if err != nil {
		return err
	}
	best := uint64(0)
	for _, e := range offered {
		if e.Version > best {
			best = e.Version
		}
	}
	data := rawpeer.VDNtC15(netMagic, false)
	if ntn {
		data = rawpeer.VDNtN11(netMagic, false, 1, false)
	}
	return s.p.SendMsg(rawpeer.ProtoHandshake, rawpeer.AcceptVersion(best, data))
}

func (s *server) loop() {
	defer close(s.exited)
	for {
		seg, err := s.p.Recv()
		if err != nil {
			return
		}
		if seg.Response {
			continue
		}
		id := seg.ProtocolID
		s.inbox[id] = append(s.inbox[id], seg.Payload...)
		for len(s.inbox[id]) > 0 {
			n, used, err := cborx.Parse(s.inbox[id])
			if err != nil {
				if errors.Is(err, cborx.ErrTruncated) {
					break
				}
				s.odd("undecodable payload on protocol %d: %v", id, err)
				return
			}
			raw := append([]byte(nil), s.inbox[id][:used]...)
			s.inbox[id] = s.inbox[id][used:]
			m, _ := cborx.ParseExact(raw)
			_ = n
			replies, isRequest := s.handle(id, m, raw)
			if isRequest {
				s.handled++
				if s.killAfter > 0 && s.handled >= s.killAfter {
					s.count("connection_killed")
					s.p.Close()
					return
				}
				if s.slow != nil && s.slow.Chance(1, 8) {
					time.Sleep(time.Duration(s.slow.Range(1, 3)) * time.Millisecond)
				}
			}
			for _, r := range replies {
				if s.p.SendMsg(id, r) != nil {
					return
				}
			}
		}
	}
}

// handle returns the replies to one message and whether it was a request that
// expects one.
func (s *server) handle(id uint16, m *cborx.Node, raw []byte) ([]*cborx.Node, bool) {
	tag, ok := u(m.At(0))
	if m.Kind != cborx.Array || !ok {
		s.odd("protocol %d: not a message: %x", id, raw)
		return nil, false
	}
	switch id {
	case protoLSQ:
		return s.handleLSQ(tag, m, raw)
	case protoLTM:
		return s.handleLTM(tag, m, raw)
	case protoLTS:
		if tag == localtxsubmission.MessageTypeDone {
			return nil, false
		}
		if tag != localtxsubmission.MessageTypeSubmitTx {
			s.odd("local-tx-submission: unexpected message %x", raw)
			return nil, false
		}
		body := m.At(1, 1)
		var tx []byte
		if body != nil && body.Kind == cborx.Tag && len(body.Items) == 1 {
			tx = body.Items[0].StringData()
		}
		era, _ := u(m.At(1, 0))
		s.ltsK++
		s.count("srv.lts.SubmitTx")
		h := ltsHash(era, tx)
		if h&1 == 1 {
			return []*cborx.Node{cborx.A(cborx.U(localtxsubmission.MessageTypeAcceptTx))}, true
		}
		reason := make([]byte, 16)
		binary.BigEndian.PutUint64(reason, h)
		binary.BigEndian.PutUint64(reason[8:], uint64(s.ltsK))
		return []*cborx.Node{cborx.A(cborx.U(localtxsubmission.MessageTypeRejectTx), cborx.B(reason))}, true
	case protoPS:
		if tag == peersharing.MessageTypeDone {
			return nil, false
		}
		amount, ok := u(m.At(1))
		if tag != peersharing.MessageTypeShareRequest || !ok {
			s.odd("peer-sharing: unexpected message %x", raw)
			return nil, false
		}
		s.psK++
		s.count("srv.ps.ShareRequest")
		var peers []*cborx.Node
		for i := uint64(0); i < amount; i++ {
			// the client reads the address as little-endian bytes
			addr := amount&0xff | (i&0xff)<<8 | uint64(s.psK&0xffff)<<16
			peers = append(peers, cborx.A(cborx.U(0), cborx.U(addr), cborx.U(uint64(s.psK&0xffff))))
		}
		return []*cborx.Node{cborx.A(cborx.U(peersharing.MessageTypeSharePeers), cborx.A(peers...))}, true
	}
	return nil, false // other mini-protocols of the connection: nothing to answer
}

func (s *server) handleLSQ(tag uint64, m *cborx.Node, raw []byte) ([]*cborx.Node, bool) {
	st := &s.lsq
	switch tag {
	case localstatequery.MessageTypeAcquire, localstatequery.MessageTypeAcquireVolatileTip, localstatequery.MessageTypeAcquireImmutableTip,
		localstatequery.MessageTypeReacquire, localstatequery.MessageTypeReacquireVolatileTip, localstatequery.MessageTypeReacquireImmutableTip:
		re := tag == localstatequery.MessageTypeReacquire || tag == localstatequery.MessageTypeReacquireVolatileTip || tag == localstatequery.MessageTypeReacquireImmutableTip
		if re != st.Acq {
			s.odd("local-state-query: message type %d while acquired=%v", tag, st.Acq)
		}
		fail := -1
		if tag == localstatequery.MessageTypeAcquire || tag == localstatequery.MessageTypeReacquire {
			if slot, ok := u(m.At(1, 0)); ok {
				switch slot % 4 {
				case 1:
					fail = localstatequery.AcquireFailurePointTooOld
				case 2:
					fail = localstatequery.AcquireFailurePointNotOnChain
				}
			}
		}
		if fail >= 0 {
			if re {
				s.mu.Lock()
				s.reacqKO++
				s.mu.Unlock()
			}
			st.Acq, st.Tag = false, 0
			s.count("srv.lsq.acquire_refused")
			return []*cborx.Node{cborx.A(cborx.U(localstatequery.MessageTypeFailure), cborx.U(uint64(fail)))}, true
		}
		st.Acq = true
		st.Epoch++
		flavour := uint32(flavVolatile)
		var slot uint64
		var hash []byte
		switch tag {
		case localstatequery.MessageTypeAcquireImmutableTip, localstatequery.MessageTypeReacquireImmutableTip:
			flavour = flavImmutable
		case localstatequery.MessageTypeAcquire, localstatequery.MessageTypeReacquire:
			flavour = flavPoint
			slot, _ = u(m.At(1, 0))
			if h := m.At(1, 1); h != nil {
				hash = h.StringData()
			}
		}
		st.Tag = lsqFlavourTag(flavour, re, slot, hash)
		if re {
			s.count("srv.lsq.reacquired." + flavName[flavour])
		} else {
			s.count("srv.lsq.acquired." + flavName[flavour])
		}
		return []*cborx.Node{cborx.A(cborx.U(localstatequery.MessageTypeAcquired))}, true
	case localstatequery.MessageTypeRelease:
		if !st.Acq {
			s.odd("local-state-query: Release while not acquired")
		}
		st.Acq, st.Tag = false, 0
		s.count("srv.lsq.release")
		return nil, false
	case localstatequery.MessageTypeDone:
		return nil, false
	case localstatequery.MessageTypeQuery:
		if !st.Acq {
			s.odd("local-state-query: Query while not acquired")
		}
		q := m.At(1)
		st.K++
		res := func(n *cborx.Node) ([]*cborx.Node, bool) {
			return []*cborx.Node{cborx.A(cborx.U(localstatequery.MessageTypeResult), n)}, true
		}
		q0, _ := u(q.At(0))
		s.count("srv.lsq.queries")
		plain := lsqValue(st.Tag, 0, st.Epoch, st.K)
		switch {
		case q != nil && len(q.Items) == 1 && q0 == localstatequery.QueryTypeSystemStart:
			s.count("srv.lsq.query.system_start")
			return res(cborx.A(cborx.U(2017), cborx.U(plain), cborx.U(0)))
		case q != nil && len(q.Items) == 1 && q0 == localstatequery.QueryTypeChainPoint:
			s.count("srv.lsq.query.chain_point")
			return res(cborx.A(cborx.U(plain), cborx.B(argBytes(plain, 32))))
		case q != nil && len(q.Items) == 1 && q0 == localstatequery.QueryTypeChainBlockNo:
			s.count("srv.lsq.query.block_no")
			return res(cborx.A(cborx.U(1), cborx.U(lsqValue(st.Tag, 0, st.Epoch, st.K))))
		case q != nil && len(q.Items) == 2 && q0 == localstatequery.QueryTypeBlock:
			b0, _ := u(q.At(1, 0))
			if b0 == localstatequery.QueryTypeHardFork {
				if hf, _ := u(q.At(1, 1, 0)); hf == localstatequery.QueryTypeHardForkEraHistory {
					// one era: [begin, end, params], the tag is the end slot
					s.count("srv.lsq.query.era_history")
					return res(cborx.A(cborx.A(
						cborx.A(cborx.U(0), cborx.U(0), cborx.U(0)),
						cborx.A(cborx.U(0), cborx.U(plain), cborx.U(uint64(st.K))),
						cborx.A(cborx.U(432000), cborx.U(1000), cborx.A(cborx.U(0), cborx.U(129600), cborx.A()), cborx.U(0)))))
				}
				s.count("srv.lsq.query.current_era")
				return res(cborx.U(uint64(lsqEra(st.K))))
			}
			era, _ := u(q.At(1, 1, 0))
			inner := q.At(1, 1, 1)
			it, _ := u(inner.At(0))
			v := lsqValue(st.Tag, uint32(era), st.Epoch, st.K)
			switch it {
			case localstatequery.QueryTypeShelleyEpochNo:
				s.count("srv.lsq.query.epoch_no")
				return res(cborx.A(cborx.U(v)))
			case localstatequery.QueryTypeShelleyStakeDelegDeposits:
				s.count("srv.lsq.query.deleg_deposits")
				set := inner.At(1)
				if set != nil && set.Kind == cborx.Tag {
					set = set.Items[0]
				}
				var kv []*cborx.Node
				if set != nil {
					for _, cred := range set.Items {
						kv = append(kv, cred.Clone(), cborx.U(v))
					}
				}
				return res(cborx.A(cborx.M(kv...)))
			}
		}
		s.odd("local-state-query: unknown query %x", raw)
		return res(cborx.Null())
	}
	s.odd("local-state-query: unexpected message %x", raw)
	return nil, false
}

func (s *server) handleLTM(tag uint64, m *cborx.Node, raw []byte) ([]*cborx.Node, bool) {
	st := &s.ltm
	need := func() {
		if !st.Acq {
			s.odd("local-tx-monitor: message type %d while not acquired", tag)
		}
	}
	switch tag {
	case localtxmonitor.MessageTypeDone:
		return nil, false
	case localtxmonitor.MessageTypeAcquire:
		st.Acq = true
		st.Epoch++
		st.Cursor, st.Has = 0, 0
		s.count("srv.ltm.acquire")
		return []*cborx.Node{cborx.A(cborx.U(localtxmonitor.MessageTypeAcquired), cborx.U(uint64(st.Epoch)))}, true
	case localtxmonitor.MessageTypeRelease:
		need()
		st.Acq = false
		s.count("srv.ltm.release")
		return nil, false
	case localtxmonitor.MessageTypeHasTx:
		need()
		st.K++
		s.count("srv.ltm.has_tx")
		s.count("srv.ltm.queries")
		var id []byte
		if n := m.At(1); n != nil {
			id = n.StringData()
		}
		st.Has = ltmHasTag(id)
		return []*cborx.Node{cborx.A(cborx.U(localtxmonitor.MessageTypeReplyHasTx), cborx.Bool(hash64(id)&1 == 1))}, true
	case localtxmonitor.MessageTypeNextTx:
		need()
		st.K++
		s.count("srv.ltm.next_tx")
		s.count("srv.ltm.queries")
		if st.Cursor >= 3 {
			return []*cborx.Node{cborx.A(cborx.U(localtxmonitor.MessageTypeReplyNextTx))}, true
		}
		tx := make([]byte, 12)
		binary.BigEndian.PutUint32(tx[0:], st.Epoch)
		binary.BigEndian.PutUint32(tx[4:], st.Cursor)
		binary.BigEndian.PutUint32(tx[8:], st.K)
		st.Cursor++
		return []*cborx.Node{cborx.A(cborx.U(localtxmonitor.MessageTypeReplyNextTx), cborx.A(cborx.U(6), cborx.T(24, cborx.B(tx))))}, true
	case localtxmonitor.MessageTypeGetSizes:
		need()
		st.K++
		s.count("srv.ltm.get_sizes")
		s.count("srv.ltm.queries")
		return []*cborx.Node{cborx.A(cborx.U(localtxmonitor.MessageTypeReplyGetSizes),
			cborx.A(cborx.U(uint64(st.Epoch&0xfff|st.Has<<12)), cborx.U(uint64(st.Cursor)), cborx.U(uint64(st.K))))}, true
	}
	s.odd("local-tx-monitor: unexpected message %x", raw)
	return nil, false
}

// ---------------------------------------------------------------- sequential models

type lsqState struct {
	Acq      bool
	Epoch, K uint32
	Tag      uint32 // flavour tag of the acquire in force (0 when not acquired)
}

func lsqFailOf(in input) int {
	if in.Kind == lsqAcqPoint {
		switch in.Arg % 4 {
		case 1:
			return localstatequery.AcquireFailurePointTooOld
		case 2:
			return localstatequery.AcquireFailurePointNotOnChain
		}
	}
	return -1
}

// lsqStep: an acquire call made while a state is held goes out as a
// re-acquire of the same flavour, otherwise as an acquire; every later query
// result must carry exactly that flavour (and point), the epoch it opened and
// the running query count. A query on a client that holds no state acquires
// the volatile tip first.
func lsqStep(state, inp, outp interface{}) []interface{} {
	s, in, out := state.(lsqState), inp.(input), outp.(output)
	nq := uint32(0) // queries the call sends
	switch in.Kind {
	case lsqBlockNo, lsqEraHistory, lsqSystemStart, lsqChainPoint:
		nq = 1
	case lsqEpochNo, lsqDeposits:
		nq = 2
	}
	released := lsqState{false, s.Epoch, s.K, 0}
	acquired := lsqState{true, s.Epoch + 1, s.K, lsqTagOfCall(in, s.Acq)}
	if out.St == stNoAnswer {
		// any prefix of the call's effects
		res := []interface{}{s}
		switch in.Kind {
		case lsqAcqVolatile, lsqAcqImmutable, lsqAcqPoint:
			if lsqFailOf(in) >= 0 {
				res = append(res, released)
			} else {
				res = append(res, acquired)
			}
		case lsqRelease:
			res = append(res, released)
		default:
			for _, b := range []lsqState{s, acquired} {
				for j := uint32(0); j <= nq; j++ {
					if b.Acq {
						res = append(res, lsqState{true, b.Epoch, b.K + j, b.Tag})
					}
				}
			}
		}
		return res
	}
	switch in.Kind {
	case lsqAcqVolatile, lsqAcqImmutable, lsqAcqPoint:
		f := lsqFailOf(in)
		if out.St == stAcqFail {
			if f >= 0 && uint64(f) == out.A {
				return []interface{}{released}
			}
			return nil
		}
		if f < 0 {
			return []interface{}{acquired}
		}
		return nil
	case lsqRelease:
		if out.St == stOK {
			return []interface{}{released}
		}
		return nil
	}
	if out.St != stOK {
		return nil
	}
	ftag, era, e, k := lsqUnpack(out.A)
	if k != s.K+nq {
		return nil
	}
	if nq == 1 && era != 0 || nq == 2 && era != lsqEra(k-1) {
		return nil
	}
	if in.Kind == lsqDeposits && out.B != in.Arg {
		return nil
	}
	// answered from the state in force ...
	if s.Acq && e == s.Epoch && ftag == s.Tag {
		return []interface{}{lsqState{true, e, k, ftag}}
	}
	// ... or after the call's own (volatile tip) acquire
	if e == acquired.Epoch && ftag == acquired.Tag {
		return []interface{}{lsqState{true, e, k, ftag}}
	}
	return nil
}

type ltmState struct {
	Acq              bool
	Epoch, Cursor, K uint32
	Has              uint32
}

func ltmStep(state, inp, outp interface{}) []interface{} {
	s, in, out := state.(ltmState), inp.(input), outp.(output)
	acquired := ltmState{true, s.Epoch + 1, 0, s.K, 0}
	released := ltmState{false, s.Epoch, s.Cursor, s.K, s.Has}
	// effect of the query itself on an acquired state
	after := func(b ltmState) ltmState {
		b.K++
		switch in.Kind {
		case ltmHasTx:
			b.Has = ltmHasTag(argBytes(in.Arg, 8))
		case ltmNextTx:
			if b.Cursor < 3 {
				b.Cursor++
			}
		}
		return b
	}
	if out.St == stNoAnswer {
		res := []interface{}{s}
		switch in.Kind {
		case ltmAcquire:
			res = append(res, acquired)
		case ltmRelease:
			res = append(res, released)
		default:
			for _, b := range []ltmState{s, acquired} {
				if b.Acq {
					res = append(res, b, after(b))
				}
			}
		}
		return res
	}
	if out.St != stOK {
		return nil
	}
	switch in.Kind {
	case ltmAcquire:
		return []interface{}{acquired}
	case ltmRelease:
		return []interface{}{released}
	}
	// a query is sent from the acquired state; a client that is not acquired
	// acquires first
	b := s
	if !s.Acq {
		b = acquired
	}
	ok := false
	switch in.Kind {
	case ltmHasTx:
		ok = (hash64(argBytes(in.Arg, 8))&1 == 1) == (out.A == 1) && out.A <= 1
	case ltmNextTx:
		if out.Empty {
			ok = b.Cursor >= 3
		} else {
			ok = b.Cursor < 3 && out.A == uint64(b.Epoch) && out.B == uint64(b.Cursor) && out.C == uint64(b.K+1)
		}
	case ltmSizes:
		ok = out.A == uint64(b.Epoch&0xfff|b.Has<<12) && out.B == uint64(b.Cursor) && out.C == uint64(b.K+1)
	}
	if ok {
		return []interface{}{after(b)}
	}
	return nil
}

type ctrState struct{ K uint32 }

func ltsStep(state, inp, outp interface{}) []interface{} {
	s, in, out := state.(ctrState), inp.(input), outp.(output)
	if out.St == stNoAnswer {
		return []interface{}{s, ctrState{s.K + 1}}
	}
	if out.St != stOK {
		return nil
	}
	h := ltsHash(uint64(ltsEra(in.Arg)), txBytes(in.Arg))
	if out.A == 1 { // accepted
		if h&1 == 1 {
			return []interface{}{ctrState{s.K + 1}}
		}
		return nil
	}
	if h&1 == 0 && out.B == h && out.C == uint64(s.K+1) {
		return []interface{}{ctrState{s.K + 1}}
	}
	return nil
}

func psStep(state, inp, outp interface{}) []interface{} {
	s, in, out := state.(ctrState), inp.(input), outp.(output)
	if out.St == stNoAnswer {
		return []interface{}{s, ctrState{s.K + 1}}
	}
	if out.St != stOK || out.A != in.Arg {
		return nil
	}
	if in.Arg == 0 || (out.B == in.Arg && out.C == uint64((s.K+1)&0xffff)) {
		return []interface{}{ctrState{s.K + 1}}
	}
	return nil
}

func describeOp(in, out interface{}) string {
	i, o := in.(input), out.(output)
	if i.Kind >= lsqBlockNo && i.Kind <= lsqChainPoint && o.St == stOK {
		ftag, era, e, k := lsqUnpack(o.A)
		re := ""
		if ftag&4 != 0 {
			re = "re-"
		}
		return fmt.Sprintf("%s(%#x) -> ok(served under %sacquire %s point-tag %#x, epoch %d, era %d, count %d, echo %#x)",
			i.Kind, i.Arg, re, flavName[ftag&3], ftag>>3, e, era, k, o.B)
	}
	return fmt.Sprintf("%s(%#x) -> %s", i.Kind, i.Arg, o)
}

func modelFor(id uint16) porcupine.Model {
	nm := porcupine.NondeterministicModel{DescribeOperation: describeOp}
	switch id {
	case protoLSQ:
		nm.Init = func() []interface{} { return []interface{}{lsqState{}} }
		nm.Step = lsqStep
	case protoLTM:
		nm.Init = func() []interface{} { return []interface{}{ltmState{}} }
		nm.Step = ltmStep
	case protoLTS:
		nm.Init = func() []interface{} { return []interface{}{ctrState{}} }
		nm.Step = ltsStep
	default:
		nm.Init = func() []interface{} { return []interface{}{ctrState{}} }
		nm.Step = psStep
	}
	return nm.ToModel()
}

// tagMismatch: the answer names another request than the one the call sent
// (decidable per call, without the model).
func tagMismatch(in input, out output) bool {
	if out.St != stOK {
		return false
	}
	switch in.Kind {
	case lsqDeposits:
		return out.B != in.Arg
	case ltmHasTx:
		return (hash64(argBytes(in.Arg, 8))&1 == 1) != (out.A == 1)
	case ltsSubmit:
		h := ltsHash(uint64(ltsEra(in.Arg)), txBytes(in.Arg))
		return (h&1 == 1) != (out.A == 1) || (out.A == 0 && out.B != h)
	case psGetPeers:
		return out.A != in.Arg || (in.Arg > 0 && out.B != in.Arg)
	}
	return false
}

// ---------------------------------------------------------------- clients

type clients struct {
	lsq *localstatequery.Client
	ltm *localtxmonitor.Client
	lts *localtxsubmission.Client
	ps  *peersharing.Client
}

func errOut(err error) output {
	s := err.Error()
	if len(s) > 80 {
		s = s[:80]
	}
	return output{St: stNoAnswer, Err: s}
}

// exec performs one call and turns its result into an output.
func (cl *clients) exec(in input) (out output) {
	if panicked, val, _ := core.Safely(func() { out = cl.exec1(in) }); panicked {
		return output{St: stNoAnswer, Err: fmt.Sprintf("panic: %v", val)}
	}
	return out
}

func (cl *clients) exec1(in input) output {
	acq := func(err error) output {
		switch {
		case err == nil:
			return output{}
		case errors.Is(err, localstatequery.ErrAcquireFailurePointTooOld):
			return output{St: stAcqFail, A: localstatequery.AcquireFailurePointTooOld}
		case errors.Is(err, localstatequery.ErrAcquireFailurePointNotOnChain):
			return output{St: stAcqFail, A: localstatequery.AcquireFailurePointNotOnChain}
		}
		return errOut(err)
	}
	switch in.Kind {
	case lsqAcqVolatile:
		return acq(cl.lsq.AcquireVolatileTip())
	case lsqAcqImmutable:
		return acq(cl.lsq.AcquireImmutableTip())
	case lsqAcqPoint:
		pt := pcommon.NewPoint(in.Arg, argBytes(in.Arg, 32))
		return acq(cl.lsq.Acquire(&pt))
	case lsqRelease:
		if err := cl.lsq.Release(); err != nil {
			return errOut(err)
		}
		return output{}
	case lsqBlockNo:
		v, err := cl.lsq.GetChainBlockNo()
		if err != nil {
			return acq(err)
		}
		return output{A: uint64(v)}
	case lsqEpochNo:
		v, err := cl.lsq.GetEpochNo()
		if err != nil {
			return acq(err)
		}
		return output{A: uint64(v)}
	case lsqEraHistory:
		h, err := cl.lsq.GetEraHistory()
		if err != nil {
			return acq(err)
		}
		if len(h) != 1 {
			return output{A: ^uint64(0)}
		}
		return output{A: uint64(h[0].End.SlotNo)}
	case lsqSystemStart:
		ss, err := cl.lsq.GetSystemStart()
		if err != nil {
			return acq(err)
		}
		return output{A: uint64(ss.Day)}
	case lsqChainPoint:
		pt, err := cl.lsq.GetChainPoint()
		if err != nil {
			return acq(err)
		}
		if string(pt.Hash) != string(argBytes(pt.Slot, 32)) {
			return output{A: ^uint64(0)}
		}
		return output{A: pt.Slot}
	case lsqDeposits:
		var cred localstatequery.StakeCredential
		copy(cred.Bytes[:], argBytes(in.Arg, 28))
		res, err := cl.lsq.GetStakeDelegDeposits([]localstatequery.StakeCredential{cred})
		if err != nil {
			return acq(err)
		}
		o := output{B: ^uint64(0)}
		if res != nil && len(*res) == 1 {
			for k, v := range *res {
				o.A = v
				if string(k.Bytes[:]) == string(argBytes(binary.BigEndian.Uint64(k.Bytes[:8]), 28)) {
					o.B = binary.BigEndian.Uint64(k.Bytes[:8])
				}
			}
		}
		return o
	case ltmAcquire:
		if err := cl.ltm.Acquire(); err != nil {
			return errOut(err)
		}
		return output{}
	case ltmRelease:
		if err := cl.ltm.Release(); err != nil {
			return errOut(err)
		}
		return output{}
	case ltmHasTx:
		b, err := cl.ltm.HasTx(argBytes(in.Arg, 8))
		if err != nil {
			return errOut(err)
		}
		if b {
			return output{A: 1}
		}
		return output{}
	case ltmNextTx:
		tx, err := cl.ltm.NextTx()
		if err != nil {
			return errOut(err)
		}
		if len(tx) == 0 {
			return output{Empty: true}
		}
		if len(tx) != 12 {
			return output{A: ^uint64(0)}
		}
		return output{A: uint64(binary.BigEndian.Uint32(tx[0:])), B: uint64(binary.BigEndian.Uint32(tx[4:])), C: uint64(binary.BigEndian.Uint32(tx[8:]))}
	case ltmSizes:
		a, b, c, err := cl.ltm.GetSizes()
		if err != nil {
			return errOut(err)
		}
		return output{A: uint64(a), B: uint64(b), C: uint64(c)}
	case ltsSubmit:
		err := cl.lts.SubmitTx(ltsEra(in.Arg), txBytes(in.Arg))
		if err == nil {
			return output{A: 1}
		}
		var rej localtxsubmission.TransactionRejectedError
		if errors.As(err, &rej) {
			o := output{B: ^uint64(0)}
			if n, perr := cborx.ParseExact(rej.ReasonCbor); perr == nil && n.Kind == cborx.Bytes && len(n.StringData()) == 16 {
				d := n.StringData()
				o.B, o.C = binary.BigEndian.Uint64(d), binary.BigEndian.Uint64(d[8:])
			}
			return o
		}
		return errOut(err)
	case psGetPeers:
		peers, err := cl.ps.GetPeers(uint8(in.Arg))
		if err != nil {
			return errOut(err)
		}
		o := output{A: uint64(len(peers))}
		for i, p := range peers {
			ip := p.IP.To4()
			if ip == nil {
				o.B = ^uint64(0)
				break
			}
			n, idx, k := uint64(ip[0]), int(ip[1]), uint64(ip[2])|uint64(ip[3])<<8
			if i == 0 {
				o.B, o.C = n, k
			}
			if n != o.B || idx != i || k != o.C || uint64(p.Port) != k {
				o.B = ^uint64(0) // addresses of more than one reply
				break
			}
		}
		return o
	}
	return output{St: stNoAnswer, Err: "unknown op"}
}

// ---------------------------------------------------------------- case generation

type planOp struct {
	In input
	// AfterOK: only perform when this goroutine's previous call was answered
	AfterOK bool
}

type casePlan struct {
	Kind      string   // lsq | ltm | lts | ps | ntc-mixed
	Protos    []uint16 // instances exercised
	G         int
	Ops       [][]planOp // per goroutine
	KillAfter int
	Slow      bool
	Repeat    string // query kind of the repetition block, if any
}

var caseKinds = []string{"lsq", "ltm", "lts", "ps", "ntc-mixed", "lsq", "ltm", "ps"}

func genOp(r *core.Rand, id uint16, g, seq int, salt uint64) input {
	arg := salt<<24 | uint64(g)<<16 | uint64(seq)
	switch id {
	case protoLSQ:
		switch x := r.Intn(100); {
		case x < 10:
			return input{lsqBlockNo, 0}
		case x < 20:
			return input{lsqEpochNo, 0}
		case x < 30:
			return input{lsqEraHistory, 0}
		case x < 38:
			return input{lsqSystemStart, 0}
		case x < 46:
			return input{lsqChainPoint, 0}
		case x < 62:
			return input{lsqDeposits, arg}
		case x < 74:
			return input{lsqAcqVolatile, 0}
		case x < 86:
			return input{lsqAcqImmutable, 0}
		default:
			// slot%4: 0 and 3 are acquired, 1 is refused as too old, 2 as not on
			// chain. A refused re-acquire makes the client unusable, so most
			// refusals are planned after a Release (see genCase).
			slot := arg << 2
			if r.Chance(1, 10) {
				slot |= uint64(r.Range(1, 2))
			} else if r.Bool() {
				slot |= 3
			}
			return input{lsqAcqPoint, slot}
		}
	case protoLTM:
		switch x := r.Intn(100); {
		case x < 40:
			return input{ltmHasTx, arg}
		case x < 65:
			return input{ltmNextTx, 0}
		case x < 85:
			return input{ltmSizes, 0}
		default:
			return input{ltmAcquire, 0}
		}
	case protoLTS:
		return input{ltsSubmit, arg}
	}
	return input{psGetPeers, uint64(r.Range(0, 12))}
}

func genCase(r *core.Rand, i int) *casePlan {
	p := &casePlan{Kind: caseKinds[i%len(caseKinds)]}
	switch p.Kind {
	case "lsq":
		p.Protos = []uint16{protoLSQ}
	case "ltm":
		p.Protos = []uint16{protoLTM}
	case "lts":
		p.Protos = []uint16{protoLTS}
	case "ps":
		p.Protos = []uint16{protoPS}
	default:
		p.Protos = []uint16{protoLSQ, protoLTM, protoLTS}
	}
	p.G = r.Range(1, 8)
	if r.Chance(1, 3) {
		p.G = 8
	}
	salt := r.Uint64() & 0xffffff
	total := r.Range(12, maxOpsProto) * len(p.Protos)
	perProto := map[uint16]int{}
	p.Ops = make([][]planOp, p.G)
	seq := 0
	// Repetition block (half of the cases with local-state-query): goroutine 0
	// issues the SAME query kind twice within one acquisition, again after a
	// re-acquire, and again after release + (implicit) acquire. Every answer
	// carries the sequence number of the query it answers, so an answer that is
	// served without a query of its own (a cached earlier reply) shows up.
	for _, id := range p.Protos {
		if id != protoLSQ || !r.Bool() {
			continue
		}
		k := lsqBlockNo + opKind(r.Intn(int(lsqChainPoint-lsqBlockNo)+1))
		q := func() planOp {
			seq++
			in := input{Kind: k}
			if k == lsqDeposits {
				in.Arg = salt<<24 | uint64(seq)
			}
			return planOp{In: in}
		}
		re := input{Kind: core.Pick(r, []opKind{lsqAcqVolatile, lsqAcqImmutable, lsqAcqPoint})}
		if re.Kind == lsqAcqPoint {
			seq++
			re.Arg = (salt<<24 | uint64(seq)) << 2
		}
		p.Ops[0] = append(p.Ops[0], q(), q(), planOp{In: re}, q(), planOp{In: input{lsqRelease, 0}, AfterOK: true}, q())
		perProto[id] += 6
		p.Repeat = k.String()
	}
	for n := 0; n < total; n++ {
		g := r.Intn(p.G)
		id := p.Protos[r.Intn(len(p.Protos))]
		if perProto[id] >= maxOpsProto-1 {
			continue
		}
		seq++
		in := genOp(r, id, g, seq, salt)
		p.Ops[g] = append(p.Ops[g], planOp{In: in})
		perProto[id]++
		// goroutine 0 is the only one that releases, directly after an
		// answered call of its own on the same protocol
		if g == 0 && r.Chance(1, 6) && perProto[id] < maxOpsProto-1 {
			switch {
			case id == protoLSQ && in.Kind >= lsqBlockNo:
				p.Ops[0] = append(p.Ops[0], planOp{In: input{lsqRelease, 0}, AfterOK: true})
				perProto[id]++
				if p.G <= 2 && r.Bool() && perProto[id] < maxOpsProto-1 {
					// an acquire that the server refuses, most likely from the idle state
					seq++
					slot := (salt<<24|uint64(seq))<<2 | uint64(r.Range(1, 2))
					p.Ops[0] = append(p.Ops[0], planOp{In: input{lsqAcqPoint, slot}, AfterOK: true})
					perProto[id]++
				}
			case id == protoLTM && in.Kind >= ltmHasTx:
				p.Ops[0] = append(p.Ops[0], planOp{In: input{ltmRelease, 0}, AfterOK: true})
				perProto[id]++
			}
		}
	}
	if p.Kind != "ps" && r.Chance(15, 100) {
		p.KillAfter = r.Range(4, total)
	}
	p.Slow = r.Chance(1, 4)
	return p
}

// ---------------------------------------------------------------- one case

type rec struct {
	G      int
	In     input
	Out    output
	Call   int64
	Return int64
	Done   bool
}


type connResult struct {
	conn *ouroboros.Connection
	err  error
}

var stalledCases atomic.Int64

func runCase(c *core.Ctx, i int, r *core.Rand) {
	if stalledCases.Load() >= maxStalled {
		return // see run(): the run is cut short and reported inconclusive
	}
	plan := genCase(r, i)
	c.Journal("C25 case %d kind=%s goroutines=%d kill=%d slow=%v", i, plan.Kind, plan.G, plan.KillAfter, plan.Slow)
	ntn := plan.Kind == "ps"

	a, b := rawpeer.Pipe()
	srv := &server{p: rawpeer.NewPeer(b, true), inbox: map[uint16][]byte{}, killAfter: plan.KillAfter,
		exited: make(chan struct{}), seen: map[string]int{}}
	if plan.Slow {
		srv.slow = r.Fork(77)
	}
	hs := make(chan error, 1)
	go func() {
		err := srv.handshake(ntn)
		hs <- err
		if err != nil {
			close(srv.exited)
			return
		}
		srv.loop()
	}()
	opts := []ouroboros.ConnectionOptionFunc{
		ouroboros.WithConnection(a), ouroboros.WithNetworkMagic(netMagic),
		ouroboros.WithLocalStateQueryConfig(localstatequery.NewConfig(
			localstatequery.WithAcquireTimeout(longTimeout), localstatequery.WithQueryTimeout(longTimeout))),
		ouroboros.WithLocalTxMonitorConfig(localtxmonitor.NewConfig(
			localtxmonitor.WithAcquireTimeout(longTimeout), localtxmonitor.WithQueryTimeout(longTimeout))),
		ouroboros.WithLocalTxSubmissionConfig(localtxsubmission.NewConfig(localtxsubmission.WithTimeout(longTimeout))),
		ouroboros.WithPeerSharingConfig(peersharing.NewConfig(peersharing.WithTimeout(longTimeout))),
	}
	if ntn {
		opts = append(opts, ouroboros.WithNodeToNode(true), ouroboros.WithPeerSharing(true))
	}
	cch := make(chan connResult, 1)
	go func() {
		oc, err := ouroboros.NewConnection(opts...)
		cch <- connResult{oc, err}
	}()
	var cr connResult
	wd := time.NewTimer(caseWatchdog)
	defer wd.Stop()
	select {
	case cr = <-cch:
	case <-wd.C:
		a.Close()
		b.Close()
		cr = <-cch
		if cr.conn != nil {
			cr.conn.Close()
		}
		c.Eval()
		c.Inconclusive(fmt.Sprintf("case %d: NewConnection did not return within the watchdog", i))
		return
	}
	hsErr := <-hs
	teardown := func() {
		if cr.conn != nil {
			cr.conn.Close()
		}
		a.Close()
		b.Close()
		if cr.conn != nil {
			for range cr.conn.ErrorChan() {
			}
		}
		<-srv.exited
	}
	if hsErr != nil || cr.err != nil || cr.conn == nil {
		teardown()
		c.Eval()
		c.Inconclusive(fmt.Sprintf("case %d: handshake failed: %v / %v", i, hsErr, cr.err))
		return
	}
	cl := &clients{}
	if ntn {
		if cr.conn.PeerSharing() == nil {
			teardown()
			c.Eval()
			c.Inconclusive(fmt.Sprintf("case %d: the connection has no peer-sharing protocol", i))
			return
		}
		cl.ps = cr.conn.PeerSharing().Client
	} else {
		cl.lsq, cl.ltm, cl.lts = cr.conn.LocalStateQuery().Client, cr.conn.LocalTxMonitor().Client, cr.conn.LocalTxSubmission().Client
	}

	// ---- the calls
	var clock atomic.Int64
	var recMu sync.Mutex // guards every rec of this case
	var all []*rec
	var completed atomic.Int64
	var wg sync.WaitGroup
	start := make(chan struct{})
	for g := 0; g < plan.G; g++ {
		wg.Add(1)
		go func(g int) {
			defer wg.Done()
			<-start
			prevOK := false
			for _, po := range plan.Ops[g] {
				if po.AfterOK && !prevOK {
					continue
				}
				rc := &rec{G: g, In: po.In}
				recMu.Lock()
				all = append(all, rc)
				rc.Call = clock.Add(1)
				recMu.Unlock()
				out := cl.exec(po.In)
				recMu.Lock()
				rc.Out = out
				rc.Return = clock.Add(1)
				rc.Done = true
				recMu.Unlock()
				completed.Add(1)
				prevOK = out.St == stOK
			}
		}(g)
	}
	close(start)
	done := make(chan struct{})
	go func() { wg.Wait(); close(done) }()
	// Watchdog (never a verdict): when no call has returned for stallWindow, or
	// the case runs longer than caseWatchdog, the connection is cut so that
	// blocked calls return a shutdown error.
	finished, stalled := false, false
	last, lastChange := int64(-1), time.Now()
	for !finished && !stalled {
		select {
		case <-done:
			finished = true
		case <-wd.C:
			stalled = true
		case <-time.After(500 * time.Millisecond):
			if n := completed.Load(); n != last {
				last, lastChange = n, time.Now()
			} else if time.Since(lastChange) > stallWindow {
				stalled = true
			}
		}
	}
	blocked := 0
	if stalled {
		stalledCases.Add(1)
		c.Count("cases_cut_by_the_watchdog", 1)
		a.Close()
		b.Close()
		select {
		case <-done:
			finished = true
		case <-time.After(5 * time.Second):
		}
	}
	if finished {
		teardown()
	} else {
		// callers that stay blocked even without a connection cannot be
		// stopped; they are left behind together with their connection
		go func() { <-done; teardown() }()
	}

	// ---- histories per protocol instance
	recMu.Lock()
	end := clock.Add(1)
	byProto := map[uint16][]*rec{}
	for _, rc := range all {
		cp := *rc
		if !cp.Done {
			blocked++
			cp.Out = output{St: stNoAnswer, Err: "call still blocked after the watchdog cut the connection"}
			cp.Return = end
		}
		id := protoOf(cp.In.Kind)
		byProto[id] = append(byProto[id], &cp)
	}
	recMu.Unlock()
	c.Count("calls_still_blocked_after_the_connection_was_cut", blocked)
	srv.mu.Lock()
	seenByServer := map[string]int{}
	for k, n := range srv.seen {
		c.Count(k, n)
		seenByServer[k] = n
	}
	if plan.Repeat != "" {
		c.Count("cases_with_repetition_block."+plan.Repeat, 1)
	}
	oddities := append([]string(nil), srv.oddity...)
	reacqKO := srv.reacqKO
	srv.mu.Unlock()
	c.Count("cases_"+plan.Kind, 1)
	if plan.KillAfter > 0 {
		c.Count("cases_with_connection_loss", 1)
	}
	if plan.Slow {
		c.Count("cases_with_delayed_replies", 1)
	}
	if reacqKO > 0 {
		c.Count("lsq_cases_with_refused_reacquire", 1)
	}
	c.Count("server_oddities", len(oddities))

	for _, id := range plan.Protos {
		ops := byProto[id]
		sort.Slice(ops, func(x, y int) bool { return ops[x].Call < ops[y].Call })
		seen := -1
		if finished {
			seen = seenByServer[requestCounter[id]]
		}
		judge(c, i, plan, id, ops, end, oddities, seen)
	}
}

// seqOf: the server-side sequence number an answer carries, if it carries one.
func seqOf(in input, out output) (uint64, bool) {
	if out.St != stOK {
		return 0, false
	}
	switch {
	case in.Kind >= lsqBlockNo && in.Kind <= lsqChainPoint:
		_, _, _, k := lsqUnpack(out.A)
		return uint64(k), out.A != ^uint64(0)
	case in.Kind == ltmNextTx && !out.Empty, in.Kind == ltmSizes:
		return out.C, true
	case in.Kind == ltsSubmit && out.A == 0:
		return out.C, true
	case in.Kind == psGetPeers && in.Arg > 0:
		return out.C, true
	}
	return 0, false
}

// requestsOf: how many requests of the counted class an answered call sends.
func requestsOf(k opKind) int {
	switch k {
	case lsqBlockNo, lsqEraHistory, lsqSystemStart, lsqChainPoint, ltmHasTx, ltmNextTx, ltmSizes, ltsSubmit, psGetPeers:
		return 1
	case lsqEpochNo, lsqDeposits:
		return 2
	}
	return 0
}

var requestCounter = map[uint16]string{protoLSQ: "srv.lsq.queries", protoLTM: "srv.ltm.queries", protoLTS: "srv.lts.SubmitTx", protoPS: "srv.ps.ShareRequest"}

// judge: requestsSeen is the number of query-class requests the server read
// for this protocol instance, or -1 when it is not known (server still running).
func judge(c *core.Ctx, i int, plan *casePlan, id uint16, ops []*rec, end int64, oddities []string, requestsSeen int) {
	c.Eval()
	name := protoName[id]
	if len(ops) == 0 {
		return
	}
	history := make([]porcupine.Operation, 0, len(ops))
	answered, noAnswer, mism := 0, 0, 0
	type ev struct {
		t    int64
		open int
	}
	var evs []ev
	// A call without an answer stays open to the end and may always be
	// linearized last with no effect, so those invoked after the last answer
	// was returned cannot influence the verdict; leaving them out keeps the
	// checker's state sets small after a connection loss.
	lastAnswer := int64(0)
	for _, rc := range ops {
		if rc.Out.St != stNoAnswer && rc.Return > lastAnswer {
			lastAnswer = rc.Return
		}
	}
	trimmed := 0
	reused, expectedRequests := 0, 0
	seqSeen := map[uint64]bool{}
	for _, rc := range ops {
		ret := rc.Return
		if rc.Out.St == stNoAnswer {
			ret = end // stays open to the end of the history
			noAnswer++
		} else {
			answered++
		}
		if tagMismatch(rc.In, rc.Out) {
			mism++
		}
		if q, ok := seqOf(rc.In, rc.Out); ok {
			if seqSeen[q] {
				reused++
			}
			seqSeen[q] = true
		}
		if rc.Out.St != stNoAnswer {
			expectedRequests += requestsOf(rc.In.Kind)
		}
		if rc.Out.St == stNoAnswer && rc.Call > lastAnswer {
			trimmed++
		} else {
			history = append(history, porcupine.Operation{ClientId: rc.G, Input: rc.In, Call: rc.Call, Output: rc.Out, Return: ret})
		}
		evs = append(evs, ev{rc.Call, 1}, ev{rc.Return, -1})
		st := "answered"
		switch rc.Out.St {
		case stNoAnswer:
			st = "error"
		case stAcqFail:
			st = "acquire_refused"
		}
		c.Count("op."+rc.In.Kind.String()+"."+st, 1)
	}
	sort.Slice(evs, func(x, y int) bool { return evs[x].t < evs[y].t })
	open, maxOpen := 0, 0
	var shape strings.Builder
	openAt := map[int64]int{}
	for _, e := range evs {
		open += e.open
		if open > maxOpen {
			maxOpen = open
		}
		if e.open > 0 {
			openAt[e.t] = open
		}
	}
	for _, rc := range ops {
		fmt.Fprintf(&shape, "%d:%d:%d:%d|", rc.G, rc.In.Kind, rc.Out.St, openAt[rc.Call])
	}
	c.Count(fmt.Sprintf("histories_max_concurrency_%d", maxOpen), 1)
	noteMax(c, maxOpen)

	// Bound the work of the checker: the number of calls that never return is
	// what makes its search expensive. On the unchanged library an unanswered
	// call is followed by unanswered calls only (the protocol has ended), so at
	// most one per goroutine survives the trimming above. If more than
	// maxUnanswered remain, only the prefix of the history up to the invocation
	// of the next one is checked; calls still running at that cut are pending
	// there, i.e. unanswered. A prefix of a linearizable history is
	// linearizable, so this never turns a legal history into an illegal one.
	const maxUnanswered = 10
	nUn, cut := 0, int64(0)
	for _, op := range history {
		if op.Output.(output).St == stNoAnswer {
			nUn++
			if nUn == maxUnanswered+1 {
				cut = op.Call
				break
			}
		}
	}
	if cut > 0 {
		var pre []porcupine.Operation
		for _, op := range history {
			if op.Call >= cut {
				continue
			}
			if op.Return > cut && op.Output.(output).St != stNoAnswer {
				op.Output = output{St: stNoAnswer, Err: "pending at the cut"}
				op.Return = end
			}
			pre = append(pre, op)
		}
		history = pre
		c.Count("histories_cut_to_a_prefix_for_the_checker", 1)
	}
	var res porcupine.CheckResult
	var info porcupine.LinearizationInfo
	// Every answered call puts requests of its own on the wire; when all calls
	// were answered the server must have read at least that many.
	notSent := 0
	if requestsSeen >= 0 && noAnswer == 0 {
		c.Count("histories_with_request_count_compared", 1)
		if requestsSeen < expectedRequests {
			notSent = expectedRequests - requestsSeen
		}
	}
	if mism > 0 || reused > 0 || notSent > 0 {
		// an answer that names another request, or the sequence number of a
		// request that another call's answer already carries, is refused by the
		// model in every state, and so is an answer without a request: no
		// linearization exists
		res = porcupine.Illegal
		c.Count("histories_refused_by_tag_check", 1)
	} else {
		res, info = porcupine.CheckOperationsVerbose(modelFor(id), history, 60*time.Second)
	}
	c.Count("porcupine_"+string(res), 1)
	c.Count("histories_checked_"+name, 1)
	c.Count("calls_answered", answered)
	c.Count("calls_without_answer", noAnswer)
	c.Count("calls_without_answer_after_the_last_answer", trimmed)
	c.Count("calls_given_to_the_checker", len(history))
	if answered >= 4 {
		c.Distinct(name, shape.String())
	}
	listing := func() []string {
		out := make([]string, 0, len(ops))
		for _, rc := range ops {
			ret := fmt.Sprint(rc.Return)
			if rc.Out.St == stNoAnswer {
				ret = "open"
			}
			out = append(out, fmt.Sprintf("g%d [%d,%s] %s", rc.G, rc.Call, ret, describeOp(rc.In, rc.Out)))
		}
		return out
	}
	if os.Getenv("VERIF_C25_DUMP") != "" {
		fmt.Fprintf(os.Stderr, "DUMP case %d %s res=%s answered=%d noanswer=%d\n%s\n", i, name, res, answered, noAnswer, strings.Join(listing(), "\n"))
	}
	if (i%23 == 0 || c.SampleN() < 2) && c.SampleN() < 6 && answered >= 6 {
		l := listing()
		if len(l) > 14 {
			l = append(l[:14], fmt.Sprintf("... %d more", len(l)-14))
		}
		c.Sample(map[string]any{"case": i, "kind": plan.Kind, "protocol": name, "goroutines": plan.G, "porcupine": string(res), "history": l})
	}
	switch res {
	case porcupine.Ok:
		if mism > 0 {
			// cannot happen: the model refuses every mismatching answer
			c.Violation("C25:oracle:model-accepted-mismatching-answer", "porcupine accepted a history with an answer that names another request", map[string]any{"history": listing()})
		}
	case porcupine.Unknown:
		c.Inconclusive(fmt.Sprintf("case %d %s: porcupine did not finish within 60 s (%d calls)", i, name, len(ops)))
	case porcupine.Illegal:
		class := "answer-out-of-order"
		switch {
		case mism > 0:
			class = "answer-of-another-request"
		case reused > 0 || notSent > 0:
			class = "answer-reused-without-a-request"
		}
		longest := -1
		if mism == 0 && reused == 0 && notSent == 0 {
			longest = 0
			for _, part := range info.PartialLinearizations() {
				for _, lin := range part {
					if len(lin) > longest {
						longest = len(lin)
					}
				}
			}
		}
		var bad []string
		for _, rc := range ops {
			if tagMismatch(rc.In, rc.Out) {
				bad = append(bad, fmt.Sprintf("g%d [%d,%d] %s", rc.G, rc.Call, rc.Return, describeOp(rc.In, rc.Out)))
			}
		}
		what := fmt.Sprintf("%s: the history of %d calls from %d goroutines is not linearizable against the tagging server (longest linearizable subset found by the checker: %d calls, -1 = checker not needed; %d answers name another request, %d answers repeat the sequence number of an earlier answer, %d requests fewer than the answered calls need were read by the server)",
			name, len(ops), plan.G, longest, mism, reused, notSent)
		if len(bad) > 0 {
			what += "; e.g. " + bad[0]
		}
		c.Violation("C25:"+name+":not-linearizable:"+class, what, map[string]any{
			"case": i, "kind": plan.Kind, "protocol": name, "goroutines": plan.G, "connection_lost_after_requests": plan.KillAfter,
			"delayed_replies": plan.Slow, "history": listing(), "mismatching_answers": bad, "longest_linearizable_prefix": longest,
			"answers_repeating_a_sequence_number": reused, "requests_missing_at_the_server": notSent,
			"server_oddities": oddities,
			"reading": "g<goroutine> [call stamp, return stamp] call -> answer; lsq results name the acquire flavour (and point) the server was serving, its epoch, the era and the query count; ltm NextTx (epoch,cursor,count), GetSizes (epoch|hash(last HasTx id)<<12,cursor,count); lts reject (hash(tx,era),count); ps (n,tag,count)",
		})
	}
}

var (
	maxMu   sync.Mutex
	maxConc int
)

func noteMax(c *core.Ctx, n int) {
	maxMu.Lock()
	if n > maxConc {
		maxConc = n
		c.Note("max_concurrent_calls_seen", n)
	}
	maxMu.Unlock()
}

// ---------------------------------------------------------------- run

func run(c *core.Ctx) {
	protocol.VerifSetPoint(func(name string, _ *protocol.Protocol) {
		if name == "recv.beforeHandle" || name == "send.afterDequeue" {
			runtime.Gosched()
		}
	})
	defer protocol.VerifSetPoint(nil)
	g0 := runtime.NumGoroutine()
	n := c.N(2000, 40000)
	workers := runtime.GOMAXPROCS(0)
	if workers > 12 {
		workers = 12
	}
	if only := os.Getenv("VERIF_C25_ONLY"); only != "" { // development aid
		var k int
		if _, err := fmt.Sscanf(only, "%d", &k); err == nil {
			runCase(c, k, c.Rand("case", k))
			return
		}
	}
	c.Parallel("case", n, workers, func(i int, r *core.Rand) { runCase(c, i, r) })
	if n := stalledCases.Load(); n >= maxStalled {
		for j := int64(0); j <= c.Evals()/50+1; j++ {
			c.Inconclusive(fmt.Sprintf("%d cases had to be cut by the stall watchdog (no call returned for %v); the remaining cases were not run", n, stallWindow))
		}
	}
	if c.Counter("porcupine_Ok") == 0 {
		for j := int64(0); j <= c.Evals()/50+1; j++ {
			c.Inconclusive("no history was accepted by the checker")
		}
	}
	m := runtime.NumGoroutine()
	for j := 0; j < 300 && m > g0+8; j++ {
		time.Sleep(10 * time.Millisecond)
		m = runtime.NumGoroutine()
	}
	c.Note("goroutines_before", g0)
	c.Note("goroutines_after", m)
}
