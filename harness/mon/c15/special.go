package c15

import (
	"bytes"
	"fmt"
	"os"
	"os/exec"
	"path/filepath"
	"strings"
	"time"

	ouroboros "github.com/blinklabs-io/gouroboros"

	"verifharness/core"
	"verifharness/netsim"
)

// special runs the scripts that are not a (call, behaviour) pair of the table.
func (r *runT) special() {
	switch r.sc.Special {
	case "unregister-race-then-peer-close":
		r.unregisterRace()
	default:
		r.teardown()
		r.inconclusive("unknown special scenario")
	}
}

// unregisterRace: block-fetch GetBlock is waiting for its batch; the peer sends
// one chain-sync segment; the muxer's read loop is held at the
// readLoop.afterLookup hook (it has looked the receiver up and has not yet
// locked it) while the application stops the chain-sync client, which
// unregisters the receiver; the read loop is released; the peer closes the
// connection. GetBlock must come back.
func (r *runT) unregisterRace() {
	cs := r.sc.Call
	r.startCall(cs.key(), func() (string, error) { return cs.Invoke(r.oc) })
	r.peer.note("the harness starts %s", cs.key())
	if !r.expect(idBlockFetch, cs.Conv[0].W) {
		r.teardown()
		r.inconclusive("RequestRange was not received")
		return
	}
	r.peer.note("stays silent on block-fetch")
	r.holdArmed.Store(true)
	r.peer.note("sends one chain-sync segment (AwaitReply, 8101)")
	r.peer.sendPayload(idChainSyncN, []byte{0x81, 0x01}, 0)
	select {
	case <-r.holdReached:
	case <-time.After(stepDog):
		r.holdArmed.Store(false)
		r.teardown()
		r.inconclusive("the muxer read loop did not reach the afterLookup hook")
		return
	}
	r.note("muxer read loop held at readLoop.afterLookup (receiver looked up, not yet locked)")
	stop := r.startCall("chainsync-ntn.Stop", func() (string, error) { return "", r.oc.ChainSync().Client.Stop() })
	r.peer.note("the harness calls ChainSync().Client.Stop()")
	if !r.waitFor(stop.isDone, stepDog) {
		close(r.holdRelease)
		r.teardown()
		r.inconclusive("chain-sync Stop() did not return while the read loop was held")
		return
	}
	close(r.holdRelease)
	r.note("read loop released after Stop() returned")
	// the Done message of Stop() must be on the wire (or dropped) before the
	// peer closes: a write that fails later would tell the library about the
	// closed connection through another path
	r.waitFor(func() bool {
		m, ok := r.peer.take(idChainSyncN)
		return ok && m.Typ == 7
	}, 5*time.Second)
	r.settleBrief()
	r.absorbedOut()
	r.peer.note("closes the connection")
	r.peer.close()
	r.judge(true)
}

// ------------------------------------------------------------------ sub-process scenarios

// Scripts that can end in a panic on a library goroutine run in a child
// process of their own (the monitor binary re-executed with VERIF_C15_SUB
// set), so that the panic is a finding of that script instead of the end of
// the whole run.
var subNames = []string{"txsubmission.ServerStartTwice"}

func subScenarios(c *core.Ctx) {
	for _, name := range subNames {
		c.Eval()
		c.Journal("C15 sub-process scenario %s", name)
		dir := filepath.Join(c.WorkDir, "sub-"+name)
		os.MkdirAll(dir, 0o755)
		cmd := exec.Command(os.Args[0], "-child", "C15", c.Tier)
		var out, errb bytes.Buffer
		cmd.Stdout, cmd.Stderr = &out, &errb
		cmd.Env = append(os.Environ(), "VERIF_C15_SUB="+name, "VERIF_DIR="+dir, "VERIF_REPO="+c.RepoDir,
			"GORACE=halt_on_error=0 log_path="+filepath.Join(dir, "race"), "GOTRACEBACK=all")
		done := make(chan error, 1)
		if err := cmd.Start(); err != nil {
			c.Inconclusive("sub-process " + name + ": " + err.Error())
			continue
		}
		go func() { done <- cmd.Wait() }()
		var werr error
		select {
		case werr = <-done:
		case <-time.After(120 * time.Second):
			cmd.Process.Kill()
			<-done
			c.Inconclusive("sub-process " + name + " did not finish within the watchdog")
			continue
		}
		text := errb.String()
		key := "C15:" + name + ":correct:panic"
		switch {
		case strings.Contains(out.String(), "SUB-OK"):
			c.Count("sub_ok", 1)
			c.Distinct("sub", name)
		case werr != nil && strings.Contains(text, "panic:") && strings.Contains(text, repoPrefix):
			c.Distinct("sub", name)
			c.Count("verdict:panic", 1)
			line, stack := "", []string{}
			lines := strings.Split(text, "\n")
			for i, l := range lines {
				if strings.HasPrefix(l, "panic:") {
					line = l
					for j := i; j < len(lines) && j < i+24; j++ {
						stack = append(stack, lines[j])
					}
					break
				}
			}
			c.Violation(key, "the process died in a library goroutine: "+line,
				map[string]any{"script": strings.Split(strings.TrimSpace(out.String()), "\n"), "panic": stack})
		default:
			c.Inconclusive(fmt.Sprintf("sub-process %s ended without a verdict (%v): %s", name, werr, tailOf(text, 300)))
		}
	}
}

func tailOf(s string, n int) string {
	if len(s) > n {
		return s[len(s)-n:]
	}
	return s
}

// runSub is the body of a sub-process.
func runSub(c *core.Ctx, name string) {
	switch name {
	case "txsubmission.ServerStartTwice":
		subStartTwice(c)
	}
}

// subStartTwice: a node-to-node server connection; the application calls
// TxSubmission().Server.Start() once more (every other Start in the library
// is idempotent); the peer closes the connection.
func subStartTwice(c *core.Ctx) {
	blk, err := loadBlock(c.RepoDir)
	if err != nil {
		fmt.Println("SUB-SKIP", err)
		return
	}
	msgs := buildMsgs(blk)
	var cs *callSpec
	for _, x := range buildCalls(msgs) {
		if x.key() == "txsubmission.RequestTxIds" {
			cs = x
		}
	}
	a, b := netsim.Pipe()
	wakeCh := make(chan struct{}, 1)
	peer := newRawEnd(b, false, func() {
		select {
		case wakeCh <- struct{}{}:
		default:
		}
	})
	go peer.readLoop()
	type cres struct {
		oc  *ouroboros.Connection
		err error
	}
	cch := make(chan cres, 1)
	go func() {
		oc, err := ouroboros.NewConnection(connOptions(cs, a, quietLogger(), longTimeout)...)
		cch <- cres{oc, err}
	}()
	v := versionFor(cs, tableVersions)
	hsErr := peer.handshake(cs.Mode, v, true, func(id uint16) (rmsg, bool) {
		for dl := time.Now().Add(stepDog); time.Now().Before(dl); {
			if m, ok := peer.take(id); ok {
				return m, true
			}
			select {
			case <-wakeCh:
			case <-time.After(20 * time.Millisecond):
			}
		}
		return rmsg{}, false
	})
	var cr cres
	select {
	case cr = <-cch:
	case <-time.After(stepDog):
		fmt.Println("SUB-SKIP NewConnection did not return")
		return
	}
	if cr.err != nil || hsErr != nil {
		fmt.Println("SUB-SKIP handshake failed", cr.err, hsErr)
		return
	}
	fmt.Println("node-to-node server connection established against the raw peer")
	go func() {
		for range cr.oc.ErrorChan() {
		}
	}()
	fmt.Println("the application calls TxSubmission().Server.Start() a second time")
	cr.oc.TxSubmission().Server.Start()
	time.Sleep(100 * time.Millisecond)
	fmt.Println("the peer closes the connection")
	b.Close()
	time.Sleep(300 * time.Millisecond)
	cr.oc.Close()
	// wait until the library's goroutines are gone; a double close panics here
	for i := 0; i < 400; i++ {
		time.Sleep(50 * time.Millisecond)
		if i >= 10 && len(census.take(time.Now(), false).nolbl) == 0 {
			break
		}
	}
	fmt.Println("SUB-OK")
}
