// Package c15 monitors C15: no call hangs and nothing leaks, whatever the
// peer does.
//
// A real ouroboros.Connection (client or server side, node-to-node /
// node-to-client / DMQ) runs over an in-memory connection against a raw peer
// that completes the handshake by hand and then follows a fault script. Every
// blocking API call runs in its own goroutine with a completion record, the
// harness drains ErrorChan, and all goroutines of a scenario carry a pprof
// label so that the goroutine census is per connection although scenarios run
// concurrently.
//
// Oracle, evaluated after the peer closed the connection (or the harness
// called Close): every API call has returned (value or error); Close()
// returned; ErrorChan is closed; no goroutine started by library code for the
// connection remains; no panic. "Has not returned" / "remains" are
// bounded-progress verdicts: only after a quiescence window (>= 20 s of wall
// time and >= 1500 heartbeat ticks of this process, no trace event, no byte
// moved, no change in the connection's goroutine set) and only when the
// goroutine dump shows every goroutine of the connection parked on a channel
// or lock. Anything else that runs out is inconclusive.
package c15

import (
	"encoding/json"
	"fmt"
	"os"
	"runtime"
	"sort"
	"strconv"
	"strings"
	"sync"
	"time"

	"github.com/blinklabs-io/gouroboros/protocol"

	"verifharness/cborx"
	"verifharness/core"
)

func init() {
	core.Register(&core.Monitor{
		ID:    "C15",
		Race:  true,
		Level: "fault_enumeration",
		Rule: "table of blocking API calls (chain-sync NtC/NtN Sync, GetCurrentTip, GetAvailableBlockRange, Stop; block-fetch GetBlock, GetBlockRange, Stop; tx-submission server RequestTxIds (blocking / non-blocking), RequestTxs; local-state-query Acquire, Release, GetCurrentEra, GetSystemStart, GetChainPoint, GetEpochNo; local-tx-monitor Acquire, HasTx, NextTx, GetSizes, Release; local-tx-submission SubmitTx; peer-sharing GetPeers; keep-alive client ping; serving chain-sync / block-fetch / keep-alive / peer-sharing responders incl. restart on Done; DMQ connect) " +
			"x peer behaviours, each applied at a reply position of the scripted correct conversation: correct; every OTHER message the library's own state map admits in that state; the reply twice; the last reply again after the conversation returned to idle; one / 600 unsolicited replies before the call; garbage (invalid CBOR, not an array, unknown message type, right type with wrong fields, empty array); a segment holding half a message; a zero-length segment; silence then close; close before the call and at every message boundary; close mid-segment and mid-header; Connection.Close() by the harness before the call / while the call waits; two-call histories per client object (first call steered to each outcome the peer can cause - success, every other admitted answer such as NoBlocks / Failure / RejectTx / IntersectNotFound, reply twice, garbage - then a second call of the same or another API of the same protocol, then peer close or Connection.Close() before the second request is on the wire / after it / after half its reply / after it was answered); plus special scripts (muxer unregister race held open with the afterLookup hook; Server.Start twice in a sub-process). " +
			"Quick: the first other-message at every reply position, the remaining classes at the last reply position, two close boundaries plus close before the call, timeouts alternating between one hour and 250 ms. Thorough: every position x every variant x both timeout settings x 3 repetitions, two of them with schedule perturbation at the protocol / muxer hook points. A scenario is non-trivial when the handshake completed and the oracle was evaluated to the end; distinct by (call, behaviour, timeout setting, perturbation)",
		MinNontrivial: 300,
		RaceAnchors:   []string{"(*Connection).shutdown", "(*Connection).Close", "protocol.(*Protocol).Stop", "muxer.(*Muxer).UnregisterProtocol", "txsubmission.(*Server).handleDone", "txsubmission.(*Server).Start"},
		Assumptions: []string{
			"the raw peer closes the connection (or the harness calls Close) at the end of every script; the oracle is evaluated after that",
			"a goroutine belongs to a connection when it carries the scenario's pprof label (labels are inherited by every goroutine started, directly or indirectly, from the goroutine that called NewConnection or an API call); goroutines the library starts from timers carry no label and are only seen by the final whole-process census",
			"a goroutine counts as started by the library when its outermost frame is a gouroboros function",
			"bounded-progress verdicts (hang, leak, close-hang, errorchan-open): quiescence window of 20 s wall time and 1500 heartbeat ticks with no trace event, no byte moved and an unchanged goroutine set, then a goroutine dump in which every goroutine of the connection is parked (chan / select / mutex / cond); state timers of one hour (long setting) cannot fire inside a run, the MustReply timeout of chain-sync NtN (135-269 s, not configurable) lies beyond the per-phase watchdog",
			"the in-memory connection ignores read deadlines (the muxer's 120 s segment read timeout never fires)",
			"after the peer closed the connection, ErrorChan is only required to be closed once Connection.Close() was called (whether the library closed it by itself is counted, not judged)",
		},
		QuickTimeout:    900,
		ThoroughTimeout: 3 * 3600,
		Run:             run,
	})
}

type garbageT struct {
	Name string
	Data func(typ uint) []byte
}

var garbages = []garbageT{
	{"unknown-type", func(uint) []byte { return []byte{0x81, 0x18, 0x63} }},
	{"invalid-cbor", func(uint) []byte { return []byte{0xff} }},
	{"not-an-array", func(uint) []byte { return []byte{0x01} }},
	{"wrong-fields", func(t uint) []byte {
		return cborx.A(cborx.U(uint64(t)), cborx.S("x"), cborx.S("y"), cborx.S("z"), cborx.S("w"), cborx.S("v")).Encode()
	}},
	{"empty-array", func(uint) []byte { return []byte{0x80} }},
}

// walk returns the state the library is in before each step of the
// conversation, following its own state map.
func walk(cs *callSpec) []protocol.State {
	if cs.Table == "" {
		return nil
	}
	sm, st := stateMapOf(cs.Table)
	init := st
	out := make([]protocol.State, 0, len(cs.Conv)+1)
	for _, s := range cs.Conv {
		out = append(out, st)
		nx, ok := nextState(sm, st, s.W.Typ)
		if !ok {
			panic(fmt.Sprintf("c15: %s: %s is not admitted in state %s of the library's state map", cs.key(), s.W.Name, st))
		}
		st = nx
		if cs.Restarts && sm[st].Agency == protocol.AgencyNone {
			st = init
		}
	}
	return append(out, st)
}

// behaviours enumerates the peer behaviours of one call.
func behaviours(cs *callSpec, msgs msgTable, thorough bool, callIdx int) []fault {
	var out []fault
	states := walk(cs)
	var sends []int
	for i, s := range cs.Conv {
		if !s.Recv {
			sends = append(sends, i)
		}
	}
	out = append(out, fault{Class: "correct", Pos: posPost})
	var sm protocol.StateMap
	if cs.Table != "" {
		sm, _ = stateMapOf(cs.Table)
	}
	for n, p := range sends {
		last := n == len(sends)-1
		w := cs.Conv[p].W
		st := states[p]
		alts := 0
		for _, t := range admitted(sm, st) {
			if t == w.Typ {
				continue
			}
			alt, ok := msgs[cs.Table][t]
			if !ok || alt.Data == nil {
				continue
			}
			if alts > 0 && !thorough {
				break
			}
			alts++
			out = append(out, fault{Class: "other", Pos: p, Alt: alt, State: st.String()})
		}
		if !last && !thorough {
			continue
		}
		out = append(out, fault{Class: "twice", Pos: p, Alt: wire{Name: w.Name}, State: st.String()})
		for gi, g := range garbages {
			if !thorough && gi != (callIdx+n)%len(garbages) {
				continue
			}
			out = append(out, fault{Class: "garbage", Pos: p, Variant: g.Name, Alt: wire{Data: g.Data(w.Typ)}, State: st.String()})
		}
		for _, c := range []string{"truncated", "zero", "silence", "midseg", "midhdr", "localclose"} {
			if c == "truncated" && len(w.Data) < 2 {
				continue
			}
			out = append(out, fault{Class: c, Pos: p, State: st.String()})
		}
	}
	// before the call
	flood := cs.Flood
	if flood.Name == "" && !cs.Server && len(sends) > 0 {
		flood = cs.Conv[sends[0]].W
	}
	if flood.Name != "" && cs.Invoke != nil {
		out = append(out, fault{Class: "unsolicited", Pos: posPre, Alt: flood})
		out = append(out, fault{Class: "flood", Pos: posPre, Alt: flood})
	}
	if cs.Invoke != nil {
		out = append(out, fault{Class: "localclose", Pos: posPre, State: "before-call"})
		out = append(out, fault{Class: "close", Pos: posPre, State: "before-call"})
		if thorough && cs.Table != "" {
			out = append(out, fault{Class: "garbage", Pos: posPre, Variant: garbages[0].Name, Alt: wire{Data: garbages[0].Data(0)}, State: "before-call"})
			out = append(out, fault{Class: "zero", Pos: posPre, State: "before-call"})
		}
	}
	// after the conversation
	if len(sends) > 0 && !cs.Server {
		w := cs.Conv[sends[len(sends)-1]].W
		out = append(out, fault{Class: "late", Pos: posPost, Alt: w})
	}
	// close at the message boundaries
	for k := 0; k <= len(cs.Conv); k++ {
		if !thorough && len(cs.Conv) > 1 && k != len(cs.Conv) && k != (len(cs.Conv)+1)/2 {
			continue
		}
		name := "at-end"
		if k < len(cs.Conv) {
			dir := "sending-"
			if cs.Conv[k].Recv {
				dir = "receiving-"
			}
			name = fmt.Sprintf("%d-before-%s%s", k, dir, cs.Conv[k].W.Name)
		}
		out = append(out, fault{Class: "close", Pos: k, State: name})
	}
	return out
}

func run(c *core.Ctx) {
	if sub := os.Getenv("VERIF_C15_SUB"); sub != "" {
		runSub(c, sub)
		return
	}
	blk, err := loadBlock(c.RepoDir)
	if err != nil {
		c.Inconclusive("corpus: " + err.Error())
		return
	}
	msgs := buildMsgs(blk)
	calls := buildCalls(msgs)
	thorough := c.Thorough()
	var scs []*scenario
	classCount := map[string]int{}
	table := 0
	add := func(s *scenario) {
		s.ID = len(scs)
		scs = append(scs, s)
	}
	byKey := map[string]*callSpec{}
	for ci, cs := range calls {
		byKey[cs.key()] = cs
		fs := behaviours(cs, msgs, thorough, ci)
		table += len(fs)
		for fi, f := range fs {
			classCount[f.Class]++
			if !thorough {
				add(&scenario{Call: cs, F: f, Short: (ci+fi)%2 == 1})
				continue
			}
			for rep := 0; rep < 3; rep++ {
				for _, short := range []bool{false, true} {
					add(&scenario{Call: cs, F: f, Short: short, Perturb: rep > 0, Rep: rep})
				}
			}
		}
	}
	// special scripts
	reps := c.N(1, 3)
	for rep := 0; rep < reps; rep++ {
		add(&scenario{Call: byKey["blockfetch.GetBlock"], Special: "unregister-race-then-peer-close", Rep: rep, Perturb: rep > 0})
	}
	// two-call histories
	hs := histories(calls, msgs, thorough)
	for _, s := range hs {
		add(s)
	}
	classCount["history"] = len(hs)
	table += len(hs)
	// order: the behaviours that can end in a quiescence window first, so that
	// their windows overlap with the rest of the run
	rank := func(s *scenario) int {
		switch {
		case s.Special != "":
			return 0
		case s.Hist != nil && (s.Call.Proto == "peersharing" || s.Call.Proto == "blockfetch"):
			return 1
		case s.F.Class == "other" || s.F.Class == "flood" || s.F.Class == "twice":
			return 1
		case s.Call.Mode == "dmq" || s.Call.Proto == "peersharing":
			return 2
		}
		return 3
	}
	sort.SliceStable(scs, func(i, j int) bool { return rank(scs[i]) < rank(scs[j]) })
	debugOnly := os.Getenv("VERIF_C15_ONLY") // development aid: run only the scenarios whose name contains this
	if debugOnly != "" {
		var keep []*scenario
		for _, s := range scs {
			b := s.F.key()
			if s.Special != "" {
				b = s.Special
			}
			if s.Hist != nil {
				b = s.Hist.key(s.F)
			}
			if strings.Contains(s.Call.key()+":"+b, debugOnly) {
				keep = append(keep, s)
			}
		}
		scs = keep
	}

	c.Note("calls", len(calls))
	c.Note("call_x_behaviour_table", table)
	c.Note("scenarios", len(scs))
	c.Note("behaviour_classes", classCount)
	var names []string
	for _, cs := range calls {
		names = append(names, cs.key())
	}
	c.Note("call_table", strings.Join(names, " "))

	startHeartbeat()
	installHooks()
	defer removeHooks()
	g0 := runtime.NumGoroutine()
	workers := 48
	if n := runtime.GOMAXPROCS(0) * 4; n < workers {
		workers = n
	}
	if workers < 16 {
		workers = 16
	}
	var logf *os.File
	if p := os.Getenv("VERIF_C15_LOG"); p != "" { // development aid: one JSON line per scenario
		logf, _ = os.Create(p)
		defer logf.Close()
	}
	var logMu sync.Mutex
	subDone := make(chan struct{})
	go func() {
		defer close(subDone)
		if debugOnly == "" || strings.Contains("sub-process", debugOnly) {
			subScenarios(c)
		}
	}()
	t0 := time.Now()
	c.Parallel("scn", len(scs), workers, func(i int, rnd *core.Rand) {
		sc := scs[i]
		r := &runT{c: c, sc: sc, label: strconv.Itoa(sc.ID), rnd: rnd, msgs: msgs}
		st := time.Now()
		r.run()
		if logf != nil {
			w := r.witness(map[string]any{"verdicts": r.verdicts, "wall_s": time.Since(st).Seconds(), "short": sc.Short})
			b, _ := json.Marshal(w)
			logMu.Lock()
			logf.Write(append(b, '\n'))
			logMu.Unlock()
		}
		if debugOnly != "" || (c.SampleN() < 6 && (sc.F.Class == "other" || sc.F.Class == "correct" || sc.F.Class == "midseg") && i%7 == 0) {
			c.Sample(r.witness(nil))
		}
	})
	c.Note("scenario_phase_s", time.Since(t0).Seconds())
	<-subDone

	// whole-process census: goroutines with library frames that carry no
	// scenario label (started from timers) must be gone as well
	var left []*group
	for i := 0; i < 60; i++ {
		s := census.take(time.Now(), false)
		left = s.nolbl
		if len(left) == 0 {
			break
		}
		time.Sleep(50 * time.Millisecond)
	}
	c.Note("goroutines_before", g0)
	c.Note("goroutines_after", runtime.NumGoroutine())
	c.Note("censuses_taken", census.taken.Load())
	c.Note("full_dumps_taken", census.fulls.Load())
	c.Note("heartbeat_ticks", heartbeat.Load())
	c.Note("unlabelled_library_goroutines_at_end", groupsText(left))
	if c.Counter("api_returned_value") == 0 || c.Counter("api_returned_error") == 0 || c.Counter("census_clean") == 0 {
		for i := int64(0); i <= c.Evals()/50+1; i++ {
			c.Inconclusive("the run never saw a call return a value, a call return an error and a clean census")
		}
	}
	if !thorough {
		// nothing
	} else {
		c.SetExhaustive()
	}
}
