package c15

import (
	"errors"
	"fmt"
	"sync"

	"verifharness/cborx"
	"verifharness/core"
	"verifharness/netsim"
	"verifharness/rawpeer"
)

// rawEnd is the scripted remote end: it speaks multiplexer segments and
// hand-built CBOR only (netsim segment codec, cborx, rawpeer's handshake
// builders) and shares no code with the library. A reader goroutine
// reassembles what the library sends into messages per protocol number.
type rawEnd struct {
	conn      *netsim.Conn
	responder bool // the direction flag on everything we send

	mu     sync.Mutex
	bufs   map[uint16][]byte
	msgs   map[uint16][]rmsg
	nmsgs  int
	eof    bool
	rerr   error
	wake   func()
	sendMu sync.Mutex
	acts   []string // what the peer did (witness)
}

type rmsg struct {
	Typ  int
	Data []byte
}

func newRawEnd(conn *netsim.Conn, responder bool, wake func()) *rawEnd {
	return &rawEnd{conn: conn, responder: responder, bufs: map[uint16][]byte{}, msgs: map[uint16][]rmsg{}, wake: wake}
}

func (p *rawEnd) note(f string, a ...any) {
	p.mu.Lock()
	if len(p.acts) < 80 {
		p.acts = append(p.acts, fmt.Sprintf(f, a...))
	}
	p.mu.Unlock()
}

func (p *rawEnd) actions() []string {
	p.mu.Lock()
	defer p.mu.Unlock()
	return append([]string(nil), p.acts...)
}

// readLoop runs until the connection ends.
func (p *rawEnd) readLoop() {
	for {
		seg, err := netsim.ReadSeg(p.conn)
		if err != nil {
			p.mu.Lock()
			p.eof, p.rerr = true, err
			p.mu.Unlock()
			p.wake()
			return
		}
		p.mu.Lock()
		buf := append(p.bufs[seg.Proto], seg.Payload...)
		for len(buf) > 0 {
			n, used, err := cborx.Parse(buf)
			if err != nil {
				if !errors.Is(err, cborx.ErrTruncated) {
					buf = nil // undecodable: drop (the library never sends that)
				}
				break
			}
			typ := -1
			if n.Kind == cborx.Array && len(n.Items) > 0 && n.Items[0].Kind == cborx.Uint {
				typ = int(n.Items[0].Arg)
			}
			p.msgs[seg.Proto] = append(p.msgs[seg.Proto], rmsg{typ, append([]byte(nil), buf[:used]...)})
			p.nmsgs++
			buf = buf[used:]
		}
		p.bufs[seg.Proto] = buf
		p.mu.Unlock()
		p.wake()
	}
}

// take removes and returns the oldest message received on proto.
func (p *rawEnd) take(proto uint16) (rmsg, bool) {
	p.mu.Lock()
	defer p.mu.Unlock()
	q := p.msgs[proto]
	if len(q) == 0 {
		return rmsg{}, false
	}
	p.msgs[proto] = q[1:]
	return q[0], true
}

func (p *rawEnd) ended() bool {
	p.mu.Lock()
	defer p.mu.Unlock()
	return p.eof
}

func (p *rawEnd) received() int {
	p.mu.Lock()
	defer p.mu.Unlock()
	return p.nmsgs
}

// sendPayload sends payload on proto, split into segments of at most split
// bytes (0 = one segment).
func (p *rawEnd) sendPayload(proto uint16, payload []byte, split int) error {
	p.sendMu.Lock()
	defer p.sendMu.Unlock()
	if split <= 0 || split > rawpeer.MaxPayload {
		split = rawpeer.MaxPayload
	}
	for first := true; first || len(payload) > 0; first = false {
		n := len(payload)
		if n > split {
			n = split
		}
		if _, err := p.conn.Write(netsim.EncodeSeg(proto, p.responder, payload[:n])); err != nil {
			return err
		}
		payload = payload[n:]
		if len(payload) == 0 {
			break
		}
	}
	return nil
}

func (p *rawEnd) sendRaw(b []byte) error {
	p.sendMu.Lock()
	defer p.sendMu.Unlock()
	_, err := p.conn.Write(b)
	return err
}

func (p *rawEnd) close() { p.conn.Close() }

// ------------------------------------------------------------------ handshake

func versionFor(cs *callSpec, versions func(string) []uint16) uint16 {
	vs := versions(cs.Mode)
	return vs[len(vs)-1]
}

func versionData(mode string, v uint16) *cborx.Node {
	switch mode {
	case "ntc":
		if v&0x7fff >= 15 {
			return rawpeer.VDNtC15(magic, false)
		}
		return rawpeer.VDNtC9to14(magic)
	case "dmq":
		return rawpeer.VDNtC15(magic, false)
	}
	if v <= 10 {
		return rawpeer.VDNtN7to10(magic, true)
	}
	ps := uint64(1)
	if v <= 12 {
		ps = 2
	}
	return rawpeer.VDNtN11(magic, true, ps, false)
}

// handshake completes the handshake by hand. It is called on the director's
// goroutine while NewConnection runs in another one; waitMsg is the
// director's wait for a message on protocol 0.
func (p *rawEnd) handshake(mode string, v uint16, libIsServer bool, waitMsg func(uint16) (rmsg, bool)) error {
	vd := versionData(mode, v)
	if libIsServer {
		prop := rawpeer.ProposeVersions(rawpeer.VersionEntry{Version: uint64(v), Data: vd})
		if err := p.sendPayload(idHandshake, prop.Encode(), 0); err != nil {
			return err
		}
		m, ok := waitMsg(idHandshake)
		if !ok {
			return errors.New("no answer to ProposeVersions")
		}
		n, err := cborx.ParseExact(m.Data)
		if err != nil {
			return err
		}
		hm, err := rawpeer.ParseHandshake(n)
		if err != nil {
			return err
		}
		if hm.Tag != rawpeer.HsAcceptVersion || hm.Version != uint64(v) {
			return fmt.Errorf("the server answered %s", n.Diag())
		}
		return nil
	}
	m, ok := waitMsg(idHandshake)
	if !ok {
		return errors.New("no ProposeVersions received")
	}
	n, err := cborx.ParseExact(m.Data)
	if err != nil {
		return err
	}
	offered, err := rawpeer.ParseProposeVersions(n)
	if err != nil {
		return err
	}
	found := false
	for _, e := range offered {
		found = found || e.Version == uint64(v)
	}
	if !found {
		return fmt.Errorf("version %#x was not proposed (%s)", v, core.Hex(m.Data))
	}
	return p.sendPayload(idHandshake, rawpeer.AcceptVersion(uint64(v), vd).Encode(), 0)
}
