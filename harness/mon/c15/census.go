package c15

import (
	"bytes"
	"regexp"
	"runtime"
	"runtime/pprof"
	"sort"
	"strconv"
	"strings"
	"sync"
	"sync/atomic"
	"time"
)

// The goroutine census. Every scenario runs under a pprof label
// ("c15scn" = scenario number); goroutines inherit the labels of the
// goroutine that started them, so everything the connection of a scenario
// starts carries its label, however many scenarios run at the same time. The
// labelled view comes from the goroutine profile in its debug=1 text form
// (stack groups with labels), the wait states come from runtime.Stack(all).

const (
	labelKey   = "c15scn"
	repoPrefix = "github.com/blinklabs-io/gouroboros"
	selfPrefix = "verifharness/mon/c15."
)

type frame struct {
	Func string
	Line string // file:line
}

// group is one stack shape of one scenario with its goroutine count.
type group struct {
	Count  int
	Frames []frame // innermost first, runtime.* frames removed
}

func (g *group) key() string {
	var b strings.Builder
	for _, f := range g.Frames {
		b.WriteString(f.Func)
		b.WriteByte('@')
		b.WriteString(f.Line)
		b.WriteByte(';')
	}
	return b.String()
}

// lib reports whether the goroutine was started by library code (its
// outermost frame is a gouroboros function).
func (g *group) lib() bool {
	if len(g.Frames) == 0 {
		return false
	}
	return strings.HasPrefix(g.Frames[len(g.Frames)-1].Func, repoPrefix)
}

// touchesLib: any frame inside gouroboros.
func (g *group) touchesLib() bool {
	for _, f := range g.Frames {
		if strings.HasPrefix(f.Func, repoPrefix) {
			return true
		}
	}
	return false
}

// innermostLib names the innermost gouroboros function (module prefix and
// "protocol/" stripped).
func (g *group) innermostLib() string {
	for _, f := range g.Frames {
		if strings.HasPrefix(f.Func, repoPrefix) {
			return stableName(f.Func, f.Line)
		}
	}
	return ""
}

var closureNo = regexp.MustCompile(`\.func\d+(\.\d+)*|\.gowrap\d+`)

// stableName names a library function for a finding key: package (from the
// file's directory) + receiver and method + ".func" for closures. Inlining
// prefixes ("(*Connection).setupConnection.(*Client).Start.func42.1") and
// closure numbers are dropped, so the name survives unrelated edits.
func stableName(fn, fileLine string) string {
	pkg := "gouroboros"
	file := fileLine
	if i := strings.LastIndexByte(file, ':'); i > 0 {
		file = file[:i]
	}
	if i := strings.LastIndexByte(file, '/'); i > 0 {
		dir := file[:i]
		if j := strings.LastIndexByte(dir, '/'); j >= 0 {
			d := dir[j+1:]
			switch d {
			case "protocol", "muxer", "connection", "cbor", "ledger", "pipeline":
				pkg = d
			default:
				if strings.Contains(dir, "/protocol/") || strings.Contains(dir, "/ledger/") {
					pkg = d
				}
			}
		}
	}
	tail := fn
	if i := strings.LastIndexByte(tail, '/'); i >= 0 {
		tail = tail[i+1:]
	}
	if i := strings.IndexByte(tail, '.'); i >= 0 {
		tail = tail[i+1:]
	}
	if i := strings.LastIndex(tail, "(*"); i > 0 {
		tail = tail[i:]
	}
	tail = closureNo.ReplaceAllString(tail, ".func")
	return pkg + "." + tail
}

func shortFunc(fn string) string {
	s := strings.TrimPrefix(fn, repoPrefix)
	s = strings.TrimPrefix(s, "/")
	s = strings.TrimPrefix(s, "protocol/")
	return s
}

func (g *group) text() string {
	var b strings.Builder
	b.WriteString(strconv.Itoa(g.Count))
	b.WriteString(" x")
	for _, f := range g.Frames {
		b.WriteString("\n  ")
		b.WriteString(strings.TrimPrefix(f.Func, repoPrefix+"/"))
		b.WriteString("  ")
		b.WriteString(shortPath(f.Line))
	}
	return b.String()
}

func shortPath(p string) string {
	if i := strings.Index(p, "/gouroboros/"); i >= 0 {
		return p[i+len("/gouroboros/"):]
	}
	if i := strings.LastIndex(p, "/harness/"); i >= 0 {
		return p[i+1:]
	}
	return p
}

// gstate is one goroutine of the full dump.
type gstate struct {
	ID     int
	State  string // "chan receive", "select", "runnable", ...
	Frames []frame
	Text   string
}

func (g *gstate) key() string {
	var b strings.Builder
	for _, f := range g.Frames {
		b.WriteString(f.Func)
		b.WriteByte('@')
		b.WriteString(f.Line)
		b.WriteByte(';')
	}
	return b.String()
}

// parked: waiting on a channel / mutex / condition, i.e. it can only go on
// when another goroutine acts. Sleeping, runnable, running, syscall and IO
// wait goroutines are not parked.
func (g *gstate) parked() bool {
	switch g.State {
	case "chan receive", "chan send", "select", "semacquire", "sync.Mutex.Lock", "sync.RWMutex.Lock",
		"sync.RWMutex.RLock", "sync.Cond.Wait", "sync.WaitGroup.Wait", "chan receive (nil chan)",
		"chan send (nil chan)", "select (no cases)":
		return true
	}
	return false
}

type snapshot struct {
	at     time.Time
	seq    uint64
	byScn  map[string][]*group // label value -> groups
	nolbl  []*group            // unlabelled groups that touch the library
	total  int
	full   map[string][]*gstate // stack key -> goroutines (only when withStates)
	byID   map[int]*gstate
	states bool
}

type censusT struct {
	mu    sync.Mutex
	last  *snapshot
	seq   uint64
	taken atomic.Int64
	fulls atomic.Int64
}

var census censusT

// take returns a snapshot taken after `after`. withStates also parses the
// full dump (wait states, goroutine ids).
func (c *censusT) take(after time.Time, withStates bool) *snapshot {
	c.mu.Lock()
	defer c.mu.Unlock()
	if c.last != nil && c.last.at.After(after) && (!withStates || c.last.states) {
		return c.last
	}
	s := &snapshot{byScn: map[string][]*group{}}
	var buf bytes.Buffer
	if withStates {
		// the full dump first: a goroutine that is parked in it and still in
		// the labelled profile taken afterwards was there at both instants
		s.full, s.byID = parseFull(fullDump())
		s.states = true
		c.fulls.Add(1)
	}
	s.at = time.Now()
	pprof.Lookup("goroutine").WriteTo(&buf, 1)
	parseProfile(buf.Bytes(), s)
	c.seq++
	s.seq = c.seq
	c.last = s
	c.taken.Add(1)
	return s
}

func fullDump() []byte {
	n := 1 << 20
	for {
		b := make([]byte, n)
		k := runtime.Stack(b, true)
		if k < n {
			return b[:k]
		}
		n *= 2
	}
}

// parseProfile reads the debug=1 goroutine profile.
func parseProfile(b []byte, s *snapshot) {
	blocks := strings.Split(string(b), "\n\n")
	for _, blk := range blocks {
		lines := strings.Split(strings.TrimSpace(blk), "\n")
		if len(lines) == 0 {
			continue
		}
		head := lines[0]
		if strings.HasPrefix(head, "goroutine profile:") {
			if len(lines) < 2 {
				continue
			}
			lines = lines[1:]
			head = lines[0]
		}
		at := strings.Index(head, " @")
		if at <= 0 {
			continue
		}
		cnt, err := strconv.Atoi(head[:at])
		if err != nil {
			continue
		}
		g := &group{Count: cnt}
		label := ""
		for _, l := range lines[1:] {
			if strings.HasPrefix(l, "# labels:") {
				// {"c15scn":"12"}
				if i := strings.Index(l, `"`+labelKey+`":"`); i >= 0 {
					rest := l[i+len(labelKey)+4:]
					if j := strings.IndexByte(rest, '"'); j >= 0 {
						label = rest[:j]
					}
				}
				continue
			}
			if !strings.HasPrefix(l, "#\t") {
				continue
			}
			f := strings.Split(l[2:], "\t")
			// 0xaddr, func+0xoff, (padding tabs), file:line
			if len(f) < 3 {
				continue
			}
			fn := f[1]
			if i := strings.LastIndex(fn, "+0x"); i > 0 {
				fn = fn[:i]
			}
			loc := f[len(f)-1]
			if strings.HasPrefix(fn, "runtime.") {
				continue
			}
			g.Frames = append(g.Frames, frame{fn, loc})
		}
		s.total += cnt
		if label != "" {
			s.byScn[label] = append(s.byScn[label], g)
		} else if g.touchesLib() {
			s.nolbl = append(s.nolbl, g)
		}
	}
}

// parseFull reads runtime.Stack(all).
func parseFull(b []byte) (map[string][]*gstate, map[int]*gstate) {
	out := map[string][]*gstate{}
	byID := map[int]*gstate{}
	for _, blk := range strings.Split(string(b), "\n\n") {
		blk = strings.TrimSpace(blk)
		if !strings.HasPrefix(blk, "goroutine ") {
			continue
		}
		lines := strings.Split(blk, "\n")
		head := lines[0]
		// goroutine 12 [chan receive, 2 minutes]:
		sp := strings.IndexByte(head[10:], ' ')
		if sp < 0 {
			continue
		}
		id, err := strconv.Atoi(head[10 : 10+sp])
		if err != nil {
			continue
		}
		st := ""
		if i := strings.IndexByte(head, '['); i >= 0 {
			st = head[i+1:]
			if j := strings.IndexAny(st, ",]"); j >= 0 {
				st = st[:j]
			}
		}
		g := &gstate{ID: id, State: st, Text: blk}
		for i := 1; i+1 < len(lines); i += 2 {
			fn := strings.TrimSpace(lines[i])
			if strings.HasPrefix(fn, "created by ") {
				break
			}
			if j := strings.LastIndexByte(fn, '('); j > 0 {
				fn = fn[:j]
			}
			loc := strings.TrimSpace(lines[i+1])
			if j := strings.Index(loc, " +0x"); j > 0 {
				loc = loc[:j]
			}
			if strings.HasPrefix(fn, "runtime.") {
				continue
			}
			g.Frames = append(g.Frames, frame{fn, loc})
		}
		k := g.key()
		out[k] = append(out[k], g)
		byID[id] = g
	}
	return out, byID
}

// goid returns the id of the calling goroutine.
func goid() int {
	var b [64]byte
	n := runtime.Stack(b[:], false)
	s := string(b[:n])
	s = strings.TrimPrefix(s, "goroutine ")
	if i := strings.IndexByte(s, ' '); i > 0 {
		id, _ := strconv.Atoi(s[:i])
		return id
	}
	return -1
}

// libGroups: the scenario's goroutines that were started by library code.
func (s *snapshot) libGroups(label string) []*group {
	var out []*group
	for _, g := range s.byScn[label] {
		if g.lib() {
			out = append(out, g)
		}
	}
	sort.Slice(out, func(i, j int) bool { return out[i].key() < out[j].key() })
	return out
}

// signature of everything the scenario has alive that touches the library
// (library goroutines and harness goroutines blocked inside library calls).
func (s *snapshot) signature(label string) string {
	var keys []string
	for _, g := range s.byScn[label] {
		if g.touchesLib() {
			keys = append(keys, strconv.Itoa(g.Count)+"*"+g.key())
		}
	}
	sort.Strings(keys)
	return strings.Join(keys, "|")
}

// allParked: every goroutine of the full dump whose stack equals one of the
// scenario's library-touching stacks is parked, and each of those stacks was
// found. (Stacks are matched by shape, so goroutines of other scenarios with
// the same shape are included: the test can only get stricter.)
func (s *snapshot) allParked(label string) (bool, string) {
	if !s.states {
		return false, "no state dump"
	}
	for _, g := range s.byScn[label] {
		if !g.touchesLib() {
			continue
		}
		gs := s.full[g.key()]
		if len(gs) < g.Count {
			return false, "stack not found in the full dump: " + g.text()
		}
		for _, x := range gs {
			if !x.parked() {
				return false, "goroutine " + strconv.Itoa(x.ID) + " is " + x.State + ": " + g.text()
			}
		}
	}
	return true, ""
}

// ------------------------------------------------------------------ heartbeat

// The heartbeat counts 10 ms ticks of a goroutine of this process. A
// quiescence window is only complete when enough ticks were counted, so a
// process that was stopped or starved does not let the window run out.
var heartbeat atomic.Int64

func startHeartbeat() {
	go func() {
		for {
			time.Sleep(10 * time.Millisecond)
			heartbeat.Add(1)
		}
	}()
}
