package c15

import (
	"fmt"
	"log/slog"
	"net"
	"time"

	ouroboros "github.com/blinklabs-io/gouroboros"
	"github.com/blinklabs-io/gouroboros/protocol"
	"github.com/blinklabs-io/gouroboros/protocol/blockfetch"
	"github.com/blinklabs-io/gouroboros/protocol/chainsync"
	pcommon "github.com/blinklabs-io/gouroboros/protocol/common"
	"github.com/blinklabs-io/gouroboros/protocol/keepalive"
	"github.com/blinklabs-io/gouroboros/protocol/localstatequery"
	"github.com/blinklabs-io/gouroboros/protocol/localtxmonitor"
	"github.com/blinklabs-io/gouroboros/protocol/localtxsubmission"
	"github.com/blinklabs-io/gouroboros/protocol/peersharing"
	"github.com/blinklabs-io/gouroboros/protocol/txsubmission"

	"verifharness/cborx"
)

// step is one move of the scripted (correct) conversation seen from the raw
// peer: Recv = wait for this message of the library, otherwise send it.
type step struct {
	Recv bool
	W    wire
}

// callSpec is one row of the call table.
type callSpec struct {
	Proto    string // "localtxmonitor"
	Name     string // "HasTx"
	Mode     string // ntc | ntn | dmq
	Server   bool   // the library side is the server (raw peer = initiator)
	ProtoID  uint16
	Table    string // key of the message table / state map ("" = none)
	Conv     []step
	InvokeAt int // the API call is started before Conv[InvokeAt]
	// Invoke is the blocking API call (nil: none, the connection itself is
	// the subject). It returns a short description of the value.
	Invoke func(oc *ouroboros.Connection) (string, error)
	// Inst returns the protocol instance the conversation runs on.
	Inst func(oc *ouroboros.Connection) *protocol.Protocol
	// Restarts: the library re-creates the protocol after a Done message.
	Restarts  bool
	KeepAlive bool
	// Flood is the unsolicited message used when Conv has no send step.
	Flood wire
}

func (cs *callSpec) key() string { return cs.Proto + "." + cs.Name }

func recv(w wire) step { return step{Recv: true, W: w} }
func send(w wire) step { return step{W: w} }
func sendAs(w wire, data *cborx.Node) step {
	return step{W: wire{w.Typ, w.Name, data.Encode()}}
}

var (
	thePoint = pcommon.NewPoint(4492800, hashA)
)

func buildCalls(m msgTable) []*callSpec {
	var out []*callSpec
	csc, csn := m["chainsync-ntc"], m["chainsync-ntn"]
	bf, tx := m["blockfetch"], m["txsubmission"]
	lsq, ltm, lts := m["localstatequery"], m["localtxmonitor"], m["localtxsubmission"]
	ps, ka := m["peersharing"], m["keepalive"]
	req := func(typ uint, name string) wire { return wire{Typ: typ, Name: name} }

	// ---------------------------------------------------------- chain-sync
	for _, v := range []struct {
		key  string
		mode string
		id   uint16
		t    map[uint]wire
	}{{"chainsync-ntc", "ntc", idChainSyncC, csc}, {"chainsync-ntn", "ntn", idChainSyncN, csn}} {
		t := v.t
		inst := func(oc *ouroboros.Connection) *protocol.Protocol { return oc.ChainSync().Client.ProtocolInstance() }
		out = append(out, &callSpec{Proto: v.key, Name: "Sync", Mode: v.mode, ProtoID: v.id, Table: v.key, Inst: inst,
			Conv: []step{recv(t[chainsync.MessageTypeFindIntersect]), send(t[chainsync.MessageTypeIntersectFound]),
				recv(t[chainsync.MessageTypeRequestNext]), send(t[chainsync.MessageTypeRollBackward])},
			Invoke: func(oc *ouroboros.Connection) (string, error) {
				return "", oc.ChainSync().Client.Sync([]pcommon.Point{thePoint})
			}})
		out = append(out, &callSpec{Proto: v.key, Name: "GetCurrentTip", Mode: v.mode, ProtoID: v.id, Table: v.key, Inst: inst,
			Conv: []step{recv(t[chainsync.MessageTypeFindIntersect]), send(t[chainsync.MessageTypeIntersectNotFound])},
			Invoke: func(oc *ouroboros.Connection) (string, error) {
				tip, err := oc.ChainSync().Client.GetCurrentTip()
				if tip != nil {
					return fmt.Sprintf("tip slot %d", tip.Point.Slot), err
				}
				return "", err
			}})
		if v.mode == "ntc" {
			out = append(out, &callSpec{Proto: v.key, Name: "GetAvailableBlockRange", Mode: v.mode, ProtoID: v.id, Table: v.key, Inst: inst,
				Conv: []step{recv(t[chainsync.MessageTypeFindIntersect]), send(t[chainsync.MessageTypeIntersectFound]),
					recv(t[chainsync.MessageTypeRequestNext]), send(t[chainsync.MessageTypeRollBackward]),
					recv(t[chainsync.MessageTypeRequestNext]), send(t[chainsync.MessageTypeRollForward])},
				Invoke: func(oc *ouroboros.Connection) (string, error) {
					s, e, err := oc.ChainSync().Client.GetAvailableBlockRange([]pcommon.Point{thePoint})
					return fmt.Sprintf("range %d..%d", s.Slot, e.Slot), err
				}})
			out = append(out, &callSpec{Proto: v.key, Name: "Stop", Mode: v.mode, ProtoID: v.id, Table: v.key, Inst: inst,
				Conv:  []step{recv(t[chainsync.MessageTypeDone])},
				Flood: t[chainsync.MessageTypeAwaitReply],
				Invoke: func(oc *ouroboros.Connection) (string, error) {
					return "", oc.ChainSync().Client.Stop()
				}})
		}
	}
	// ---------------------------------------------------------- local-state-query
	lsqInst := func(oc *ouroboros.Connection) *protocol.Protocol { return oc.LocalStateQuery().Client.Protocol }
	acq := req(localstatequery.MessageTypeAcquire, "Acquire")
	acqV := req(localstatequery.MessageTypeAcquireVolatileTip, "AcquireVolatileTip")
	qry := req(localstatequery.MessageTypeQuery, "Query")
	rel := req(localstatequery.MessageTypeRelease, "Release")
	res := lsq[localstatequery.MessageTypeResult]
	result := func(n *cborx.Node) step { return sendAs(res, cborx.A(cborx.U(4), n)) }
	lsqCall := func(name string, conv []step, f func(c *localstatequery.Client) (string, error)) {
		out = append(out, &callSpec{Proto: "localstatequery", Name: name, Mode: "ntc", ProtoID: idLocalState, Table: "localstatequery", Inst: lsqInst,
			Conv: conv, Invoke: func(oc *ouroboros.Connection) (string, error) { return f(oc.LocalStateQuery().Client) }})
	}
	lsqCall("Acquire", []step{recv(acq), send(lsq[localstatequery.MessageTypeAcquired])},
		func(c *localstatequery.Client) (string, error) { return "", c.Acquire(&thePoint) })
	lsqCall("Release", []step{recv(acq), send(lsq[localstatequery.MessageTypeAcquired]), recv(rel)},
		func(c *localstatequery.Client) (string, error) {
			if err := c.Acquire(&thePoint); err != nil {
				return "", err
			}
			return "", c.Release()
		})
	lsqCall("GetCurrentEra", []step{recv(acqV), send(lsq[localstatequery.MessageTypeAcquired]), recv(qry), result(cborx.U(6))},
		func(c *localstatequery.Client) (string, error) {
			e, err := c.GetCurrentEra()
			return fmt.Sprint("era ", e), err
		})
	lsqCall("GetSystemStart", []step{recv(acqV), send(lsq[localstatequery.MessageTypeAcquired]), recv(qry), result(cborx.A(cborx.U(2017), cborx.U(266), cborx.U(0)))},
		func(c *localstatequery.Client) (string, error) {
			r, err := c.GetSystemStart()
			if r != nil {
				return r.String(), err
			}
			return "", err
		})
	lsqCall("GetChainPoint", []step{recv(acqV), send(lsq[localstatequery.MessageTypeAcquired]), recv(qry), result(pointNode(tipSlot, hashB))},
		func(c *localstatequery.Client) (string, error) {
			p, err := c.GetChainPoint()
			if p != nil {
				return fmt.Sprint("slot ", p.Slot), err
			}
			return "", err
		})
	lsqCall("GetEpochNo", []step{recv(acqV), send(lsq[localstatequery.MessageTypeAcquired]), recv(qry), result(cborx.U(6)), recv(qry), result(cborx.A(cborx.U(507)))},
		func(c *localstatequery.Client) (string, error) {
			e, err := c.GetEpochNo()
			return fmt.Sprint("epoch ", e), err
		})
	// ---------------------------------------------------------- local-tx-monitor
	ltmInst := func(oc *ouroboros.Connection) *protocol.Protocol { return oc.LocalTxMonitor().Client.Protocol }
	mAcq := req(localtxmonitor.MessageTypeAcquire, "Acquire")
	mAcqd := ltm[localtxmonitor.MessageTypeAcquired]
	ltmCall := func(name string, conv []step, f func(c *localtxmonitor.Client) (string, error)) {
		out = append(out, &callSpec{Proto: "localtxmonitor", Name: name, Mode: "ntc", ProtoID: idLocalTxMon, Table: "localtxmonitor", Inst: ltmInst,
			Conv: conv, Invoke: func(oc *ouroboros.Connection) (string, error) { return f(oc.LocalTxMonitor().Client) }})
	}
	ltmCall("Acquire", []step{recv(mAcq), send(mAcqd)},
		func(c *localtxmonitor.Client) (string, error) { return "", c.Acquire() })
	ltmCall("HasTx", []step{recv(mAcq), send(mAcqd), recv(req(localtxmonitor.MessageTypeHasTx, "HasTx")), send(ltm[localtxmonitor.MessageTypeReplyHasTx])},
		func(c *localtxmonitor.Client) (string, error) {
			b, err := c.HasTx(hashA)
			return fmt.Sprint(b), err
		})
	ltmCall("NextTx", []step{recv(mAcq), send(mAcqd), recv(req(localtxmonitor.MessageTypeNextTx, "NextTx")), send(ltm[localtxmonitor.MessageTypeReplyNextTx])},
		func(c *localtxmonitor.Client) (string, error) {
			b, err := c.NextTx()
			return fmt.Sprintf("%d bytes", len(b)), err
		})
	ltmCall("GetSizes", []step{recv(mAcq), send(mAcqd), recv(req(localtxmonitor.MessageTypeGetSizes, "GetSizes")), send(ltm[localtxmonitor.MessageTypeReplyGetSizes])},
		func(c *localtxmonitor.Client) (string, error) {
			a, b, n, err := c.GetSizes()
			return fmt.Sprint(a, b, n), err
		})
	ltmCall("Release", []step{recv(mAcq), send(mAcqd), recv(req(localtxmonitor.MessageTypeRelease, "Release"))},
		func(c *localtxmonitor.Client) (string, error) {
			if err := c.Acquire(); err != nil {
				return "", err
			}
			return "", c.Release()
		})
	// ---------------------------------------------------------- local-tx-submission
	out = append(out, &callSpec{Proto: "localtxsubmission", Name: "SubmitTx", Mode: "ntc", ProtoID: idLocalTxSub, Table: "localtxsubmission",
		Inst: func(oc *ouroboros.Connection) *protocol.Protocol { return oc.LocalTxSubmission().Client.Protocol },
		Conv: []step{recv(req(localtxsubmission.MessageTypeSubmitTx, "SubmitTx")), send(lts[localtxsubmission.MessageTypeAcceptTx])},
		Invoke: func(oc *ouroboros.Connection) (string, error) {
			return "", oc.LocalTxSubmission().Client.SubmitTx(6, []byte{0x84, 0xa0, 0xa0, 0xf5, 0xf6})
		}})
	// ---------------------------------------------------------- block-fetch
	bfInst := func(oc *ouroboros.Connection) *protocol.Protocol { return oc.BlockFetch().Client.ProtocolInstance() }
	out = append(out, &callSpec{Proto: "blockfetch", Name: "GetBlock", Mode: "ntn", ProtoID: idBlockFetch, Table: "blockfetch", Inst: bfInst,
		Conv: []step{recv(bf[blockfetch.MessageTypeRequestRange]), send(bf[blockfetch.MessageTypeStartBatch]), send(bf[blockfetch.MessageTypeBlock]), send(bf[blockfetch.MessageTypeBatchDone])},
		Invoke: func(oc *ouroboros.Connection) (string, error) {
			b, err := oc.BlockFetch().Client.GetBlock(thePoint)
			if b != nil {
				return fmt.Sprint("block slot ", b.SlotNumber()), err
			}
			return "", err
		}})
	out = append(out, &callSpec{Proto: "blockfetch", Name: "GetBlockRange", Mode: "ntn", ProtoID: idBlockFetch, Table: "blockfetch", Inst: bfInst,
		Conv: []step{recv(bf[blockfetch.MessageTypeRequestRange]), send(bf[blockfetch.MessageTypeStartBatch]), send(bf[blockfetch.MessageTypeBlock]), send(bf[blockfetch.MessageTypeBatchDone])},
		Invoke: func(oc *ouroboros.Connection) (string, error) {
			return "", oc.BlockFetch().Client.GetBlockRange(thePoint, thePoint)
		}})
	out = append(out, &callSpec{Proto: "blockfetch", Name: "Stop", Mode: "ntn", ProtoID: idBlockFetch, Table: "blockfetch", Inst: bfInst,
		Conv:  []step{recv(bf[blockfetch.MessageTypeClientDone])},
		Flood: bf[blockfetch.MessageTypeBatchDone],
		Invoke: func(oc *ouroboros.Connection) (string, error) {
			return "", oc.BlockFetch().Client.Stop()
		}})
	// ---------------------------------------------------------- peer-sharing, keep-alive
	out = append(out, &callSpec{Proto: "peersharing", Name: "GetPeers", Mode: "ntn", ProtoID: idPeerSharing, Table: "peersharing",
		Inst: func(oc *ouroboros.Connection) *protocol.Protocol { return oc.PeerSharing().Client.Protocol },
		Conv: []step{recv(ps[peersharing.MessageTypeShareRequest]), send(ps[peersharing.MessageTypeSharePeers])},
		Invoke: func(oc *ouroboros.Connection) (string, error) {
			p, err := oc.PeerSharing().Client.GetPeers(3)
			return fmt.Sprintf("%d peers", len(p)), err
		}})
	out = append(out, &callSpec{Proto: "keepalive", Name: "ClientPing", Mode: "ntn", ProtoID: idKeepAlive, Table: "keepalive", KeepAlive: true,
		Inst: func(oc *ouroboros.Connection) *protocol.Protocol { return oc.KeepAlive().Client.Protocol },
		Conv: []step{recv(ka[keepalive.MessageTypeKeepAlive]), send(ka[keepalive.MessageTypeKeepAliveResponse])}})
	// ---------------------------------------------------------- server side
	txInst := func(oc *ouroboros.Connection) *protocol.Protocol { return oc.TxSubmission().Server.ProtocolInstance() }
	out = append(out, &callSpec{Proto: "txsubmission", Name: "RequestTxIds", Mode: "ntn", Server: true, ProtoID: idTxSub, Table: "txsubmission", Inst: txInst, InvokeAt: 1, Restarts: true,
		Conv: []step{send(tx[txsubmission.MessageTypeInit]), recv(tx[txsubmission.MessageTypeRequestTxIds]), send(tx[txsubmission.MessageTypeReplyTxIds])},
		Invoke: func(oc *ouroboros.Connection) (string, error) {
			ids, err := oc.TxSubmission().Server.RequestTxIds(true, 3)
			return fmt.Sprintf("%d ids", len(ids)), err
		}})
	out = append(out, &callSpec{Proto: "txsubmission", Name: "RequestTxIdsNonBlocking", Mode: "ntn", Server: true, ProtoID: idTxSub, Table: "txsubmission", Inst: txInst, InvokeAt: 1, Restarts: true,
		Conv: []step{send(tx[txsubmission.MessageTypeInit]), recv(tx[txsubmission.MessageTypeRequestTxIds]), send(tx[txsubmission.MessageTypeReplyTxIds])},
		Invoke: func(oc *ouroboros.Connection) (string, error) {
			ids, err := oc.TxSubmission().Server.RequestTxIds(false, 3)
			return fmt.Sprintf("%d ids", len(ids)), err
		}})
	out = append(out, &callSpec{Proto: "txsubmission", Name: "RequestTxs", Mode: "ntn", Server: true, ProtoID: idTxSub, Table: "txsubmission", Inst: txInst, InvokeAt: 1, Restarts: true,
		Conv: []step{send(tx[txsubmission.MessageTypeInit]), recv(tx[txsubmission.MessageTypeRequestTxs]), send(tx[txsubmission.MessageTypeReplyTxs])},
		Invoke: func(oc *ouroboros.Connection) (string, error) {
			var id txsubmission.TxId
			id.EraId = 6
			copy(id.TxId[:], hashA)
			txs, err := oc.TxSubmission().Server.RequestTxs([]txsubmission.TxId{id})
			return fmt.Sprintf("%d txs", len(txs)), err
		}})
	out = append(out, &callSpec{Proto: "chainsync-ntn", Name: "Serve", Mode: "ntn", Server: true, ProtoID: idChainSyncN, Table: "chainsync-ntn", Restarts: true,
		Inst: func(oc *ouroboros.Connection) *protocol.Protocol { return oc.ChainSync().Server.ProtocolInstance() },
		Conv: []step{send(csn[chainsync.MessageTypeFindIntersect]), recv(csn[chainsync.MessageTypeIntersectFound]),
			send(csn[chainsync.MessageTypeRequestNext]), recv(csn[chainsync.MessageTypeRollBackward]), send(csn[chainsync.MessageTypeDone])}})
	out = append(out, &callSpec{Proto: "blockfetch", Name: "Serve", Mode: "ntn", Server: true, ProtoID: idBlockFetch, Table: "blockfetch", Restarts: true,
		Inst: func(oc *ouroboros.Connection) *protocol.Protocol { return oc.BlockFetch().Server.ProtocolInstance() },
		Conv: []step{send(bf[blockfetch.MessageTypeRequestRange]), recv(bf[blockfetch.MessageTypeNoBlocks]), send(bf[blockfetch.MessageTypeClientDone])}})
	out = append(out, &callSpec{Proto: "keepalive", Name: "Serve", Mode: "ntn", Server: true, ProtoID: idKeepAlive, Table: "keepalive",
		Inst: func(oc *ouroboros.Connection) *protocol.Protocol { return oc.KeepAlive().Server.Protocol },
		Conv: []step{send(ka[keepalive.MessageTypeKeepAlive]), recv(ka[keepalive.MessageTypeKeepAliveResponse]), send(ka[keepalive.MessageTypeDone])}})
	out = append(out, &callSpec{Proto: "peersharing", Name: "Serve", Mode: "ntn", Server: true, ProtoID: idPeerSharing, Table: "peersharing", Restarts: true,
		Inst: func(oc *ouroboros.Connection) *protocol.Protocol { return oc.PeerSharing().Server.ProtocolInstance() },
		Conv: []step{send(ps[peersharing.MessageTypeShareRequest]), recv(ps[peersharing.MessageTypeSharePeers]), send(ps[peersharing.MessageTypeDone])}})
	// ---------------------------------------------------------- DMQ
	out = append(out, &callSpec{Proto: "dmq", Name: "Connect", Mode: "dmq", ProtoID: 14})
	return out
}

// ------------------------------------------------------------------ options

const (
	magic        = uint32(764824073)
	longTimeout  = time.Hour
	shortTimeout = 250 * time.Millisecond
)

func quietLogger() *slog.Logger {
	return slog.New(slog.NewTextHandler(discard{}, &slog.HandlerOptions{Level: slog.LevelError + 8}))
}

type discard struct{}

func (discard) Write(p []byte) (int, error) { return len(p), nil }

// connOptions builds the connection options of one scenario. T is the state
// timeout given to every client config that has one.
func connOptions(cs *callSpec, conn net.Conn, lg *slog.Logger, T time.Duration) []ouroboros.ConnectionOptionFunc {
	tipv := chainsync.Tip{Point: pcommon.NewPoint(tipSlot, hashB), BlockNumber: tipBlock}
	csCfg := chainsync.NewConfig(
		chainsync.WithIntersectTimeout(T), chainsync.WithBlockTimeout(T),
		chainsync.WithRollForwardFunc(func(chainsync.CallbackContext, uint, any, chainsync.Tip) error { return nil }),
		chainsync.WithRollBackwardFunc(func(chainsync.CallbackContext, pcommon.Point, chainsync.Tip) error { return nil }),
		chainsync.WithFindIntersectFunc(func(_ chainsync.CallbackContext, pts []pcommon.Point) (pcommon.Point, chainsync.Tip, error) {
			return thePoint, tipv, nil
		}),
		chainsync.WithRequestNextFunc(func(ctx chainsync.CallbackContext) error {
			return ctx.Server.RollBackward(thePoint, tipv)
		}),
	)
	bfCfg, _ := blockfetch.NewConfig(
		blockfetch.WithBatchStartTimeout(T), blockfetch.WithBlockTimeout(T),
		blockfetch.WithBlockRawFunc(func(blockfetch.CallbackContext, uint, []byte) error { return nil }),
		blockfetch.WithBatchDoneFunc(func(blockfetch.CallbackContext) error { return nil }),
		blockfetch.WithRequestRangeFunc(func(ctx blockfetch.CallbackContext, _, _ pcommon.Point) error {
			return ctx.Server.NoBlocks()
		}),
	)
	txCfg := txsubmission.NewConfig(
		txsubmission.WithInitFunc(func(txsubmission.CallbackContext) error { return nil }),
		txsubmission.WithRequestTxIdsFunc(func(txsubmission.CallbackContext, bool, uint16, uint16) ([]txsubmission.TxIdAndSize, error) {
			return nil, nil
		}),
		txsubmission.WithRequestTxsFunc(func(txsubmission.CallbackContext, []txsubmission.TxId) ([]txsubmission.TxBody, error) {
			return nil, nil
		}),
	)
	lsqCfg := localstatequery.NewConfig(localstatequery.WithAcquireTimeout(T), localstatequery.WithQueryTimeout(T))
	ltmCfg := localtxmonitor.NewConfig(localtxmonitor.WithAcquireTimeout(T), localtxmonitor.WithQueryTimeout(T))
	ltsCfg := localtxsubmission.NewConfig(localtxsubmission.WithTimeout(T))
	psCfg := peersharing.NewConfig(peersharing.WithTimeout(T),
		peersharing.WithShareRequestFunc(func(peersharing.CallbackContext, int) ([]peersharing.PeerAddress, error) {
			return []peersharing.PeerAddress{{IP: net.IPv4(10, 0, 0, 1), Port: 3001}}, nil
		}))
	kaCfg := keepalive.NewConfig(keepalive.WithTimeout(T), keepalive.WithPeriod(time.Hour), keepalive.WithCookie(cookieVal))
	return []ouroboros.ConnectionOptionFunc{
		ouroboros.WithConnection(conn),
		ouroboros.WithNetworkMagic(magic),
		ouroboros.WithServer(cs.Server),
		ouroboros.WithNodeToNode(cs.Mode == "ntn"),
		ouroboros.WithDMQ(cs.Mode == "dmq"),
		ouroboros.WithPeerSharing(cs.Mode == "ntn"),
		ouroboros.WithKeepAlive(cs.KeepAlive),
		ouroboros.WithLogger(lg),
		ouroboros.WithChainSyncConfig(csCfg),
		ouroboros.WithBlockFetchConfig(bfCfg),
		ouroboros.WithTxSubmissionConfig(txCfg),
		ouroboros.WithLocalStateQueryConfig(lsqCfg),
		ouroboros.WithLocalTxMonitorConfig(ltmCfg),
		ouroboros.WithLocalTxSubmissionConfig(ltsCfg),
		ouroboros.WithPeerSharingConfig(psCfg),
		ouroboros.WithKeepAliveConfig(kaCfg),
	}
}
