package c15

import (
	"context"
	"fmt"
	"log/slog"
	"runtime"
	"runtime/pprof"
	"sort"
	"strconv"
	"strings"
	"sync"
	"sync/atomic"
	"time"

	ouroboros "github.com/blinklabs-io/gouroboros"
	"github.com/blinklabs-io/gouroboros/muxer"
	"github.com/blinklabs-io/gouroboros/protocol"

	"verifharness/core"
	"verifharness/netsim"
)

// Positions of a fault that is not tied to a send step of the conversation.
const (
	posPre  = -1 // just before the API call is started
	posPost = -2 // after the conversation ended and the call returned
)

// fault is one peer behaviour.
type fault struct {
	Class   string // see behaviours() in c15.go
	Pos     int    // index into Conv (send step / boundary for "close"), posPre, posPost
	Alt     wire   // the message sent instead / in addition
	Variant string // garbage variant
	State   string // state the library is in at Pos (predicted from its state map)
}

type scenario struct {
	ID      int
	Call    *callSpec
	F       fault
	Short   bool // short state timeouts (otherwise one hour)
	Perturb bool
	Special string // "" or the name of a special scenario
	Hist    *histT // two-call history (hist.go)
	Rep     int    // repetition (thorough: seeds)
}

func (f fault) key() string {
	k := f.Class
	if f.Variant != "" {
		k += ":" + f.Variant
	}
	if f.Alt.Name != "" {
		k += ":" + f.Alt.Name
	}
	if f.State != "" {
		k += "@" + f.State
	}
	return k
}

// ------------------------------------------------------------------ timing

// None of these decides a verdict by itself: a "has not returned" verdict
// needs the quiescence window AND an all-parked goroutine dump; everything
// else that runs out is inconclusive.
var (
	window       = 20 * time.Second // quiescence window of a bounded-progress verdict
	minTicks     = int64(1500)      // heartbeat ticks (10 ms) that must have been counted in the window
	phaseDog     = 150 * time.Second
	stepDog      = 40 * time.Second // the library's next request / NewConnection
	settleLong   = 300 * time.Millisecond
	settleShort  = 1200 * time.Millisecond
	settleMax    = 8 * time.Second
	slowPollTick = 250 * time.Millisecond
	floodCount   = 600
)

// ------------------------------------------------------------------ run state

type callRec struct {
	Name     string
	goid     atomic.Int64
	mu       sync.Mutex
	started  bool
	done     bool
	result   string
	err      string
	panicked string
}

func (c *callRec) isDone() bool {
	if c == nil {
		return true
	}
	c.mu.Lock()
	defer c.mu.Unlock()
	return c.done
}

func (c *callRec) view() map[string]any {
	c.mu.Lock()
	defer c.mu.Unlock()
	return map[string]any{"call": c.Name, "returned": c.done, "value": c.result, "error": c.err, "panic": c.panicked}
}

type runT struct {
	c     *core.Ctx
	sc    *scenario
	label string
	rnd   *core.Rand
	T     time.Duration
	msgs  msgTable

	a, b *netsim.Conn
	peer *rawEnd
	lg   *slog.Logger
	oc   *ouroboros.Connection

	wakeCh chan struct{}

	mu        sync.Mutex
	calls     []*callRec
	errs      []string
	errClosed bool
	closeRec  *callRec
	evTail    []string
	events    atomic.Int64
	ptCount   atomic.Uint64

	// muxer hold (special scenario): block the read loop at afterLookup
	holdArmed   atomic.Bool
	holdReached chan struct{}
	holdRelease chan struct{}

	firstSeen map[string]seenT
	censuses  int
	notes     []string
	verdicts  []string
}

func (r *runT) violation(kind, what string, w map[string]any) {
	r.mu.Lock()
	r.verdicts = append(r.verdicts, kind)
	r.mu.Unlock()
	r.c.Count("verdict:"+strings.SplitN(kind, ":", 2)[0], 1)
	r.c.Violation(r.key(kind), what, w)
}

type seenT struct {
	at time.Time
	hb int64
}

var (
	rigs  sync.Map // *slog.Logger -> *runT
	muxes sync.Map // *muxer.Muxer -> *runT
)

func (r *runT) wake() {
	select {
	case r.wakeCh <- struct{}{}:
	default:
	}
}

func (r *runT) note(f string, a ...any) {
	r.mu.Lock()
	r.notes = append(r.notes, fmt.Sprintf(f, a...))
	r.mu.Unlock()
}

// installHooks sets the process-global hooks once; they dispatch to the
// scenario that owns the protocol instance / muxer.
func installHooks() {
	protocol.VerifSetSink(func(ev protocol.VerifEvent) {
		if ev.Proto == nil {
			return
		}
		x, ok := rigs.Load(ev.Proto.VerifConfig().Logger)
		if !ok {
			return
		}
		r := x.(*runT)
		r.events.Add(1)
		switch ev.Kind {
		case "enq", "trans", "deliver", "handled", "error", "stop":
			s := fmt.Sprintf("%s %s/%d", ev.Kind, ev.Name, ev.Role)
			if ev.MsgType >= 0 {
				s += " msg=" + strconv.Itoa(ev.MsgType)
			}
			if ev.Kind == "trans" {
				s += " " + ev.From.String() + "->" + ev.To.String()
			}
			if ev.Err != nil {
				s += " err=" + ev.Err.Error()
			}
			r.mu.Lock()
			r.evTail = append(r.evTail, s)
			if len(r.evTail) > 60 {
				r.evTail = r.evTail[len(r.evTail)-40:]
			}
			r.mu.Unlock()
		}
	})
	protocol.VerifSetPoint(func(name string, p *protocol.Protocol) {
		x, ok := rigs.Load(p.VerifConfig().Logger)
		if !ok {
			return
		}
		x.(*runT).perturb(name)
	})
	muxer.VerifSetPoint(func(name string, m *muxer.Muxer) {
		x, ok := muxes.Load(m)
		if !ok {
			return
		}
		r := x.(*runT)
		if name == "readLoop.afterLookup" && r.holdArmed.CompareAndSwap(true, false) {
			close(r.holdReached)
			select {
			case <-r.holdRelease:
			case <-time.After(60 * time.Second):
			}
			return
		}
		r.perturb(name)
	})
}

func removeHooks() {
	protocol.VerifSetSink(nil)
	protocol.VerifSetPoint(nil)
	muxer.VerifSetPoint(nil)
}

// perturb: yield or sleep a little at a perturbation point, decided by the
// scenario's seed and a counter.
func (r *runT) perturb(name string) {
	if !r.sc.Perturb {
		return
	}
	n := r.ptCount.Add(1)
	h := core.NewRand(uint64(r.c.Seed)*0x9e3779b97f4a7c15 ^ uint64(r.sc.ID)<<20 ^ n).Uint64()
	switch h % 8 {
	case 0, 1, 2:
	case 3, 4:
		runtime.Gosched()
	case 5, 6:
		time.Sleep(time.Duration(20+h>>8%400) * time.Microsecond)
	case 7:
		d := time.Duration(100+h>>8%1900) * time.Microsecond
		if name == "readLoop.afterLookup" {
			d *= 2
		}
		time.Sleep(d)
	}
}

// ------------------------------------------------------------------ waits

func (r *runT) waitFor(cond func() bool, d time.Duration) bool {
	dl := time.Now().Add(d)
	for {
		if cond() {
			return true
		}
		left := time.Until(dl)
		if left <= 0 {
			return false
		}
		if left > 25*time.Millisecond {
			left = 25 * time.Millisecond
		}
		t := time.NewTimer(left)
		select {
		case <-r.wakeCh:
		case <-t.C:
		}
		t.Stop()
	}
}

func (r *runT) bytesMoved() int { return r.a.ReadCount() + r.a.Written() }

func (r *runT) allReturned() bool {
	r.mu.Lock()
	cs := append([]*callRec(nil), r.calls...)
	r.mu.Unlock()
	for _, c := range cs {
		if !c.isDone() {
			return false
		}
	}
	return true
}

func (r *runT) connDown() bool {
	r.mu.Lock()
	defer r.mu.Unlock()
	return r.errClosed || len(r.errs) > 0
}

func (r *runT) errChanClosed() bool {
	r.mu.Lock()
	defer r.mu.Unlock()
	return r.errClosed
}

// settle lets the library digest what the peer did before the connection is
// ended: until the call returned / the connection reported an error, or
// until nothing moved for a quiet period. It only orders the script.
func (r *runT) settle() {
	quiet := settleLong
	if r.sc.Short {
		quiet = settleShort
	}
	start := time.Now()
	last := r.events.Load() + int64(r.bytesMoved())
	lastAt := time.Now()
	for time.Since(start) < settleMax {
		if len(r.calls) > 0 && r.allReturned() {
			return
		}
		if r.connDown() {
			return
		}
		cur := r.events.Load() + int64(r.bytesMoved())
		if cur != last {
			last, lastAt = cur, time.Now()
		} else if time.Since(lastAt) >= quiet {
			return
		}
		r.waitFor(func() bool { return false }, 20*time.Millisecond)
	}
}

// absorbed waits until the library has read everything the peer wrote, or
// reading stopped.
func (r *runT) absorbed() {
	last, lastAt := r.a.ReadCount(), time.Now()
	for start := time.Now(); time.Since(start) < settleMax; {
		if r.a.ReadCount() == r.b.Written() {
			break
		}
		if cur := r.a.ReadCount(); cur != last {
			last, lastAt = cur, time.Now()
		} else if time.Since(lastAt) > 600*time.Millisecond {
			break
		}
		time.Sleep(10 * time.Millisecond)
	}
	// and let the protocol's read loop queue what it got
	time.Sleep(50 * time.Millisecond)
}

// absorbedOut waits until the peer has read everything the library wrote.
func (r *runT) absorbedOut() {
	for start := time.Now(); time.Since(start) < 3*time.Second; {
		if r.b.ReadCount() == r.a.Written() {
			return
		}
		time.Sleep(5 * time.Millisecond)
	}
}

// expect waits for the library's next message on the conversation's protocol.
func (r *runT) expect(id uint16, w wire) bool {
	var got rmsg
	ok := r.waitFor(func() bool {
		m, have := r.peer.take(id)
		if have {
			got = m
			return true
		}
		return r.peer.ended()
	}, stepDog)
	if !ok || got.Data == nil {
		return false
	}
	if got.Typ != int(w.Typ) {
		r.peer.note("received message type %d (%s) where %s was expected", got.Typ, core.Hex(got.Data), w.Name)
	} else {
		r.peer.note("received %s", w.Name)
	}
	return true
}

func (r *runT) sendMsg(id uint16, w wire, how string) {
	split := 0
	if len(w.Data) > 8 && r.rnd.Chance(1, 3) {
		split = r.rnd.Range(1, len(w.Data)-1)
	}
	r.peer.note("%s %s (%s)%s", how, w.Name, core.Hex(w.Data), map[bool]string{true: fmt.Sprintf(" split at %d", split), false: ""}[split > 0])
	r.peer.sendPayload(id, w.Data, split)
}

// ------------------------------------------------------------------ API calls

func (r *runT) startCall(name string, f func() (string, error)) *callRec {
	rec := &callRec{Name: name}
	r.mu.Lock()
	r.calls = append(r.calls, rec)
	r.mu.Unlock()
	rec.mu.Lock()
	rec.started = true
	rec.mu.Unlock()
	go func() {
		rec.goid.Store(int64(goid()))
		var res string
		var err error
		panicked, val, stack := core.Safely(func() { res, err = f() })
		rec.mu.Lock()
		rec.done = true
		rec.result = res
		if err != nil {
			rec.err = err.Error()
		}
		if panicked {
			rec.panicked = fmt.Sprintf("%v\n%s", val, stack)
		}
		rec.mu.Unlock()
		r.wake()
	}()
	return rec
}

func (r *runT) startClose() {
	r.mu.Lock()
	if r.closeRec != nil {
		r.mu.Unlock()
		return
	}
	rec := &callRec{Name: "Connection.Close"}
	r.closeRec = rec
	r.mu.Unlock()
	r.peer.note("the harness calls Connection.Close()")
	go func() {
		rec.goid.Store(int64(goid()))
		var err error
		panicked, val, stack := core.Safely(func() { err = r.oc.Close() })
		rec.mu.Lock()
		rec.done = true
		if err != nil {
			rec.err = err.Error()
		}
		if panicked {
			rec.panicked = fmt.Sprintf("%v\n%s", val, stack)
		}
		rec.mu.Unlock()
		r.wake()
	}()
}

func (r *runT) closeDone() bool {
	r.mu.Lock()
	rec := r.closeRec
	r.mu.Unlock()
	return rec != nil && rec.isDone()
}

func (r *runT) drainErrors() {
	go func() {
		for err := range r.oc.ErrorChan() {
			r.mu.Lock()
			if len(r.errs) < 12 {
				r.errs = append(r.errs, err.Error())
			}
			r.mu.Unlock()
			r.wake()
		}
		r.mu.Lock()
		r.errClosed = true
		r.mu.Unlock()
		r.wake()
	}()
}

// ------------------------------------------------------------------ quiescence

type awaitRes int

const (
	resOK awaitRes = iota
	resFrozen
	resDog
)

func (r *runT) progressSig(s *snapshot) string {
	return strconv.FormatInt(r.events.Load(), 10) + "/" + strconv.Itoa(r.bytesMoved()) + "/" + strconv.Itoa(r.peer.received()) + "/" + s.signature(r.label)
}

func (r *runT) track(s *snapshot) {
	now, hb := time.Now(), heartbeat.Load()
	present := map[string]bool{}
	for _, g := range s.byScn[r.label] {
		if !g.touchesLib() {
			continue
		}
		k := g.key()
		present[k] = true
		if _, ok := r.firstSeen[k]; !ok {
			r.firstSeen[k] = seenT{now, hb}
		}
	}
	for k := range r.firstSeen {
		if !present[k] {
			delete(r.firstSeen, k)
		}
	}
	r.censuses++
}

// await waits for cond. It returns resFrozen only when, over a full
// quiescence window (wall time and heartbeat ticks), no trace event was
// emitted, no byte moved, the set of the scenario's goroutines that touch the
// library did not change, and a final dump shows all of them parked.
// leak=true is the variant for the final census: the remaining library
// goroutines must each have been present, unchanged, for a full window (they
// may have been parked since before Close was called).
func (r *runT) await(cond func(*snapshot) bool, needCensus, leak bool) (awaitRes, *snapshot, string) {
	start := time.Now()
	// fast path
	step := 2 * time.Millisecond
	for time.Since(start) < 1500*time.Millisecond {
		var s *snapshot
		if needCensus {
			s = census.take(time.Now(), false)
		}
		if cond(s) {
			return resOK, s, ""
		}
		r.waitFor(func() bool { return false }, step)
		if step < 200*time.Millisecond {
			step *= 2
		}
	}
	lastSig := ""
	stableSince, hbStable := time.Now(), heartbeat.Load()
	rounds := 0
	why := ""
	for {
		s := census.take(time.Now(), false)
		r.track(s)
		rounds++
		if cond(s) {
			return resOK, s, ""
		}
		sig := r.progressSig(s)
		now, hb := time.Now(), heartbeat.Load()
		if sig != lastSig {
			lastSig, stableSince, hbStable = sig, now, hb
		}
		win := now.Sub(stableSince) >= window && hb-hbStable >= minTicks
		if leak {
			win = rounds >= 8 && now.Sub(stableSince) >= 2*time.Second && hb-hbStable >= 150
			for _, g := range s.libGroups(r.label) {
				fs, ok := r.firstSeen[g.key()]
				if !ok || now.Sub(fs.at) < window || hb-fs.hb < minTicks {
					win = false
				}
			}
		}
		if win {
			full := census.take(time.Now(), true)
			r.track(full)
			if cond(full) {
				return resOK, full, ""
			}
			ok, w := full.allParked(r.label)
			if ok && r.progressSig(full) == sig {
				return resFrozen, full, ""
			}
			why = w
			if r.progressSig(full) != sig {
				why = "the goroutine set changed while the dump was taken"
			}
			// not provably stuck: start a new window
			lastSig, stableSince, hbStable = r.progressSig(full), time.Now(), heartbeat.Load()
		}
		if time.Since(start) > phaseDog {
			return resDog, s, why
		}
		r.waitFor(func() bool { return false }, slowPollTick)
	}
}

// ------------------------------------------------------------------ the scenario

func (r *runT) key(kind string) string {
	return "C15:" + r.sc.Call.key() + ":" + r.behaviour() + ":" + kind
}

func (r *runT) behaviour() string {
	if r.sc.Special != "" {
		return r.sc.Special
	}
	if r.sc.Hist != nil {
		return r.sc.Hist.key(r.sc.F)
	}
	return r.sc.F.key()
}

func (r *runT) witness(extra map[string]any) map[string]any {
	r.mu.Lock()
	w := map[string]any{
		"call":                     r.sc.Call.key(),
		"library_side":             map[bool]string{true: "server", false: "client"}[r.sc.Call.Server] + "/" + r.sc.Call.Mode,
		"peer_behaviour":           r.behaviour(),
		"state_timeouts":           r.T.String(),
		"perturbation":             r.sc.Perturb,
		"errors_on_errorchan":      append([]string(nil), r.errs...),
		"errorchan_closed":         r.errClosed,
		"library_trace_tail":       append([]string(nil), r.evTail...),
		"notes":                    append([]string(nil), r.notes...),
		"close_called":             r.closeRec != nil,
		"close_returned":           r.closeRec != nil && r.closeRec.isDone(),
		"bytes_read_by_library":    r.a.ReadCount(),
		"bytes_written_by_library": r.a.Written(),
	}
	var calls []map[string]any
	for _, c := range r.calls {
		calls = append(calls, c.view())
	}
	r.mu.Unlock()
	w["api_calls"] = calls
	w["peer_script"] = r.peer.actions()
	for k, v := range extra {
		w[k] = v
	}
	return w
}

func groupsText(gs []*group) []string {
	var out []string
	for _, g := range gs {
		out = append(out, g.text())
	}
	return out
}

func (r *runT) run() {
	r.c.Eval()
	r.c.Journal("C15 scenario %d %s %s short=%v perturb=%v", r.sc.ID, r.sc.Call.key(), r.behaviour(), r.sc.Short, r.sc.Perturb)
	done := make(chan struct{})
	go pprof.Do(context.Background(), pprof.Labels(labelKey, r.label), func(context.Context) {
		defer close(done)
		r.body()
	})
	<-done
}

func (r *runT) inconclusive(f string, a ...any) {
	r.mu.Lock()
	r.verdicts = append(r.verdicts, "inconclusive: "+fmt.Sprintf(f, a...))
	r.mu.Unlock()
	r.c.Inconclusive(fmt.Sprintf("%s %s: ", r.sc.Call.key(), r.behaviour()) + fmt.Sprintf(f, a...))
	r.c.Count("inconclusive:"+r.sc.F.Class, 1)
}

func (r *runT) teardown() {
	if r.oc != nil {
		r.startClose()
	}
	r.a.Close()
	r.b.Close()
	rigs.Delete(r.lg)
	if r.oc != nil && r.oc.Muxer() != nil {
		muxes.Delete(r.oc.Muxer())
	}
}

func (r *runT) body() {
	cs, f := r.sc.Call, r.sc.F
	r.T = longTimeout
	if r.sc.Short {
		r.T = shortTimeout
	}
	r.a, r.b = netsim.Pipe()
	if r.rnd.Chance(1, 2) {
		rr := r.rnd.Fork(7)
		r.a.SetReadChunks(func() int { return rr.Range(1, 48) })
	}
	r.lg = quietLogger()
	r.wakeCh = make(chan struct{}, 1)
	r.firstSeen = map[string]seenT{}
	r.holdReached, r.holdRelease = make(chan struct{}), make(chan struct{})
	rigs.Store(r.lg, r)
	// census before NewConnection: nothing carries this scenario's label yet
	// (the latest shared snapshot is enough, a label is used only once)
	if s0 := census.take(time.Time{}, false); len(s0.libGroups(r.label)) != 0 {
		r.c.Count("census_before_not_empty", 1)
	}
	r.peer = newRawEnd(r.b, !cs.Server, r.wake)
	go r.peer.readLoop()

	// ---- connect
	type cres struct {
		oc  *ouroboros.Connection
		err error
	}
	cch := make(chan cres, 1)
	go func() {
		oc, err := ouroboros.NewConnection(connOptions(cs, r.a, r.lg, r.T)...)
		cch <- cres{oc, err}
		r.wake()
	}()
	v := versionFor(cs, tableVersions)
	hsErr := r.peer.handshake(cs.Mode, v, cs.Server, func(id uint16) (rmsg, bool) {
		var got rmsg
		ok := r.waitFor(func() bool {
			m, have := r.peer.take(id)
			if have {
				got = m
			}
			return have || r.peer.ended()
		}, stepDog)
		return got, ok && got.Data != nil
	})
	var cr cres
	select {
	case cr = <-cch:
	case <-time.After(stepDog):
		r.a.Close()
		r.b.Close()
		cr = <-cch
		r.oc = cr.oc
		r.teardown()
		r.inconclusive("NewConnection did not return within the watchdog (handshake: %v)", hsErr)
		return
	}
	r.oc = cr.oc
	if cr.err != nil || hsErr != nil || cr.oc == nil {
		r.teardown()
		r.inconclusive("handshake with the raw peer failed: connection=%v peer=%v", cr.err, hsErr)
		return
	}
	muxes.Store(r.oc.Muxer(), r)
	r.drainErrors()
	r.peer.note("handshake completed on version %#x", v)

	if r.sc.Special != "" {
		r.special()
		return
	}
	if r.sc.Hist != nil {
		r.history()
		return
	}

	// ---- the script
	invoked := false
	invoke := func() {
		if invoked || cs.Invoke == nil {
			return
		}
		invoked = true
		r.peer.note("the harness starts %s", cs.key())
		r.startCall(cs.key(), func() (string, error) { return cs.Invoke(r.oc) })
	}
	id := cs.ProtoID
	localEnd := false // the connection is ended by Connection.Close(), not by the peer
	immediate := false
	terminal := false
	aborted := false
	for i := 0; i <= len(cs.Conv) && !terminal; i++ {
		if i == cs.InvokeAt {
			if f.Pos == posPre {
				switch f.Class {
				case "unsolicited":
					r.sendMsg(id, f.Alt, "sends unsolicited")
					r.absorbed()
				case "flood":
					r.peer.note("sends %d x unsolicited %s (%s), one segment each", floodCount, f.Alt.Name, core.Hex(f.Alt.Data))
					for k := 0; k < floodCount; k++ {
						if r.peer.sendPayload(id, f.Alt.Data, 0) != nil {
							break
						}
					}
					r.absorbed()
				case "garbage":
					r.peer.note("sends garbage %s (%s)", f.Variant, core.Hex(f.Alt.Data))
					r.peer.sendPayload(id, f.Alt.Data, 0)
					r.settle()
				case "zero":
					r.peer.note("sends a segment with payload length 0")
					r.peer.sendRaw(netsim.EncodeSeg(id, r.peer.responder, nil))
					r.settle()
				case "localclose":
					localEnd = true
					r.startClose()
					r.waitFor(r.closeDone, 3*time.Second)
				case "close":
					r.peer.note("closes the connection before the call is made")
					r.peer.close()
					r.waitFor(r.connDown, 2*time.Second)
				}
				terminal = true
			}
			invoke()
			if terminal {
				break
			}
		}
		if f.Class == "close" && f.Pos == i {
			terminal, immediate = true, true
			break
		}
		if i == len(cs.Conv) {
			break
		}
		s := cs.Conv[i]
		if s.Recv {
			if !r.expect(id, s.W) {
				aborted = true
				break
			}
			continue
		}
		if f.Pos != i {
			r.sendMsg(id, s.W, "sends")
			continue
		}
		switch f.Class {
		case "twice":
			r.sendMsg(id, s.W, "sends")
			r.sendMsg(id, s.W, "sends again")
		case "other":
			r.sendMsg(id, f.Alt, "sends instead of "+s.W.Name+":")
			terminal = true
		case "garbage":
			r.peer.note("sends garbage %s instead of %s (%s)", f.Variant, s.W.Name, core.Hex(f.Alt.Data))
			r.peer.sendPayload(id, f.Alt.Data, 0)
			terminal = true
		case "truncated":
			h := len(s.W.Data) / 2
			if h < 1 {
				h = 1
			}
			r.peer.note("sends a complete segment holding the first %d of %d bytes of %s, then nothing", h, len(s.W.Data), s.W.Name)
			r.peer.sendPayload(id, s.W.Data[:h], 0)
			terminal = true
		case "zero":
			r.peer.note("sends a segment with payload length 0 instead of %s", s.W.Name)
			r.peer.sendRaw(netsim.EncodeSeg(id, r.peer.responder, nil))
			terminal = true
		case "silence":
			r.peer.note("stays silent instead of sending %s", s.W.Name)
			terminal = true
		case "midseg":
			seg := netsim.EncodeSeg(id, r.peer.responder, s.W.Data)
			cut := 8 + len(s.W.Data)/2
			r.peer.note("sends %d of the %d bytes of the segment carrying %s", cut, len(seg), s.W.Name)
			r.peer.sendRaw(seg[:cut])
			terminal, immediate = true, true
		case "midhdr":
			seg := netsim.EncodeSeg(id, r.peer.responder, s.W.Data)
			r.peer.note("sends 5 of the 8 header bytes of the segment carrying %s", s.W.Name)
			r.peer.sendRaw(seg[:5])
			terminal, immediate = true, true
		case "localclose":
			r.peer.note("stays silent instead of sending %s", s.W.Name)
			localEnd, terminal, immediate = true, true, true
		default:
			r.sendMsg(id, s.W, "sends")
		}
	}
	if aborted {
		r.c.Count("conversation_cut_short", 1)
		r.note("the library did not send the next request of the scripted conversation")
	}
	if !terminal && !aborted {
		// conversation complete: the call is expected back
		if cs.Invoke != nil {
			r.waitFor(r.allReturned, 5*time.Second)
		}
		switch f.Class {
		case "correct":
			localEnd = true
			r.settleBrief()
		case "late":
			r.settleBrief()
			r.sendMsg(id, f.Alt, "after the conversation ended, sends again")
			r.settle()
		default:
			r.settle()
		}
	} else if !immediate {
		r.settle()
	}

	// ---- the connection ends
	if localEnd {
		r.startClose()
	} else {
		r.peer.note("closes the connection")
		r.peer.close()
	}
	r.judge(!localEnd)
}

// settleBrief: give background sends of a finished conversation a moment.
func (r *runT) settleBrief() {
	last, lastAt := r.events.Load()+int64(r.bytesMoved()), time.Now()
	for start := time.Now(); time.Since(start) < 2*time.Second; {
		if cur := r.events.Load() + int64(r.bytesMoved()); cur != last {
			last, lastAt = cur, time.Now()
		} else if time.Since(lastAt) > 60*time.Millisecond {
			return
		}
		time.Sleep(10 * time.Millisecond)
	}
}

// judge evaluates the oracle after the connection ended.
func (r *runT) judge(peerClosed bool) {
	cs, f := r.sc.Call, r.sc.F
	class := f.Class
	if r.sc.Special != "" {
		class = "special"
	}
	if r.sc.Hist != nil {
		class = "history"
	}
	defer r.teardown()
	r.c.Count("scenarios:"+class, 1)

	// A: every API call has returned
	res, snap, why := r.await(func(*snapshot) bool { return r.allReturned() }, false, false)
	switch res {
	case resDog:
		r.inconclusive("API call pending but the connection never became quiescent (%s)", why)
		return
	case resFrozen:
		r.mu.Lock()
		calls := append([]*callRec(nil), r.calls...)
		r.mu.Unlock()
		for _, c := range calls {
			if c.isDone() {
				continue
			}
			g := snap.byID[int(c.goid.Load())]
			stack, inLib := "", false
			if g != nil {
				stack = g.Text
				for _, fr := range g.Frames {
					inLib = inLib || strings.HasPrefix(fr.Func, repoPrefix)
				}
			}
			if g == nil || !inLib || !g.parked() {
				r.inconclusive("%s has not returned but its goroutine is not parked inside the library", c.Name)
				return
			}
			r.violation("hang",
				fmt.Sprintf("%s has not returned although the connection ended (%s): nothing moved for %s and every goroutine of the connection is parked; the call is parked in %s",
					c.Name, map[bool]string{true: "the peer closed it", false: "Connection.Close() was called"}[peerClosed], window, innermostLibOf(g)),
				r.witness(map[string]any{"parked_call_stack": strings.Split(stack, "\n"), "library_goroutines": groupsText(snap.libGroups(r.label))}))
		}
	}
	for _, c := range r.calls {
		v := c.view()
		if v["panic"].(string) != "" {
			r.violation("panic", fmt.Sprintf("%s panicked: %s", c.Name, strings.SplitN(v["panic"].(string), "\n", 2)[0]), r.witness(nil))
		}
		if v["returned"].(bool) {
			if v["error"].(string) == "" {
				r.c.Count("api_returned_value", 1)
			} else {
				r.c.Count("api_returned_error", 1)
			}
		}
	}
	if peerClosed {
		if r.errChanClosed() {
			r.c.Count("errorchan_closed_by_library_on_peer_close", 1)
		} else {
			r.c.Count("errorchan_open_until_close_called", 1)
		}
	}

	// B: Close returns and the error channel is closed
	r.startClose()
	res, snap, why = r.await(func(*snapshot) bool { return r.closeDone() && r.errChanClosed() }, false, false)
	switch res {
	case resDog:
		r.inconclusive("Close / ErrorChan pending but the connection never became quiescent (%s)", why)
		return
	case resFrozen:
		if !r.closeDone() {
			g := snap.byID[int(r.closeRec.goid.Load())]
			stack := ""
			if g != nil {
				stack = g.Text
			}
			r.violation("close-hang", fmt.Sprintf("Connection.Close() has not returned: nothing moved for %s and every goroutine of the connection is parked", window),
				r.witness(map[string]any{"parked_close_stack": strings.Split(stack, "\n"), "library_goroutines": groupsText(snap.libGroups(r.label))}))
		} else {
			r.violation("errorchan-open", fmt.Sprintf("Connection.Close() returned but ErrorChan was not closed: nothing moved for %s and every goroutine of the connection is parked", window),
				r.witness(map[string]any{"library_goroutines": groupsText(snap.libGroups(r.label))}))
		}
	}
	if r.closeRec != nil {
		if p := r.closeRec.view()["panic"].(string); p != "" {
			r.violation("panic", "Connection.Close() panicked: "+strings.SplitN(p, "\n", 2)[0], r.witness(nil))
		}
	}

	// C: no goroutine of the connection remains
	res, snap, why = r.await(func(s *snapshot) bool { return len(s.libGroups(r.label)) == 0 }, true, true)
	switch res {
	case resDog:
		r.inconclusive("library goroutines remain but never became quiescent (%s)", why)
		return
	case resFrozen:
		left := snap.libGroups(r.label)
		sort.SliceStable(left, func(i, j int) bool { return leakRank(left[i]) < leakRank(left[j]) })
		n := 0
		for _, g := range left {
			n += g.Count
		}
		r.violation("leak:"+left[0].innermostLib(),
			fmt.Sprintf("%d goroutine(s) started for the connection remain after Close() returned and ErrorChan was closed (parked, unchanged for %s); innermost library frame %s",
				n, window, left[0].innermostLib()),
			r.witness(map[string]any{"leaked_goroutines": groupsText(left)}))
	default:
		r.c.Count("census_clean", 1)
	}
	r.c.Distinct(cs.key(), r.behaviour(), r.sc.Short, r.sc.Perturb)
}

// leakRank orders leaked goroutines: the one parked in protocol-specific code
// (a handler, a client helper) names the finding, the generic loops follow.
func leakRank(g *group) string {
	fn := g.innermostLib()
	generic := strings.HasPrefix(fn, "protocol.(*Protocol)") || strings.HasPrefix(fn, "muxer.") || strings.HasPrefix(fn, "(*Connection)")
	// a goroutine parked below a handler is more telling than one in a loop
	depth := 0
	for _, f := range g.Frames {
		if strings.HasPrefix(f.Func, repoPrefix) {
			depth++
		}
	}
	if generic {
		return fmt.Sprintf("1:%02d:%s", 99-depth, fn)
	}
	return fmt.Sprintf("0:%02d:%s", 99-depth, fn)
}

func innermostLibOf(g *gstate) string {
	for _, f := range g.Frames {
		if strings.HasPrefix(f.Func, repoPrefix) {
			return stableName(f.Func, f.Line) + " (" + shortPath(f.Line) + ")"
		}
	}
	return "?"
}

func tableVersions(mode string) []uint16 {
	var vs []uint16
	switch mode {
	case "ntn":
		vs = protocol.GetProtocolVersionsNtN()
	case "ntc":
		vs = protocol.GetProtocolVersionsNtC()
	default:
		vs = protocol.GetProtocolVersionsDMQNtC()
	}
	sort.Slice(vs, func(i, j int) bool { return vs[i] < vs[j] })
	return vs
}
