package c15

import (
	"bytes"
	"fmt"

	"github.com/blinklabs-io/gouroboros/protocol"
	"github.com/blinklabs-io/gouroboros/protocol/blockfetch"
	"github.com/blinklabs-io/gouroboros/protocol/chainsync"
	"github.com/blinklabs-io/gouroboros/protocol/keepalive"
	"github.com/blinklabs-io/gouroboros/protocol/localstatequery"
	"github.com/blinklabs-io/gouroboros/protocol/localtxmonitor"
	"github.com/blinklabs-io/gouroboros/protocol/localtxsubmission"
	"github.com/blinklabs-io/gouroboros/protocol/peersharing"
	"github.com/blinklabs-io/gouroboros/protocol/txsubmission"

	"verifharness/cborx"
	"verifharness/corpus"
)

// Mini-protocol numbers on the wire.
const (
	idHandshake   uint16 = 0
	idChainSyncN  uint16 = 2
	idBlockFetch  uint16 = 3
	idTxSub       uint16 = 4
	idChainSyncC  uint16 = 5
	idLocalTxSub  uint16 = 6
	idLocalState  uint16 = 7
	idKeepAlive   uint16 = 8
	idLocalTxMon  uint16 = 9
	idPeerSharing uint16 = 10
)

const (
	tipSlot   = 4492900
	tipBlock  = 4490600
	cookieVal = 0x2a17
)

// wire is a hand-built message: protocol message type, a readable name and the
// CBOR bytes (built with cborx, never with the library's encoders).
type wire struct {
	Typ  uint
	Name string
	Data []byte
}

func enc(n *cborx.Node) []byte { return n.Encode() }

func cat(parts ...[]byte) []byte {
	var out []byte
	for _, p := range parts {
		out = append(out, p...)
	}
	return out
}

// block facts read from the corpus (Conway block of the repository).
type blockFacts struct {
	typ    uint
	cbor   []byte
	header []byte
	era    uint
}

func loadBlock(repo string) (*blockFacts, error) {
	bl, err := corpus.Blocks(repo)
	if err != nil {
		return nil, err
	}
	for _, b := range bl {
		if b.Name != "conway" {
			continue
		}
		n, err := cborx.ParseExact(b.Cbor)
		if err != nil {
			return nil, err
		}
		if n.Kind != cborx.Array || len(n.Items) == 0 {
			return nil, fmt.Errorf("corpus block %s is not a non-empty array", b.Name)
		}
		return &blockFacts{typ: b.Type, cbor: b.Cbor, header: append([]byte(nil), n.Items[0].Slice(b.Cbor)...), era: b.Type - 1}, nil
	}
	return nil, fmt.Errorf("no conway block in the corpus of %s", repo)
}

var hashA = bytes.Repeat([]byte{0xa1}, 32)
var hashB = bytes.Repeat([]byte{0xb2}, 32)

func pointNode(slot uint64, hash []byte) *cborx.Node {
	if hash == nil {
		return cborx.A()
	}
	return cborx.A(cborx.U(slot), cborx.B(hash))
}
func tipNode() *cborx.Node {
	return cborx.A(pointNode(tipSlot, hashB), cborx.U(tipBlock))
}

// wrapNtC: 24(h'[type, block]') ; wrapNtN: [era, 24(h'header')].
func wrapNtC(b *blockFacts) []byte {
	inner := cat([]byte{0x82}, enc(cborx.U(uint64(b.typ))), b.cbor)
	return enc(cborx.T(24, cborx.B(inner)))
}
func wrapNtN(b *blockFacts) []byte {
	return enc(cborx.A(cborx.U(uint64(b.era)), cborx.T(24, cborx.B(b.header))))
}

// msgTable holds, per protocol key, every message either side can send.
type msgTable map[string]map[uint]wire

func buildMsgs(b *blockFacts) msgTable {
	t := msgTable{}
	add := func(proto string, typ uint, name string, data []byte) {
		if t[proto] == nil {
			t[proto] = map[uint]wire{}
		}
		t[proto][typ] = wire{typ, name, data}
	}
	pt := pointNode(4492800, hashA)
	for _, k := range []string{"chainsync-ntc", "chainsync-ntn"} {
		add(k, chainsync.MessageTypeRequestNext, "RequestNext", enc(cborx.A(cborx.U(0))))
		add(k, chainsync.MessageTypeAwaitReply, "AwaitReply", enc(cborx.A(cborx.U(1))))
		add(k, chainsync.MessageTypeRollBackward, "RollBackward", enc(cborx.A(cborx.U(3), pt, tipNode())))
		add(k, chainsync.MessageTypeFindIntersect, "FindIntersect", enc(cborx.A(cborx.U(4), cborx.A(pt))))
		add(k, chainsync.MessageTypeIntersectFound, "IntersectFound", enc(cborx.A(cborx.U(5), pt, tipNode())))
		add(k, chainsync.MessageTypeIntersectNotFound, "IntersectNotFound", enc(cborx.A(cborx.U(6), tipNode())))
		add(k, chainsync.MessageTypeDone, "Done", enc(cborx.A(cborx.U(7))))
	}
	add("chainsync-ntc", chainsync.MessageTypeRollForward, "RollForward", cat([]byte{0x83, 0x02}, wrapNtC(b), enc(tipNode())))
	add("chainsync-ntn", chainsync.MessageTypeRollForward, "RollForward", cat([]byte{0x83, 0x02}, wrapNtN(b), enc(tipNode())))

	add("blockfetch", blockfetch.MessageTypeRequestRange, "RequestRange", enc(cborx.A(cborx.U(0), pt, pt)))
	add("blockfetch", blockfetch.MessageTypeClientDone, "ClientDone", enc(cborx.A(cborx.U(1))))
	add("blockfetch", blockfetch.MessageTypeStartBatch, "StartBatch", enc(cborx.A(cborx.U(2))))
	add("blockfetch", blockfetch.MessageTypeNoBlocks, "NoBlocks", enc(cborx.A(cborx.U(3))))
	add("blockfetch", blockfetch.MessageTypeBlock, "Block", cat([]byte{0x82, 0x04}, wrapNtC(b)))
	add("blockfetch", blockfetch.MessageTypeBatchDone, "BatchDone", enc(cborx.A(cborx.U(5))))

	txid := cborx.A(cborx.U(6), cborx.B(hashA))
	add("txsubmission", txsubmission.MessageTypeRequestTxIds, "RequestTxIds", enc(cborx.A(cborx.U(0), cborx.Bool(true), cborx.U(0), cborx.U(3))))
	add("txsubmission", txsubmission.MessageTypeReplyTxIds, "ReplyTxIds", enc(cborx.A(cborx.U(1), cborx.AIndef(cborx.A(txid, cborx.U(300))))))
	add("txsubmission", txsubmission.MessageTypeRequestTxs, "RequestTxs", enc(cborx.A(cborx.U(2), cborx.AIndef(txid))))
	add("txsubmission", txsubmission.MessageTypeReplyTxs, "ReplyTxs", enc(cborx.A(cborx.U(3), cborx.AIndef(cborx.A(cborx.U(6), cborx.T(24, cborx.B([]byte{0x80})))))))
	add("txsubmission", txsubmission.MessageTypeDone, "Done", enc(cborx.A(cborx.U(4))))
	add("txsubmission", txsubmission.MessageTypeInit, "Init", enc(cborx.A(cborx.U(6))))

	add("localstatequery", localstatequery.MessageTypeAcquired, "Acquired", enc(cborx.A(cborx.U(1))))
	add("localstatequery", localstatequery.MessageTypeFailure, "Failure", enc(cborx.A(cborx.U(2), cborx.U(1))))
	add("localstatequery", localstatequery.MessageTypeResult, "Result", enc(cborx.A(cborx.U(4), cborx.U(6))))

	add("localtxmonitor", localtxmonitor.MessageTypeAcquired, "Acquired", enc(cborx.A(cborx.U(2), cborx.U(tipSlot))))
	add("localtxmonitor", localtxmonitor.MessageTypeReplyNextTx, "ReplyNextTx", enc(cborx.A(cborx.U(6))))
	add("localtxmonitor", localtxmonitor.MessageTypeReplyHasTx, "ReplyHasTx", enc(cborx.A(cborx.U(8), cborx.Bool(true))))
	add("localtxmonitor", localtxmonitor.MessageTypeReplyGetSizes, "ReplyGetSizes", enc(cborx.A(cborx.U(10), cborx.A(cborx.U(178176), cborx.U(1024), cborx.U(3)))))

	add("localtxsubmission", localtxsubmission.MessageTypeAcceptTx, "AcceptTx", enc(cborx.A(cborx.U(1))))
	add("localtxsubmission", localtxsubmission.MessageTypeRejectTx, "RejectTx", enc(cborx.A(cborx.U(2), cborx.A(cborx.U(1), cborx.S("rejected by the raw peer")))))

	add("peersharing", peersharing.MessageTypeShareRequest, "ShareRequest", enc(cborx.A(cborx.U(0), cborx.U(3))))
	add("peersharing", peersharing.MessageTypeSharePeers, "SharePeers", enc(cborx.A(cborx.U(1), cborx.A(cborx.A(cborx.U(0), cborx.U(0x0a000001), cborx.U(3001))))))
	add("peersharing", peersharing.MessageTypeDone, "Done", enc(cborx.A(cborx.U(2))))

	add("keepalive", keepalive.MessageTypeKeepAlive, "KeepAlive", enc(cborx.A(cborx.U(0), cborx.U(cookieVal))))
	add("keepalive", keepalive.MessageTypeKeepAliveResponse, "KeepAliveResponse", enc(cborx.A(cborx.U(1), cborx.U(cookieVal))))
	add("keepalive", keepalive.MessageTypeDone, "Done", enc(cborx.A(cborx.U(2))))
	return t
}

// stateMaps: the library's own state maps, read (never written) to walk a
// scripted conversation and to find what else a state admits.
func stateMapOf(proto string) (protocol.StateMap, protocol.State) {
	first := func(m protocol.StateMap, name string) protocol.State {
		for s := range m {
			if s.String() == name {
				return s
			}
		}
		panic("c15: no state " + name)
	}
	switch proto {
	case "chainsync-ntc":
		return chainsync.StateMapNtC, first(chainsync.StateMapNtC, "Idle")
	case "chainsync-ntn":
		return chainsync.StateMapNtN, first(chainsync.StateMapNtN, "Idle")
	case "blockfetch":
		return blockfetch.StateMap, blockfetch.StateIdle
	case "txsubmission":
		return txsubmission.StateMap, first(txsubmission.StateMap, "Init")
	case "localstatequery":
		return localstatequery.StateMap, first(localstatequery.StateMap, "Idle")
	case "localtxmonitor":
		return localtxmonitor.StateMap, first(localtxmonitor.StateMap, "Idle")
	case "localtxsubmission":
		return localtxsubmission.StateMap, first(localtxsubmission.StateMap, "Idle")
	case "peersharing":
		return peersharing.StateMap, first(peersharing.StateMap, "Idle")
	case "keepalive":
		return keepalive.StateMap, keepalive.StateClient
	}
	panic("c15: no state map for " + proto)
}

// next follows the state map; ok=false when the message is not admitted.
func nextState(m protocol.StateMap, s protocol.State, typ uint) (protocol.State, bool) {
	for _, tr := range m[s].Transitions {
		if uint(tr.MsgType) == typ {
			return tr.NewState, true
		}
	}
	return protocol.State{}, false
}

// admitted lists the message types the state admits (in map order of the
// transition table, de-duplicated).
func admitted(m protocol.StateMap, s protocol.State) []uint {
	var out []uint
	seen := map[uint]bool{}
	for _, tr := range m[s].Transitions {
		if !seen[uint(tr.MsgType)] {
			seen[uint(tr.MsgType)] = true
			out = append(out, uint(tr.MsgType))
		}
	}
	return out
}
