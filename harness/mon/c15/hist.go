package c15

import (
	"fmt"
	"time"

	"github.com/blinklabs-io/gouroboros/protocol/blockfetch"
	"github.com/blinklabs-io/gouroboros/protocol/chainsync"
	"github.com/blinklabs-io/gouroboros/protocol/localstatequery"
	"github.com/blinklabs-io/gouroboros/protocol/localtxmonitor"
	"github.com/blinklabs-io/gouroboros/protocol/localtxsubmission"
	"github.com/blinklabs-io/gouroboros/protocol/peersharing"
	"github.com/blinklabs-io/gouroboros/protocol/txsubmission"

	"verifharness/core"
	"verifharness/netsim"
)

// Histories: a first blocking call whose conversation the peer steers to one
// of its possible outcomes (success, every other answer the state map admits
// - NoBlocks, Failure, RejectTx, IntersectNotFound ... -, the reply twice, a
// garbage reply), then a SECOND blocking call on the same client object (the
// same API or another API of the same protocol), then the connection ends:
// right after the second call was made, after its request arrived, after half
// of its reply, or after it was answered. Every call runs on its own
// goroutine, so a second call that parks on state the first one left behind
// (a busy lock nobody owns any more) is seen in the goroutine dump.
type histT struct {
	Second *callSpec
	End    string // before-request | after-request | partial-reply | answered
	Local  bool   // the connection is ended by Connection.Close()
}

var histEnds = []string{"after-request", "before-request", "answered", "partial-reply"}

func (h *histT) key(f fault) string {
	o := "success"
	if f.Class != "correct" {
		o = f.key()
	}
	by := "peer-close"
	if h.Local {
		by = "local-close"
	}
	return fmt.Sprintf("%s+%s:%s:%s", o, h.Second.Name, h.End, by)
}

// histories enumerates the two-call histories.
func histories(calls []*callSpec, msgs msgTable, thorough bool) []*scenario {
	var out []*scenario
	group := map[string][]*callSpec{}
	gk := func(cs *callSpec) string { return fmt.Sprint(cs.Proto, "/", cs.Mode, "/", cs.Server) }
	for _, cs := range calls {
		if cs.Invoke != nil && cs.Table != "" {
			group[gk(cs)] = append(group[gk(cs)], cs)
		}
	}
	n := 0
	for ci, cs := range calls {
		if cs.Invoke == nil || cs.Table == "" {
			continue
		}
		// outcomes of the first call
		var outs []fault
		for _, f := range behaviours(cs, msgs, thorough, ci) {
			switch f.Class {
			case "correct", "other", "twice":
				outs = append(outs, f)
			case "garbage":
				if f.Pos >= 0 && f.Variant == garbages[0].Name || (!thorough && f.Pos >= 0) {
					outs = append(outs, f)
				}
			}
		}
		peers := group[gk(cs)]
		self := 0
		for i, p := range peers {
			if p == cs {
				self = i
			}
		}
		for oi, f := range outs {
			var seconds []*callSpec
			seconds = append(seconds, cs)
			if thorough {
				for _, p := range peers {
					if p != cs {
						seconds = append(seconds, p)
					}
				}
			} else if len(peers) > 1 {
				seconds = append(seconds, peers[(self+1+oi%(len(peers)-1))%len(peers)])
			}
			for si, sec := range seconds {
				if !thorough {
					n++
					out = append(out, &scenario{Call: cs, F: f, Short: n%2 == 1,
						Hist: &histT{Second: sec, End: histEnds[(ci+oi+si)%len(histEnds)], Local: (ci+oi)%2 == 1}})
					continue
				}
				for _, e := range histEnds {
					for _, local := range []bool{false, true} {
						n++
						out = append(out, &scenario{Call: cs, F: f, Short: n%2 == 1, Perturb: n%3 == 0,
							Hist: &histT{Second: sec, End: e, Local: local}})
					}
				}
			}
		}
	}
	return out
}

// autoReply: what a well-behaved peer answers to a request of the library
// (seq counts the requests of that type seen so far in this phase).
func autoReply(m msgTable, table string, typ int, seq int) []wire {
	t := m[table]
	switch table {
	case "chainsync-ntc", "chainsync-ntn":
		switch typ {
		case chainsync.MessageTypeFindIntersect:
			return []wire{t[chainsync.MessageTypeIntersectFound]}
		case chainsync.MessageTypeRequestNext:
			if seq == 0 {
				return []wire{t[chainsync.MessageTypeRollBackward]}
			}
			return []wire{t[chainsync.MessageTypeRollForward]}
		}
	case "blockfetch":
		if typ == blockfetch.MessageTypeRequestRange {
			return []wire{t[blockfetch.MessageTypeStartBatch], t[blockfetch.MessageTypeBlock], t[blockfetch.MessageTypeBatchDone]}
		}
	case "localstatequery":
		switch typ {
		case localstatequery.MessageTypeAcquire, localstatequery.MessageTypeAcquireVolatileTip, localstatequery.MessageTypeAcquireImmutableTip,
			localstatequery.MessageTypeReacquire, localstatequery.MessageTypeReacquireVolatileTip, localstatequery.MessageTypeReacquireImmutableTip:
			return []wire{t[localstatequery.MessageTypeAcquired]}
		case localstatequery.MessageTypeQuery:
			return []wire{t[localstatequery.MessageTypeResult]}
		}
	case "localtxmonitor":
		switch typ {
		case localtxmonitor.MessageTypeAcquire:
			return []wire{t[localtxmonitor.MessageTypeAcquired]}
		case localtxmonitor.MessageTypeHasTx:
			return []wire{t[localtxmonitor.MessageTypeReplyHasTx]}
		case localtxmonitor.MessageTypeNextTx:
			return []wire{t[localtxmonitor.MessageTypeReplyNextTx]}
		case localtxmonitor.MessageTypeGetSizes:
			return []wire{t[localtxmonitor.MessageTypeReplyGetSizes]}
		}
	case "localtxsubmission":
		if typ == localtxsubmission.MessageTypeSubmitTx {
			return []wire{t[localtxsubmission.MessageTypeAcceptTx]}
		}
	case "peersharing":
		if typ == peersharing.MessageTypeShareRequest {
			return []wire{t[peersharing.MessageTypeSharePeers]}
		}
	case "txsubmission":
		switch typ {
		case txsubmission.MessageTypeRequestTxIds:
			return []wire{t[txsubmission.MessageTypeReplyTxIds]}
		case txsubmission.MessageTypeRequestTxs:
			return []wire{t[txsubmission.MessageTypeReplyTxs]}
		}
	}
	return nil
}

// history runs one two-call history (the connection is up).
func (r *runT) history() {
	cs, f, h := r.sc.Call, r.sc.F, r.sc.Hist
	id := cs.ProtoID
	// ---- first call, steered to its outcome
	var first *callRec
	cut := false
loop:
	for i := 0; i <= len(cs.Conv); i++ {
		if i == cs.InvokeAt && first == nil {
			r.peer.note("the harness starts %s (first call)", cs.key())
			first = r.startCall(cs.key(), func() (string, error) { return cs.Invoke(r.oc) })
		}
		if i == len(cs.Conv) {
			break
		}
		s := cs.Conv[i]
		if s.Recv {
			if !r.expect(id, s.W) {
				cut = true
				break
			}
			continue
		}
		if f.Pos != i {
			r.sendMsg(id, s.W, "sends")
			continue
		}
		switch f.Class {
		case "twice":
			r.sendMsg(id, s.W, "sends")
			r.sendMsg(id, s.W, "sends again")
		case "other":
			r.sendMsg(id, f.Alt, "answers with")
			break loop
		case "garbage":
			r.peer.note("answers with garbage %s (%s)", f.Variant, core.Hex(f.Alt.Data))
			r.peer.sendPayload(id, f.Alt.Data, 0)
			break loop
		default:
			r.sendMsg(id, s.W, "sends")
		}
	}
	if cut {
		r.c.Count("conversation_cut_short", 1)
	}
	if first == nil {
		// the steered answer came before the point where the call is made
		// (tx-submission: the peer's Init step): the call follows it
		r.c.Count("history_first_call_after_fault", 1)
		r.settle()
		r.peer.note("the harness starts %s (first call)", cs.key())
		first = r.startCall(cs.key(), func() (string, error) { return cs.Invoke(r.oc) })
	}
	r.waitFor(first.isDone, 3*time.Second)
	r.settle()
	if !first.isDone() {
		// the single-call scenario of this (call, behaviour) judges that; a
		// second call behind a first one that never came back adds nothing
		r.c.Count("history_first_call_pending", 1)
		r.peer.close()
		r.teardown()
		return
	}
	r.settleBrief()
	r.absorbedOut()
	for {
		if _, ok := r.peer.take(id); !ok {
			break
		}
	}
	v := first.view()
	r.peer.note("first call returned (value %q, error %q)", v["value"], v["error"])

	// ---- second call on the same client
	sec := h.Second
	r.peer.note("the harness starts %s (second call)", sec.key())
	second := r.startCall(sec.key()+"#2", func() (string, error) { return sec.Invoke(r.oc) })
	seen := map[int]int{}
	switch h.End {
	case "before-request":
	case "after-request", "partial-reply":
		var got rmsg
		have := r.waitFor(func() bool {
			if m, ok := r.peer.take(id); ok {
				got = m
				return true
			}
			return second.isDone() || r.peer.ended() || r.connDown()
		}, 4*time.Second)
		if have && got.Data != nil {
			r.peer.note("received request type %d (%s), does not answer", got.Typ, core.Hex(got.Data))
			if h.End == "partial-reply" {
				if rep := autoReply(r.msgs, sec.Table, got.Typ, 0); len(rep) > 0 {
					seg := netsim.EncodeSeg(id, r.peer.responder, rep[0].Data)
					cutAt := 8 + len(rep[0].Data)/2
					r.peer.note("sends %d of the %d bytes of the segment carrying %s", cutAt, len(seg), rep[0].Name)
					r.peer.sendRaw(seg[:cutAt])
				}
			}
		} else {
			r.peer.note("no request of the second call arrived")
		}
	case "answered":
		lastAct := time.Now()
		for start := time.Now(); time.Since(start) < settleMax; {
			if second.isDone() || r.peer.ended() || r.connDown() {
				break
			}
			if m, ok := r.peer.take(id); ok {
				rep := autoReply(r.msgs, sec.Table, m.Typ, seen[m.Typ])
				seen[m.Typ]++
				for _, w := range rep {
					r.sendMsg(id, w, fmt.Sprintf("answers request type %d with", m.Typ))
				}
				lastAct = time.Now()
				continue
			}
			if time.Since(lastAct) > 1200*time.Millisecond {
				break
			}
			r.waitFor(func() bool { return false }, 10*time.Millisecond)
		}
		r.settleBrief()
	}
	if h.Local {
		r.startClose()
	} else {
		r.peer.note("closes the connection")
		r.peer.close()
	}
	r.judge(!h.Local)
}
