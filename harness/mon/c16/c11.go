package c16

// C11: received messages are checked against the protocol state machine.
//
// The real engine of every (target, role) - configuration from the live
// instance, recorder handler - is driven by the raw peer with PRNG walk scripts
// over the implementation's own state map. An online checker (checkTrace) runs
// that map beside the hook events of the run, independent of what the script
// expected; the script's own expectations are compared under C11:script: keys.

import (
	"fmt"
	"runtime"
	"strings"
	"sync/atomic"
	"time"

	"github.com/blinklabs-io/gouroboros/protocol"

	"verifharness/core"
	"verifharness/netsim"
)

// ------------------------------------------------------------------ online trace checker

// checkTrace replays the engine's event log against its own state map.
func checkTrace(cfg *protocol.ProtocolConfig, evs []evRec, outbound map[protocol.Message]bool) (out []finding, delivers, rejects int) {
	cur := cfg.InitialState
	ctx := freshCtx(cfg)
	errored := false
	var pending protocol.Message // inbound message whose transition was accepted, not yet delivered
	add := func(key, what string, i int) {
		out = append(out, finding{key: key, what: what, w: map[string]any{"event_index": i}})
	}
	for i, ev := range evs {
		switch ev.kind {
		case "trans":
			inbound := !outbound[ev.msg]
			if ev.from != cur {
				add("C11:trace:transition-from-unexpected-state", fmt.Sprintf("transition event %d starts in %s, the previous transition left the protocol in %s", i, ev.from, cur), i)
				cur = ev.from
			}
			next, ok := permittedIn(cfg, ctx, cur, ev.msg)
			local, peer := localAgency(cfg, cur)
			holder := (inbound && peer) || (!inbound && local)
			if ev.err == nil {
				switch {
				case !ok:
					add("C11:trace:accepted-type-not-permitted", fmt.Sprintf("message type %d was accepted in state %s, whose map entry does not permit it", ev.msgType, cur), i)
				case next != ev.to:
					add("C11:trace:successor-differs", fmt.Sprintf("message type %d in state %s led to %s, the map says %s", ev.msgType, cur, ev.to, next), i)
				}
				if inbound && !peer {
					add("C11:trace:received-message-accepted-without-peer-agency", fmt.Sprintf("a received message of type %d was accepted in state %s, where the peer does not hold agency", ev.msgType, cur), i)
				}
				cur = ev.to
				if inbound {
					pending = ev.msg
				}
			} else {
				rejects++
				if ok && holder {
					add("C11:trace:permitted-message-rejected", fmt.Sprintf("message type %d is permitted in state %s and its sender holds agency, but it was rejected: %v", ev.msgType, cur, ev.err), i)
				}
			}
		case "deliver":
			delivers++
			if errored {
				add("C11:trace:deliver-after-error", fmt.Sprintf("a received message of type %d reached the handler after the protocol had reported an error", ev.msgType), i)
			}
			if pending == nil || pending != ev.msg {
				add("C11:trace:deliver-without-accepted-transition", fmt.Sprintf("a received message of type %d reached the handler without a preceding accepted transition for it", ev.msgType), i)
			}
			pending = nil
		case "error":
			errored = true
		}
	}
	return
}

// ------------------------------------------------------------------ script

type c11Pending struct {
	key      string
	msg      protocol.Message // instance used by the script's model
	deferred bool             // written while the local side held agency
}

type c11Run struct {
	c     *core.Ctx
	t     *tctx
	role  int
	cfg   *protocol.ProtocolConfig
	e     *engine
	r     *core.Rand
	byTag map[uint8][]string

	te    int // index of the next unread transition / error event
	last  int // index of the last one read
	ctx   any
	cur   protocol.State
	inq   []c11Pending
	ended bool
	log   []string

	findings     []finding
	inconclusive string
	steps        int
	illegalRej   int
	deferred     int
	deferredDone int
	earlyReject  int
	bursts       int
	splits       int
}

func (x *c11Run) note(f string, a ...any) { x.log = append(x.log, fmt.Sprintf(f, a...)) }

func (x *c11Run) fail(key, what string) {
	x.findings = append(x.findings, finding{key: key, what: what, w: map[string]any{}})
}

// nextTE: the next transition or error event of the log, whatever it is. The
// script keeps its own position in the log: waiting for a settle event (seg,
// handled) must not skip a transition that was logged in between.
func (x *c11Run) nextTE() (evRec, bool) {
	i, ev, ok := x.e.waitFrom(x.te, isTransOrError)
	if ok {
		x.te, x.last = i+1, i
	}
	return ev, ok
}

// settled waits for an event behind the last transition without moving on.
func (x *c11Run) settled(pred func(*evRec) bool) (evRec, bool) {
	_, ev, ok := x.e.waitFrom(x.last+1, pred)
	return ev, ok
}

// waitFrom returns the first event at index >= start that satisfies pred.
func (e *engine) waitFrom(start int, pred func(*evRec) bool) (int, evRec, bool) {
	t := time.NewTimer(watchdog)
	defer t.Stop()
	for {
		e.mu.Lock()
		for i := start; i < len(e.evs); i++ {
			r := e.evs[i]
			if pred(&r) {
				e.mu.Unlock()
				return i, r, true
			}
		}
		start = len(e.evs)
		e.mu.Unlock()
		select {
		case <-e.wake:
		case <-t.C:
			return 0, evRec{}, false
		}
	}
}

// write sends the given letters from the raw peer: framing 0 = one segment per
// message, 1 = all in one segment, 2 = every message split over two segments.
func (x *c11Run) write(keys []string, framing int) bool {
	var segs [][]byte
	switch framing {
	case 1:
		var all []byte
		for _, k := range keys {
			all = append(all, x.t.bytes[k]...)
		}
		segs = append(segs, all)
		if len(keys) > 1 {
			x.bursts++
		}
	case 2:
		for _, k := range keys {
			b := x.t.bytes[k]
			if len(b) < 2 {
				segs = append(segs, b)
				continue
			}
			cut := 1 + x.r.Intn(len(b)-1)
			segs = append(segs, b[:cut], b[cut:])
			x.splits++
		}
	default:
		for _, k := range keys {
			segs = append(segs, x.t.bytes[k])
		}
	}
	for _, s := range segs {
		if _, err := x.e.b.Write(netsim.EncodeSeg(x.cfg.ProtocolId, x.e.client, s)); err != nil {
			x.inconclusive = fmt.Sprintf("raw peer write failed: %v", err)
			return false
		}
	}
	for _, k := range keys {
		m, err := x.t.Build[k]()
		if err != nil {
			x.inconclusive = "constructor failed: " + err.Error()
			return false
		}
		l, _ := localAgency(x.cfg, x.cur)
		x.inq = append(x.inq, c11Pending{k, m, l})
	}
	x.note("peer writes %v framing=%d", keys, framing)
	return true
}

// drain follows the engine while the peer holds agency and received messages
// are waiting: each must be processed next, accepted iff the map permits it.
func (x *c11Run) drain() {
	for !x.ended && x.inconclusive == "" && len(x.inq) > 0 {
		if _, peer := localAgency(x.cfg, x.cur); !peer {
			return
		}
		head := x.inq[0]
		x.inq = x.inq[1:]
		next, ok := permittedIn(x.cfg, x.ctx, x.cur, head.msg)
		ev, got := x.nextTE()
		if !got {
			x.inconclusive = fmt.Sprintf("no transition event for the received %s in state %s within the watchdog", head.key, x.cur)
			return
		}
		if ev.kind == "error" {
			if isTimeout(ev.err) {
				x.inconclusive = "state timeout fired: " + ev.err.Error()
				return
			}
			x.fail("C11:script:error-without-transition", fmt.Sprintf("the protocol reported %q before checking the received %s in state %s", ev.err, head.key, x.cur))
			x.ended = true
			return
		}
		if x.e.isOutbound(ev.msg) || ev.msgType != int(tagOf(x.t, head.key)) {
			x.fail("C11:script:unexpected-transition", fmt.Sprintf("expected the received %s to be processed next in state %s, saw a transition of type %d", head.key, x.cur, ev.msgType))
			x.ended = true
			return
		}
		x.steps++
		if head.deferred {
			x.deferredDone++
		}
		if ev.err == nil {
			if !ok {
				x.fail("C11:script:illegal-message-accepted", fmt.Sprintf("the peer's %s is not permitted in state %s, but it was accepted (-> %s)", head.key, x.cur, ev.to))
				x.ended = true
				return
			}
			// (searched in the whole log by message: a handler that ran before the transition
			// is reported by checkTrace and must not stall the script)
			if _, _, g := x.e.waitFrom(0, func(r *evRec) bool { return (r.kind == "handled" && r.msg == ev.msg) || r.kind == "error" }); !g {
				x.inconclusive = "accepted message was not handled within the watchdog"
				return
			}
			x.note("%s accepted %s -> %s", head.key, x.cur, next)
			x.cur = next
			continue
		}
		// rejected
		if ok {
			x.fail("C11:script:legal-message-rejected", fmt.Sprintf("the peer's %s is permitted in state %s and the peer holds agency, but it was rejected: %v", head.key, x.cur, ev.err))
		} else {
			x.illegalRej++
		}
		x.note("%s rejected in %s", head.key, x.cur)
		x.ended = true
		x.afterRejection(head.key)
		return
	}
}

// afterRejection: the protocol must report the error and stop; a further
// message of the peer must not reach the handler.
func (x *c11Run) afterRejection(key string) {
	er, got := x.settled(func(r *evRec) bool { return r.kind == "error" })
	if !got {
		x.fail("C11:stop:no-error-event", fmt.Sprintf("the rejected %s was not followed by the protocol's error report", key))
		return
	}
	_ = er
	// a message that the state (unchanged by the rejection) permits
	for _, k := range x.t.Spec.Keys() {
		m, err := x.t.Build[k]()
		if err != nil {
			continue
		}
		if _, ok := permittedIn(x.cfg, freshCtxFrom(x.cfg, x.ctx), x.cur, m); ok {
			x.e.b.Write(netsim.EncodeSeg(x.cfg.ProtocolId, x.e.client, x.t.bytes[k]))
			x.note("follow-up %s after the error", k)
			break
		}
	}
	// Stop() is called by the goroutine that reported the error, right after it
	// (it logs a stop event). No stop event over a long quiescence window = the
	// protocol did not stop; a stop event without DoneChan closing = inconclusive.
	window := stopWindow
	if stopBroken.Load() {
		window = 200 * time.Millisecond // (only after the verdict was reached once: keeps a broken tree's run short)
	}
	quiet := time.NewTimer(window)
	defer quiet.Stop()
	t := time.NewTimer(watchdog)
	defer t.Stop()
	for {
		late, seenErr, stopped := false, false, false
		for _, r := range x.e.snapshot() {
			switch {
			case r.kind == "error":
				seenErr = true
			case r.kind == "stop":
				stopped = true
			case r.kind == "deliver" && seenErr:
				late = true
			}
		}
		if late {
			return // checkTrace reports deliver-after-error
		}
		select {
		case <-x.e.p.DoneChan():
			select {
			case <-x.e.errCh:
			default:
				x.fail("C11:stop:error-not-on-errorchan", "the protocol stopped after an illegal message, but its ErrorChan holds no error")
			}
			return
		case <-x.e.wake:
		case <-quiet.C:
			if !stopped {
				stopBroken.Store(true)
				x.fail("C11:stop:not-stopped-after-error", fmt.Sprintf("after rejecting %s the protocol reported the error but did not stop (no stop event, DoneChan open) over a quiescence window of %v", key, window))
				return
			}
		case <-t.C:
			x.inconclusive = fmt.Sprintf("after rejecting %s the protocol's DoneChan did not close within the watchdog; trace %v", key, clipTrace(x.e.trace(), 30))
			return
		}
	}
}

// stopWindow: quiescence window for "reported an error but never stopped".
const stopWindow = 10 * time.Second

var stopBroken atomic.Bool

// freshCtxFrom: a throw-away copy of the model context (evaluating a MatchFunc
// for a message that is never sent must not disturb the model).
func freshCtxFrom(cfg *protocol.ProtocolConfig, ctx any) any {
	if ctx == nil {
		return nil
	}
	return cloneCtx(ctx)
}

func (x *c11Run) pickLetter(filter func(tag uint8) bool) (string, bool) {
	keys := x.t.Spec.Keys()
	for _, i := range x.r.Perm(len(keys)) {
		if filter(tagOf(x.t, keys[i])) {
			return keys[i], true
		}
	}
	return "", false
}

func (x *c11Run) localMove() {
	// a legal move of the local side: a random transition of the current state
	types := typesOf(x.cfg, x.cur)
	key, ok := x.pickLetter(func(tag uint8) bool { return types[tag] })
	if !ok {
		x.ended = true
		return
	}
	msg, err := x.t.Build[key]()
	if err != nil {
		x.inconclusive = "constructor failed: " + err.Error()
		return
	}
	next, ok := permittedIn(x.cfg, x.ctx, x.cur, msg)
	if !ok { // (a variant the MatchFunc does not take in this state)
		return
	}
	x.e.outbound[msg] = true
	if err := x.e.p.SendMessage(msg); err != nil {
		x.inconclusive = "SendMessage failed: " + err.Error()
		return
	}
	ev, got := x.nextTE()
	switch {
	case !got:
		x.inconclusive = fmt.Sprintf("no transition event for the local %s in state %s", key, x.cur)
		return
	case ev.kind == "error" && isTimeout(ev.err):
		x.inconclusive = "state timeout fired"
		return
	case ev.kind == "trans" && !x.e.isOutbound(ev.msg):
		// a deferred message of the peer was processed although the local side holds agency
		if ev.err != nil {
			x.earlyReject++ // refused early: the statement allows that
		}
		// (an early acceptance is reported by checkTrace)
		x.ended = true
		return
	case ev.kind != "trans" || ev.msg != msg || ev.err != nil:
		x.fail("C11:script:local-legal-move-failed", fmt.Sprintf("the local side's %s in state %s (agency local) gave %s err=%v", key, x.cur, ev.kind, ev.err))
		x.ended = true
		return
	}
	if _, g := x.settled(func(r *evRec) bool { return r.kind == "seg" || r.kind == "error" }); !g {
		x.inconclusive = "local message was not handed to the muxer within the watchdog"
		return
	}
	x.steps++
	x.note("local %s %s -> %s", key, x.cur, next)
	x.cur = next
}

func (x *c11Run) run(maxSteps int) {
	for i := 0; i < maxSteps && !x.ended && x.inconclusive == ""; i++ {
		local, peer := localAgency(x.cfg, x.cur)
		if !local && !peer {
			// terminal: whatever the peer still sends must never reach the handler
			if k, ok := x.pickLetter(func(uint8) bool { return true }); ok {
				x.e.b.Write(netsim.EncodeSeg(x.cfg.ProtocolId, x.e.client, x.t.bytes[k]))
				x.note("stray %s after the terminal state", k)
			}
			return
		}
		types := typesOf(x.cfg, x.cur)
		framing := x.r.Intn(3)
		if local {
			if len(x.inq) < 5 && x.r.Chance(1, 4) {
				// the peer speaks out of turn: half of the time with a type the current state
				// permits (to the local side)
				n := 1 + x.r.Intn(2)
				var ks []string
				for j := 0; j < n; j++ {
					echo := x.r.Bool()
					if k, ok := x.pickLetter(func(tag uint8) bool { return !echo || types[tag] }); ok {
						ks = append(ks, k)
					}
				}
				x.deferred += len(ks)
				if !x.write(ks, framing) {
					return
				}
				continue
			}
			x.localMove()
			x.drain()
			continue
		}
		// the peer holds agency
		var ks []string
		if x.r.Chance(17, 20) {
			if k, ok := x.pickLetter(func(tag uint8) bool { return types[tag] }); ok {
				ks = append(ks, k)
			}
			switch x.r.Intn(6) {
			case 0: // duplicate
				ks = append(ks, ks[0])
			case 1: // burst of further messages, whatever they are
				for j := 0; j < 1+x.r.Intn(3); j++ {
					if k, ok := x.pickLetter(func(uint8) bool { return true }); ok {
						ks = append(ks, k)
					}
				}
			}
		} else {
			if k, ok := x.pickLetter(func(tag uint8) bool { return !types[tag] }); ok {
				ks = append(ks, k)
			} else if k, ok := x.pickLetter(func(tag uint8) bool { return true }); ok {
				ks = append(ks, k)
			}
			if x.r.Chance(1, 3) {
				if k, ok := x.pickLetter(func(tag uint8) bool { return types[tag] }); ok {
					ks = append(ks, k) // a legal one right behind the illegal one
				}
			}
		}
		if !x.write(ks, framing) {
			return
		}
		x.drain()
	}
}

// RunC11 is the Run function of monitor C11 (registered by package mon/c11).
func RunC11(c *core.Ctx) {
	protocol.VerifSetSink(sink)
	defer protocol.VerifSetSink(nil)
	protocol.VerifSetPoint(perturb)
	defer protocol.VerifSetPoint(nil)
	g0 := runtime.NumGoroutine()
	ts := setupTargets(c)
	c.Note("targets", len(ts))
	perEngine := c.N(60, 3000)
	type job struct {
		t    *tctx
		role int
		k    int
	}
	var jobs []job
	for _, t := range ts {
		for role := 0; role < 2; role++ {
			for k := 0; k < perEngine; k++ {
				jobs = append(jobs, job{t, role, k})
			}
		}
	}
	workers := runtime.GOMAXPROCS(0)
	if workers > 16 {
		workers = 16
	}
	type result struct {
		x     *c11Run
		trace []finding
		dl    int
		rj    int
		tr    []string
	}
	results := make([]result, len(jobs))
	c.Parallel("script", len(jobs), workers, func(i int, r *core.Rand) {
		j := jobs[i]
		cfg := j.t.cfg[j.role]
		c.Journal("C11 script %s/%s #%d", j.t.Name, roleName[j.role], j.k)
		a, b := netsim.Pipe()
		pert := uint64(0)
		if j.k%4 != 0 {
			pert = r.Uint64() | 1
		}
		e := newEngineOn(cfg, a, nil, pert)
		e.b = b
		x := &c11Run{c: c, t: j.t, role: j.role, cfg: &e.cfg, e: e, r: r, byTag: lettersByTag(j.t), ctx: freshCtx(&e.cfg), cur: cfg.InitialState}
		x.run(5 + r.Intn(25))
		evs := e.snapshot()
		tr := e.trace()
		if !e.close() && x.inconclusive == "" {
			x.inconclusive = "engine did not shut down within the watchdog"
		}
		// the log may have grown while closing (nothing may be delivered then either)
		evs = e.snapshot()
		f, dl, rj := checkTrace(&e.cfg, evs, e.outbound)
		results[i] = result{x, f, dl, rj, tr}
	})
	for i, res := range results {
		j, x := jobs[i], res.x
		c.Eval()
		if x.inconclusive != "" {
			c.Inconclusive(fmt.Sprintf("%s/%s #%d: %s", j.t.Name, roleName[j.role], j.k, x.inconclusive))
			continue
		}
		if x.steps > 0 {
			c.Distinct(j.t.Name, j.role, strings.Join(x.log, ";"))
		}
		c.Count("engines_run", 1)
		c.Count("steps", x.steps)
		c.Count("delivers_checked", res.dl)
		c.Count("transitions_rejected", res.rj)
		c.Count("illegal_messages_rejected", x.illegalRej)
		c.Count("out_of_turn_messages_sent", x.deferred)
		c.Count("out_of_turn_rejected_early", x.earlyReject)
		c.Count("out_of_turn_processed_after_agency_returned", x.deferredDone)
		c.Count("bursts_in_one_segment", x.bursts)
		c.Count("messages_split_over_segments", x.splits)
		c.Count("scripts:"+j.t.Name, 1)
		w := map[string]any{"target": j.t.Name, "role": roleName[j.role], "script": x.log, "trace": clipTrace(res.tr, 60)}
		for _, f := range append(res.trace, x.findings...) {
			f.w["run"] = w
			c.Violation(f.key, fmt.Sprintf("%s/%s: %s [script: %s]", j.t.Name, roleName[j.role], f.what, strings.Join(clipTrace(x.log, 12), "; ")), f.w)
		}
		if i%211 == 0 {
			c.Sample(map[string]any{"target": j.t.Name, "role": roleName[j.role], "script": clipTrace(x.log, 14), "delivers": res.dl})
		}
	}
	if c.Counter("delivers_checked") == 0 || c.Counter("illegal_messages_rejected") == 0 || c.Counter("out_of_turn_messages_sent") == 0 {
		runInconclusive(c, "the run did not see deliveries, rejected illegal messages and out-of-turn messages")
	}
	n := runtime.NumGoroutine()
	for i := 0; i < 300 && n > g0+8; i++ {
		time.Sleep(10 * time.Millisecond)
		n = runtime.NumGoroutine()
	}
	c.Note("goroutines_before", g0)
	c.Note("goroutines_after", n)
}
