package c16

import (
	"fmt"
	"hash/fnv"
	"reflect"
	"runtime"
	"sort"
	"time"

	"github.com/blinklabs-io/gouroboros/protocol"

	"verifharness/core"
	"verifharness/specfsm"
)

// Shared by C11 and C12: the executable reading of "permitted in the current
// state" over the IMPLEMENTATION'S OWN state map (equality of that map with
// the specification is C16), and the schedule perturbation.

// freshCtx returns a zero value of the configuration's state context type
// (leios-votes keeps its token counter there), so a model can replay the
// MatchFuncs beside the engine without touching the engine's own context.
func freshCtx(cfg *protocol.ProtocolConfig) any {
	if cfg.StateContext == nil {
		return nil
	}
	if t := reflect.TypeOf(cfg.StateContext); t.Kind() == reflect.Pointer {
		return reflect.New(t.Elem()).Interface()
	}
	return cfg.StateContext
}

// permitted: the message's type is admitted in state st (a transition with
// that type whose MatchFunc, if any, accepts the message); returns the
// successor. Written from the statement, evaluated in map order like a reader
// of the map would.
func permittedIn(cfg *protocol.ProtocolConfig, ctx any, st protocol.State, msg protocol.Message) (protocol.State, bool) {
	entry, ok := cfg.StateMap[st]
	if !ok {
		return protocol.State{}, false
	}
	for _, tr := range entry.Transitions {
		if tr.MsgType != msg.Type() {
			continue
		}
		if tr.MatchFunc != nil && !tr.MatchFunc(ctx, msg) {
			continue
		}
		return tr.NewState, true
	}
	return protocol.State{}, false
}

func typesOf(cfg *protocol.ProtocolConfig, st protocol.State) map[uint8]bool {
	out := map[uint8]bool{}
	for _, tr := range cfg.StateMap[st].Transitions {
		out[tr.MsgType] = true
	}
	return out
}

func localAgency(cfg *protocol.ProtocolConfig, st protocol.State) (local, peer bool) {
	a := cfg.StateMap[st].Agency
	if a == protocol.AgencyNone {
		return false, false
	}
	l := (a == protocol.AgencyClient) == (cfg.Role == protocol.ProtocolRoleClient)
	return l, !l
}

// lettersByTag: the catalogue of well-formed instances (the specification's
// alphabet is only used as a list of constructors here, not as an oracle).
func lettersByTag(t *tctx) map[uint8][]string {
	out := map[uint8][]string{}
	for _, m := range t.Spec.Msgs {
		out[m.Tag] = append(out[m.Tag], m.Key)
	}
	return out
}

func tagOf(t *tctx, key string) uint8 { return t.Spec.Msg(key).Tag }

// setupTargets builds the targets with their live configurations (as C16 does).
func setupTargets(c *core.Ctx) []*tctx {
	var ts []*tctx
	for _, tg := range targets() {
		t := setup(c, tg)
		if !t.broken {
			ts = append(ts, t)
		}
	}
	return ts
}

var _ = specfsm.Nobody

// ------------------------------------------------------------------ perturbation

func mix64(z uint64) uint64 {
	z += 0x9e3779b97f4a7c15
	z = (z ^ (z >> 30)) * 0xbf58476d1ce4e5b9
	z = (z ^ (z >> 27)) * 0x94d049bb133111eb
	return z ^ (z >> 31)
}

func strHash(s string) uint64 {
	h := fnv.New64a()
	h.Write([]byte(s))
	return h.Sum64()
}

// perturb is installed with protocol.VerifSetPoint: at the named hand-off
// points of an engine with a perturbation seed it yields or sleeps, chosen by
// (seed, point name, how many points this engine has passed).
func perturb(name string, p *protocol.Protocol) {
	x, ok := engines.Load(p)
	if !ok {
		return
	}
	e := x.(*engine)
	if e.holdPoint != "" && e.holdPoint == name {
		e.park()
	}
	if e.pert == 0 {
		return
	}
	n := e.pertN.Add(1)
	h := mix64(e.pert ^ strHash(name) ^ mix64(n))
	switch h % 10 {
	case 0, 1, 2, 3:
	case 4, 5, 6:
		for i := uint64(0); i <= (h>>8)%4; i++ {
			runtime.Gosched()
		}
	case 7, 8:
		time.Sleep(time.Duration(20+(h>>8)%80) * time.Microsecond)
	default:
		time.Sleep(time.Duration(200+(h>>8)%400) * time.Microsecond)
	}
}

// ------------------------------------------------------------------ small helpers

func sortedStates(cfg *protocol.ProtocolConfig) []protocol.State {
	var sts []protocol.State
	for s := range cfg.StateMap {
		sts = append(sts, s)
	}
	sort.Slice(sts, func(i, j int) bool { return sts[i].Id < sts[j].Id })
	return sts
}

func (e *engine) snapshot() []evRec {
	e.mu.Lock()
	defer e.mu.Unlock()
	return append([]evRec(nil), e.evs...)
}

func clipTrace(tr []string, n int) []string {
	if len(tr) <= n {
		return tr
	}
	out := append([]string(nil), tr[:n/2]...)
	out = append(out, fmt.Sprintf("... %d events ...", len(tr)-n))
	return append(out, tr[len(tr)-n/2:]...)
}

func runInconclusive(c *core.Ctx, what string) {
	for i := int64(0); i <= c.Evals()/50+1; i++ {
		c.Inconclusive(what)
	}
}

// cloneCtx copies a state context (pointer to a struct) so that a MatchFunc can
// be evaluated without side effects on the original.
func cloneCtx(ctx any) any {
	v := reflect.ValueOf(ctx)
	if v.Kind() != reflect.Pointer || v.IsNil() {
		return ctx
	}
	n := reflect.New(v.Elem().Type())
	n.Elem().Set(v.Elem())
	return n.Interface()
}
