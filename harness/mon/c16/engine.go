package c16

import (
	"fmt"
	"reflect"
	"sync"
	"sync/atomic"
	"time"

	gcbor "github.com/blinklabs-io/gouroboros/cbor"
	"github.com/blinklabs-io/gouroboros/muxer"
	"github.com/blinklabs-io/gouroboros/protocol"

	"verifharness/cborx"
	"verifharness/netsim"
)

// watchdog bounds every wait for a trace event. Its firing never decides a
// verdict: the run is reported as inconclusive.
const watchdog = 30 * time.Second

type evRec struct {
	kind     string
	msg      protocol.Message
	msgType  int
	from, to protocol.State
	err      error
	ln       int    // Len of the hook event (seg: payload bytes, enq: message bytes)
	seq      uint64 // global order over all engines (C12 merges two logs)
}

var evSeq atomic.Uint64

// engine is one fresh protocol.Protocol built from the implementation's
// configuration with a recorder handler, on its own muxer over an in-memory
// connection whose other end is a raw muxer-segment peer.
type engine struct {
	p      *protocol.Protocol
	cfg    protocol.ProtocolConfig
	a, b   *netsim.Conn
	mux    *muxer.Muxer
	errCh  chan error
	client bool

	mu       sync.Mutex
	evs      []evRec
	cursor   int
	wake     chan struct{}
	outbound map[protocol.Message]bool
	handled  int

	// C11 / C12 only: schedule perturbation at the protocol's verif points
	pert  uint64
	pertN atomic.Uint64

	// C12 histories only: park the engine's goroutine at its next `trans` event
	// (holdTrans) or at the named verif point (holdPoint) until release is closed;
	// held is closed when it got there. No lock is held at either place.
	holdTrans bool
	holdPoint string
	held      chan struct{}
	release   chan struct{}
	heldOnce  sync.Once
}

func (e *engine) park() {
	if e.held == nil {
		return
	}
	first := false
	e.heldOnce.Do(func() { first = true; close(e.held) })
	if !first {
		return
	}
	select {
	case <-e.release:
	case <-time.After(2 * watchdog):
	}
}

var engines sync.Map // *protocol.Protocol -> *engine

func sink(ev protocol.VerifEvent) {
	x, ok := engines.Load(ev.Proto)
	if !ok {
		return
	}
	e := x.(*engine)
	e.mu.Lock()
	e.evs = append(e.evs, evRec{kind: ev.Kind, msg: ev.Msg, msgType: ev.MsgType, from: ev.From, to: ev.To, err: ev.Err, ln: ev.Len, seq: evSeq.Add(1)})
	e.mu.Unlock()
	select {
	case e.wake <- struct{}{}:
	default:
	}
	if e.holdTrans && ev.Kind == "trans" {
		e.park()
	}
}

func newEngine(cfg protocol.ProtocolConfig) *engine {
	a, b := netsim.Pipe()
	e := newEngineOn(cfg, a, nil, 0)
	e.b = b
	return e
}

// newEngineOn builds the engine on a given connection end (C12 connects two
// engines muxer to muxer); handler nil = plain recorder. b stays nil.
func newEngineOn(cfg protocol.ProtocolConfig, a *netsim.Conn, handler func(*engine, protocol.Message) error, pert uint64) *engine {
	return newEngineOpt(cfg, a, handler, pert, nil)
}

// newEngineOpt: opt runs on the engine before anything is started.
func newEngineOpt(cfg protocol.ProtocolConfig, a *netsim.Conn, handler func(*engine, protocol.Message) error, pert uint64, opt func(*engine)) *engine {
	e := &engine{wake: make(chan struct{}, 1), outbound: map[protocol.Message]bool{}, pert: pert}
	if opt != nil {
		opt(e)
	}
	e.a = a
	e.mux = muxer.New(e.a)
	e.errCh = make(chan error, 10)
	cfg.Muxer = e.mux
	cfg.ErrorChan = e.errCh
	cfg.MessageHandlerFunc = func(m protocol.Message) error {
		e.mu.Lock()
		e.handled++
		e.mu.Unlock()
		if handler != nil {
			return handler(e, m)
		}
		return nil
	}
	// a fresh state context (leios-votes keeps its token counter there)
	if cfg.StateContext != nil {
		if t := reflect.TypeOf(cfg.StateContext); t.Kind() == reflect.Pointer {
			cfg.StateContext = reflect.New(t.Elem()).Interface()
		}
	}
	e.cfg = cfg
	e.client = cfg.Role == protocol.ProtocolRoleClient
	e.p = protocol.New(cfg)
	engines.Store(e.p, e)
	e.p.Start()
	e.mux.Start()
	return e
}

// close stops everything the engine started and waits for it to be gone.
func (e *engine) close() (clean bool) {
	// muxer first: Protocol.Stop unregisters from the muxer, which needs a lock
	// the muxer's read loop holds while it waits to hand over a segment
	e.mux.Stop()
	e.p.Stop()
	e.a.Close()
	if e.b != nil {
		e.b.Close()
	}
	clean = true
	t := time.NewTimer(watchdog)
	defer t.Stop()
	select {
	case <-e.p.DoneChan():
	case <-t.C:
		clean = false
	}
	ch := e.mux.ErrorChan()
	for clean {
		select {
		case _, ok := <-ch:
			if !ok {
				engines.Delete(e.p)
				return clean
			}
		case <-t.C:
			clean = false
		}
	}
	engines.Delete(e.p)
	return clean
}

// next returns the first event at or after the cursor that satisfies pred and
// moves the cursor behind it; ok=false when the watchdog fired.
func (e *engine) next(pred func(*evRec) bool) (evRec, bool) {
	t := time.NewTimer(watchdog)
	defer t.Stop()
	for {
		e.mu.Lock()
		for e.cursor < len(e.evs) {
			r := e.evs[e.cursor]
			e.cursor++
			if pred(&r) {
				e.mu.Unlock()
				return r, true
			}
		}
		e.mu.Unlock()
		select {
		case <-e.wake:
		case <-t.C:
			return evRec{}, false
		}
	}
}

func (e *engine) trace() []string {
	e.mu.Lock()
	defer e.mu.Unlock()
	var out []string
	for _, r := range e.evs {
		s := r.kind
		if r.msgType >= 0 {
			s += fmt.Sprintf("(type %d)", r.msgType)
		}
		if r.kind == "trans" {
			s += fmt.Sprintf(" %s->%s", r.from, r.to)
		}
		if r.err != nil {
			s += " err=" + r.err.Error()
		}
		out = append(out, s)
	}
	return out
}

type verdict int

const (
	vAccepted verdict = iota // a trans event without error, message delivered / segment produced
	vRejected                // a trans event with an error followed by the protocol's error event
	vError                   // an error event without a transition (decode error, queue limit ...)
	vSendErr                 // SendMessage returned an error
	vHang                    // watchdog
)

func (v verdict) String() string {
	return [...]string{"accepted", "rejected", "error", "send-error", "no-event"}[v]
}

type outcome struct {
	v        verdict
	from, to protocol.State
	err      error
}

func isTransOrError(r *evRec) bool { return r.kind == "trans" || r.kind == "error" }

// finish turns the first trans / error event of a step into an outcome,
// waiting for the step to settle (state set, handler returned / segment
// handed to the muxer, or the protocol's error event).
func (e *engine) finish(r evRec, inbound bool) outcome {
	if r.kind == "error" {
		return outcome{v: vError, from: r.from, err: r.err}
	}
	if r.err != nil {
		er, ok := e.next(func(x *evRec) bool { return x.kind == "error" })
		if !ok {
			return outcome{v: vHang, from: r.from, err: fmt.Errorf("transition error %q was not followed by an error event", r.err)}
		}
		return outcome{v: vRejected, from: r.from, err: er.err}
	}
	settle := "seg"
	if inbound {
		settle = "handled"
	}
	if _, ok := e.next(func(x *evRec) bool { return x.kind == settle || x.kind == "error" }); !ok {
		return outcome{v: vHang, from: r.from, to: r.to, err: fmt.Errorf("accepted transition was not followed by a %q event", settle)}
	}
	return outcome{v: vAccepted, from: r.from, to: r.to}
}

// sendLocal: "local sends m".
func (e *engine) sendLocal(m protocol.Message) outcome {
	e.outbound[m] = true
	if err := e.p.SendMessage(m); err != nil {
		return outcome{v: vSendErr, err: err}
	}
	r, ok := e.next(func(x *evRec) bool { return (x.kind == "trans" && x.msg == m) || x.kind == "error" })
	if !ok {
		return outcome{v: vHang}
	}
	return e.finish(r, false)
}

// writePeer writes one message as one muxer segment from the raw peer.
func (e *engine) writePeer(payload []byte) error {
	// the peer of a client engine is a responder (direction bit set)
	_, err := e.b.Write(netsim.EncodeSeg(e.cfg.ProtocolId, e.client, payload))
	return err
}

// isOutbound: outbound is touched by the goroutine that drives the engine only
// (also from inside next's predicate, which runs under e.mu).
func (e *engine) isOutbound(m protocol.Message) bool { return e.outbound[m] }

// sendPeer: "peer sends m".
func (e *engine) sendPeer(payload []byte) outcome {
	if err := e.writePeer(payload); err != nil {
		return outcome{v: vSendErr, err: err}
	}
	r, ok := e.next(func(x *evRec) bool { return (x.kind == "trans" && !e.isOutbound(x.msg)) || x.kind == "error" })
	if !ok {
		return outcome{v: vHang}
	}
	return e.finish(r, true)
}

// encode produces the wire bytes of a canonical instance with the library's
// encoder and checks with the independent parser that they are one CBOR array
// whose first element is the specification's tag.
func encode(m protocol.Message, tag uint8) ([]byte, error) {
	b, err := gcbor.Encode(m)
	if err != nil {
		return nil, err
	}
	n, err := cborx.ParseExact(b)
	if err != nil {
		return nil, fmt.Errorf("encoding is not one CBOR item: %w", err)
	}
	if n.Kind != cborx.Array || len(n.Items) == 0 || n.Items[0].Kind != cborx.Uint || n.Items[0].Arg != uint64(tag) {
		return nil, fmt.Errorf("encoding %s does not start with tag %d", n.Diag(), tag)
	}
	return b, nil
}
