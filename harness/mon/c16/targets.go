package c16

import (
	"bytes"
	"net"

	gcbor "github.com/blinklabs-io/gouroboros/cbor"
	lcommon "github.com/blinklabs-io/gouroboros/ledger/common"
	"github.com/blinklabs-io/gouroboros/protocol"
	"github.com/blinklabs-io/gouroboros/protocol/blockfetch"
	"github.com/blinklabs-io/gouroboros/protocol/chainsync"
	pcommon "github.com/blinklabs-io/gouroboros/protocol/common"
	"github.com/blinklabs-io/gouroboros/protocol/handshake"
	"github.com/blinklabs-io/gouroboros/protocol/keepalive"
	"github.com/blinklabs-io/gouroboros/protocol/leiosfetch"
	"github.com/blinklabs-io/gouroboros/protocol/leiosnotify"
	"github.com/blinklabs-io/gouroboros/protocol/leiosvotes"
	"github.com/blinklabs-io/gouroboros/protocol/localmessagenotification"
	"github.com/blinklabs-io/gouroboros/protocol/localmessagesubmission"
	"github.com/blinklabs-io/gouroboros/protocol/localstatequery"
	"github.com/blinklabs-io/gouroboros/protocol/localtxmonitor"
	"github.com/blinklabs-io/gouroboros/protocol/localtxsubmission"
	"github.com/blinklabs-io/gouroboros/protocol/messagesubmission"
	"github.com/blinklabs-io/gouroboros/protocol/peersharing"
	"github.com/blinklabs-io/gouroboros/protocol/txsubmission"

	"verifharness/cborx"
	"verifharness/specfsm"
)

type builder func() (protocol.Message, error)

// target is one (protocol, mode) of the implementation together with the
// specification automaton it has to match and one canonical instance per
// letter of the specification's alphabet (built with the NewMsg* constructors).
type target struct {
	Name    string
	Spec    *specfsm.Automaton
	Mode    protocol.ProtocolMode
	Version uint16
	// Live constructs the real Client / Server (never started by us, except to
	// release a goroutine its constructor spawned) and returns its engine.
	Live  func(o protocol.ProtocolOptions, role protocol.ProtocolRole) (*protocol.Protocol, func())
	Build map[string]builder
}

func m2(m protocol.Message) (protocol.Message, error) { return m, nil }

var (
	hashA = bytes.Repeat([]byte{0xa1}, 32)
	hashB = bytes.Repeat([]byte{0xb2}, 32)
)

func point() pcommon.Point  { return pcommon.NewPoint(4492800, hashA) }
func point2() pcommon.Point { return pcommon.NewPoint(4492900, hashB) }
func tip() pcommon.Tip      { return pcommon.Tip{Point: point2(), BlockNumber: 4490511} }

// fakeHeader: a CBOR item standing in for a block header / block body (the
// message codecs treat it as opaque).
func fakeHeader() []byte {
	return cborx.A(cborx.A(cborx.U(7), cborx.U(4492800), cborx.B(hashA)), cborx.B(bytes.Repeat([]byte{0x5c}, 64))).Encode()
}

func dmqMessage() pcommon.DmqMessage {
	m := pcommon.DmqMessage{
		Payload: pcommon.DmqMessagePayload{
			MessageBody: []byte("c16 canonical message"),
			KESPeriod:   3,
			ExpiresAt:   1900000000,
		},
		KESSignature: bytes.Repeat([]byte{0x77}, 448),
		OperationalCertificate: pcommon.OperationalCertificate{
			KESVerificationKey: hashA,
			IssueNumber:        1,
			KESPeriod:          2,
			ColdSignature:      bytes.Repeat([]byte{0x33}, 64),
		},
		ColdVerificationKey: hashB,
	}
	if err := m.SetComputedMessageID(); err != nil {
		panic(err)
	}
	return m
}

func leiosVote() lcommon.LeiosVote {
	return lcommon.LeiosVote{
		SlotNo:            1234,
		EndorserBlockHash: lcommon.NewBlake2b256(hashA),
		VoterId:           5,
		VoteSignature:     bytes.Repeat([]byte{0x42}, lcommon.LeiosBlsSignatureSize),
	}
}

func raw(n *cborx.Node) gcbor.RawMessage { return gcbor.RawMessage(n.Encode()) }

const magic = 764824073

func noCleanup() {}

func targets() []*target {
	var out []*target

	// ---------------------------------------------------------- handshake
	for _, md := range []struct {
		name string
		mode protocol.ProtocolMode
		ver  uint16
	}{{"handshake/ntn", protocol.ProtocolModeNodeToNode, 14}, {"handshake/ntc", protocol.ProtocolModeNodeToClient, 0x8000 + 16}} {
		md := md
		vm := func() protocol.ProtocolVersionMap {
			return protocol.GetProtocolVersionMap(md.mode, magic, false, false, false)
		}
		out = append(out, &target{
			Name: md.name, Spec: specfsm.Handshake(), Mode: md.mode,
			Live: func(o protocol.ProtocolOptions, role protocol.ProtocolRole) (*protocol.Protocol, func()) {
				cfg := handshake.NewConfig(handshake.WithProtocolVersionMap(vm()))
				if role == protocol.ProtocolRoleClient {
					return handshake.NewClient(o, &cfg).Protocol, noCleanup
				}
				return handshake.NewServer(o, &cfg).Protocol, noCleanup
			},
			Build: map[string]builder{
				"ProposeVersions": func() (protocol.Message, error) { return m2(handshake.NewMsgProposeVersions(vm())) },
				"AcceptVersion":   func() (protocol.Message, error) { return m2(handshake.NewMsgAcceptVersion(md.ver, vm()[md.ver])) },
				"Refuse": func() (protocol.Message, error) {
					return m2(handshake.NewMsgRefuse([]any{uint64(handshake.RefuseReasonVersionMismatch), []uint16{md.ver}}))
				},
				"QueryReply": func() (protocol.Message, error) { return m2(handshake.NewMsgQueryReply(vm())) },
			},
		})
	}

	// ---------------------------------------------------------- chain-sync
	for _, md := range []struct {
		name string
		mode protocol.ProtocolMode
	}{{"chain-sync/ntn", protocol.ProtocolModeNodeToNode}, {"chain-sync/ntc", protocol.ProtocolModeNodeToClient}} {
		md := md
		out = append(out, &target{
			Name: md.name, Spec: specfsm.ChainSync(), Mode: md.mode,
			Live: func(o protocol.ProtocolOptions, role protocol.ProtocolRole) (*protocol.Protocol, func()) {
				cfg := chainsync.NewConfig()
				if role == protocol.ProtocolRoleClient {
					return chainsync.NewClient(o, &cfg).Protocol, noCleanup
				}
				return chainsync.NewServer(o, &cfg).Protocol, noCleanup
			},
			Build: map[string]builder{
				"RequestNext": func() (protocol.Message, error) { return m2(chainsync.NewMsgRequestNext()) },
				"AwaitReply":  func() (protocol.Message, error) { return m2(chainsync.NewMsgAwaitReply()) },
				"RollForward": func() (protocol.Message, error) {
					if md.mode == protocol.ProtocolModeNodeToNode {
						return chainsync.NewMsgRollForwardNtN(6, 0, fakeHeader(), tip())
					}
					return chainsync.NewMsgRollForwardNtC(7, fakeHeader(), tip())
				},
				"RollBackward": func() (protocol.Message, error) { return m2(chainsync.NewMsgRollBackward(point(), tip())) },
				"FindIntersect": func() (protocol.Message, error) {
					return m2(chainsync.NewMsgFindIntersect([]pcommon.Point{point(), pcommon.NewPointOrigin()}))
				},
				"IntersectFound": func() (protocol.Message, error) {
					return m2(chainsync.NewMsgIntersectFound(point(), tip()))
				},
				"IntersectNotFound": func() (protocol.Message, error) { return m2(chainsync.NewMsgIntersectNotFound(tip())) },
				"Done":              func() (protocol.Message, error) { return m2(chainsync.NewMsgDone()) },
			},
		})
	}

	// ---------------------------------------------------------- block-fetch
	out = append(out, &target{
		Name: "block-fetch", Spec: specfsm.BlockFetch(), Mode: protocol.ProtocolModeNodeToNode,
		Live: func(o protocol.ProtocolOptions, role protocol.ProtocolRole) (*protocol.Protocol, func()) {
			cfg, err := blockfetch.NewConfig()
			if err != nil {
				panic(err)
			}
			if role == protocol.ProtocolRoleClient {
				return blockfetch.NewClient(o, &cfg).Protocol, noCleanup
			}
			return blockfetch.NewServer(o, &cfg).Protocol, noCleanup
		},
		Build: map[string]builder{
			"RequestRange": func() (protocol.Message, error) { return m2(blockfetch.NewMsgRequestRange(point(), point2())) },
			"ClientDone":   func() (protocol.Message, error) { return m2(blockfetch.NewMsgClientDone()) },
			"StartBatch":   func() (protocol.Message, error) { return m2(blockfetch.NewMsgStartBatch()) },
			"NoBlocks":     func() (protocol.Message, error) { return m2(blockfetch.NewMsgNoBlocks()) },
			"Block": func() (protocol.Message, error) {
				return m2(blockfetch.NewMsgBlock(cborx.A(cborx.U(6), cborx.Raw(fakeHeader())).Encode()))
			},
			"BatchDone": func() (protocol.Message, error) { return m2(blockfetch.NewMsgBatchDone()) },
		},
	})

	// ---------------------------------------------------------- tx-submission2
	txid := func() txsubmission.TxId {
		var id [32]byte
		copy(id[:], hashA)
		return txsubmission.TxId{EraId: 6, TxId: id}
	}
	out = append(out, &target{
		Name: "tx-submission2", Spec: specfsm.TxSubmission2(), Mode: protocol.ProtocolModeNodeToNode,
		Live: func(o protocol.ProtocolOptions, role protocol.ProtocolRole) (*protocol.Protocol, func()) {
			cfg := txsubmission.NewConfig()
			if role == protocol.ProtocolRoleClient {
				return txsubmission.NewClient(o, &cfg).Protocol, noCleanup
			}
			return txsubmission.NewServer(o, &cfg).Protocol, noCleanup
		},
		Build: map[string]builder{
			"Init":                       func() (protocol.Message, error) { return m2(txsubmission.NewMsgInit()) },
			"RequestTxIds[blocking]":     func() (protocol.Message, error) { return m2(txsubmission.NewMsgRequestTxIds(true, 0, 3)) },
			"RequestTxIds[non-blocking]": func() (protocol.Message, error) { return m2(txsubmission.NewMsgRequestTxIds(false, 0, 3)) },
			"ReplyTxIds": func() (protocol.Message, error) {
				return m2(txsubmission.NewMsgReplyTxIds([]txsubmission.TxIdAndSize{{TxId: txid(), Size: 300}}))
			},
			"RequestTxs": func() (protocol.Message, error) {
				return m2(txsubmission.NewMsgRequestTxs([]txsubmission.TxId{txid()}))
			},
			"ReplyTxs": func() (protocol.Message, error) {
				return m2(txsubmission.NewMsgReplyTxs([]txsubmission.TxBody{{EraId: 6, TxBody: cborx.A(cborx.M(), cborx.M(), cborx.Bool(true), cborx.Null()).Encode()}}))
			},
			"Done": func() (protocol.Message, error) { return m2(txsubmission.NewMsgDone()) },
		},
	})

	// ---------------------------------------------------------- keep-alive
	out = append(out, &target{
		Name: "keep-alive", Spec: specfsm.KeepAlive(), Mode: protocol.ProtocolModeNodeToNode,
		Live: func(o protocol.ProtocolOptions, role protocol.ProtocolRole) (*protocol.Protocol, func()) {
			cfg := keepalive.NewConfig()
			if role == protocol.ProtocolRoleClient {
				return keepalive.NewClient(o, &cfg).Protocol, noCleanup
			}
			return keepalive.NewServer(o, &cfg).Protocol, noCleanup
		},
		Build: map[string]builder{
			"KeepAlive":         func() (protocol.Message, error) { return m2(keepalive.NewMsgKeepAlive(0x3e7)) },
			"KeepAliveResponse": func() (protocol.Message, error) { return m2(keepalive.NewMsgKeepAliveResponse(0x3e7)) },
			"Done":              func() (protocol.Message, error) { return m2(keepalive.NewMsgDone()) },
		},
	})

	// ---------------------------------------------------------- peer-sharing
	out = append(out, &target{
		Name: "peer-sharing", Spec: specfsm.PeerSharing(), Mode: protocol.ProtocolModeNodeToNode, Version: 14,
		Live: func(o protocol.ProtocolOptions, role protocol.ProtocolRole) (*protocol.Protocol, func()) {
			cfg := peersharing.NewConfig()
			if role == protocol.ProtocolRoleClient {
				return peersharing.NewClient(o, &cfg).Protocol, noCleanup
			}
			return peersharing.NewServer(o, &cfg).Protocol, noCleanup
		},
		Build: map[string]builder{
			"ShareRequest": func() (protocol.Message, error) { return m2(peersharing.NewMsgShareRequest(4)) },
			"SharePeers": func() (protocol.Message, error) {
				return m2(peersharing.NewMsgSharePeers([]peersharing.PeerAddress{{IP: net.IPv4(10, 1, 2, 3), Port: 3001}}))
			},
			"Done": func() (protocol.Message, error) { return m2(peersharing.NewMsgDone()) },
		},
	})

	// ---------------------------------------------------------- local-tx-submission
	out = append(out, &target{
		Name: "local-tx-submission", Spec: specfsm.LocalTxSubmission(), Mode: protocol.ProtocolModeNodeToClient,
		Live: func(o protocol.ProtocolOptions, role protocol.ProtocolRole) (*protocol.Protocol, func()) {
			cfg := localtxsubmission.NewConfig()
			if role == protocol.ProtocolRoleClient {
				return localtxsubmission.NewClient(o, &cfg).Protocol, noCleanup
			}
			return localtxsubmission.NewServer(o, &cfg).Protocol, noCleanup
		},
		Build: map[string]builder{
			"SubmitTx": func() (protocol.Message, error) {
				return m2(localtxsubmission.NewMsgSubmitTx(6, cborx.A(cborx.M(), cborx.M(), cborx.Bool(true), cborx.Null()).Encode()))
			},
			"AcceptTx": func() (protocol.Message, error) { return m2(localtxsubmission.NewMsgAcceptTx()) },
			"RejectTx": func() (protocol.Message, error) {
				return m2(localtxsubmission.NewMsgRejectTx(cborx.A(cborx.U(2), cborx.S("rejected")).Encode()))
			},
			"Done": func() (protocol.Message, error) { return m2(localtxsubmission.NewMsgDone()) },
		},
	})

	// ---------------------------------------------------------- local-state-query
	out = append(out, &target{
		Name: "local-state-query", Spec: specfsm.LocalStateQuery(), Mode: protocol.ProtocolModeNodeToClient, Version: 0x8000 + 16,
		Live: func(o protocol.ProtocolOptions, role protocol.ProtocolRole) (*protocol.Protocol, func()) {
			cfg := localstatequery.NewConfig()
			if role == protocol.ProtocolRoleClient {
				return localstatequery.NewClient(o, &cfg).Protocol, noCleanup
			}
			return localstatequery.NewServer(o, &cfg).Protocol, noCleanup
		},
		Build: map[string]builder{
			"Acquire":             func() (protocol.Message, error) { return m2(localstatequery.NewMsgAcquire(point())) },
			"AcquireVolatileTip":  func() (protocol.Message, error) { return m2(localstatequery.NewMsgAcquireVolatileTip()) },
			"AcquireImmutableTip": func() (protocol.Message, error) { return m2(localstatequery.NewMsgAcquireImmutableTip()) },
			"Acquired":            func() (protocol.Message, error) { return m2(localstatequery.NewMsgAcquired()) },
			"Failure":             func() (protocol.Message, error) { return m2(localstatequery.NewMsgFailure(1)) },
			"Query":               func() (protocol.Message, error) { return m2(localstatequery.NewMsgQuery([]any{uint64(1)})) },
			"Result": func() (protocol.Message, error) {
				return m2(localstatequery.NewMsgResult(cborx.A(cborx.U(4492800)).Encode()))
			},
			"Release":               func() (protocol.Message, error) { return m2(localstatequery.NewMsgRelease()) },
			"ReAcquire":             func() (protocol.Message, error) { return m2(localstatequery.NewMsgReAcquire(point2())) },
			"ReAcquireVolatileTip":  func() (protocol.Message, error) { return m2(localstatequery.NewMsgReAcquireVolatileTip()) },
			"ReAcquireImmutableTip": func() (protocol.Message, error) { return m2(localstatequery.NewMsgReAcquireImmutableTip()) },
			"Done":                  func() (protocol.Message, error) { return m2(localstatequery.NewMsgDone()) },
		},
	})

	// ---------------------------------------------------------- local-tx-monitor
	out = append(out, &target{
		Name: "local-tx-monitor", Spec: specfsm.LocalTxMonitor(), Mode: protocol.ProtocolModeNodeToClient, Version: 0x8000 + 16,
		Live: func(o protocol.ProtocolOptions, role protocol.ProtocolRole) (*protocol.Protocol, func()) {
			cfg := localtxmonitor.NewConfig()
			if role == protocol.ProtocolRoleClient {
				return localtxmonitor.NewClient(o, &cfg).Protocol, noCleanup
			}
			return localtxmonitor.NewServer(o, &cfg).Protocol, noCleanup
		},
		Build: map[string]builder{
			"Done":     func() (protocol.Message, error) { return m2(localtxmonitor.NewMsgDone()) },
			"Acquire":  func() (protocol.Message, error) { return m2(localtxmonitor.NewMsgAcquire()) },
			"Acquired": func() (protocol.Message, error) { return m2(localtxmonitor.NewMsgAcquired(4492800)) },
			"Release":  func() (protocol.Message, error) { return m2(localtxmonitor.NewMsgRelease()) },
			"NextTx":   func() (protocol.Message, error) { return m2(localtxmonitor.NewMsgNextTx()) },
			"ReplyNextTx": func() (protocol.Message, error) {
				return m2(localtxmonitor.NewMsgReplyNextTx(6, cborx.A(cborx.M(), cborx.M(), cborx.Bool(true), cborx.Null()).Encode()))
			},
			"HasTx":         func() (protocol.Message, error) { return m2(localtxmonitor.NewMsgHasTx(hashA)) },
			"ReplyHasTx":    func() (protocol.Message, error) { return m2(localtxmonitor.NewMsgReplyHasTx(true)) },
			"GetSizes":      func() (protocol.Message, error) { return m2(localtxmonitor.NewMsgGetSizes()) },
			"ReplyGetSizes": func() (protocol.Message, error) { return m2(localtxmonitor.NewMsgReplyGetSizes(178176, 4096, 7)) },
		},
	})

	// ---------------------------------------------------------- DMQ (drafts)
	out = append(out, &target{
		Name: "message-submission/v1", Spec: specfsm.MessageSubmission(), Mode: protocol.ProtocolModeNodeToNode, Version: protocol.ProtocolVersionDMQNtN1,
		Live: func(o protocol.ProtocolOptions, role protocol.ProtocolRole) (*protocol.Protocol, func()) {
			cfg := messagesubmission.NewConfig()
			if role == protocol.ProtocolRoleClient {
				return messagesubmission.NewClient(o, &cfg).Protocol, noCleanup
			}
			return messagesubmission.NewServer(o, &cfg).Protocol, noCleanup
		},
		Build: map[string]builder{
			"Init":                            func() (protocol.Message, error) { return m2(messagesubmission.NewMsgInit()) },
			"RequestMessageIds[blocking]":     func() (protocol.Message, error) { return m2(messagesubmission.NewMsgRequestMessageIds(true, 0, 3)) },
			"RequestMessageIds[non-blocking]": func() (protocol.Message, error) { return m2(messagesubmission.NewMsgRequestMessageIds(false, 0, 3)) },
			"ReplyMessageIds": func() (protocol.Message, error) {
				d := dmqMessage()
				return m2(messagesubmission.NewMsgReplyMessageIds([]pcommon.MessageIDAndSize{{MessageID: d.ID(), SizeInBytes: 700}}))
			},
			"RequestMessages": func() (protocol.Message, error) {
				d := dmqMessage()
				return m2(messagesubmission.NewMsgRequestMessages([][]byte{d.ID()}))
			},
			"ReplyMessages": func() (protocol.Message, error) {
				return m2(messagesubmission.NewMsgReplyMessages([]pcommon.DmqMessage{dmqMessage()}))
			},
			"Done": func() (protocol.Message, error) { return m2(messagesubmission.NewMsgDone()) },
		},
	})
	out = append(out, &target{
		Name: "local-message-submission", Spec: specfsm.LocalMessageSubmission(), Mode: protocol.ProtocolModeNodeToClient, Version: 0x1001,
		Live: func(o protocol.ProtocolOptions, role protocol.ProtocolRole) (*protocol.Protocol, func()) {
			cfg := localmessagesubmission.NewConfig()
			if role == protocol.ProtocolRoleClient {
				return localmessagesubmission.NewClient(o, &cfg).Protocol, noCleanup
			}
			return localmessagesubmission.NewServer(o, &cfg).Protocol, noCleanup
		},
		Build: map[string]builder{
			"SubmitMessage": func() (protocol.Message, error) { return m2(localmessagesubmission.NewMsgSubmitMessage(dmqMessage())) },
			"AcceptMessage": func() (protocol.Message, error) { return m2(localmessagesubmission.NewMsgAcceptMessage()) },
			"RejectMessage": func() (protocol.Message, error) {
				return localmessagesubmission.NewMsgRejectMessage(pcommon.InvalidReason{Message: "invalid KES signature"})
			},
			"Done": func() (protocol.Message, error) { return m2(localmessagesubmission.NewMsgDone()) },
		},
	})
	out = append(out, &target{
		Name: "local-message-notification", Spec: specfsm.LocalMessageNotification(), Mode: protocol.ProtocolModeNodeToClient, Version: 0x1001,
		Live: func(o protocol.ProtocolOptions, role protocol.ProtocolRole) (*protocol.Protocol, func()) {
			cfg := localmessagenotification.NewConfig()
			if role == protocol.ProtocolRoleClient {
				return localmessagenotification.NewClient(o, &cfg).Protocol, noCleanup
			}
			// the constructor spawns a cleaner goroutine that only ends with
			// the engine's done channel: start and stop the engine once
			s := localmessagenotification.NewServer(o, &cfg)
			return s.Protocol, func() {
				s.Protocol.Start()
				s.Protocol.Stop()
				<-s.Protocol.DoneChan()
			}
		},
		Build: map[string]builder{
			"RequestMessages[non-blocking]": func() (protocol.Message, error) { return m2(localmessagenotification.NewMsgRequestMessages(false)) },
			"RequestMessages[blocking]":     func() (protocol.Message, error) { return m2(localmessagenotification.NewMsgRequestMessages(true)) },
			"ReplyMessagesNonBlocking": func() (protocol.Message, error) {
				return m2(localmessagenotification.NewMsgReplyMessagesNonBlocking([]pcommon.DmqMessage{dmqMessage()}, false))
			},
			"ReplyMessagesBlocking": func() (protocol.Message, error) {
				return m2(localmessagenotification.NewMsgReplyMessagesBlocking([]pcommon.DmqMessage{dmqMessage()}))
			},
			"ClientDone": func() (protocol.Message, error) { return m2(localmessagenotification.NewMsgClientDone()) },
		},
	})

	// ---------------------------------------------------------- Leios (drafts)
	voteID := lcommon.LeiosVoteId{SlotNo: 1234, VoterId: 5}
	out = append(out, &target{
		Name: "leios-notify", Spec: specfsm.LeiosNotify(), Mode: protocol.ProtocolModeNodeToNode, Version: 15,
		Live: func(o protocol.ProtocolOptions, role protocol.ProtocolRole) (*protocol.Protocol, func()) {
			cfg := leiosnotify.NewConfig()
			if role == protocol.ProtocolRoleClient {
				return leiosnotify.NewClient(o, &cfg).Protocol, noCleanup
			}
			return leiosnotify.NewServer(o, &cfg).Protocol, noCleanup
		},
		Build: map[string]builder{
			"NotificationRequestNext": func() (protocol.Message, error) { return m2(leiosnotify.NewMsgNotificationRequestNext()) },
			"BlockAnnouncement": func() (protocol.Message, error) {
				return m2(leiosnotify.NewMsgBlockAnnouncement(gcbor.RawMessage(fakeHeader())))
			},
			"BlockOffer":    func() (protocol.Message, error) { return m2(leiosnotify.NewMsgBlockOffer(point(), 65536)) },
			"BlockTxsOffer": func() (protocol.Message, error) { return m2(leiosnotify.NewMsgBlockTxsOffer(point())) },
			"VotesOffer": func() (protocol.Message, error) {
				return m2(leiosnotify.NewMsgVotesOffer([]leiosnotify.MsgVotesOfferVote{voteID}))
			},
			"Done": func() (protocol.Message, error) { return m2(leiosnotify.NewMsgDone()) },
		},
	})
	txs := func() []gcbor.RawMessage {
		return []gcbor.RawMessage{raw(cborx.A(cborx.M(), cborx.M(), cborx.Bool(true), cborx.Null()))}
	}
	out = append(out, &target{
		Name: "leios-fetch", Spec: specfsm.LeiosFetch(), Mode: protocol.ProtocolModeNodeToNode, Version: 15,
		Live: func(o protocol.ProtocolOptions, role protocol.ProtocolRole) (*protocol.Protocol, func()) {
			cfg := leiosfetch.NewConfig()
			if role == protocol.ProtocolRoleClient {
				return leiosfetch.NewClient(o, &cfg).Protocol, noCleanup
			}
			return leiosfetch.NewServer(o, &cfg).Protocol, noCleanup
		},
		Build: map[string]builder{
			"BlockRequest": func() (protocol.Message, error) { return m2(leiosfetch.NewMsgBlockRequest(point())) },
			"Block":        func() (protocol.Message, error) { return m2(leiosfetch.NewMsgBlock(gcbor.RawMessage(fakeHeader()))) },
			"BlockTxsRequest": func() (protocol.Message, error) {
				return m2(leiosfetch.NewMsgBlockTxsRequest(point(), map[uint16]uint64{0: 0x8000000000000001}))
			},
			"BlockTxs": func() (protocol.Message, error) { return m2(leiosfetch.NewMsgBlockTxs(txs())) },
			"VotesRequest": func() (protocol.Message, error) {
				return m2(leiosfetch.NewMsgVotesRequest([]leiosfetch.MsgVotesRequestVoteId{voteID}))
			},
			"Votes": func() (protocol.Message, error) {
				return leiosfetch.NewMsgVotesFromVotes([]lcommon.LeiosVote{leiosVote()})
			},
			"BlockRangeRequest": func() (protocol.Message, error) {
				return m2(leiosfetch.NewMsgBlockRangeRequest(point(), point2()))
			},
			"LastBlockAndTxsInRange": func() (protocol.Message, error) {
				return m2(leiosfetch.NewMsgLastBlockAndTxsInRange(gcbor.RawMessage(fakeHeader()), txs()))
			},
			"NextBlockAndTxsInRange": func() (protocol.Message, error) {
				return m2(leiosfetch.NewMsgNextBlockAndTxsInRange(gcbor.RawMessage(fakeHeader()), txs()))
			},
			"Done":       func() (protocol.Message, error) { return m2(leiosfetch.NewMsgDone()) },
			"NoBlock":    func() (protocol.Message, error) { return m2(leiosfetch.NewMsgNoBlock()) },
			"NoBlockTxs": func() (protocol.Message, error) { return m2(leiosfetch.NewMsgNoBlockTxs()) },
		},
	})
	out = append(out, &target{
		Name: "leios-votes", Spec: specfsm.LeiosVotes(), Mode: protocol.ProtocolModeNodeToNode, Version: 15,
		Live: func(o protocol.ProtocolOptions, role protocol.ProtocolRole) (*protocol.Protocol, func()) {
			cfg := leiosvotes.NewConfig()
			if role == protocol.ProtocolRoleClient {
				return leiosvotes.NewClient(o, &cfg).Protocol, noCleanup
			}
			return leiosvotes.NewServer(o, &cfg).Protocol, noCleanup
		},
		Build: map[string]builder{
			"VotesRequestNext[count=1]": func() (protocol.Message, error) { return m2(leiosvotes.NewMsgVotesRequestNext(1)) },
			"VotesRequestNext[count=2]": func() (protocol.Message, error) { return m2(leiosvotes.NewMsgVotesRequestNext(2)) },
			"Vote":                      func() (protocol.Message, error) { return m2(leiosvotes.NewMsgVote(leiosVote())) },
			"Done":                      func() (protocol.Message, error) { return m2(leiosvotes.NewMsgDone()) },
		},
	})
	return out
}
