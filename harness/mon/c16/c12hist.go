package c16

// C12 histories: process-wide state shared between Protocol instances.
//
// A history first runs K short-lived engines that are stopped with a state
// transition in flight - parked at their `trans` event (the state loop has the
// request, the requester is still waiting) or at one of the verif points of the
// send / receive path, Stop() called, the requester gone, then released - and
// then, on the same goroutine, checks the C12 statement on FRESH engines from
// their very first message: a first message the state does not permit must be
// refused and must not reach the muxer or the wire, and a pipelined conforming
// conversation keeps order and state. The histories run one after the other
// under GOMAXPROCS 1, 2 and 4 (per-P caches), before the parallel part.

import (
	"fmt"
	"runtime"
	"time"

	"github.com/blinklabs-io/gouroboros/protocol"

	"verifharness/core"
	"verifharness/netsim"
)

// where an engine can be parked, by the direction of the message in flight
var (
	holdPointsSend = []string{"trans", "trans", "trans", "send.afterDequeue", "send.beforeSegment"}
	holdPointsRecv = []string{"trans", "trans", "trans", "read.beforeQueue", "recv.beforeHandle"}
)

// stopMidTransition runs one short-lived engine of target t / role and stops
// it at the given place; it reports what it did ("" = could not).
func stopMidTransition(t *tctx, role int, r *core.Rand) string {
	cfg := t.cfg[role]
	where := holdPointsRecv[r.Intn(len(holdPointsRecv))]
	if l, _ := localAgency(&cfg, cfg.InitialState); l {
		where = holdPointsSend[r.Intn(len(holdPointsSend))]
	}
	a, b := netsim.Pipe()
	e := newEngineOpt(cfg, a, nil, 0, func(e *engine) {
		e.held, e.release = make(chan struct{}), make(chan struct{})
		if where == "trans" {
			e.holdTrans = true
		} else {
			e.holdPoint = where
		}
	})
	e.b = b
	released := false
	defer func() {
		if !released {
			close(e.release)
		}
		e.close()
	}()
	// the first legal message of the conversation, from whoever holds agency
	ctx := freshCtx(&e.cfg)
	cur := cfg.InitialState
	entry := e.cfg.StateMap[cur]
	if len(entry.Transitions) == 0 {
		return ""
	}
	byTag := lettersByTag(t)
	var key string
	var msg protocol.Message
	for try := 0; try < 8 && msg == nil; try++ {
		tr := entry.Transitions[r.Intn(len(entry.Transitions))]
		ks := byTag[tr.MsgType]
		if len(ks) == 0 {
			continue
		}
		k := ks[r.Intn(len(ks))]
		m, err := t.Build[k]()
		if err != nil {
			continue
		}
		if _, ok := permittedIn(&e.cfg, ctx, cur, m); ok {
			key, msg = k, m
		}
	}
	if msg == nil {
		return ""
	}
	local, _ := localAgency(&e.cfg, cur)
	if local {
		if err := e.p.SendMessage(msg); err != nil {
			return ""
		}
	} else if _, err := b.Write(netsim.EncodeSeg(e.cfg.ProtocolId, e.client, t.bytes[key])); err != nil {
		return ""
	}
	t0 := time.NewTimer(watchdog)
	defer t0.Stop()
	select {
	case <-e.held:
	case <-t0.C:
		return "" // that place is not on this message's path (e.g. a send point while receiving)
	}
	// stop the protocol while the engine is parked there, wait until the goroutines that
	// can leave have left (the requester of a transition gives up on stopChan), then let go
	e.p.Stop()
	if where == "trans" {
		select {
		case <-e.p.DoneChan():
		case <-t0.C:
		}
	}
	close(e.release)
	released = true
	for i := 0; i < 4; i++ {
		runtime.Gosched()
	}
	return fmt.Sprintf("%s/%s stopped at %s during %s", t.Name, roleName[role], where, key)
}

type c12History struct {
	procs    int
	stops    []string
	findings []finding
	inconcl  []string
	rejects  int
	convs    int
}

// runHistory12: K engines stopped mid-transition, then fresh engines.
func runHistory12(c *core.Ctx, ts []*tctx, r *core.Rand, h int) (res c12History) {
	k := 6 + r.Intn(8)
	var last *tctx
	for i := 0; i < k; i++ {
		t := ts[r.Intn(len(ts))]
		c.Journal("C12 history %d stop %s", h, t.Name)
		if s := stopMidTransition(t, r.Intn(2), r); s != "" {
			res.stops = append(res.stops, s)
			last = t
		}
	}
	if last == nil {
		res.inconcl = append(res.inconcl, "no engine could be stopped mid-transition")
		return
	}
	// fresh instances, same goroutine, right away: same protocol and another one
	other := ts[r.Intn(len(ts))]
	for _, t := range []*tctx{last, other} {
		for role := 0; role < 2; role++ {
			rr := runRejectionAt(c, t, role, r, 0)
			switch {
			case rr.inconclusive != "":
				res.inconcl = append(res.inconcl, rr.inconclusive)
			case rr.skipped:
			default:
				res.rejects++
				for _, f := range rr.findings {
					f.key = "C12:fresh-instance:" + f.key[len("C12:"):]
					f.what = fmt.Sprintf("%s/%s, first message of a fresh engine after other engines were stopped mid-transition: %s", t.Name, roleName[role], f.what)
					f.w["case"] = rr.desc
					res.findings = append(res.findings, f)
				}
			}
		}
	}
	cr := runConversation(c, other, r, 1)
	if cr.inconclusive != "" {
		res.inconcl = append(res.inconcl, cr.inconclusive)
	} else {
		res.convs++
		for _, f := range cr.findings {
			f.key = "C12:fresh-instance:" + f.key[len("C12:"):]
			f.w["case"] = cr.desc
			res.findings = append(res.findings, f)
		}
	}
	return
}

// historyPhase runs the histories sequentially under several GOMAXPROCS values.
func historyPhase(c *core.Ctx, ts []*tctx) {
	n := c.N(36, 600)
	prev := runtime.GOMAXPROCS(0)
	defer runtime.GOMAXPROCS(prev)
	for h := 0; h < n; h++ {
		procs := []int{1, 2, 4}[h%3]
		runtime.GOMAXPROCS(procs)
		r := c.Rand("history", h)
		res := runHistory12(c, ts, r, h)
		c.Eval()
		for _, s := range res.inconcl {
			c.Inconclusive(fmt.Sprintf("history %d: %s", h, s))
		}
		if len(res.stops) > 0 {
			c.Distinct("history", h, fmt.Sprint(res.stops))
		}
		c.Count("histories", 1)
		c.Count("history_engines_stopped_mid_transition", len(res.stops))
		c.Count("history_fresh_first_message_rejections", res.rejects)
		c.Count("history_fresh_conversations", res.convs)
		c.Count(fmt.Sprintf("histories_gomaxprocs_%d", procs), 1)
		for _, f := range res.findings {
			f.w["gomaxprocs"] = procs
			f.w["stopped_before"] = res.stops
			c.Violation(f.key, f.what, f.w)
		}
		if h == 0 {
			c.Sample(map[string]any{"history": res.stops, "gomaxprocs": procs})
		}
	}
}
