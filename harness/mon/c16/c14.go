package c16

// C14: state timeouts fire exactly when the peer stalls.
//
// For every (protocol, role) the implementation's configuration is taken from
// a live instance, every non-zero state timeout (fixed or TimeoutFunc) is
// replaced by one scaled value T, and a fresh engine is driven along a path of
// the implementation's own state map into each state S:
//
//   stall  : nothing moves for more than 3T (measured with the hook events'
//            own timestamps)  => a timeout error naming the stall must have been
//            reported and the protocol must stop; if S has no timeout (or is the
//            initial state) => no error.
//   prompt : the agency holder moves on after ~T/4; judged only if the measured
//            gap between the two transition events is < T/2 => no timeout error.
//   chain  : a conversation of several steps, each after ~T/3, total > T: no
//            timeout although the conversation lasts longer than T (the timer
//            must be re-armed on every transition).
//
// Measured gaps between T/2 and 3T are not judged.

import (
	"fmt"
	"sort"
	"strings"
	"sync"
	"time"

	"github.com/blinklabs-io/gouroboros/protocol"

	"verifharness/core"
)

type c14Stamp struct {
	kind     string
	from, to protocol.State
	msg      protocol.Message
	err      error
	at       time.Time
}

var (
	c14StampMu sync.Mutex
	c14Stamps  = map[*protocol.Protocol][]c14Stamp{}
)

func c14StampSink(ev protocol.VerifEvent) {
	if ev.Kind == "trans" || ev.Kind == "error" {
		now := time.Now()
		c14StampMu.Lock()
		c14Stamps[ev.Proto] = append(c14Stamps[ev.Proto], c14Stamp{ev.Kind, ev.From, ev.To, ev.Msg, ev.Err, now})
		c14StampMu.Unlock()
	}
	sink(ev)
}

func c14StampsOf(p *protocol.Protocol) []c14Stamp {
	c14StampMu.Lock()
	defer c14StampMu.Unlock()
	return append([]c14Stamp(nil), c14Stamps[p]...)
}

func c14DropStamps(p *protocol.Protocol) {
	c14StampMu.Lock()
	delete(c14Stamps, p)
	c14StampMu.Unlock()
}

// edge of the implementation's map that the harness can take with a canonical message.
type c14Edge struct {
	from, to protocol.State
	key      string // letter (canonical instance)
}

func c14Permitted(cfg protocol.ProtocolConfig, st protocol.State, m protocol.Message) (protocol.State, bool) {
	for _, tr := range cfg.StateMap[st].Transitions {
		if tr.MsgType == m.Type() && (tr.MatchFunc == nil || tr.MatchFunc(cfg.StateContext, m)) {
			return tr.NewState, true
		}
	}
	return protocol.State{}, false
}

func c14Edges(t *tctx, role int) map[protocol.State][]c14Edge {
	cfg := t.cfg[role]
	out := map[protocol.State][]c14Edge{}
	keys := t.Spec.Keys()
	for st := range cfg.StateMap {
		for _, k := range keys {
			m, err := t.Build[k]()
			if err != nil {
				continue
			}
			if to, ok := c14Permitted(cfg, st, m); ok {
				out[st] = append(out[st], c14Edge{st, to, k})
			}
		}
	}
	return out
}

// c14PathTo returns a shortest path of edges from the initial state to target.
func c14PathTo(t *tctx, role int, edges map[protocol.State][]c14Edge, target protocol.State) ([]c14Edge, bool) {
	cfg := t.cfg[role]
	type item struct {
		st   protocol.State
		path []c14Edge
	}
	seen := map[protocol.State]bool{cfg.InitialState: true}
	q := []item{{cfg.InitialState, nil}}
	for len(q) > 0 {
		it := q[0]
		q = q[1:]
		if it.st == target {
			return it.path, true
		}
		for _, e := range edges[it.st] {
			if !seen[e.to] {
				seen[e.to] = true
				q = append(q, item{e.to, append(append([]c14Edge(nil), it.path...), e)})
			}
		}
	}
	return nil, false
}

// c14Cycle returns a shortest non-empty path from the initial state back to it.
func c14Cycle(cfg protocol.ProtocolConfig, edges map[protocol.State][]c14Edge) ([]c14Edge, bool) {
	type item struct {
		st   protocol.State
		path []c14Edge
	}
	seen := map[protocol.State]bool{}
	var q []item
	for _, e := range edges[cfg.InitialState] {
		q = append(q, item{e.to, []c14Edge{e}})
	}
	for len(q) > 0 {
		it := q[0]
		q = q[1:]
		if it.st == cfg.InitialState {
			return it.path, true
		}
		if seen[it.st] || cfg.StateMap[it.st].Agency == protocol.AgencyNone {
			continue
		}
		seen[it.st] = true
		for _, e := range edges[it.st] {
			q = append(q, item{e.to, append(append([]c14Edge(nil), it.path...), e)})
		}
	}
	return nil, false
}

func c14LocalAgency(cfg protocol.ProtocolConfig, st protocol.State) bool {
	a := cfg.StateMap[st].Agency
	return (a == protocol.AgencyClient && cfg.Role == protocol.ProtocolRoleClient) ||
		(a == protocol.AgencyServer && cfg.Role == protocol.ProtocolRoleServer)
}

type c14case struct {
	t      *tctx
	role   int
	state  protocol.State
	timed  bool
	kind   string // stall | prompt | chain
	path   []c14Edge
	out    *c14Edge // a legal move out of state (prompt)
	factor float64
}

// RunC14 is the monitor body for C14 (registered by package mon/c14).
func RunC14(c *core.Ctx) {
	protocol.VerifSetSink(c14StampSink)
	defer protocol.VerifSetSink(nil)
	T := 400 * time.Millisecond
	c.Note("scaled_timeout_ms", T.Milliseconds())
	var cases []c14case
	timedStates := 0
	for _, tg := range targets() {
		t := setup(c, tg)
		if t.broken {
			continue
		}
		for role := 0; role < 2; role++ {
			cfg := t.cfg[role]
			edges := c14Edges(t, role)
			var sts []protocol.State
			for s := range cfg.StateMap {
				sts = append(sts, s)
			}
			sort.Slice(sts, func(i, j int) bool { return sts[i].Id < sts[j].Id })
			for _, s := range sts {
				e := cfg.StateMap[s]
				timed := e.Timeout > 0 || e.TimeoutFunc != nil
				path, ok := c14PathTo(t, role, edges, s)
				if !ok {
					c.Count("states_unreachable_with_canonical_messages", 1)
					continue
				}
				if e.Agency == protocol.AgencyNone {
					// terminal: nobody has to move any more, so however long the
					// instance is kept afterwards (a server after the peer's Done,
					// a connection that carries on with its other mini-protocols)
					// no timeout may be reported - in particular not the one of
					// the state the conversation was in before
					if len(path) > 0 {
						cases = append(cases, c14case{t: t, role: role, state: s, timed: false, kind: "stall", path: path, factor: 3.5})
						c.Count("terminal_state_cases", 1)
					}
					continue
				}
				if timed {
					timedStates++
				}
				isInitial := s == cfg.InitialState && len(path) == 0
				// stall: timed states must time out, untimed / initial must not
				factors := []float64{3.5}
				if c.Thorough() {
					factors = []float64{3.5, 5}
				}
				for _, f := range factors {
					cases = append(cases, c14case{t: t, role: role, state: s, timed: timed && !isInitial, kind: "stall", path: path, factor: f})
				}
				if timed && len(edges[s]) > 0 {
					pf := []float64{0.25}
					if c.Thorough() {
						pf = []float64{0.1, 0.25, 0.4}
					}
					for _, f := range pf {
						out := edges[s][0]
						cases = append(cases, c14case{t: t, role: role, state: s, timed: true, kind: "prompt", path: path, out: &out, factor: f})
					}
				}
				// a timed state with a transition to itself (streaming states): the
				// timer must be re-armed by every message, not only on entering
				for _, ed := range edges[s] {
					if timed && ed.to == s && cfg.StateMap[s].Agency != protocol.AgencyNone {
						ed := ed
						cases = append(cases, c14case{t: t, role: role, state: s, timed: true, kind: "selfloop", path: path, out: &ed, factor: 0.33})
						break
					}
				}
			}
			// the initial state is exempt from its timeout only until the first
			// transition: once the conversation has come back to it, it is a timed
			// state like any other (chain-sync Idle, keep-alive Client, ...)
			if e0 := cfg.StateMap[cfg.InitialState]; (e0.Timeout > 0 || e0.TimeoutFunc != nil) && e0.Agency != protocol.AgencyNone {
				if cyc, ok := c14Cycle(cfg, edges); ok {
					cases = append(cases, c14case{t: t, role: role, state: cfg.InitialState, timed: true, kind: "stall", path: cyc, factor: 3.5})
				}
			}
			// one chain per role
			cases = append(cases, c14case{t: t, role: role, kind: "chain", factor: 0.33})
		}
	}
	c.Note("timed_states", timedStates)
	reps := c.N(1, 3)
	total := len(cases) * reps
	c.Parallel("c14", total, 24, func(i int, r *core.Rand) {
		runC14(c, cases[i%len(cases)], T, r)
	})
}

// scaled returns a copy of cfg with every non-zero timeout replaced by T.
func c14Scaled(cfg protocol.ProtocolConfig, T time.Duration) protocol.ProtocolConfig {
	sm := cfg.StateMap.Copy()
	for k, e := range sm {
		switch {
		case e.TimeoutFunc != nil:
			// keep the dynamic form so that the engine's TimeoutFunc path is exercised
			e.Timeout = 0
			e.TimeoutFunc = func() time.Duration { return T }
		case e.Timeout > 0:
			e.Timeout = T
		}
		sm[k] = e
	}
	cfg.StateMap = sm
	return cfg
}

func c14TimeoutErr(err error) bool {
	return err != nil && strings.Contains(strings.ToLower(err.Error()), "timeout")
}

func runC14(c *core.Ctx, cs c14case, T time.Duration, r *core.Rand) {
	t := cs.t
	label := fmt.Sprintf("%s/%s", t.Name, roleName[cs.role])
	c.Journal("C14 %s %s state=%s", label, cs.kind, cs.state)
	cfg := c14Scaled(t.cfg[cs.role], T)
	e := newEngine(cfg)
	defer func() {
		e.close()
		c14DropStamps(e.p)
	}()
	c.Eval()
	// control timer: how late does this machine wake a sleeper right now?
	ctl := time.Now()
	time.Sleep(T / 8)
	if over := time.Since(ctl) - T/8; over > T/8 {
		c.Count("not_judged_machine_too_loaded", 1)
		return
	}
	step := func(ed c14Edge) outcome {
		return send(e, t, ed.key, c14LocalAgency(cfg, ed.from))
	}
	wit := func(extra map[string]any) map[string]any {
		w := map[string]any{"target": t.Name, "role": roleName[cs.role], "kind": cs.kind, "state": cs.state.String(), "scaled_timeout_ms": T.Milliseconds()}
		var p []string
		for _, ed := range cs.path {
			p = append(p, ed.key)
		}
		w["path"] = p
		for k, v := range extra {
			w[k] = v
		}
		return w
	}
	firstTimeout := func() (c14Stamp, bool) {
		for _, s := range c14StampsOf(e.p) {
			if s.kind == "error" && c14TimeoutErr(s.err) {
				return s, true
			}
		}
		return c14Stamp{}, false
	}
	// entering time of the current state = timestamp of the last successful trans event (or engine start)
	start := time.Now()
	lastTrans := func() time.Time {
		ss := c14StampsOf(e.p)
		for i := len(ss) - 1; i >= 0; i-- {
			if ss[i].kind == "trans" && ss[i].err == nil {
				return ss[i].at
			}
		}
		return start
	}

	if cs.kind == "chain" {
		// random walk over the implementation's map, pausing ~T/3 before every step
		edges := c14Edges(t, cs.role)
		cur := cfg.InitialState
		steps := 0
		maxGap := time.Duration(0)
		for steps < 8 {
			es := edges[cur]
			if len(es) == 0 {
				break
			}
			// prefer edges that do not end the protocol
			var keep []c14Edge
			for _, ed := range es {
				if cfg.StateMap[ed.to].Agency != protocol.AgencyNone {
					keep = append(keep, ed)
				}
			}
			if len(keep) == 0 {
				break
			}
			ed := keep[r.Intn(len(keep))]
			entered := lastTrans()
			time.Sleep(time.Duration(float64(T) * cs.factor))
			o := step(ed)
			if o.v != vAccepted {
				if ts, ok := firstTimeout(); ok {
					gap := ts.at.Sub(entered)
					if steps > 0 && gap < T/2 {
						c.Violation("C14:"+t.Name+":timeout-fired-early:chain", fmt.Sprintf("%s: timeout error %q only %v after entering state %s (scaled timeout %v)", label, ts.err, gap, cur, T), wit(map[string]any{"step": steps}))
					} else {
						c.Count("chain_not_judged_gap_in_middle_band", 1)
					}
					return
				}
				c.Count("chain_step_not_accepted_"+o.v.String(), 1)
				return
			}
			if g := lastTrans().Sub(entered); g > maxGap && steps > 0 {
				maxGap = g
			}
			cur = ed.to
			steps++
		}
		if steps < 3 {
			c.Count("chain_too_short", 1)
			return
		}
		if _, ok := firstTimeout(); ok && maxGap < T/2 {
			c.Violation("C14:"+t.Name+":timeout-during-progress", fmt.Sprintf("%s: a conversation of %d steps with gaps <= %v (scaled timeout %v) produced a timeout error", label, steps, maxGap, T), wit(map[string]any{"steps": steps}))
			return
		}
		if maxGap < T/2 {
			c.Count("chain_no_timeout_while_progressing", 1)
			c.Distinct("chain", label)
		} else {
			c.Count("chain_not_judged_gap_in_middle_band", 1)
		}
		return
	}

	// drive into the state, every step promptly
	for i, ed := range cs.path {
		o := step(ed)
		if o.v != vAccepted {
			if _, ok := firstTimeout(); ok {
				c.Count("path_not_judged_timeout_on_the_way", 1)
			} else {
				c.Count("path_step_not_accepted", 1)
			}
			_ = i
			return
		}
	}
	if got := e.p.VerifState(); got != cs.state {
		c.Count("path_ended_in_other_state", 1)
		return
	}
	entered := lastTrans()
	switch cs.kind {
	case "stall":
		time.Sleep(time.Duration(float64(T) * cs.factor))
		ts, fired := firstTimeout()
		stalled := time.Since(entered)
		if cs.timed {
			if stalled < 3*T {
				c.Count("stall_not_judged_short", 1)
				return
			}
			if !fired {
				cls := c14StateClass(cfg, cs.state)
				if cs.state == cfg.InitialState && len(cs.path) > 0 {
					cls += ":re-entered-initial-state"
				}
				c.Violation("C14:"+t.Name+":no-timeout:"+cls, fmt.Sprintf("%s: state %s has a timeout (scaled to %v), nothing moved for %v, and no timeout error was reported", label, cs.state, T, stalled), wit(nil))
				return
			}
			if d := ts.at.Sub(entered); d < T/2 {
				c.Violation("C14:"+t.Name+":timeout-fired-early:stall", fmt.Sprintf("%s: timeout error after only %v in state %s (scaled timeout %v)", label, d, cs.state, T), wit(nil))
				return
			}
			if !strings.Contains(ts.err.Error(), cs.state.String()) {
				c.Count("timeout_error_names_other_state", 1)
			}
			// the protocol must stop
			select {
			case <-e.p.DoneChan():
				c.Count("stall_timed_out_and_stopped", 1)
				c.Distinct("stall-timed", label, cs.state.String())
			case <-time.After(watchdog):
				c.Violation("C14:"+t.Name+":timeout-without-stop", fmt.Sprintf("%s: timeout error reported in state %s but the protocol did not stop", label, cs.state), wit(nil))
			}
			return
		}
		// untimed state or initial state: must stay quiet
		if fired {
			c.Violation("C14:"+t.Name+":timeout-in-untimed-state", fmt.Sprintf("%s: state %s has no timeout (or is the initial state), yet after %v a timeout error was reported: %v", label, cs.state, stalled, ts.err), wit(nil))
			return
		}
		c.Count("stall_untimed_stayed_quiet", 1)
		c.Distinct("stall-untimed", label, cs.state.String())
	case "selfloop":
		// five messages that keep the state, each after ~T/3: longer than T in
		// total, never longer than T/2 between two of them
		maxGap := time.Duration(0)
		for k := 0; k < 5; k++ {
			before := lastTrans()
			time.Sleep(time.Duration(float64(T) * cs.factor))
			o := step(*cs.out)
			ts, fired := firstTimeout()
			if fired {
				if d := ts.at.Sub(before); d < T/2 {
					c.Violation("C14:"+t.Name+":timeout-fired-early:selfloop", fmt.Sprintf("%s: timeout error %v after the last message in the self-looping state %s (message %d of a stream with one message every ~%v, scaled timeout %v): the timer is not re-armed per message", label, d, cs.state, k+1, time.Duration(float64(T)*cs.factor), T), wit(map[string]any{"message": k + 1}))
				} else {
					c.Count("selfloop_not_judged_gap_in_middle_band", 1)
				}
				return
			}
			if o.v != vAccepted {
				c.Count("selfloop_step_not_accepted_"+o.v.String(), 1)
				return
			}
			if g := lastTrans().Sub(before); g > maxGap {
				maxGap = g
			}
		}
		if maxGap < T/2 {
			c.Count("selfloop_no_timeout_while_streaming", 1)
			c.Distinct("selfloop", label, cs.state.String())
		} else {
			c.Count("selfloop_not_judged_gap_in_middle_band", 1)
		}
	case "prompt":
		time.Sleep(time.Duration(float64(T) * cs.factor))
		o := step(*cs.out)
		ts, fired := firstTimeout()
		if fired {
			if d := ts.at.Sub(entered); d < T/2 {
				c.Violation("C14:"+t.Name+":timeout-fired-early:prompt", fmt.Sprintf("%s: timeout error %v after entering state %s although the scaled timeout is %v", label, d, cs.state, T), wit(nil))
			} else {
				c.Count("prompt_not_judged_gap_in_middle_band", 1)
			}
			return
		}
		if o.v != vAccepted {
			c.Count("prompt_move_not_accepted_"+o.v.String(), 1)
			return
		}
		if g := lastTrans().Sub(entered); g < T/2 {
			c.Count("prompt_no_timeout", 1)
			c.Distinct("prompt", label, cs.state.String())
		} else {
			c.Count("prompt_not_judged_gap_in_middle_band", 1)
		}
	}
	if c.SampleN() < 6 {
		c.Sample(wit(map[string]any{"timed": cs.timed}))
	}
}

func c14StateClass(cfg protocol.ProtocolConfig, s protocol.State) string {
	if c14LocalAgency(cfg, s) {
		return "local-agency:" + s.String()
	}
	return "peer-agency:" + s.String()
}
