package c16

// C12: outbound messages keep their order and drive the state machine in that
// order.
//
// Two real engines of the same target - A in the client role, B in the server
// role, configurations from the live instances - are connected muxer to muxer
// over netsim with a wire tap on both directions. The harness is a correct
// application on both sides: a conforming conversation is generated as a random
// walk over the implementation's state map, one goroutine per endpoint enqueues
// that endpoint's messages in order (the pipelining side up to `depth` requests
// ahead of the replies; the other side when everything before a message has
// been received, optionally straight from its handler). The oracle is the
// pipelined endpoint model (DESIGN.md appendix C) over the hook events and the
// tapped byte streams; it does not look at what the script intended except for
// the final "the peer's handler saw the script" clause.

import (
	"bytes"
	"fmt"
	"hash/fnv"
	"runtime"
	"sync"
	"time"

	"github.com/blinklabs-io/gouroboros/protocol"

	"verifharness/cborx"
	"verifharness/core"
	"verifharness/netsim"
)

type convMsg struct {
	side  int // 0 = A (client role), 1 = B (server role)
	key   string
	msg   protocol.Message
	bytes []byte
}

// genConversation: a run of the implementation's (client-side) map.
func genConversation(t *tctx, r *core.Rand, steps int) []convMsg {
	cfg := &t.cfg[roleClient]
	ctx := freshCtx(cfg)
	cur := cfg.InitialState
	byTag := lettersByTag(t)
	var out []convMsg
	for len(out) < steps {
		entry := cfg.StateMap[cur]
		if entry.Agency == protocol.AgencyNone || len(entry.Transitions) == 0 {
			break
		}
		var chosen *convMsg
		var next protocol.State
		goesOn := false // is there a way to keep the conversation going from here?
		for _, tr := range entry.Transitions {
			goesOn = goesOn || cfg.StateMap[tr.NewState].Agency != protocol.AgencyNone
		}
		for try := 0; try < 12 && chosen == nil; try++ {
			tr := entry.Transitions[r.Intn(len(entry.Transitions))]
			if cfg.StateMap[tr.NewState].Agency == protocol.AgencyNone && len(out) < steps-1 && goesOn && !r.Chance(1, 12) {
				continue // keep the conversation going
			}
			ks := byTag[tr.MsgType]
			if len(ks) == 0 {
				continue
			}
			k := ks[r.Intn(len(ks))]
			m, err := t.Build[k]()
			if err != nil {
				continue
			}
			n, ok := permittedIn(cfg, ctx, cur, m)
			if !ok {
				continue
			}
			side := 1
			if entry.Agency == protocol.AgencyClient {
				side = 0
			}
			chosen, next = &convMsg{side: side, key: k, msg: m, bytes: t.bytes[k]}, n
		}
		if chosen == nil {
			break
		}
		out = append(out, *chosen)
		cur = next
	}
	return out
}

// endpoint is the application on one side.
type endpoint struct {
	e            *engine
	side         int
	own          []convMsg
	need         []int // number of messages of the other side that precede own[j]
	depth        int
	handlerReply bool

	mu     sync.Mutex
	recv   int
	got    [][]byte
	sent   int
	sendEr error
	wake   chan struct{}
	abort  chan struct{}
}

func (p *endpoint) sendable(j int) bool {
	k := j - (p.depth - 1)
	if k < 0 {
		k = 0
	}
	return p.recv >= p.need[k]
}

// handler runs in the engine's receive goroutine.
func (p *endpoint) handler(_ *engine, m protocol.Message) error {
	p.mu.Lock()
	p.got = append(p.got, append([]byte(nil), m.Cbor()...))
	p.recv++
	var now []convMsg
	if p.handlerReply {
		for p.sent < len(p.own) && p.sendable(p.sent) {
			now = append(now, p.own[p.sent])
			p.sent++
		}
	}
	p.mu.Unlock()
	for _, cm := range now {
		if err := p.e.p.SendMessage(cm.msg); err != nil {
			p.mu.Lock()
			p.sendEr = err
			p.mu.Unlock()
			break
		}
	}
	select {
	case p.wake <- struct{}{}:
	default:
	}
	return nil
}

// drive is the endpoint's single sending goroutine (when it does not answer
// from the handler): it defines the queue order.
func (p *endpoint) drive(done *sync.WaitGroup) {
	defer done.Done()
	for {
		p.mu.Lock()
		if p.sent >= len(p.own) || p.sendEr != nil {
			p.mu.Unlock()
			return
		}
		var cm *convMsg
		if p.sendable(p.sent) {
			cm = &p.own[p.sent]
			p.sent++
		}
		p.mu.Unlock()
		if cm != nil {
			if err := p.e.p.SendMessage(cm.msg); err != nil {
				p.mu.Lock()
				p.sendEr = err
				p.mu.Unlock()
				return
			}
			continue
		}
		select {
		case <-p.wake:
		case <-p.abort:
			return
		}
	}
}

// ------------------------------------------------------------------ the model

type c12Check struct {
	findings  []finding
	maxAhead  int // most messages written to the muxer before their own transition
	outTrans  int
	completed bool
}

func splitItems(stream []byte) ([][]byte, error) {
	var out [][]byte
	for len(stream) > 0 {
		_, used, err := cborx.Parse(stream)
		if err != nil {
			return out, err
		}
		out = append(out, stream[:used])
		stream = stream[used:]
	}
	return out, nil
}

// checkEndpoint runs the pipelined endpoint model over one engine's log and
// the bytes it wrote.
func checkEndpoint(name string, e *engine, tap []byte, peerGot [][]byte) (ck c12Check) {
	cfg := &e.cfg
	add := func(key, what string) {
		ck.findings = append(ck.findings, finding{key: key, what: name + ": " + what, w: map[string]any{}})
	}
	evs := e.snapshot()
	// enqueue order defines the messages
	var enq []protocol.Message
	idx := map[protocol.Message]int{}
	for _, ev := range evs {
		if ev.kind == "enq" {
			if _, dup := idx[ev.msg]; dup {
				add("C12:order:enqueued-twice", "the same message object was enqueued twice")
				continue
			}
			idx[ev.msg] = len(enq)
			enq = append(enq, ev.msg)
		}
	}
	// dequeue order and outbound transition order
	deq, tr := 0, 0
	trCount := make([]int, len(enq))
	cur := cfg.InitialState
	ctx := freshCtx(cfg)
	written, ends := 0, make([]int, len(enq))
	sum := 0
	for i, m := range enq {
		sum += len(m.Cbor())
		ends[i] = sum
	}
	writtenMsgs := func() int {
		n := 0
		for n < len(ends) && ends[n] <= written {
			n++
		}
		return n
	}
	for _, ev := range evs {
		switch ev.kind {
		case "deq":
			if i, ok := idx[ev.msg]; !ok || i != deq {
				add("C12:order:dequeue-order", fmt.Sprintf("dequeue #%d took a message that is not #%d of the enqueue order", deq, deq))
			}
			deq++
		case "seg":
			written += ev.ln
		case "error":
			add("C12:conv:error-reported", fmt.Sprintf("the engine reported %v in a conforming conversation", ev.err))
		case "trans":
			i, outbound := idx[ev.msg]
			if ev.err != nil {
				continue // the error event that follows is reported
			}
			if ev.from != cur {
				add("C12:run:transition-from-unexpected-state", fmt.Sprintf("a transition starts in %s, the previous one ended in %s", ev.from, cur))
				cur = ev.from
			}
			local, peer := localAgency(cfg, cur)
			next, ok := permittedIn(cfg, ctx, cur, ev.msg)
			switch {
			case !ok:
				add("C12:run:transition-not-in-map", fmt.Sprintf("message type %d advanced the state from %s, whose map entry does not permit it", ev.msgType, cur))
			case next != ev.to:
				add("C12:run:successor-differs", fmt.Sprintf("message type %d in %s led to %s, the map says %s", ev.msgType, cur, ev.to, next))
			}
			if outbound {
				if !local {
					add("C12:run:outbound-transition-without-local-agency", fmt.Sprintf("an outbound message of type %d advanced the state in %s, where the local side has no agency", ev.msgType, cur))
				}
				trCount[i]++
				switch {
				case trCount[i] > 1:
					add("C12:order:message-transitioned-twice", fmt.Sprintf("outbound message #%d advanced the local state %d times", i, trCount[i]))
				case i != tr:
					add("C12:order:transition-order", fmt.Sprintf("outbound transition #%d belongs to message #%d of the enqueue order", tr, i))
				}
				if i >= tr {
					tr = i + 1
				}
				ck.outTrans++
				if ahead := writtenMsgs() - ck.outTrans; ahead > ck.maxAhead {
					ck.maxAhead = ahead
				}
			} else if !peer {
				add("C12:run:inbound-transition-without-peer-agency", fmt.Sprintf("a received message of type %d advanced the state in %s, where the peer has no agency", ev.msgType, cur))
			}
			cur = ev.to
		}
		if ev.kind == "seg" {
			if ahead := writtenMsgs() - ck.outTrans; ahead > ck.maxAhead {
				ck.maxAhead = ahead
			}
		}
	}
	errored := false
	for _, f := range ck.findings {
		errored = errored || f.key == "C12:conv:error-reported"
	}
	select {
	case err := <-e.errCh:
		errored = true
		add("C12:conv:error-reported", fmt.Sprintf("ErrorChan: %v", err))
	default:
	}
	if errored {
		// what follows would only restate that the conversation was cut short
		return ck
	}
	for i, n := range trCount {
		if n == 0 {
			add("C12:order:message-never-transitioned", fmt.Sprintf("outbound message #%d of %d never advanced the local state", i, len(enq)))
			break
		}
	}
	if deq != len(enq) {
		add("C12:order:dequeue-count", fmt.Sprintf("%d messages enqueued, %d dequeued", len(enq), deq))
	}
	// the wire
	segs, perr := netsim.ParseSegs(tap)
	var stream []byte
	for _, s := range segs {
		if s.Proto != cfg.ProtocolId || s.Response != (cfg.Role == protocol.ProtocolRoleServer) {
			add("C12:wire:foreign-segment", fmt.Sprintf("segment for protocol %d response=%v on the wire", s.Proto, s.Response))
			continue
		}
		stream = append(stream, s.Payload...)
	}
	items, ierr := splitItems(stream)
	if perr != nil || ierr != nil {
		add("C12:wire:unparsable", fmt.Sprintf("the tapped stream does not parse: %v %v", perr, ierr))
	}
	if len(items) != len(enq) {
		add("C12:wire:message-count", fmt.Sprintf("%d messages enqueued, %d messages on the wire", len(enq), len(items)))
	}
	for i := 0; i < len(items) && i < len(enq); i++ {
		if !bytes.Equal(items[i], enq[i].Cbor()) {
			add("C12:wire:order", fmt.Sprintf("wire message #%d (%x...) is not message #%d of the enqueue order", i, clipBytes(items[i]), i))
			break
		}
	}
	// the peer's application saw exactly this sequence
	if len(peerGot) != len(enq) {
		add("C12:conv:peer-handler-count", fmt.Sprintf("%d messages enqueued, the peer's handler saw %d", len(enq), len(peerGot)))
	}
	for i := 0; i < len(peerGot) && i < len(enq); i++ {
		if !bytes.Equal(peerGot[i], enq[i].Cbor()) {
			add("C12:conv:peer-handler-sequence", fmt.Sprintf("the peer's handler got a different message at position %d", i))
			break
		}
	}
	return ck
}

func clipBytes(b []byte) []byte {
	if len(b) > 12 {
		return b[:12]
	}
	return b
}

// ------------------------------------------------------------------ one conversation

type c12Result struct {
	findings     []finding
	inconclusive string
	msgs         int
	maxAhead     int
	sig          uint64
	desc         map[string]any
	trace        []string
}

func pipeliningSide(name string) int {
	switch name {
	case "tx-submission2", "message-submission/v1":
		return 1
	case "handshake/ntn", "handshake/ntc":
		return -1
	}
	return 0
}

func runConversation(c *core.Ctx, t *tctx, r *core.Rand, k int) (res c12Result) {
	steps := 5 + r.Intn(36)
	switch r.Intn(10) {
	case 0:
		steps = 120 + r.Intn(181)
	case 1, 2, 3:
		steps = 40 + r.Intn(80)
	}
	conv := genConversation(t, r, steps)
	depths := []int{1, 1, 2, 3, 5, 10, 30, 100}
	depth := depths[r.Intn(len(depths))]
	ps := pipeliningSide(t.Name)
	handlerReply := r.Bool()
	pertA, pertB := uint64(0), uint64(0)
	if k%4 != 0 {
		pertA, pertB = r.Uint64()|1, r.Uint64()|1
	}
	res.msgs = len(conv)
	var keys []string
	for _, m := range conv {
		keys = append(keys, fmt.Sprintf("%c:%s", "AB"[m.side], m.key))
	}
	res.desc = map[string]any{"target": t.Name, "messages": len(conv), "pipelining_side": ps, "depth": depth, "other_side_answers_from_handler": handlerReply,
		"perturbed": pertA != 0, "conversation": clipTrace(keys, 40)}
	if len(conv) == 0 {
		res.inconclusive = "empty conversation"
		return
	}
	a, b := netsim.Pipe()
	a.EnableTap()
	b.EnableTap()
	eps := [2]*endpoint{}
	for side := 0; side < 2; side++ {
		p := &endpoint{side: side, depth: 1, wake: make(chan struct{}, 1), abort: make(chan struct{})}
		if side == ps {
			p.depth = depth
		} else {
			p.handlerReply = handlerReply
		}
		other := 0
		for _, m := range conv {
			if m.side == side {
				p.own = append(p.own, m)
				p.need = append(p.need, other)
			} else {
				other++
			}
		}
		eps[side] = p
	}
	c.Journal("C12 conversation %s #%d msgs=%d depth=%d", t.Name, k, len(conv), depth)
	eps[0].e = newEngineOn(t.cfg[roleClient], a, eps[0].handler, pertA)
	eps[1].e = newEngineOn(t.cfg[roleServer], b, eps[1].handler, pertB)
	var wg sync.WaitGroup
	// an endpoint that answers from its handler still has to send what precedes
	// every received message: from this goroutine, before the other side starts
	for _, p := range eps {
		if !p.handlerReply {
			continue
		}
		for p.sent < len(p.own) && p.need[p.sent] == 0 {
			cm := p.own[p.sent]
			p.sent++
			if err := p.e.p.SendMessage(cm.msg); err != nil {
				p.sendEr = err
			}
		}
	}
	for _, p := range eps {
		if !p.handlerReply {
			wg.Add(1)
			go p.drive(&wg)
		}
	}
	// wait until both applications saw everything and every outbound message
	// advanced its own engine, or an error was reported
	finished := func() (bool, bool) {
		errSeen := false
		done := true
		for side, p := range eps {
			out := 0
			for _, ev := range p.e.snapshot() {
				switch {
				case ev.kind == "error":
					errSeen = true
				case ev.kind == "trans" && ev.err == nil:
					out++
				}
			}
			p.mu.Lock()
			if p.recv < len(eps[1-side].own) {
				done = false
			}
			if p.sendEr != nil {
				errSeen = true
			}
			p.mu.Unlock()
			if out < len(conv) {
				done = false
			}
		}
		return done, errSeen
	}
	wd := time.NewTimer(2 * watchdog)
	tick := time.NewTicker(2 * time.Millisecond)
	completed, errSeen := false, false
	for !completed && !errSeen {
		completed, errSeen = finished()
		if completed || errSeen {
			break
		}
		select {
		case <-eps[0].e.wake:
		case <-eps[1].e.wake:
		case <-tick.C:
		case <-wd.C:
			errSeen = false
			completed = false
			res.inconclusive = fmt.Sprintf("%s #%d: the conversation of %d messages (depth %d) did not complete within the watchdog", t.Name, k, len(conv), depth)
			goto teardown
		}
	}
teardown:
	wd.Stop()
	tick.Stop()
	for _, p := range eps {
		close(p.abort)
	}
	wg.Wait()
	// every segment that was produced has been written when the peer saw all
	// messages; take the taps before closing
	tapA, tapB := a.TapBytes(), b.TapBytes()
	if res.inconclusive == "" {
		gotA, gotB := eps[0].got, eps[1].got
		ckA := checkEndpoint("A(client)", eps[0].e, tapA, gotB)
		ckB := checkEndpoint("B(server)", eps[1].e, tapB, gotA)
		res.findings = append(ckA.findings, ckB.findings...)
		res.maxAhead = ckA.maxAhead
		if ckB.maxAhead > res.maxAhead {
			res.maxAhead = ckB.maxAhead
		}
		reported := false
		for _, f := range res.findings {
			reported = reported || f.key == "C12:conv:error-reported"
		}
		for _, p := range eps {
			if p.sendEr != nil && !reported {
				res.findings = append(res.findings, finding{key: "C12:conv:send-error", what: fmt.Sprintf("SendMessage failed in a conforming conversation: %v", p.sendEr), w: map[string]any{}})
			}
		}
		if reported {
			// the other endpoint's counts are a consequence of the cut-short conversation
			var keep []finding
			for _, f := range res.findings {
				switch f.key {
				case "C12:wire:message-count", "C12:order:message-never-transitioned", "C12:order:dequeue-count", "C12:conv:peer-handler-count":
				default:
					keep = append(keep, f)
				}
			}
			res.findings = keep
		}
		// interleaving signature over both logs
		evA, evB := eps[0].e.snapshot(), eps[1].e.snapshot()
		h := fnv.New64a()
		i, j := 0, 0
		for i < len(evA) || j < len(evB) {
			if j >= len(evB) || (i < len(evA) && evA[i].seq < evB[j].seq) {
				fmt.Fprintf(h, "A%s,", evA[i].kind)
				i++
			} else {
				fmt.Fprintf(h, "B%s,", evB[j].kind)
				j++
			}
		}
		res.sig = h.Sum64()
		if len(res.findings) > 0 {
			res.trace = append(clipTrace(prefixAll("A ", eps[0].e.trace()), 40), clipTrace(prefixAll("B ", eps[1].e.trace()), 40)...)
		}
	}
	for _, p := range eps {
		if !p.e.close() && res.inconclusive == "" {
			res.inconclusive = "engine did not shut down within the watchdog"
		}
	}
	return
}

func prefixAll(p string, xs []string) []string {
	out := make([]string, len(xs))
	for i, x := range xs {
		out[i] = p + x
	}
	return out
}

// ------------------------------------------------------------------ first message not permitted

type c12Reject struct {
	findings     []finding
	inconclusive string
	skipped      bool
	desc         map[string]any
}

// runRejection: after a legal prefix the local side, holding agency, enqueues
// a message its current state does not permit (optionally with more behind
// it): the engine must report an error and write nothing of it.
func runRejection(c *core.Ctx, t *tctx, role int, r *core.Rand) (res c12Reject) {
	return runRejectionAt(c, t, role, r, -1)
}

// runRejectionAt: prefix >= 0 fixes the number of legal steps before the message that is
// not permitted (0 = it is the engine's very first message whenever the local side opens).
func runRejectionAt(c *core.Ctx, t *tctx, role int, r *core.Rand, prefix int) (res c12Reject) {
	cfg := t.cfg[role]
	a, b := netsim.Pipe()
	a.EnableTap()
	e := newEngineOn(cfg, a, nil, r.Uint64()|1)
	e.b = b
	defer func() {
		if !e.close() && res.inconclusive == "" {
			res.inconclusive = "engine did not shut down within the watchdog"
		}
	}()
	ctx := freshCtx(&e.cfg)
	cur := cfg.InitialState
	byTag := lettersByTag(t)
	var accepted [][]byte
	var script []string
	limit := r.Intn(7)
	if prefix >= 0 {
		limit = prefix
	}
	for step := 0; ; step++ {
		local, peer := localAgency(&e.cfg, cur)
		if !local && !peer {
			res.skipped = true
			return
		}
		if local && step >= limit {
			break
		}
		if step > 40 {
			res.skipped = true
			return
		}
		entry := e.cfg.StateMap[cur]
		tr := entry.Transitions[r.Intn(len(entry.Transitions))]
		if e.cfg.StateMap[tr.NewState].Agency == protocol.AgencyNone && len(entry.Transitions) > 1 {
			continue
		}
		ks := byTag[tr.MsgType]
		if len(ks) == 0 {
			res.skipped = true
			return
		}
		k := ks[r.Intn(len(ks))]
		m, err := t.Build[k]()
		if err != nil {
			res.skipped = true
			return
		}
		next, ok := permittedIn(&e.cfg, ctx, cur, m)
		if !ok {
			continue
		}
		var o outcome
		if local {
			o = e.sendLocal(m)
			accepted = append(accepted, t.bytes[k])
		} else {
			o = e.sendPeer(t.bytes[k])
		}
		if o.v != vAccepted {
			res.inconclusive = fmt.Sprintf("%s/%s: the legal prefix stopped at %s with %s: %v", t.Name, roleName[role], k, o.v, o.err)
			return
		}
		script = append(script, map[bool]string{true: "local ", false: "peer "}[local]+k)
		cur = next
	}
	types := typesOf(&e.cfg, cur)
	var wrong string
	keys := t.Spec.Keys()
	for _, i := range r.Perm(len(keys)) {
		if !types[tagOf(t, keys[i])] {
			wrong = keys[i]
			break
		}
	}
	if wrong == "" {
		res.skipped = true
		return
	}
	wm, _ := t.Build[wrong]()
	start := len(e.snapshot())
	script = append(script, "local "+wrong+" (not permitted in "+cur.String()+")")
	res.desc = map[string]any{"target": t.Name, "role": roleName[role], "script": script}
	c.Journal("C12 rejection %s/%s %v", t.Name, roleName[role], script)
	e.outbound[wm] = true
	if err := e.p.SendMessage(wm); err != nil {
		res.inconclusive = "SendMessage failed: " + err.Error()
		return
	}
	followers := r.Intn(3)
	for i := 0; i < followers; i++ {
		k := keys[r.Intn(len(keys))]
		if m, err := t.Build[k](); err == nil {
			e.outbound[m] = true
			e.p.SendMessage(m) // may already be refused: the engine is shutting down
		}
	}
	add := func(key, what string) {
		res.findings = append(res.findings, finding{key: key, what: what, w: map[string]any{}})
	}
	ti, tev, got := e.waitFrom(start, func(x *evRec) bool { return (x.kind == "trans" && x.msg == wm) || x.kind == "error" })
	if !got {
		res.inconclusive = fmt.Sprintf("%s/%s: no transition / error event for the not permitted %s", t.Name, roleName[role], wrong)
		return
	}
	if tev.kind == "error" && isTimeout(tev.err) {
		res.inconclusive = "state timeout fired"
		return
	}
	if tev.kind == "trans" && tev.err == nil {
		add("C12:reject:first-message-accepted", fmt.Sprintf("%s is not permitted in %s but advanced the state to %s", wrong, cur, tev.to))
		return
	}
	// the refusal must be reported before anything is handed to the muxer
	_, nev, got := e.waitFrom(ti+1, func(x *evRec) bool { return x.kind == "error" || x.kind == "seg" })
	if !got {
		add("C12:reject:no-error-event", fmt.Sprintf("the not permitted %s was not followed by the engine's error report", wrong))
		return
	}
	if nev.kind == "seg" {
		add("C12:reject:segment-after-rejection", fmt.Sprintf("%s was refused by the state machine in %s, but the send loop handed a segment of %d bytes to the muxer without reporting the error first", wrong, cur, nev.ln))
		for i := 0; i < 50; i++ { // let the write land (already a violation)
			runtime.Gosched()
			time.Sleep(100 * time.Microsecond)
		}
		segs, _ := netsim.ParseSegs(a.TapBytes())
		var stream []byte
		for _, sg := range segs {
			stream = append(stream, sg.Payload...)
		}
		items, _ := splitItems(stream)
		for _, it := range items[min(len(accepted), len(items)):] {
			if bytes.Equal(it, t.bytes[wrong]) {
				add("C12:reject:written-to-wire", fmt.Sprintf("the refused %s (%x) is on the wire", wrong, clipBytes(it)))
				break
			}
		}
		return
	}
	wd := time.NewTimer(watchdog)
	select {
	case <-e.p.DoneChan():
	case <-wd.C:
		res.inconclusive = fmt.Sprintf("%s/%s: the engine did not stop after rejecting %s", t.Name, roleName[role], wrong)
		return
	}
	wd.Stop()
	select {
	case <-e.errCh:
	default:
		add("C12:reject:error-not-on-errorchan", "the engine stopped but its ErrorChan holds no error")
	}
	// nothing of the rejected message may be handed to the muxer or written
	for i := 0; i < 20; i++ { // lets an (incorrect) write that is already under way land; never decides on correct code
		runtime.Gosched()
		if i%5 == 4 {
			time.Sleep(200 * time.Microsecond)
		}
	}
	for _, ev := range e.snapshot()[ti:] {
		if ev.kind == "seg" {
			add("C12:reject:segment-after-rejection", fmt.Sprintf("after %s was refused in %s the send loop still handed a segment of %d bytes to the muxer", wrong, cur, ev.ln))
			break
		}
	}
	segs, _ := netsim.ParseSegs(a.TapBytes())
	var stream []byte
	for _, s := range segs {
		stream = append(stream, s.Payload...)
	}
	items, _ := splitItems(stream)
	if len(items) > len(accepted) {
		for _, it := range items[len(accepted):] {
			if bytes.Equal(it, t.bytes[wrong]) {
				add("C12:reject:written-to-wire", fmt.Sprintf("the refused %s (%x) is on the wire", wrong, clipBytes(it)))
				break
			}
		}
	}
	return
}

// RunC12 is the Run function of monitor C12 (registered by package mon/c12).
func RunC12(c *core.Ctx) {
	protocol.VerifSetSink(sink)
	defer protocol.VerifSetSink(nil)
	protocol.VerifSetPoint(perturb)
	defer protocol.VerifSetPoint(nil)
	g0 := runtime.NumGoroutine()
	ts := setupTargets(c)
	c.Note("targets", len(ts))
	perTarget := c.N(24, 2000)
	perEngineRej := c.N(12, 300)
	type job struct {
		t    *tctx
		k    int
		rej  bool
		role int
	}
	var jobs []job
	for _, t := range ts {
		for k := 0; k < perTarget; k++ {
			jobs = append(jobs, job{t: t, k: k})
		}
		for role := 0; role < 2; role++ {
			for k := 0; k < perEngineRej; k++ {
				jobs = append(jobs, job{t: t, k: k, rej: true, role: role})
			}
		}
	}
	workers := runtime.GOMAXPROCS(0)
	if workers > 16 {
		workers = 16
	}
	historyPhase(c, ts)
	convs := make([]c12Result, len(jobs))
	rejs := make([]c12Reject, len(jobs))
	c.Parallel("case", len(jobs), workers, func(i int, r *core.Rand) {
		if jobs[i].rej {
			rejs[i] = runRejection(c, jobs[i].t, jobs[i].role, r)
		} else {
			convs[i] = runConversation(c, jobs[i].t, r, jobs[i].k)
		}
	})
	sigs := map[uint64]bool{}
	maxAhead := 0
	for i, j := range jobs {
		c.Eval()
		if j.rej {
			rr := rejs[i]
			switch {
			case rr.inconclusive != "":
				c.Inconclusive(rr.inconclusive)
				continue
			case rr.skipped:
				c.Count("rejection_cases_skipped", 1)
				continue
			}
			c.Count("rejection_cases", 1)
			c.Distinct("rej", j.t.Name, j.role, fmt.Sprint(rr.desc["script"]))
			for _, f := range rr.findings {
				f.w["case"] = rr.desc
				c.Violation(f.key, fmt.Sprintf("%s/%s: %s [%v]", j.t.Name, roleName[j.role], f.what, rr.desc["script"]), f.w)
			}
			if len(rr.findings) == 0 {
				c.Count("first_message_rejected_nothing_written", 1)
			}
			continue
		}
		cr := convs[i]
		if cr.inconclusive != "" {
			c.Inconclusive(cr.inconclusive)
			continue
		}
		c.Count("conversations", 1)
		c.Count("conversations:"+j.t.Name, 1)
		c.Count("messages", cr.msgs)
		c.Distinct("conv", j.t.Name, fmt.Sprint(cr.desc))
		sigs[cr.sig] = true
		if cr.maxAhead > maxAhead {
			maxAhead = cr.maxAhead
		}
		if cr.maxAhead > 0 {
			c.Count("conversations_with_messages_written_ahead_of_their_transition", 1)
		}
		for _, f := range cr.findings {
			f.w["case"] = cr.desc
			f.w["trace"] = cr.trace
			c.Violation(f.key, fmt.Sprintf("%s: %s [%d messages, depth %v]", j.t.Name, f.what, cr.msgs, cr.desc["depth"]), f.w)
		}
		if len(cr.findings) == 0 {
			c.Count("conversations_accepted_by_the_model", 1)
		}
		if i%173 == 0 {
			c.Sample(cr.desc)
		}
	}
	c.Note("distinct_interleaving_signatures", len(sigs))
	c.Note("max_messages_written_ahead_of_their_transition", maxAhead)
	if c.Counter("conversations_accepted_by_the_model") == 0 || c.Counter("first_message_rejected_nothing_written") == 0 {
		runInconclusive(c, "the run did not see both an accepted conversation and a rejected first message")
	}
	n := runtime.NumGoroutine()
	for i := 0; i < 300 && n > g0+8; i++ {
		time.Sleep(10 * time.Millisecond)
		n = runtime.NumGoroutine()
	}
	c.Note("goroutines_before", g0)
	c.Note("goroutines_after", n)
}
