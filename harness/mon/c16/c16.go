// Package c16 monitors C16: the mini-protocol state machines match the
// network specification.
//
// For every protocol / mode / role the implementation's ProtocolConfig is taken
// from a live Client / Server (VerifConfig), and fresh protocol engines built
// from it (recorder handler, own muxer over netsim, raw muxer-segment peer) are
// driven with message sequences in which each step is "peer sends m" (raw
// bytes in one segment) or "local sends m" (SendMessage). The oracle is the
// hand-typed automaton of package specfsm: breadth-first product walk, only
// prefixes accepted by both are extended, and every prefix is extended by every
// letter of the alphabet from either side.
//
// How the two sides are observed (all through trace events, never by waiting
// for "nothing"): the engine never rejects a message for lack of agency, it
// defers it (pipelining). So
//   - a message from the side that holds agency in the specification must give
//     a `trans` event: without error (then `handled` / `seg`) iff the
//     specification has the edge, with an error + the protocol's `error` event
//     otherwise;
//   - the messages from the side without agency are all queued first and then
//     one admissible message from the agency holder is sent: the first `trans`
//     event must belong to that one (a deferred message that is processed
//     before it shows agency on the wrong side);
//   - at every prefix the agency recorded in the implementation's map for the
//     engine's current state, and IsDone(), are compared with the automaton.
package c16

import (
	"fmt"
	"runtime"
	"sort"
	"strings"
	"time"

	"github.com/blinklabs-io/gouroboros/connection"
	"github.com/blinklabs-io/gouroboros/muxer"
	"github.com/blinklabs-io/gouroboros/protocol"

	"verifharness/core"
	"verifharness/netsim"
	"verifharness/specfsm"
)

func init() {
	core.Register(&core.Monitor{
		ID:            "C16",
		Race:          true,
		Rule:          "exhaustive breadth-first product walk per (protocol, mode, role): every message sequence of the specification's language of length < L that the implementation also accepted is replayed on a fresh engine and extended by every letter of the alphabet (canonical NewMsg* instance; blocking and non-blocking / count variants are separate letters) from the side that holds agency (one engine run per letter) and from the side that does not (one engine run for all letters in a PRNG order, flushed by one admissible message; the PRNG order is the only seed-dependent part); L = 6 quick, 9 thorough (one less for the draft protocols). An evaluation is one (role, prefix, letter, side); it is non-trivial when the engine produced the trace events that decide it; distinct by (target, role, prefix, letter, side)",
		MinNontrivial: 3000,
		RaceAnchors:   []string{"protocol.(*Protocol).stateLoop", "protocol.(*Protocol).getCurrentState", "protocol.(*Protocol).nextState"},
		Assumptions: []string{
			"the automata of package specfsm (DESIGN.md appendix A, CIP-0137, protocol READMEs for Leios) are the specification; handshake's simultaneous-open pseudo message and local-tx-monitor's GetMeasures pair are not part of them",
			"divergences of the draft protocols (DMQ, Leios) are reported under C16:draft: keys and need review before being called defects; message-submission is compared in its Init-state variant only (no specification text for the repository's V2 variant)",
			"the engine defers (never rejects) a message from the side without agency; 'not accepted from that side' is observed as: it is not processed before a later message of the agency holder",
			"an engine that produces no deciding trace event within the 30 s watchdog, or whose state timeout fires, makes the case inconclusive",
		},
		QuickTimeout:    240,
		ThoroughTimeout: 3 * 3600,
		Run:             run,
	})
}

const (
	roleClient = 0
	roleServer = 1
)

var roleName = [2]string{"client", "server"}

// tctx is a target with the two configurations taken from live instances.
type tctx struct {
	*target
	cfg      [2]protocol.ProtocolConfig
	bytes    map[string][]byte // canonical wire bytes per letter
	prefix   string            // "C16:" or "C16:draft:"
	broken   bool              // set-up failed, target skipped
	states   map[string]bool   // spec states reached by a walk (both roles)
	edges    map[string]bool   // spec edges taken by an accepted probe
	edgesBy  [2]map[string]bool
	implName map[string]map[string]bool // spec state -> implementation state names seen
	runs     int
	prefixes int
}

func (t *tctx) key(parts ...string) string { return t.prefix + t.Name + ":" + strings.Join(parts, ":") }

func agencyOf(a protocol.ProtocolStateAgency) specfsm.Agency {
	switch a {
	case protocol.AgencyClient:
		return specfsm.Client
	case protocol.AgencyServer:
		return specfsm.Server
	}
	return specfsm.Nobody
}

func roleAgency(role int) specfsm.Agency {
	if role == roleClient {
		return specfsm.Client
	}
	return specfsm.Server
}

// ------------------------------------------------------------------ set-up

func liveConfig(t *target, role int) (cfg protocol.ProtocolConfig) {
	a, b := netsim.Pipe()
	mux := muxer.New(a)
	errCh := make(chan error, 10)
	pr := protocol.ProtocolRoleClient
	if role == roleServer {
		pr = protocol.ProtocolRoleServer
	}
	p, cleanup := t.Live(protocol.ProtocolOptions{
		ConnectionId: connection.ConnectionId{LocalAddr: a.LocalAddr(), RemoteAddr: a.RemoteAddr()},
		Muxer:        mux, ErrorChan: errCh, Mode: t.Mode, Role: pr, Version: t.Version,
	}, pr)
	cfg = p.VerifConfig()
	cleanup()
	mux.Stop()
	a.Close()
	b.Close()
	for range mux.ErrorChan() {
	}
	return cfg
}

func setup(c *core.Ctx, tg *target) *tctx {
	t := &tctx{target: tg, bytes: map[string][]byte{}, prefix: "C16:", states: map[string]bool{}, edges: map[string]bool{},
		implName: map[string]map[string]bool{}}
	t.edgesBy = [2]map[string]bool{{}, {}}
	if tg.Spec.Draft {
		t.prefix = "C16:draft:"
	}
	for _, k := range tg.Spec.Keys() {
		bld := tg.Build[k]
		if bld == nil {
			c.Inconclusive(fmt.Sprintf("%s: no canonical instance for letter %s", tg.Name, k))
			t.broken = true
			return t
		}
		msg, err := bld()
		if err != nil {
			c.Inconclusive(fmt.Sprintf("%s: constructor of %s failed: %v", tg.Name, k, err))
			t.broken = true
			return t
		}
		b, err := encode(msg, tg.Spec.Msg(k).Tag)
		if err != nil {
			c.Violation(t.key("codec", k, "encode"), fmt.Sprintf("%s: the canonical %s does not encode to a message with the specification's tag %d: %v",
				tg.Name, k, tg.Spec.Msg(k).Tag, err), map[string]any{"target": tg.Name, "message": k})
			t.broken = true
			return t
		}
		t.bytes[k] = b
	}
	for role := 0; role < 2; role++ {
		c.Journal("C16 live instance %s/%s", tg.Name, roleName[role])
		panicked, val, stack := core.Safely(func() { t.cfg[role] = liveConfig(tg, role) })
		if panicked {
			c.Violation(t.key("live-instance-panic", roleName[role]), fmt.Sprintf("%s: constructing the %s panicked: %v", tg.Name, roleName[role], val),
				map[string]any{"stack": stack})
			t.broken = true
			return t
		}
		wantRole := protocol.ProtocolRoleClient
		if role == roleServer {
			wantRole = protocol.ProtocolRoleServer
		}
		if t.cfg[role].Role != wantRole || t.cfg[role].StateMap == nil || t.cfg[role].MessageFromCborFunc == nil {
			c.Inconclusive(fmt.Sprintf("%s/%s: VerifConfig() is incomplete", tg.Name, roleName[role]))
			t.broken = true
			return t
		}
	}
	return t
}

// codecCheck: every letter decodes with the protocol's codec, and every
// message type the implementation's map admits is a letter that decodes.
func codecCheck(c *core.Ctx, t *tctx) {
	byTag := map[uint8][]string{}
	for _, m := range t.Spec.Msgs {
		byTag[m.Tag] = append(byTag[m.Tag], m.Key)
	}
	for role := 0; role < 2; role++ {
		cfg := t.cfg[role]
		decode := func(k string) {
			tag := t.Spec.Msg(k).Tag
			c.Eval()
			c.Count("codec_checks", 1)
			var msg protocol.Message
			var err error
			c.Journal("C16 codec %s/%s %s %x", t.Name, roleName[role], k, t.bytes[k])
			panicked, val, _ := core.Safely(func() { msg, err = cfg.MessageFromCborFunc(uint(tag), t.bytes[k]) })
			w := map[string]any{"target": t.Name, "role": roleName[role], "message": k, "tag": tag, "bytes": core.HexFull(t.bytes[k])}
			switch {
			case panicked:
				c.Violation(t.key("codec", k), fmt.Sprintf("%s: the codec panicked on the canonical %s: %v", t.Name, k, val), w)
			case err != nil || msg == nil:
				c.Violation(t.key("codec", k), fmt.Sprintf("%s: the protocol's codec does not decode the canonical %s (tag %d): msg=%v err=%v", t.Name, k, tag, msg, err), w)
			case msg.Type() != tag:
				c.Violation(t.key("codec", k), fmt.Sprintf("%s: the canonical %s (tag %d) decodes to a message of type %d", t.Name, k, tag, msg.Type()), w)
			default:
				c.Distinct("codec", t.Name, role, k)
			}
		}
		for _, k := range t.Spec.Keys() {
			decode(k)
		}
		// deterministic order over the implementation's map
		var sts []protocol.State
		for s := range cfg.StateMap {
			sts = append(sts, s)
		}
		sort.Slice(sts, func(i, j int) bool { return sts[i].Id < sts[j].Id })
		for _, s := range sts {
			for _, tr := range cfg.StateMap[s].Transitions {
				c.Count("map_transitions_seen", 1)
				if len(byTag[tr.MsgType]) == 0 {
					c.Violation(t.key("map-type", fmt.Sprint(tr.MsgType)),
						fmt.Sprintf("%s/%s: state %s of the implementation's map admits message type %d, which is not a message of the specification", t.Name, roleName[role], s, tr.MsgType),
						map[string]any{"target": t.Name, "role": roleName[role], "impl_state": s.String(), "type": tr.MsgType})
				}
			}
		}
	}
}

// ------------------------------------------------------------------ walk

type node struct {
	t      *tctx
	role   int
	prefix []string
	state  string // specification state after prefix
}

const (
	jobProbe = iota // the agency holder sends one letter
	jobWrong        // the other side sends every letter, then the agency holder one admissible letter
	jobInit         // no step: agency / termination of the initial state
)

type job struct {
	n    *node
	kind int
	key  string
}

type finding struct {
	key, what string
	w         map[string]any
}

type jobResult struct {
	findings     []finding
	inconclusive string
	child        bool   // the probe was accepted by both: extend
	implState    string // implementation state after the accepted probe
	evals        int
	decided      int
	skipped      bool // the state's agency diverges (reported elsewhere): nothing probed
	sample       map[string]any
}

func (n *node) local(a specfsm.Agency) bool { return a == roleAgency(n.role) }

func stepsJSON(n *node, extra ...string) []string {
	var out []string
	st := n.t.Spec.Initial
	for _, k := range append(append([]string(nil), n.prefix...), extra...) {
		s := n.t.Spec.State(st)
		who := "peer"
		if s != nil && n.local(s.Agency) {
			who = "local"
		}
		out = append(out, who+" sends "+k)
		if s == nil {
			break
		}
		nx, ok := s.Next[k]
		if !ok {
			break
		}
		st = nx
	}
	return out
}

// send performs one step on the engine from the given side.
func send(e *engine, t *tctx, key string, local bool) outcome {
	if local {
		msg, err := t.Build[key]()
		if err != nil {
			return outcome{v: vSendErr, err: err}
		}
		return e.sendLocal(msg)
	}
	return e.sendPeer(t.bytes[key])
}

func isTimeout(err error) bool {
	return err != nil && strings.Contains(err.Error(), "timeout waiting on transition")
}

// stateChecks compares agency and termination of the engine's current state
// with the specification state.
func stateChecks(e *engine, n *node, specState string, seq []string, res *jobResult) {
	t := n.t
	spec := t.Spec.State(specState)
	st := e.p.VerifState()
	entry, known := e.cfg.StateMap[st]
	res.implState = st.String()
	w := map[string]any{"target": t.Name, "role": roleName[n.role], "sequence": seq, "spec_state": specState, "impl_state": st.String()}
	res.evals++
	res.decided++
	if !known {
		res.findings = append(res.findings, finding{t.key("state-not-in-map", specState),
			fmt.Sprintf("%s/%s: after %v the engine is in state %s, which has no entry in its state map", t.Name, roleName[n.role], seq, st), w})
		return
	}
	if got := agencyOf(entry.Agency); got != spec.Agency {
		res.findings = append(res.findings, finding{t.key("agency", specState),
			fmt.Sprintf("%s/%s: after %v the specification is in %s where the %s has agency; the implementation is in %s whose map entry gives agency to the %s",
				t.Name, roleName[n.role], seq, specState, spec.Agency, st, got), w})
	}
	done := e.p.IsDone()
	if done != (spec.Agency == specfsm.Nobody) {
		res.findings = append(res.findings, finding{t.key("terminal", specState),
			fmt.Sprintf("%s/%s: after %v the specification state %s is terminal=%v, the engine reports done=%v (state %s)",
				t.Name, roleName[n.role], seq, specState, spec.Agency == specfsm.Nobody, done, st), w})
	}
	if spec.Agency == specfsm.Nobody && len(entry.Transitions) != 0 {
		res.findings = append(res.findings, finding{t.key("terminal-has-transitions", specState),
			fmt.Sprintf("%s/%s: the implementation's terminal state %s still admits %d message types", t.Name, roleName[n.role], st, len(entry.Transitions)), w})
	}
}

func runJob(c *core.Ctx, j job, rnd *core.Rand) (res jobResult) {
	n, t := j.n, j.n.t
	c.Journal("C16 %s/%s prefix=%v kind=%d key=%s", t.Name, roleName[n.role], n.prefix, j.kind, j.key)
	e := newEngine(t.cfg[n.role])
	defer func() {
		if !e.close() && res.inconclusive == "" {
			res.inconclusive = fmt.Sprintf("%s/%s: engine did not shut down within the watchdog", t.Name, roleName[n.role])
		}
	}()
	// replay the prefix
	st := t.Spec.Initial
	for i, k := range n.prefix {
		o := send(e, t, k, n.local(t.Spec.State(st).Agency))
		if o.v != vAccepted {
			res.inconclusive = fmt.Sprintf("%s/%s: replay of the accepted prefix %v stopped at step %d (%s) with %s: %v; trace %v",
				t.Name, roleName[n.role], n.prefix, i, k, o.v, o.err, e.trace())
			return
		}
		st, _ = t.Spec.Step(st, k)
	}
	spec := t.Spec.State(st)
	if j.kind != jobInit {
		// the engine would never process the holder's message: the divergence
		// is reported by the state check that reached this state
		if entry, ok := e.cfg.StateMap[e.p.VerifState()]; !ok || agencyOf(entry.Agency) != spec.Agency {
			res.skipped = true
			return
		}
	}
	switch j.kind {
	case jobInit:
		stateChecks(e, n, st, stepsJSON(n), &res)

	case jobProbe:
		local := n.local(spec.Agency)
		next, inSpec := spec.Next[j.key]
		o := send(e, t, j.key, local)
		res.evals++
		seq := stepsJSON(n, j.key)
		w := map[string]any{"target": t.Name, "role": roleName[n.role], "prefix": stepsJSON(n), "spec_state": st,
			"message": j.key, "message_bytes": core.HexFull(t.bytes[j.key]), "sender": map[bool]string{true: "local", false: "peer"}[local],
			"spec_accepts": inSpec, "implementation": o.v.String(), "error": fmt.Sprint(o.err), "trace": e.trace(), "source": t.Spec.Source}
		switch {
		case o.v == vHang || o.v == vSendErr || isTimeout(o.err):
			res.inconclusive = fmt.Sprintf("%s/%s: %v gave %s (%v); trace %v", t.Name, roleName[n.role], seq, o.v, o.err, e.trace())
			return
		case o.v == vAccepted && inSpec:
			res.decided++
			res.child = true
			stateChecks(e, n, next, seq, &res)
		case o.v == vAccepted && !inSpec:
			res.decided++
			res.findings = append(res.findings, finding{t.key("extra", st, j.key),
				fmt.Sprintf("%s/%s: in specification state %s (agency %s) message %s is not allowed, but the implementation accepted it (%s -> %s) after %v",
					t.Name, roleName[n.role], st, spec.Agency, j.key, o.from, o.to, stepsJSON(n)), w})
		case inSpec: // rejected / error
			res.decided++
			res.findings = append(res.findings, finding{t.key("missing", st, j.key),
				fmt.Sprintf("%s/%s: the specification allows %s in state %s (-> %s), but the implementation answered with %s (%v) after %v",
					t.Name, roleName[n.role], j.key, st, next, o.v, o.err, stepsJSON(n)), w})
		default: // both reject
			res.decided++
			if o.v == vError {
				// not a state-machine rejection: the message never reached the transition check
				res.findings = append(res.findings, finding{t.key("rejected-before-transition", st, j.key),
					fmt.Sprintf("%s/%s: %s in state %s was refused without a transition check: %v", t.Name, roleName[n.role], j.key, st, o.err), w})
			}
		}
		if len(n.prefix) == 2 && j.key == t.Spec.Keys()[0] {
			res.sample = map[string]any{"target": t.Name, "role": roleName[n.role], "sequence": seq, "spec_accepts": inSpec, "implementation": o.v.String()}
		}

	case jobWrong:
		// every letter from the side without agency, then one admissible
		// letter from the agency holder
		holderLocal := n.local(spec.Agency)
		var flush string
		for _, k := range t.Spec.Keys() {
			if _, ok := spec.Next[k]; ok {
				flush = k
				break
			}
		}
		// the order in which the side without agency queues its letters comes from the PRNG
		var keys []string
		for _, i := range rnd.Perm(len(t.Spec.Msgs)) {
			keys = append(keys, t.Spec.Msgs[i].Key)
		}
		for _, k := range keys {
			if holderLocal {
				if err := e.writePeer(t.bytes[k]); err != nil {
					res.inconclusive = fmt.Sprintf("%s: raw peer write failed: %v", t.Name, err)
					return
				}
			} else {
				msg, err := t.Build[k]()
				if err == nil {
					e.outbound[msg] = true
					err = e.p.SendMessage(msg)
				}
				if err != nil {
					res.inconclusive = fmt.Sprintf("%s/%s: SendMessage(%s) from the side without agency failed: %v", t.Name, roleName[n.role], k, err)
					return
				}
			}
		}
		var flushMsg protocol.Message
		if holderLocal {
			var err error
			if flushMsg, err = t.Build[flush](); err == nil {
				e.outbound[flushMsg] = true
				err = e.p.SendMessage(flushMsg)
			}
			if err != nil {
				res.inconclusive = fmt.Sprintf("%s/%s: SendMessage(%s) failed: %v", t.Name, roleName[n.role], flush, err)
				return
			}
		} else if err := e.writePeer(t.bytes[flush]); err != nil {
			res.inconclusive = fmt.Sprintf("%s: raw peer write failed: %v", t.Name, err)
			return
		}
		r, ok := e.next(isTransOrError)
		res.evals += len(keys)
		if !ok {
			res.inconclusive = fmt.Sprintf("%s/%s: no transition event after %v + wrong-side batch + %s; trace %v", t.Name, roleName[n.role], n.prefix, flush, e.trace())
			return
		}
		if r.kind == "error" && isTimeout(r.err) {
			res.inconclusive = fmt.Sprintf("%s/%s: state timeout fired: %v", t.Name, roleName[n.role], r.err)
			return
		}
		// whose message was processed first?
		flushFirst := false
		if r.kind == "trans" {
			if holderLocal {
				flushFirst = r.msg == flushMsg
			} else {
				flushFirst = !e.isOutbound(r.msg)
			}
		}
		w := map[string]any{"target": t.Name, "role": roleName[n.role], "prefix": stepsJSON(n), "spec_state": st,
			"agency": spec.Agency.String(), "flush": flush, "trace": e.trace(), "source": t.Spec.Source}
		if flushFirst {
			res.decided += len(keys)
			return
		}
		which := "?"
		if r.kind == "trans" {
			for _, m := range t.Spec.Msgs {
				if int(m.Tag) == r.msgType {
					which = m.Key
					break
				}
			}
			res.decided += len(keys)
			res.findings = append(res.findings, finding{t.key("wrong-side", st, which),
				fmt.Sprintf("%s/%s: in specification state %s the %s has agency, but the implementation processed %s sent by the other side (%s -> %s, err=%v) before the agency holder's %s, after %v",
					t.Name, roleName[n.role], st, spec.Agency, which, r.from, r.to, r.err, flush, stepsJSON(n)), w})
			return
		}
		res.decided += len(keys)
		res.findings = append(res.findings, finding{t.key("wrong-side-error", st),
			fmt.Sprintf("%s/%s: in specification state %s messages queued by the side without agency made the protocol fail before the agency holder's %s was processed: %v",
				t.Name, roleName[n.role], st, flush, r.err), w})
	}
	return
}

func run(c *core.Ctx) {
	protocol.VerifSetSink(sink)
	defer protocol.VerifSetSink(nil)
	g0 := runtime.NumGoroutine()
	L := c.N(6, 9)
	c.Note("max_sequence_length", L)
	c.Note("max_sequence_length_drafts", L-1)

	var ts []*tctx
	for _, tg := range targets() {
		t := setup(c, tg)
		if t.broken {
			continue
		}
		codecCheck(c, t)
		ts = append(ts, t)
	}
	c.Note("targets", len(ts))

	workers := runtime.GOMAXPROCS(0)
	if workers > 16 {
		workers = 16
	}
	// level 0
	var level []*node
	for _, t := range ts {
		for role := 0; role < 2; role++ {
			level = append(level, &node{t: t, role: role, state: t.Spec.Initial})
		}
	}
	totalDiv := 0
	for depth := 0; depth < L && len(level) > 0; depth++ {
		var jobs []job
		for _, n := range level {
			n.t.prefixes++
			n.t.states[n.state] = true
			if depth == 0 {
				jobs = append(jobs, job{n: n, kind: jobInit})
			}
			if n.t.Spec.Terminal(n.state) || (n.t.Spec.Draft && depth >= L-1) {
				continue
			}
			for _, k := range n.t.Spec.Keys() {
				jobs = append(jobs, job{n: n, kind: jobProbe, key: k})
			}
			jobs = append(jobs, job{n: n, kind: jobWrong})
		}
		results := make([]jobResult, len(jobs))
		c.Parallel(fmt.Sprintf("level-%d", depth), len(jobs), workers, func(i int, r *core.Rand) {
			results[i] = runJob(c, jobs[i], r)
		})
		// sequential post-processing: deterministic order of findings and children
		var next []*node
		for i, r := range results {
			j := jobs[i]
			t := j.n.t
			t.runs++
			c.Count("engine_runs", 1)
			c.EvalN(r.evals)
			if r.inconclusive != "" {
				c.Inconclusive(r.inconclusive)
				continue
			}
			if r.skipped {
				c.Count("probes_skipped_agency_divergence", 1)
				continue
			}
			side := "holder"
			if j.kind == jobWrong {
				side = "other"
				for _, k := range t.Spec.Keys() {
					c.Distinct(t.Name, j.n.role, strings.Join(j.n.prefix, ","), k, side)
				}
				c.Count("wrong_side_letters", len(t.Spec.Keys()))
			} else if r.decided > 0 {
				c.Distinct(t.Name, j.n.role, strings.Join(j.n.prefix, ","), j.key, side, j.kind)
			}
			for _, f := range r.findings {
				totalDiv++
				c.Count("divergences", 1)
				c.Violation(f.key, f.what, f.w)
			}
			if r.sample != nil {
				c.Sample(r.sample)
			}
			if j.kind == jobProbe {
				if r.child {
					c.Count("accepts", 1)
					to, _ := t.Spec.Step(j.n.state, j.key)
					id := specfsm.EdgeID(j.n.state, j.key, to)
					t.edges[id] = true
					t.edgesBy[j.n.role][id] = true
					t.states[to] = true
					if t.implName[to] == nil {
						t.implName[to] = map[string]bool{}
					}
					t.implName[to][r.implState] = true
					agencyBroken := false
					for _, f := range r.findings {
						if strings.Contains(f.key, ":agency:") || strings.Contains(f.key, ":state-not-in-map:") {
							agencyBroken = true
						}
					}
					if !agencyBroken {
						next = append(next, &node{t: t, role: j.n.role, prefix: append(append([]string(nil), j.n.prefix...), j.key), state: to})
					}
				} else {
					c.Count("rejects_or_divergent", 1)
				}
			}
		}
		level = next
		c.Count(fmt.Sprintf("prefixes_depth_%d", depth+1), len(level))
	}

	// coverage
	cov := map[string]any{}
	for _, t := range ts {
		allEdges := t.Spec.AllEdges()
		missing := []string{}
		for _, id := range allEdges {
			if !t.edgesBy[0][id] || !t.edgesBy[1][id] {
				missing = append(missing, id)
			}
		}
		names := map[string][]string{}
		for s, m := range t.implName {
			for k := range m {
				names[s] = append(names[s], k)
			}
			sort.Strings(names[s])
		}
		cov[t.Name] = map[string]any{
			"spec_states": len(t.Spec.States), "states_covered": len(t.states),
			"spec_edges": len(allEdges), "edges_covered_both_roles": len(allEdges) - len(missing),
			"edges_not_covered": missing, "engine_runs": t.runs, "prefixes_explored": t.prefixes,
			"draft": t.Spec.Draft, "impl_states_by_spec_state": names,
		}
		c.Count("prefixes:"+t.Name, t.prefixes)
		c.Count("engine_runs:"+t.Name, t.runs)
		if len(t.states) != len(t.Spec.States) || len(missing) != 0 {
			c.Count("targets_with_uncovered_states_or_edges", 1)
		}
	}
	c.Note("coverage", cov)
	if c.Counter("accepts") == 0 || c.Counter("rejects_or_divergent") == 0 {
		for i := int64(0); i <= c.Evals()/50+1; i++ {
			c.Inconclusive("the walk never saw both an accepted and a rejected message")
		}
	}
	if totalDiv == 0 && c.Counter("targets_with_uncovered_states_or_edges") > 0 {
		for i := int64(0); i <= c.Evals()/50+1; i++ {
			c.Inconclusive("not every specification state / edge was covered although no divergence was reported")
		}
	}
	c.SetExhaustive()
	n := runtime.NumGoroutine()
	for i := 0; i < 300 && n > g0+8; i++ {
		time.Sleep(10 * time.Millisecond)
		n = runtime.NumGoroutine()
	}
	c.Note("goroutines_before", g0)
	c.Note("goroutines_after", n)
}
