// Package c40 monitors C40: produced headers validate, tampered ones do not.
//
// Headers are built by consensus.BlockBuilder (Praos and TPraos layouts) from
// generated cold / VRF / KES keys and an operational certificate from
// ledger.CreateOpCert, for a slot the pool leads. The header body is
// re-serialised by the harness with its own CBOR writer (cborx) - these are the
// bytes a peer would put on the wire - and then
//
//   - consensus.HeaderValidator.ValidateHeader must return Valid without errors,
//   - header + body segments (taken from a real block of the same era, or empty)
//     wrapped into block CBOR must decode with ledger.NewBlockFromCbor (body hash
//     check on) and pass ledger.VerifyBlock.
//
// Tampering (one change at a time):
//
//	raw:      a header-body field / the KES signature / the body bytes are
//	          changed, nothing is re-signed: both validators must reject;
//	resigned: the field is changed and the header body is signed again with the
//	          hot key (what a holder of the hot key, or a buggy producer, can
//	          do): the check that owns the field must reject - cold signature
//	          for the certificate fields, VRF for the VRF fields, chain context
//	          for prev-hash / block number / slot order, body hash for the body;
//	context:  the same pool presents a header at KES period start-1 and
//	          start+maxEvolutions, and with a stake one lovelace below the
//	          smallest stake whose threshold exceeds the leader value.
//
// Every ValidateHeader expectation is checked twice: on a fresh validator per
// call, and as a validator HISTORY - one HeaderValidator instance first
// validates the genuine header and genuine headers of two other pools, then
// every tampering in PRNG order with genuine headers interleaved; what the
// instance saw before must not change any verdict (keys
// C40:ValidateHeader:history:...).
package c40

import (
	"bytes"
	"crypto/ed25519"
	"encoding/hex"
	"errors"
	"fmt"
	"math/big"
	"strings"

	"github.com/blinklabs-io/gouroboros/consensus"
	"github.com/blinklabs-io/gouroboros/kes"
	"github.com/blinklabs-io/gouroboros/ledger"
	lcommon "github.com/blinklabs-io/gouroboros/ledger/common"
	"golang.org/x/crypto/blake2b"

	"verifharness/cborx"
	"verifharness/core"
	"verifharness/corpus"
)

func init() {
	core.Register(&core.Monitor{
		ID:            "C40",
		Rule:          "PRNG pools (cold, VRF, KES depth-6 keys, opcert with random counter / start period), both modes, protocol majors 2..6 (TPraos) and 7..11 (CPraos), slotsPerKESPeriod 10..200000, maxKESEvolutions in {62,64,5..64}, evolution t in [0,maxEvo) biased to 0 and maxEvo-1, f in {1/20..19/20}, stakes random; slots searched inside the KES period until the pool leads (non-leading slots are the complementary outcome); bodies = segments of the corpus block of the era or empty; per header ~47 single-change tamperings (raw / re-signed / field-only / context), each judged on a fresh validator and again inside a history on one validator instance (genuine header + 2 genuine headers of other pools first, then all tamperings in PRNG order with genuine ones interleaved); a case is one validation call; non-trivial = the genuine header validated; distinct by (header hash, tampering)",
		MinNontrivial: 1500,
		Assumptions: []string{
			"crypto/ed25519 and blake2b are correct; CertifiedNatThresholdWithMode is exact (C37) - it is used to find the stake boundary",
			"block verification = ledger.NewBlockFromCbor (body hash on) followed by ledger.VerifyBlock with transaction / stake-pool / limit validation skipped; VerifyBlock does not see the cold key's counter state, the stake distribution or maxKESEvolutions, so re-signed certificate changes, the expiry context and the stake context are demanded from ValidateHeader only",
			"the harness maps a header to ValidateHeaderInput the way a caller decoding it from the wire would: fields from the header body, HeaderBodyCbor = the body bytes",
		},
		QuickTimeout: 600,
		Run:          run,
	})
}

// ------------------------------------------------------------------ keys

type kesSigner struct {
	sk *kes.SecretKey
	pk []byte
}

func (k *kesSigner) Sign(msg []byte) ([]byte, error) { return kes.Sign(k.sk, k.sk.Period, msg) }
func (k *kesSigner) PublicKey() []byte               { return k.pk }
func (k *kesSigner) Period() uint64                  { return k.sk.Period }

func newKES(seed []byte, evolutions uint64) (*kesSigner, error) {
	sk, pk, err := kes.KeyGen(kes.CardanoKesDepth, seed)
	if err != nil {
		return nil, err
	}
	pk = append([]byte(nil), pk...)
	for i := uint64(0); i < evolutions; i++ {
		sk, err = kes.Update(sk)
		if err != nil {
			return nil, err
		}
	}
	return &kesSigner{sk, pk}, nil
}

type pool struct {
	coldSeed []byte
	coldPub  ed25519.PublicKey
	vrfSeed  []byte
	vrf      *consensus.SimpleVRFSigner
	kesSeed  []byte
}

func newPool(r *core.Rand) (*pool, error) {
	p := &pool{coldSeed: r.Bytes(32), vrfSeed: r.Bytes(32), kesSeed: r.Bytes(32)}
	p.coldPub = ed25519.NewKeyFromSeed(p.coldSeed).Public().(ed25519.PublicKey)
	v, err := consensus.NewSimpleVRFSigner(p.vrfSeed)
	if err != nil {
		return nil, err
	}
	p.vrf = v
	return p, nil
}

// ------------------------------------------------------------------ serialisation

func bodyNode(b *consensus.HeaderBody, mode consensus.ConsensusMode) *cborx.Node {
	if mode == consensus.ConsensusModeTPraos {
		return cborx.A(
			cborx.U(b.BlockNumber), cborx.U(b.Slot), cborx.B(b.PrevHash), cborx.B(b.IssuerVkey), cborx.B(b.VrfKey),
			cborx.A(cborx.B(b.NonceVrfOutput), cborx.B(b.NonceVrfProof)),
			cborx.A(cborx.B(b.VrfOutput), cborx.B(b.VrfProof)),
			cborx.U(b.BlockBodySize), cborx.B(b.BlockBodyHash),
			cborx.B(b.OpCertHotVkey), cborx.U(uint64(b.OpCertSequenceNumber)), cborx.U(uint64(b.OpCertKesPeriod)), cborx.B(b.OpCertSignature),
			cborx.U(b.ProtoMajor), cborx.U(b.ProtoMinor))
	}
	return cborx.A(
		cborx.U(b.BlockNumber), cborx.U(b.Slot), cborx.B(b.PrevHash), cborx.B(b.IssuerVkey), cborx.B(b.VrfKey),
		cborx.A(cborx.B(b.VrfOutput), cborx.B(b.VrfProof)),
		cborx.U(b.BlockBodySize), cborx.B(b.BlockBodyHash),
		cborx.A(cborx.B(b.OpCertHotVkey), cborx.U(uint64(b.OpCertSequenceNumber)), cborx.U(uint64(b.OpCertKesPeriod)), cborx.B(b.OpCertSignature)),
		cborx.A(cborx.U(b.ProtoMajor), cborx.U(b.ProtoMinor)))
}

func blockTypeOf(major uint64) (uint, string) {
	switch {
	case major == 2:
		return corpus.TypeShelley, "shelley"
	case major == 3:
		return corpus.TypeAllegra, "allegra"
	case major == 4:
		return corpus.TypeMary, "mary"
	case major == 5 || major == 6:
		return corpus.TypeAlonzo, "alonzo"
	case major == 7 || major == 8:
		return corpus.TypeBabbage, "babbage"
	default:
		return corpus.TypeConway, "conway"
	}
}

// bodyHash: blake2b-256 over the concatenated blake2b-256 hashes of the segments.
func bodyHash(segs [][]byte) []byte {
	var cat []byte
	for _, s := range segs {
		h := blake2b.Sum256(s)
		cat = append(cat, h[:]...)
	}
	h := blake2b.Sum256(cat)
	return h[:]
}

func cp(b []byte) []byte { return append([]byte(nil), b...) }

func flipBit(b []byte, bit int) []byte {
	o := cp(b)
	o[bit/8] ^= 1 << (bit % 8)
	return o
}

// ------------------------------------------------------------------ scenario

type scenario struct {
	c        *core.Ctx
	mode     consensus.ConsensusMode
	modeName string
	era      string
	btype    uint
	pool     *pool
	signer   *kesSigner
	f        *big.Rat
	spkp     uint64
	maxEvo   uint64
	start    uint64
	evo      uint64
	seq      uint32
	eta0     []byte
	poolSt   uint64
	totalSt  uint64
	segs     [][]byte
	prevSlot uint64
	prevHash []byte
	regHash  bool
	hdr      *consensus.Header
	id       string
	// history mode: every ValidateHeader call goes to this one instance
	hv *consensus.HeaderValidator
}

func (s *scenario) witness(name string, body *consensus.HeaderBody, sig []byte, extra map[string]any) map[string]any {
	w := map[string]any{
		"mode": s.modeName, "era": s.era, "tampering": name,
		"cold_seed": core.HexFull(s.pool.coldSeed), "vrf_seed": core.HexFull(s.pool.vrfSeed), "kes_seed": core.HexFull(s.pool.kesSeed),
		"f": s.f.String(), "slots_per_kes_period": s.spkp, "max_kes_evolutions": s.maxEvo, "opcert_start_period": s.start, "kes_evolution": s.evo,
		"opcert_counter": s.seq, "epoch_nonce": core.HexFull(s.eta0), "pool_stake": s.poolSt, "total_stake": s.totalSt,
	}
	if body != nil {
		w["header_body_cbor"] = core.HexFull(bodyNode(body, s.mode).Encode())
		w["kes_signature"] = core.HexFull(sig)
	}
	for k, v := range extra {
		w[k] = v
	}
	return w
}

type ctxOverride struct {
	prevSlot     *uint64
	prevBlockNo  *uint64
	prevHashCtx  []byte
	poolStake    *uint64
	issuerField  []byte // ValidateHeaderInput.IssuerVkey only (header body untouched)
	bodyCbor     []byte // HeaderBodyCbor handed to the validator (default: re-encoded from the body)
	validatorCfg *consensus.NetworkConfig
}

func (s *scenario) netcfg() consensus.NetworkConfig {
	return consensus.NetworkConfig{SlotsPerKESPeriod: s.spkp, MaxKESEvolutions: s.maxEvo, ActiveSlotCoeff: lcommon.GenesisRat{Rat: new(big.Rat).Set(s.f)}}
}

// validate maps (body, sig) to a ValidateHeaderInput and runs ValidateHeader.
func (s *scenario) validate(b *consensus.HeaderBody, sig []byte, o *ctxOverride) (res *consensus.ValidateResult, panicked bool, pv any) {
	in := &consensus.ValidateHeaderInput{
		Slot: b.Slot, BlockNumber: b.BlockNumber, PrevHash: b.PrevHash, IssuerVkey: b.IssuerVkey, VrfKey: b.VrfKey,
		VrfProof: b.VrfProof, VrfOutput: b.VrfOutput, KesSignature: sig, HeaderBodyCbor: bodyNode(b, s.mode).Encode(),
		NonceVrfProof: b.NonceVrfProof, NonceVrfOutput: b.NonceVrfOutput,
		OpCertHotVkey: b.OpCertHotVkey, OpCertSequenceNumber: b.OpCertSequenceNumber, OpCertKesPeriod: b.OpCertKesPeriod, OpCertSignature: b.OpCertSignature,
		PrevSlot: s.prevSlot, PrevBlockNumber: b.BlockNumber - 1, PrevHeaderHash: b.PrevHash,
		EpochNonce: s.eta0, PoolStake: s.poolSt, TotalStake: s.totalSt,
	}
	if s.regHash {
		h := blake2b.Sum256(s.pool.vrf.PublicKey())
		in.RegisteredVrfKeyHash = h[:]
	}
	cfg := s.netcfg()
	if o != nil {
		if o.prevSlot != nil {
			in.PrevSlot = *o.prevSlot
		}
		if o.prevBlockNo != nil {
			in.PrevBlockNumber = *o.prevBlockNo
		}
		if o.prevHashCtx != nil {
			in.PrevHeaderHash = o.prevHashCtx
		}
		if o.poolStake != nil {
			in.PoolStake = *o.poolStake
		}
		if o.issuerField != nil {
			in.IssuerVkey = o.issuerField
		}
		if o.bodyCbor != nil {
			in.HeaderBodyCbor = o.bodyCbor
		}
		if o.validatorCfg != nil {
			cfg = *o.validatorCfg
		}
	}
	panicked, pv, _ = core.Safely(func() {
		hv := s.hv
		if hv == nil || (o != nil && o.validatorCfg != nil) {
			hv = consensus.NewHeaderValidatorWithMode(cfg, s.mode)
		}
		res = hv.ValidateHeader(in)
	})
	s.c.Eval()
	return
}

// verifyBlock wraps header and segments into block CBOR and runs the ledger path.
func (s *scenario) verifyBlock(b *consensus.HeaderBody, sig []byte, segs [][]byte) (ok bool, stage string, err error, panicked bool, pv any) {
	return s.verifyBlockCfg(b, sig, segs, false)
}

// verifyBlockCfg: with uncheckedDecode the block is decoded with
// SkipBodyHashValidation (a documented constructor option), so that the
// body-hash check of VerifyBlock itself is the one that has to fire.
func (s *scenario) verifyBlockCfg(b *consensus.HeaderBody, sig []byte, segs [][]byte, uncheckedDecode bool) (ok bool, stage string, err error, panicked bool, pv any) {
	items := []*cborx.Node{cborx.A(bodyNode(b, s.mode), cborx.B(sig))}
	for _, sg := range segs {
		items = append(items, cborx.Raw(sg))
	}
	blockCbor := cborx.A(items...).Encode()
	panicked, pv, _ = core.Safely(func() {
		var blk ledger.Block
		var e error
		if uncheckedDecode {
			blk, e = ledger.NewBlockFromCbor(s.btype, blockCbor, lcommon.VerifyConfig{SkipBodyHashValidation: true})
		} else {
			blk, e = ledger.NewBlockFromCbor(s.btype, blockCbor)
		}
		if e != nil {
			stage, err = "NewBlockFromCbor", e
			return
		}
		valid, vrfHex, bn, sl, e := ledger.VerifyBlock(blk, hex.EncodeToString(s.eta0), s.spkp,
			lcommon.VerifyConfig{SkipTransactionValidation: true, SkipStakePoolValidation: true, SkipBlockLimitsValidation: true})
		if e != nil || !valid {
			stage, err = "VerifyBlock", e
			if e == nil {
				err = errors.New("VerifyBlock returned false")
			}
			return
		}
		if bn != b.BlockNumber || sl != b.Slot || vrfHex != hex.EncodeToString(b.VrfOutput) {
			stage, err = "VerifyBlock-results", fmt.Errorf("returned (vrf=%s, blockNo=%d, slot=%d) for header (vrf=%x, blockNo=%d, slot=%d)", vrfHex, bn, sl, b.VrfOutput, b.BlockNumber, b.Slot)
			return
		}
		ok = true
	})
	s.c.Eval()
	return
}

func cloneBody(b *consensus.HeaderBody) *consensus.HeaderBody {
	n := *b
	n.PrevHash, n.IssuerVkey, n.VrfKey = cp(b.PrevHash), cp(b.IssuerVkey), cp(b.VrfKey)
	n.NonceVrfOutput, n.NonceVrfProof = cp(b.NonceVrfOutput), cp(b.NonceVrfProof)
	n.VrfOutput, n.VrfProof = cp(b.VrfOutput), cp(b.VrfProof)
	n.BlockBodyHash, n.OpCertHotVkey, n.OpCertSignature = cp(b.BlockBodyHash), cp(b.OpCertHotVkey), cp(b.OpCertSignature)
	return &n
}

func (s *scenario) resign(b *consensus.HeaderBody, signer *kesSigner) []byte {
	sig, err := signer.Sign(bodyNode(b, s.mode).Encode())
	if err != nil {
		panic("c40: re-sign failed: " + err.Error())
	}
	return sig
}

// expectations of one tampering
type tamper struct {
	name     string
	body     *consensus.HeaderBody
	sig      []byte
	segs     [][]byte
	over     *ctxOverride
	wantVH   bool // ValidateHeader must reject
	wantVB   bool // block path must reject
	skipVB   bool // block path not meaningful (context-only change)
	skipVH   bool
	either   bool // outcome not prescribed by the statement (only crashes are reported)
	extraWit map[string]any
}

func (s *scenario) judge(t tamper) {
	c := s.c
	vh := "C40:ValidateHeader:"
	if s.hv != nil {
		// same expectations on a validator instance that has already seen other headers
		vh = "C40:ValidateHeader:history:"
		t.skipVB = true
		c.Distinct(s.id, "history", t.name)
		c.Count("history_validations", 1)
	} else {
		c.Distinct(s.id, t.name)
		c.Count("tamper_"+t.name, 1)
	}
	if !t.skipVH {
		res, p, pv := s.validate(t.body, t.sig, t.over)
		switch {
		case p:
			c.Violation(vh+"panic:"+t.name, fmt.Sprintf("ValidateHeader panicked: %v", pv), s.witness(t.name, t.body, t.sig, t.extraWit))
		case res == nil:
			c.Violation("C40:ValidateHeader:nil-result", "nil result", s.witness(t.name, t.body, t.sig, t.extraWit))
		case t.either:
			c.Count(fmt.Sprintf("vh_unprescribed_%s_valid=%v", t.name, res.Valid), 1)
		case res.Valid && t.wantVH:
			c.Count("vh_accepts_tampered", 1)
			c.Violation(vh+"accepts:"+t.name, fmt.Sprintf("ValidateHeader returned Valid for a header with tampering %q (%s)", t.name, s.modeName), s.witness(t.name, t.body, t.sig, t.extraWit))
		case !res.Valid && len(res.Errors) == 0:
			c.Violation("C40:ValidateHeader:invalid-without-error", "Valid=false with an empty error list", s.witness(t.name, t.body, t.sig, t.extraWit))
		case !res.Valid && !t.wantVH:
			c.Violation(vh+"rejects-legitimate:"+t.name, fmt.Sprintf("ValidateHeader rejected a legitimate variant %q: %v", t.name, res.Errors), s.witness(t.name, t.body, t.sig, t.extraWit))
		case res.Valid:
			c.Count("vh_valid", 1)
		default:
			c.Count("vh_rejects", 1)
		}
	}
	if !t.skipVB {
		ok, stage, err, p, pv := s.verifyBlock(t.body, t.sig, t.segs)
		switch {
		case p:
			c.Violation("C40:VerifyBlock:panic:"+t.name, fmt.Sprintf("block verification panicked: %v", pv), s.witness(t.name, t.body, t.sig, t.extraWit))
		case t.either:
			c.Count(fmt.Sprintf("vb_unprescribed_%s_valid=%v", t.name, ok), 1)
		case ok && t.wantVB:
			c.Count("vb_accepts_tampered", 1)
			c.Violation("C40:VerifyBlock:accepts:"+t.name, fmt.Sprintf("NewBlockFromCbor + VerifyBlock accepted a %s block with tampering %q", s.era, t.name), s.witness(t.name, t.body, t.sig, t.extraWit))
		case !ok && !t.wantVB && !t.wantVH:
			c.Violation("C40:VerifyBlock:rejects-legitimate:"+t.name, fmt.Sprintf("%s rejected a legitimate variant %q: %v", stage, t.name, err), s.witness(t.name, t.body, t.sig, t.extraWit))
		case ok:
			c.Count("vb_valid", 1)
			if !t.wantVB && t.wantVH {
				c.Count("vb_accepts_out_of_its_scope_"+t.name, 1)
			}
		default:
			c.Count("vb_rejects", 1)
			c.Count("vb_rejects_at_"+stage, 1)
		}
		// body changes: VerifyBlock's own body-hash check, behind a decode that did not check
		if t.wantVB && !t.either && (strings.HasPrefix(t.name, "body-segment") || t.name == "resigned:body-hash-bit") {
			ok, stage, _, p, pv := s.verifyBlockCfg(t.body, t.sig, t.segs, true)
			switch {
			case p:
				c.Violation("C40:VerifyBlock:panic:"+t.name, fmt.Sprintf("block verification panicked: %v", pv), s.witness(t.name, t.body, t.sig, t.extraWit))
			case ok:
				c.Violation("C40:VerifyBlock:accepts-after-unchecked-decode:"+t.name, fmt.Sprintf("VerifyBlock (body-hash validation on) accepted a %s block with tampering %q that was decoded with SkipBodyHashValidation", s.era, t.name), s.witness(t.name, t.body, t.sig, t.extraWit))
			default:
				c.Count("vb_unchecked_decode_rejects_at_"+stage, 1)
			}
		}
	}
}

var fChoices = [][2]int64{{1, 20}, {1, 10}, {1, 4}, {1, 2}, {3, 4}, {9, 10}, {19, 20}}

func run(c *core.Ctx) {
	blocks := corpus.MustBlocks(c.RepoDir)
	segsByType := map[uint][][]byte{}
	for _, b := range blocks {
		if b.Type < corpus.TypeShelley || b.Type > corpus.TypeConway {
			continue
		}
		if _, dup := segsByType[b.Type]; dup {
			continue
		}
		n, err := cborx.ParseExact(b.Cbor)
		if err != nil || n.Kind != cborx.Array || len(n.Items) < 4 {
			c.Inconclusive("corpus block " + b.Name + " not splittable")
			continue
		}
		var segs [][]byte
		for _, it := range n.Items[1:] {
			segs = append(segs, cp(it.Slice(b.Cbor)))
		}
		segsByType[b.Type] = segs
	}
	n := c.N(60, 4000)
	c.Parallel("header", n, 0, func(i int, r *core.Rand) { oneHeader(c, i, r, segsByType) })
	if c.Counter("genuine_valid") == 0 {
		c.Inconclusive("no genuine header validated: only one outcome observed")
	}
}

func oneHeader(c *core.Ctx, idx int, r *core.Rand, segsByType map[uint][][]byte) {
	s := &scenario{c: c}
	var major uint64
	if idx%2 == 0 {
		s.mode, s.modeName = consensus.ConsensusModeCPraos, "CPraos"
		major = uint64(r.Range(7, 11))
	} else {
		s.mode, s.modeName = consensus.ConsensusModeTPraos, "TPraos"
		major = uint64(r.Range(2, 6))
	}
	s.btype, s.era = blockTypeOf(major)
	p, err := newPool(r)
	if err != nil {
		c.Inconclusive("pool generation failed: " + err.Error())
		return
	}
	s.pool = p
	fc := core.Pick(r, fChoices)
	s.f = big.NewRat(fc[0], fc[1])
	s.spkp = uint64(r.Range(10, 200000))
	switch r.Intn(3) {
	case 0:
		s.maxEvo = 62
	case 1:
		s.maxEvo = 64
	default:
		s.maxEvo = uint64(r.Range(5, 64))
	}
	s.start = uint64(r.Range(0, 5000))
	switch r.Intn(4) {
	case 0:
		s.evo = 0
	case 1:
		s.evo = s.maxEvo - 1
	default:
		s.evo = uint64(r.Intn(int(s.maxEvo)))
	}
	s.seq = uint32(r.Uint64() >> uint(32+r.Intn(32)))
	s.eta0 = r.Bytes(32)
	s.totalSt = r.Uint64()>>uint(r.Intn(20)) | 1<<40
	s.poolSt = s.totalSt/uint64(r.Range(1, 8)) + 1
	if s.poolSt > s.totalSt {
		s.poolSt = s.totalSt
	}
	s.regHash = r.Bool()
	if r.Chance(1, 4) {
		s.segs = [][]byte{{0x80}, {0x80}, {0xa0}}
		if s.btype >= corpus.TypeAlonzo {
			s.segs = append(s.segs, []byte{0x80})
		}
	} else {
		s.segs = segsByType[s.btype]
	}
	if s.segs == nil {
		c.Inconclusive("no body segments for era " + s.era)
		return
	}
	c.Journal("C40 header %d mode=%s era=%s cold=%x", idx, s.modeName, s.era, p.coldSeed)

	s.signer, err = newKES(p.kesSeed, s.evo)
	if err != nil {
		c.Violation("C40:setup:kes", "KES key generation/evolution failed: "+err.Error(), nil)
		return
	}
	hdr, slot, ok := s.build(r, s.signer, s.start+s.evo, major)
	if !ok {
		return
	}
	s.hdr = hdr
	hh := blake2b.Sum256(bodyNode(&hdr.Body, s.mode).Encode())
	s.id = fmt.Sprintf("%x", hh[:8])
	_ = slot

	// ---------------- genuine
	base := &hdr.Body
	res, pn, pv := s.validate(base, hdr.Signature, nil)
	if pn || res == nil || !res.Valid || len(res.Errors) != 0 {
		var errs []string
		if res != nil {
			for _, e := range res.Errors {
				errs = append(errs, e.Error())
			}
		}
		c.Violation("C40:ValidateHeader:rejects-genuine:"+s.modeName, fmt.Sprintf("a header built by BlockBuilder was not valid: panic=%v errors=%v", pv, errs), s.witness("none", base, hdr.Signature, nil))
		return
	}
	if !bytes.Equal(res.VrfOutput, base.VrfOutput) {
		c.Violation("C40:ValidateHeader:vrf-output", "ValidateResult.VrfOutput differs from the header's VRF output", s.witness("none", base, hdr.Signature, nil))
	}
	okB, stage, berr, pn, pv := s.verifyBlock(base, hdr.Signature, s.segs)
	if pn || !okB {
		c.Violation("C40:"+stageOr(stage)+":rejects-genuine:"+s.era, fmt.Sprintf("block verification of a produced header + body failed at %s: %v panic=%v", stage, berr, pv), s.witness("none", base, hdr.Signature, nil))
		return
	}
	c.Count("genuine_valid", 1)
	c.Count("genuine_"+s.modeName+"_"+s.era, 1)
	c.Distinct(s.id, "genuine")
	if c.SampleN() < 6 && idx%7 == 0 {
		c.Sample(map[string]any{"mode": s.modeName, "era": s.era, "slot": base.Slot, "f": s.f.String(), "kes_evolution": s.evo, "max_evolutions": s.maxEvo, "header_body_cbor": core.Hex(bodyNode(base, s.mode).Encode())})
	}

	all := append(s.tamperings(r), s.contexts(r, major)...)
	for i := range all {
		if all[i].segs == nil {
			all[i].segs = s.segs
		}
		// the chain context of the header each tampering was derived from
		if all[i].over == nil {
			all[i].over = prevOf(s.prevSlot)
		} else if all[i].over.prevSlot == nil {
			ps := s.prevSlot
			all[i].over.prevSlot = &ps
		}
	}
	// fresh validator per call
	for _, t := range all {
		s.judge(t)
	}
	// one validator instance for the whole history
	s.history(r, major, all)
}

func stageOr(s string) string {
	if s == "" {
		return "VerifyBlock"
	}
	return s
}

// build searches a slot in KES period `period` that the pool leads and builds the header.
func (s *scenario) build(r *core.Rand, signer *kesSigner, period uint64, major uint64) (*consensus.Header, uint64, bool) {
	c := s.c
	oc, err := ledger.CreateOpCert(signer.PublicKey(), uint64(s.seq), s.start, s.pool.coldSeed)
	if err != nil {
		c.Violation("C40:CreateOpCert:failed", err.Error(), nil)
		return nil, 0, false
	}
	opcert := &consensus.OperationalCert{HotVkey: oc.KesVkey, SequenceNumber: uint32(oc.IssueNumber), KesPeriod: uint32(oc.KesPeriod), Signature: oc.ColdSignature}
	pid := blake2b.Sum256(s.pool.coldPub) // pool id is informational for the builder
	bb := consensus.NewBlockBuilderWithMode(s.pool.vrf, signer, opcert, pid[:28], []byte(s.pool.coldPub), new(big.Rat).Set(s.f), s.mode)
	baseSlot := period * s.spkp
	tries := 0
	for _, off := range slotOffsets(r, s.spkp) {
		slot := baseSlot + off
		if slot == 0 {
			continue
		}
		tries++
		blockNo := uint64(r.Range(1, 1<<30))
		s.prevSlot = slot - 1 - uint64(r.Intn(int(min(slot, 1000))))
		s.prevHash = r.Bytes(32)
		var size uint64
		for _, sg := range s.segs {
			size += uint64(len(sg))
		}
		in := consensus.BuildHeaderInput{Slot: slot, BlockNumber: blockNo, PrevHash: s.prevHash, EpochNonce: s.eta0, PoolStake: s.poolSt, TotalStake: s.totalSt,
			BlockBodyHash: bodyHash(s.segs), BlockBodySize: size, ProtoMajor: major, ProtoMinor: uint64(r.Intn(3))}
		var hdr *consensus.Header
		var lr *consensus.LeaderElectionResult
		var err error
		p, pv, st := core.Safely(func() { hdr, lr, err = bb.BuildHeader(in) })
		c.Eval()
		if p {
			c.Violation("C40:BuildHeader:panic", fmt.Sprintf("BuildHeader panicked: %v", pv), s.witness("none", nil, nil, map[string]any{"slot": slot, "stack": st}))
			return nil, 0, false
		}
		if errors.Is(err, consensus.ErrNotSlotLeader) {
			c.Count("not_leader_slots", 1)
			// complementary outcome: the leader value really is not below the threshold
			if lr != nil && lr.Threshold != nil && len(lr.Output) == 64 {
				if leaderValue(lr.Output, s.mode).Cmp(lr.Threshold) < 0 {
					c.Violation("C40:BuildHeader:refuses-leading-slot", "ErrNotSlotLeader although the leader value is below the reported threshold", s.witness("none", nil, nil, map[string]any{"slot": slot, "vrf_output": core.HexFull(lr.Output), "threshold": lr.Threshold.String()}))
				}
			}
			continue
		}
		if err != nil || hdr == nil {
			c.Violation("C40:BuildHeader:failed", fmt.Sprintf("BuildHeader failed: %v", err), s.witness("none", nil, nil, map[string]any{"slot": slot}))
			return nil, 0, false
		}
		c.Count("leader_slots", 1)
		c.Count("slot_search_tries", tries)
		return hdr, slot, true
	}
	c.Count("no_leading_slot_found", 1)
	return nil, 0, false
}

func slotOffsets(r *core.Rand, spkp uint64) []uint64 {
	out := []uint64{0, spkp - 1}
	for i := 0; i < 600; i++ {
		out = append(out, r.Uint64()%spkp)
	}
	if r.Bool() {
		out[0], out[1] = out[1], out[0]
	}
	if r.Bool() { // do not always start at the period boundary
		out[0], out[2] = out[2], out[0]
	}
	return out
}

func leaderValue(out []byte, mode consensus.ConsensusMode) *big.Int {
	if mode == consensus.ConsensusModeTPraos {
		return new(big.Int).SetBytes(out)
	}
	h := blake2b.Sum256(append([]byte{'L'}, out...))
	return new(big.Int).SetBytes(h[:])
}

// tamperings: single changes of the produced header / body.
func (s *scenario) tamperings(r *core.Rand) []tamper {
	base := &s.hdr.Body
	sig := s.hdr.Signature
	var out []tamper
	type edit struct {
		name string
		f    func(b *consensus.HeaderBody)
		// owner of the field when the header is re-signed: "" = none (legit after re-sign),
		// "vh" = ValidateHeader only, "both" = both validators
		resigned string
	}
	otherPool, _ := newPool(r)
	otherKES, _ := newKES(r.Bytes(32), s.evo)
	var otherProof, otherOut []byte
	{ // a genuine VRF certificate of the same key for another input ("another slot")
		otherProof, otherOut, _ = s.pool.vrf.Prove(r.Bytes(32))
	}
	edits := []edit{
		{"block-number+1", func(b *consensus.HeaderBody) { b.BlockNumber++ }, ""},
		{"slot+1", func(b *consensus.HeaderBody) { b.Slot++ }, "both"},
		{"prev-hash-bit", func(b *consensus.HeaderBody) { b.PrevHash = flipBit(b.PrevHash, r.Intn(256)) }, ""},
		{"issuer-vkey-bit", func(b *consensus.HeaderBody) { b.IssuerVkey = flipBit(b.IssuerVkey, r.Intn(256)) }, "vh"},
		{"issuer-vkey-other-pool", func(b *consensus.HeaderBody) { b.IssuerVkey = cp(otherPool.coldPub) }, "vh"},
		{"vrf-key-bit", func(b *consensus.HeaderBody) { b.VrfKey = flipBit(b.VrfKey, r.Intn(256)) }, "both"},
		{"vrf-key-other-pool", func(b *consensus.HeaderBody) { b.VrfKey = cp(otherPool.vrf.PublicKey()) }, "both"},
		{"vrf-output-bit", func(b *consensus.HeaderBody) { b.VrfOutput = flipBit(b.VrfOutput, r.Intn(512)) }, "both"},
		{"vrf-proof-bit", func(b *consensus.HeaderBody) { b.VrfProof = flipBit(b.VrfProof, r.Intn(640)) }, "both"},
		{"vrf-cert-from-other-input", func(b *consensus.HeaderBody) { b.VrfProof, b.VrfOutput = cp(otherProof), cp(otherOut) }, "both"},
		{"body-size+1", func(b *consensus.HeaderBody) { b.BlockBodySize++ }, "either"},
		{"body-hash-bit", func(b *consensus.HeaderBody) { b.BlockBodyHash = flipBit(b.BlockBodyHash, r.Intn(256)) }, "vb"},
		{"opcert-hot-key-bit", func(b *consensus.HeaderBody) { b.OpCertHotVkey = flipBit(b.OpCertHotVkey, r.Intn(256)) }, "skip"},
		{"opcert-counter+1", func(b *consensus.HeaderBody) { b.OpCertSequenceNumber++ }, "vh"},
		{"opcert-counter-1", func(b *consensus.HeaderBody) { b.OpCertSequenceNumber-- }, "vh"},
		{"opcert-signature-bit", func(b *consensus.HeaderBody) { b.OpCertSignature = flipBit(b.OpCertSignature, r.Intn(512)) }, "vh"},
		{"proto-minor+1", func(b *consensus.HeaderBody) { b.ProtoMinor++ }, ""},
	}
	if s.mode == consensus.ConsensusModeTPraos {
		edits = append(edits,
			edit{"nonce-vrf-output-bit", func(b *consensus.HeaderBody) { b.NonceVrfOutput = flipBit(b.NonceVrfOutput, r.Intn(512)) }, "vh"},
			edit{"nonce-vrf-proof-bit", func(b *consensus.HeaderBody) { b.NonceVrfProof = flipBit(b.NonceVrfProof, r.Intn(640)) }, "vh"},
			edit{"nonce-vrf-swapped-with-leader-vrf", func(b *consensus.HeaderBody) {
				b.NonceVrfOutput, b.VrfOutput = b.VrfOutput, b.NonceVrfOutput
				b.NonceVrfProof, b.VrfProof = b.VrfProof, b.NonceVrfProof
			}, "both"})
	}
	// proto-major inside the era when possible
	switch base.ProtoMajor {
	case 5, 7, 9, 10:
		edits = append(edits, edit{"proto-major+1", func(b *consensus.HeaderBody) { b.ProtoMajor++ }, ""})
	case 6, 8, 11:
		edits = append(edits, edit{"proto-major-1", func(b *consensus.HeaderBody) { b.ProtoMajor-- }, ""})
	}
	for _, e := range edits {
		nb := cloneBody(base)
		e.f(nb)
		if bytes.Equal(bodyNode(nb, s.mode).Encode(), bodyNode(base, s.mode).Encode()) {
			continue
		}
		// raw: nothing re-signed - the KES signature no longer covers the body
		out = append(out, tamper{name: "raw:" + e.name, body: nb, sig: sig, wantVH: true, wantVB: true})
		// re-signed with the hot key
		switch e.resigned {
		case "":
			// a different but legitimate header (context follows the header): must be accepted
			out = append(out, tamper{name: "resigned-legit:" + e.name, body: nb, sig: s.resign(nb, s.signer), wantVH: false, wantVB: false})
		case "vh":
			out = append(out, tamper{name: "resigned:" + e.name, body: nb, sig: s.resign(nb, s.signer), wantVH: true, wantVB: false})
		case "both":
			out = append(out, tamper{name: "resigned:" + e.name, body: nb, sig: s.resign(nb, s.signer), wantVH: true, wantVB: true})
		case "vb":
			out = append(out, tamper{name: "resigned:" + e.name, body: nb, sig: s.resign(nb, s.signer), wantVH: false, wantVB: true})
		case "either":
			out = append(out, tamper{name: "resigned:" + e.name, body: nb, sig: s.resign(nb, s.signer), either: true})
		}
	}
	// hot key replaced by the attacker's own KES key and signed with it: the
	// certificate's cold signature does not cover that key
	if otherKES != nil {
		nb := cloneBody(base)
		nb.OpCertHotVkey = cp(otherKES.pk)
		out = append(out, tamper{name: "resigned:opcert-hot-key-replaced", body: nb, sig: s.resign(nb, otherKES), wantVH: true, wantVB: false})
	}
	// opcert start period changed and re-signed at the matching evolution
	if s.evo+1 < 64 && s.start > 0 {
		if k2, err := newKES(s.pool.kesSeed, s.evo+1); err == nil {
			nb := cloneBody(base)
			nb.OpCertKesPeriod--
			out = append(out, tamper{name: "resigned:opcert-start-period-1", body: nb, sig: s.resign(nb, k2), wantVH: true, wantVB: false})
		}
	}
	if s.evo > 0 {
		if k2, err := newKES(s.pool.kesSeed, s.evo-1); err == nil {
			nb := cloneBody(base)
			nb.OpCertKesPeriod++
			out = append(out, tamper{name: "resigned:opcert-start-period+1", body: nb, sig: s.resign(nb, k2), wantVH: true, wantVB: false})
		}
	}
	{
		nb := cloneBody(base)
		nb.OpCertKesPeriod++
		out = append(out, tamper{name: "raw:opcert-start-period+1", body: nb, sig: sig, wantVH: true, wantVB: true})
		if nb2 := cloneBody(base); nb2.OpCertKesPeriod > 0 {
			nb2.OpCertKesPeriod--
			out = append(out, tamper{name: "raw:opcert-start-period-1", body: nb2, sig: sig, wantVH: true, wantVB: true})
		}
	}
	// KES signature
	for _, bit := range []int{0, 511, 512 + r.Intn(3072), r.Intn(3584)} {
		out = append(out, tamper{name: "kes-signature-bit", body: base, sig: flipBit(sig, bit), wantVH: true, wantVB: true, extraWit: map[string]any{"flipped_bit": bit}})
	}
	out = append(out, tamper{name: "kes-signature-truncated", body: base, sig: sig[:len(sig)-1], wantVH: true, wantVB: true})
	if k2, err := newKES(s.pool.kesSeed, (s.evo+1)%64); err == nil {
		out = append(out, tamper{name: "kes-signature-other-evolution", body: base, sig: s.resign(base, k2), wantVH: true, wantVB: true})
	}
	// body bytes (header untouched): only the block path can see it
	for si := range s.segs {
		segs := make([][]byte, len(s.segs))
		copy(segs, s.segs)
		alt := altSegment(s.segs[si], r)
		if alt == nil || bytes.Equal(alt, s.segs[si]) {
			continue
		}
		segs[si] = alt
		out = append(out, tamper{name: fmt.Sprintf("body-segment-%d-changed", si), body: base, sig: sig, segs: segs, skipVH: true, wantVB: true})
	}
	// only the issuer key handed to the validator differs (header bytes untouched)
	out = append(out, tamper{name: "field-only:issuer-vkey-other-pool", body: base, sig: sig, over: &ctxOverride{issuerField: cp(otherPool.coldPub)}, wantVH: true, skipVB: true})
	out = append(out, tamper{name: "field-only:issuer-vkey-bit", body: base, sig: sig, over: &ctxOverride{issuerField: flipBit(base.IssuerVkey, r.Intn(256))}, wantVH: true, skipVB: true})
	// chain context (header untouched, re-signing not needed)
	{
		ps := base.Slot
		out = append(out, tamper{name: "context:prev-slot-equal", body: base, sig: sig, over: &ctxOverride{prevSlot: &ps}, wantVH: true, skipVB: true})
		ps2 := base.Slot + 1 + uint64(r.Intn(1000))
		out = append(out, tamper{name: "context:prev-slot-later", body: base, sig: sig, over: &ctxOverride{prevSlot: &ps2}, wantVH: true, skipVB: true})
		pb := base.BlockNumber
		out = append(out, tamper{name: "context:prev-block-number-equal", body: base, sig: sig, over: &ctxOverride{prevBlockNo: &pb}, wantVH: true, skipVB: true})
		if base.BlockNumber >= 2 {
			pb2 := base.BlockNumber - 2
			out = append(out, tamper{name: "context:block-number-gap", body: base, sig: sig, over: &ctxOverride{prevBlockNo: &pb2}, wantVH: true, skipVB: true})
		}
		out = append(out, tamper{name: "context:prev-hash-mismatch", body: base, sig: sig, over: &ctxOverride{prevHashCtx: flipBit(base.PrevHash, r.Intn(256))}, wantVH: true, skipVB: true})
	}
	return out
}

// altSegment returns a well-formed replacement of a body segment with a different hash.
func altSegment(seg []byte, r *core.Rand) []byte {
	switch {
	case bytes.Equal(seg, []byte{0x80}):
		return []byte{0x9f, 0xff} // same value, other encoding: the hash is over the bytes
	case bytes.Equal(seg, []byte{0xa0}):
		return []byte{0xbf, 0xff}
	}
	n, err := cborx.ParseExact(seg)
	if err != nil {
		return nil
	}
	m := n.Clone()
	// re-encode the outermost container with another header form (semantically equal bytes)
	for _, f := range []cborx.Form{cborx.FormIndef, cborx.Form2, cborx.Form4, cborx.Form1} {
		if m.SetForm(f) {
			if b := m.Encode(); !bytes.Equal(b, seg) {
				return b
			}
		}
	}
	return nil
}

// contexts: the same pool at KES periods outside the certificate's window, and
// with a stake just below what the VRF output needs.
func (s *scenario) contexts(r *core.Rand, major uint64) []tamper {
	c := s.c
	var out []tamper
	basePrev := s.prevSlot
	defer func() { s.prevSlot = basePrev }()
	base := &s.hdr.Body
	// ---- stake boundary: smallest stake p* with threshold(p*) > leader value
	lv := leaderValue(base.VrfOutput, s.mode)
	thr := func(p uint64) *big.Int {
		t, err := consensus.CertifiedNatThresholdWithMode(p, s.totalSt, s.f, s.mode)
		if err != nil {
			return nil
		}
		return t
	}
	lo, hi := uint64(0), s.poolSt // thr(lo) <= lv < thr(hi)
	if t := thr(hi); t != nil && lv.Cmp(t) < 0 {
		for hi-lo > 1 {
			mid := lo + (hi-lo)/2
			if t := thr(mid); t != nil && lv.Cmp(t) < 0 {
				hi = mid
			} else {
				lo = mid
			}
		}
		c.Count("stake_boundary_found", 1)
		below, at := lo, hi
		out = append(out, tamper{name: "context:stake-just-below-threshold", body: base, sig: s.hdr.Signature, over: &ctxOverride{poolStake: &below}, wantVH: true, skipVB: true, extraWit: map[string]any{"presented_pool_stake": below}})
		out = append(out, tamper{name: "context-legit:stake-exactly-sufficient", body: base, sig: s.hdr.Signature, over: &ctxOverride{poolStake: &at}, wantVH: false, skipVB: true, extraWit: map[string]any{"presented_pool_stake": at}})
	}
	// ---- KES window. The signed slot fixes the period, so the pool produces
	// another header in the period it wants to present.
	saveEvo := s.evo
	defer func() { s.evo = saveEvo }()
	if s.start > 0 {
		// period start-1, signed with the un-evolved key
		if k0, err := newKES(s.pool.kesSeed, 0); err == nil {
			s.evo = 0
			if hdr, _, ok := s.build(r, k0, s.start-1, major); ok {
				out = append(out, tamper{name: "context:kes-period-before-start", body: &hdr.Body, sig: hdr.Signature, segs: s.segs, over: prevOf(s.prevSlot), wantVH: true, wantVB: true})
			}
		}
	}
	// period start+maxEvo: the key evolved maxEvo times signs correctly when
	// maxEvo < 64, so only the expiry rule can reject
	if s.maxEvo < 64 {
		if k, err := newKES(s.pool.kesSeed, s.maxEvo); err == nil {
			s.evo = s.maxEvo
			if hdr, _, ok := s.build(r, k, s.start+s.maxEvo, major); ok {
				out = append(out, tamper{name: "context:kes-period-start+maxEvolutions", body: &hdr.Body, sig: hdr.Signature, segs: s.segs, over: prevOf(s.prevSlot), wantVH: true, wantVB: false})
			}
		}
	} else if k, err := newKES(s.pool.kesSeed, 63); err == nil {
		s.evo = 63
		if hdr, _, ok := s.build(r, k, s.start+64, major); ok {
			out = append(out, tamper{name: "context:kes-period-start+maxEvolutions", body: &hdr.Body, sig: hdr.Signature, segs: s.segs, over: prevOf(s.prevSlot), wantVH: true, wantVB: true})
		}
	}
	// legit boundary: last period of the window
	if s.maxEvo <= 64 && saveEvo != s.maxEvo-1 {
		if k, err := newKES(s.pool.kesSeed, s.maxEvo-1); err == nil {
			s.evo = s.maxEvo - 1
			if hdr, _, ok := s.build(r, k, s.start+s.maxEvo-1, major); ok {
				out = append(out, tamper{name: "context-legit:kes-period-last-of-window", body: &hdr.Body, sig: hdr.Signature, segs: s.segs, over: prevOf(s.prevSlot), wantVH: false, wantVB: false})
			}
		}
	}
	return out
}

func prevOf(ps uint64) *ctxOverride { return &ctxOverride{prevSlot: &ps} }

// history replays the genuine header, genuine headers of other pools and
// every tampering on ONE HeaderValidator instance: what the instance has seen
// before must not change any verdict.
func (s *scenario) history(r *core.Rand, major uint64, all []tamper) {
	c := s.c
	hv := consensus.NewHeaderValidatorWithMode(s.netcfg(), s.mode)
	s.hv = hv
	defer func() { s.hv = nil }()
	genuine := []tamper{{name: "genuine", body: &s.hdr.Body, sig: s.hdr.Signature, over: prevOf(s.prevSlot)}}
	type other struct {
		sc *scenario
		t  tamper
	}
	var others []other
	for j := 0; j < 2; j++ { // other pools, other slots, same network
		p2, err := newPool(r)
		if err != nil {
			continue
		}
		s2 := *s
		s2.pool, s2.hv = p2, hv
		s2.evo = uint64(r.Intn(int(s.maxEvo)))
		k2, err := newKES(p2.kesSeed, s2.evo)
		if err != nil {
			continue
		}
		s2.signer = k2
		if hdr, _, ok := s2.build(r, k2, s2.start+s2.evo, major); ok {
			sc := s2
			sc.hdr = hdr
			others = append(others, other{&sc, tamper{name: "genuine-other-pool", body: &hdr.Body, sig: hdr.Signature, over: prevOf(sc.prevSlot)}})
		}
	}
	revalidate := func() {
		// a genuine header (own or another pool's) is valid whatever came before
		if len(others) > 0 && r.Bool() {
			o := core.Pick(r, others)
			o.sc.judge(o.t)
			return
		}
		s.judge(genuine[0])
	}
	// first the genuine ones (this is what fills any per-instance state) ...
	s.judge(genuine[0])
	for _, o := range others {
		o.sc.judge(o.t)
	}
	// ... then every tampering in PRNG order, genuine headers interleaved
	for n, i := range r.Perm(len(all)) {
		t := all[i]
		if t.skipVH {
			continue
		}
		if t.over != nil && t.over.validatorCfg != nil {
			continue
		}
		s.judge(t)
		if n%3 == 2 {
			revalidate()
		}
	}
	revalidate()
	// in-place discipline: the very slices the genuine call was given (header
	// fields, KES signature, header-body bytes) are mutated, validated on the
	// same instance, restored; HeaderBodyCbor stays the genuine (signed) bytes
	// unless it is the buffer being mutated
	{
		b := &s.hdr.Body
		sig := s.hdr.Signature
		bodyBytes := bodyNode(b, s.mode).Encode()
		ps := s.prevSlot
		gen := tamper{name: "genuine-same-buffers", body: b, sig: sig, over: &ctxOverride{prevSlot: &ps, bodyCbor: bodyBytes}}
		s.judge(gen)
		bufs := []struct {
			name string
			buf  []byte
		}{{"issuer-vkey", b.IssuerVkey}, {"vrf-key", b.VrfKey}, {"vrf-proof", b.VrfProof}, {"vrf-output", b.VrfOutput},
			{"opcert-hot-key", b.OpCertHotVkey}, {"opcert-signature", b.OpCertSignature}, {"kes-signature", sig}, {"header-body-cbor", bodyBytes}}
		if s.mode == consensus.ConsensusModeTPraos {
			bufs = append(bufs, struct {
				name string
				buf  []byte
			}{"nonce-vrf-proof", b.NonceVrfProof}, struct {
				name string
				buf  []byte
			}{"nonce-vrf-output", b.NonceVrfOutput})
		}
		for _, bf := range bufs {
			for j := 0; j < 3; j++ {
				bit := r.Intn(8 * len(bf.buf))
				bf.buf[bit/8] ^= 1 << (bit % 8)
				s.judge(tamper{name: "in-place:" + bf.name, body: b, sig: sig, over: &ctxOverride{prevSlot: &ps, bodyCbor: bodyBytes}, wantVH: true, extraWit: map[string]any{"flipped_bit": bit}})
				bf.buf[bit/8] ^= 1 << (bit % 8)
			}
			s.judge(gen)
		}
	}
	c.Count("histories", 1)
}
