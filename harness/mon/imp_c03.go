//go:build only_c03

package mon

import _ "verifharness/mon/c03"
