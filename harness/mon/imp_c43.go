//go:build only_c43

package mon

import _ "verifharness/mon/c43"
