// Package c46 monitors C46: DMQ messages are accepted only when fully
// authenticated.
//
// Messages are built by the harness: payload CBOR and its bstr wrapping with
// the independent cborx writer, id = blake2b-256(payload CBOR), operational
// certificate signed with a generated cold key, KES signature made with the
// kes package over the wrapped payload. The authenticator gets a KES verifier
// built on kes.VerifySignedKES.
//
// Oracle = a model of the authenticator's state (registered pool ids, running
// maximum of accepted counters per pool, verifier present / insecure mode)
// and conditions evaluated on the message itself, independently of how it was
// made:
//
//	accept  =>  id == blake2b-256(payload)  AND  cold signature verifies (crypto/ed25519,
//	            over the CBOR certificate triple or over the raw OCertSignable bytes)  AND
//	            the KES signature verifies under the certificate's hot key at some
//	            period  AND  pool registered  AND  counter >= running max accepted;
//	            no verifier => rejected unless insecure mode is on;
//	well-formed, registered, counter not below the accepted maximum  =>  accept
//	            (so both outcomes are observed, and a rejected message cannot change
//	            what is accepted later).
//
// A second phase calls one authenticator from 8 goroutines under -race: an
// accepted counter must not be below a counter whose acceptance completed
// before the call started, and an accepted message's pool must possibly have
// been registered during the call.
package c46

import (
	"bytes"
	"crypto/ed25519"
	"encoding/binary"
	"encoding/hex"
	"fmt"
	"io"
	"log/slog"
	"sort"
	"sync"
	"sync/atomic"

	"github.com/blinklabs-io/gouroboros/kes"
	pcommon "github.com/blinklabs-io/gouroboros/protocol/common"
	"golang.org/x/crypto/blake2b"

	"verifharness/cborx"
	"verifharness/core"
)

const spkp = 129600 // the authenticator's fixed slots-per-KES-period

func init() {
	core.Register(&core.Monitor{
		ID:   "C46",
		Race: true,
		Rule: "PRNG histories over one authenticator and 3 pools (2 registered at start): valid messages whose certificate counters follow a random walk with repeats and decreases, ~30 single-field corruptions (id, payload fields with stale / recomputed id, cold key, certificate fields, cold signature, KES signature incl. other evolution / unwrapped payload / foreign hot key re-signed), forged messages carrying a high counter followed by a valid lower one, register / unregister toggles, no-verifier and insecure-mode authenticators, VerifyMessage and VerifyMessageWithSlot (evolutions 0..5); then 8 goroutines on one authenticator; a case is one Verify call; non-trivial = a structurally complete message reached the authenticator; distinct by (message hash, pool state)",
		RaceAnchors: []string{
			"common.(*MessageAuthenticator)",
			"protocol/common/authentication.go",
		},
		MinNontrivial: 1500,
		Assumptions: []string{
			"crypto/ed25519, blake2b and the kes package (C39) are correct",
			"pool id = hex(blake2b-256(cold key)) as the authenticator computes it; a pool registered only under its blake2b-224 id is also counted as registered by the accept-side oracle",
			"the injected KES verifier checks kes.VerifySignedKES at evolution slot/129600 - payload.kesPeriod (the ledger.VerifyKesComponents convention)",
		},
		QuickTimeout: 900,
		Run:          run,
	})
}

func quietLogger() *slog.Logger { return slog.New(slog.NewTextHandler(io.Discard, nil)) }

// ------------------------------------------------------------------ message construction

type dpool struct {
	coldSeed []byte
	coldPriv ed25519.PrivateKey
	coldPub  []byte
	kesSeed  []byte
	kesPk    []byte
	keys     map[uint64]*kes.SecretKey // evolution -> key
	start    uint64                    // certificate start period
}

func newDPool(r *core.Rand, evolutions []uint64) *dpool {
	p := &dpool{coldSeed: r.Bytes(32), kesSeed: r.Bytes(32), keys: map[uint64]*kes.SecretKey{}, start: uint64(r.Range(0, 400))}
	p.coldPriv = ed25519.NewKeyFromSeed(p.coldSeed)
	p.coldPub = []byte(p.coldPriv.Public().(ed25519.PublicKey))
	for _, e := range evolutions {
		sk, pk, err := kes.KeyGen(kes.CardanoKesDepth, p.kesSeed)
		if err != nil {
			panic(err)
		}
		p.kesPk = append([]byte(nil), pk...)
		for i := uint64(0); i < e; i++ {
			if sk, err = kes.Update(sk); err != nil {
				panic(err)
			}
		}
		p.keys[e] = sk
	}
	return p
}

func (p *dpool) id256() string { h := blake2b.Sum256(p.coldPub); return hex.EncodeToString(h[:]) }

func payloadCbor(pl *pcommon.DmqMessagePayload) []byte {
	return cborx.A(cborx.B(pl.MessageBody), cborx.U(pl.KESPeriod), cborx.U(uint64(pl.ExpiresAt))).Encode()
}

func wrapped(pl *pcommon.DmqMessagePayload) []byte { return cborx.B(payloadCbor(pl)).Encode() }

func certArray(oc *pcommon.OperationalCertificate) []byte {
	return cborx.A(cborx.B(oc.KESVerificationKey), cborx.U(oc.IssueNumber), cborx.U(oc.KESPeriod)).Encode()
}

func certRaw(oc *pcommon.OperationalCertificate) []byte {
	out := append([]byte(nil), oc.KESVerificationKey...)
	out = binary.BigEndian.AppendUint64(out, oc.IssueNumber)
	return binary.BigEndian.AppendUint64(out, oc.KESPeriod)
}

func hashID(pl *pcommon.DmqMessagePayload) []byte { h := blake2b.Sum256(payloadCbor(pl)); return h[:] }

// mk builds a fully valid message of pool p signed at evolution evo.
func (p *dpool) mk(body []byte, evo uint64, counter uint64, expires uint32) *pcommon.DmqMessage {
	m := &pcommon.DmqMessage{
		Payload:             pcommon.DmqMessagePayload{MessageBody: body, KESPeriod: p.start + 0, ExpiresAt: expires},
		ColdVerificationKey: append([]byte(nil), p.coldPub...),
	}
	m.OperationalCertificate = pcommon.OperationalCertificate{KESVerificationKey: append([]byte(nil), p.kesPk...), IssueNumber: counter, KESPeriod: p.start}
	m.OperationalCertificate.ColdSignature = ed25519.Sign(p.coldPriv, certArray(&m.OperationalCertificate))
	m.MessageID = hashID(&m.Payload)
	sk := p.keys[evo]
	sig, err := kes.Sign(sk, evo, wrapped(&m.Payload))
	if err != nil {
		panic(err)
	}
	m.KESSignature = sig
	return m
}

func cloneMsg(m *pcommon.DmqMessage) *pcommon.DmqMessage {
	n := *m
	n.MessageID = cp(m.MessageID)
	n.Payload.MessageID = cp(m.Payload.MessageID)
	n.Payload.MessageBody = cp(m.Payload.MessageBody)
	n.KESSignature = cp(m.KESSignature)
	n.OperationalCertificate.KESVerificationKey = cp(m.OperationalCertificate.KESVerificationKey)
	n.OperationalCertificate.ColdSignature = cp(m.OperationalCertificate.ColdSignature)
	n.ColdVerificationKey = cp(m.ColdVerificationKey)
	return &n
}

func cp(b []byte) []byte {
	if b == nil {
		return nil
	}
	return append([]byte{}, b...)
}

func flipBit(b []byte, bit int) []byte {
	o := cp(b)
	o[bit/8] ^= 1 << (bit % 8)
	return o
}

func msgWitness(m *pcommon.DmqMessage, extra map[string]any) map[string]any {
	w := map[string]any{
		"message_id":   core.HexFull(m.MessageID),
		"legacy_id":    core.HexFull(m.Payload.MessageID),
		"body":         core.HexFull(m.Payload.MessageBody),
		"kes_period":   m.Payload.KESPeriod,
		"expires_at":   m.Payload.ExpiresAt,
		"kes_sig":      core.HexFull(m.KESSignature),
		"hot_vkey":     core.HexFull(m.OperationalCertificate.KESVerificationKey),
		"counter":      m.OperationalCertificate.IssueNumber,
		"cert_period":  m.OperationalCertificate.KESPeriod,
		"cold_sig":     core.HexFull(m.OperationalCertificate.ColdSignature),
		"cold_vkey":    core.HexFull(m.ColdVerificationKey),
		"payload_cbor": core.HexFull(payloadCbor(&m.Payload)),
	}
	for k, v := range extra {
		w[k] = v
	}
	return w
}

// ------------------------------------------------------------------ model / oracle

type model struct {
	registered  map[string]bool
	maxAccepted map[string]uint64 // cold key hex -> max accepted counter
	hasVerifier bool
	insecure    bool
	// last rejected counter per pool (to classify "after a rejected higher counter")
	lastRejectedHigher map[string]bool
}

func newModel() *model {
	return &model{registered: map[string]bool{}, maxAccepted: map[string]uint64{}, lastRejectedHigher: map[string]bool{}}
}

type verdict struct {
	may, must bool
	failed    string // first failed accept-side condition
	class     string // class of a must-accept message
}

func presentedID(m *pcommon.DmqMessage) []byte {
	if len(m.MessageID) > 0 {
		return m.MessageID
	}
	return m.Payload.MessageID
}

// evaluate decides from the message bytes and the model what the authenticator may / must do.
func (mo *model) evaluate(m *pcommon.DmqMessage, slot *uint64) verdict {
	oc := &m.OperationalCertificate
	idOK := len(presentedID(m)) == 32 && bytes.Equal(presentedID(m), hashID(&m.Payload))
	sizes := len(m.ColdVerificationKey) == 32 && len(oc.ColdSignature) == 64
	coldArr := sizes && ed25519.Verify(ed25519.PublicKey(m.ColdVerificationKey), certArray(oc), oc.ColdSignature)
	coldRaw := sizes && ed25519.Verify(ed25519.PublicKey(m.ColdVerificationKey), certRaw(oc), oc.ColdSignature)
	kesAny, kesImplied := false, false
	if len(m.KESSignature) == 448 && len(oc.KESVerificationKey) == 32 {
		w := wrapped(&m.Payload)
		for t := uint64(0); t < 64; t++ {
			if kes.VerifySignedKES(oc.KESVerificationKey, t, w, m.KESSignature) {
				kesAny = true
				used := m.Payload.KESPeriod * spkp
				if slot != nil {
					used = *slot
				}
				if cur := used / spkp; cur >= m.Payload.KESPeriod && cur-m.Payload.KESPeriod == t {
					kesImplied = true
				}
			}
		}
	}
	h256 := blake2b.Sum256(m.ColdVerificationKey)
	h224, _ := blake2b.New(28, nil)
	h224.Write(m.ColdVerificationKey)
	reg256 := mo.registered[hex.EncodeToString(h256[:])]
	reg224 := mo.registered[hex.EncodeToString(h224.Sum(nil))]
	ck := hex.EncodeToString(m.ColdVerificationKey)
	mx, seen := mo.maxAccepted[ck]
	ctrOK := !seen || oc.IssueNumber >= mx

	v := verdict{}
	switch {
	case !idOK:
		v.failed = "id-mismatch"
	case !(coldArr || coldRaw):
		v.failed = "cold-signature-invalid"
	case mo.hasVerifier && !kesAny:
		v.failed = "kes-signature-invalid"
	case !mo.hasVerifier && !mo.insecure:
		v.failed = "no-verifier"
	case !(reg256 || reg224):
		v.failed = "pool-unregistered"
	case !ctrOK:
		v.failed = "counter-below-accepted-max"
	}
	v.may = v.failed == ""
	v.must = idOK && coldArr && mo.hasVerifier && kesImplied && reg256 && ctrOK
	if v.must {
		switch {
		case !seen:
			v.class = "first-for-pool"
		case oc.IssueNumber == mx:
			v.class = "counter-equal"
		default:
			v.class = "counter-higher"
		}
		if mo.lastRejectedHigher[ck] {
			v.class += ":after-rejected-higher-counter"
		}
	}
	return v
}

func (mo *model) record(m *pcommon.DmqMessage, accepted bool) {
	ck := hex.EncodeToString(m.ColdVerificationKey)
	c := m.OperationalCertificate.IssueNumber
	if accepted {
		if mx, ok := mo.maxAccepted[ck]; !ok || c > mx {
			mo.maxAccepted[ck] = c
		}
		mo.lastRejectedHigher[ck] = false
		return
	}
	if mx, ok := mo.maxAccepted[ck]; !ok || c > mx {
		mo.lastRejectedHigher[ck] = true
	}
}

// ------------------------------------------------------------------ sequential histories

func kesVerifier(wrappedPayload, sig, vkey []byte, kesPeriod, slot, spk uint64) (bool, error) {
	if spk == 0 {
		return false, fmt.Errorf("slotsPerKesPeriod is 0")
	}
	cur := slot / spk
	if cur < kesPeriod {
		return false, nil
	}
	return kes.VerifySignedKES(vkey, cur-kesPeriod, wrappedPayload, sig), nil
}

type hist struct {
	c     *core.Ctx
	auth  *pcommon.MessageAuthenticator
	mo    *model
	log   []string
	idx   int
	label string
}

func (h *hist) note(s string) {
	if len(h.log) < 400 {
		h.log = append(h.log, s)
	}
}

func (h *hist) register(id string) {
	h.auth.RegisterSPOPool(id)
	h.mo.registered[id] = true
	h.note("register " + id[:12])
	h.c.Count("op_register", 1)
}

func (h *hist) unregister(id string) {
	h.auth.UnregisterSPOPool(id)
	delete(h.mo.registered, id)
	h.note("unregister " + id[:12])
	h.c.Count("op_unregister", 1)
}

// verify sends one message and judges the result.
func (h *hist) verify(m *pcommon.DmqMessage, slot *uint64, kind string) bool {
	return h.verifyObj(m, cloneMsg(m), slot, kind) // the authenticator may normalise the id fields
}

// verifyObj hands `call` itself to the authenticator (m is the pristine description used by the oracle).
func (h *hist) verifyObj(m, call *pcommon.DmqMessage, slot *uint64, kind string) bool {
	c := h.c
	v := h.mo.evaluate(m, slot)
	var err error
	p, pv, st := core.Safely(func() {
		if slot != nil {
			err = h.auth.VerifyMessageWithSlot(call, *slot)
		} else {
			err = h.auth.VerifyMessage(call)
		}
	})
	c.Eval()
	c.Count("kind_"+kind, 1)
	accepted := err == nil && !p
	h.note(fmt.Sprintf("verify %s pool=%x counter=%d slot=%v -> accepted=%v", kind, m.ColdVerificationKey[:min(4, len(m.ColdVerificationKey))], m.OperationalCertificate.IssueNumber, slotStr(slot), accepted))
	mh := blake2b.Sum256(append(payloadCbor(&m.Payload), m.KESSignature...))
	c.Distinct(kind, fmt.Sprintf("%x", mh[:8]), m.OperationalCertificate.IssueNumber, v.may, v.must)
	wit := func() map[string]any {
		return msgWitness(m, map[string]any{"kind": kind, "slot": slotStr(slot), "history": append([]string(nil), h.log...), "scenario": h.label})
	}
	switch {
	case p:
		c.Violation("C46:VerifyMessage:panic:"+kind, fmt.Sprintf("panic: %v", pv), msgWitness(m, map[string]any{"stack": st}))
	case accepted && !v.may:
		c.Count("accepted_unauthenticated", 1)
		c.Violation("C46:VerifyMessage:accepted:"+v.failed, fmt.Sprintf("a message was accepted although: %s (message kind %q)", v.failed, kind), wit())
	case !accepted && v.must:
		c.Count("rejected_valid", 1)
		c.Violation("C46:VerifyMessage:valid-message-rejected:"+v.class, fmt.Sprintf("a fully authenticated message of a registered pool with a counter not below the accepted maximum was rejected (%s): %v", v.class, err), wit())
	}
	if accepted {
		c.Count("accepts", 1)
		if !v.must {
			c.Count("accepts_not_required_"+kind, 1)
		}
	} else {
		c.Count("rejects", 1)
		if v.may {
			c.Count("rejects_allowed_but_not_required_"+kind, 1)
		}
	}
	h.mo.record(m, accepted)
	return accepted
}

func slotStr(s *uint64) string {
	if s == nil {
		return "none"
	}
	return fmt.Sprint(*s)
}

type corruption struct {
	name string
	f    func(m *pcommon.DmqMessage, p, other *dpool, r *core.Rand)
}

func resignKES(m *pcommon.DmqMessage, sk *kes.SecretKey, evo uint64) {
	sig, err := kes.Sign(sk, evo, wrapped(&m.Payload))
	if err != nil {
		panic(err)
	}
	m.KESSignature = sig
}

var corruptions = []corruption{
	{"id-bitflip", func(m *pcommon.DmqMessage, p, o *dpool, r *core.Rand) { m.MessageID = flipBit(m.MessageID, r.Intn(256)) }},
	{"id-truncated", func(m *pcommon.DmqMessage, p, o *dpool, r *core.Rand) { m.MessageID = m.MessageID[:31] }},
	{"id-of-other-payload", func(m *pcommon.DmqMessage, p, o *dpool, r *core.Rand) {
		pl := m.Payload
		pl.MessageBody = r.Bytes(10)
		m.MessageID = hashID(&pl)
	}},
	{"id-empty-legacy-alias-wrong", func(m *pcommon.DmqMessage, p, o *dpool, r *core.Rand) {
		m.Payload.MessageID = flipBit(m.MessageID, r.Intn(256))
		m.MessageID = nil
	}},
	{"id-empty-both", func(m *pcommon.DmqMessage, p, o *dpool, r *core.Rand) { m.MessageID, m.Payload.MessageID = nil, nil }},
	{"body-bitflip-stale-id", func(m *pcommon.DmqMessage, p, o *dpool, r *core.Rand) {
		if len(m.Payload.MessageBody) == 0 {
			m.Payload.MessageBody = []byte{1}
			return
		}
		m.Payload.MessageBody = flipBit(m.Payload.MessageBody, r.Intn(8*len(m.Payload.MessageBody)))
	}},
	{"body-bitflip-id-recomputed", func(m *pcommon.DmqMessage, p, o *dpool, r *core.Rand) {
		m.Payload.MessageBody = append(cp(m.Payload.MessageBody), 0x01)
		m.MessageID = hashID(&m.Payload)
	}},
	{"kes-period+1-id-recomputed", func(m *pcommon.DmqMessage, p, o *dpool, r *core.Rand) {
		m.Payload.KESPeriod++
		m.MessageID = hashID(&m.Payload)
	}},
	{"expires-at+1-stale-id", func(m *pcommon.DmqMessage, p, o *dpool, r *core.Rand) { m.Payload.ExpiresAt++ }},
	{"expires-at+1-id-recomputed", func(m *pcommon.DmqMessage, p, o *dpool, r *core.Rand) {
		m.Payload.ExpiresAt++
		m.MessageID = hashID(&m.Payload)
	}},
	{"cold-key-bitflip", func(m *pcommon.DmqMessage, p, o *dpool, r *core.Rand) {
		m.ColdVerificationKey = flipBit(m.ColdVerificationKey, r.Intn(256))
	}},
	{"cold-key-of-other-registered-pool", func(m *pcommon.DmqMessage, p, o *dpool, r *core.Rand) { m.ColdVerificationKey = cp(o.coldPub) }},
	{"cold-key-truncated", func(m *pcommon.DmqMessage, p, o *dpool, r *core.Rand) { m.ColdVerificationKey = m.ColdVerificationKey[:31] }},
	{"cert-counter+1", func(m *pcommon.DmqMessage, p, o *dpool, r *core.Rand) { m.OperationalCertificate.IssueNumber++ }},
	{"cert-counter+1000", func(m *pcommon.DmqMessage, p, o *dpool, r *core.Rand) { m.OperationalCertificate.IssueNumber += 1000 }},
	{"cert-period+1", func(m *pcommon.DmqMessage, p, o *dpool, r *core.Rand) { m.OperationalCertificate.KESPeriod++ }},
	{"cert-hot-key-bitflip", func(m *pcommon.DmqMessage, p, o *dpool, r *core.Rand) {
		m.OperationalCertificate.KESVerificationKey = flipBit(m.OperationalCertificate.KESVerificationKey, r.Intn(256))
	}},
	{"cert-hot-key-replaced-and-kes-resigned", func(m *pcommon.DmqMessage, p, o *dpool, r *core.Rand) {
		m.OperationalCertificate.KESVerificationKey = cp(o.kesPk)
		resignKES(m, o.keys[0], 0)
	}},
	{"cert-of-other-pool-with-own-cold-key", func(m *pcommon.DmqMessage, p, o *dpool, r *core.Rand) {
		om := o.mk(m.Payload.MessageBody, 0, m.OperationalCertificate.IssueNumber, m.Payload.ExpiresAt)
		m.OperationalCertificate = om.OperationalCertificate
		m.KESSignature = om.KESSignature
		m.Payload = om.Payload
		m.MessageID = om.MessageID
	}},
	{"cold-signature-bitflip", func(m *pcommon.DmqMessage, p, o *dpool, r *core.Rand) {
		m.OperationalCertificate.ColdSignature = flipBit(m.OperationalCertificate.ColdSignature, r.Intn(512))
	}},
	{"cold-signature-truncated", func(m *pcommon.DmqMessage, p, o *dpool, r *core.Rand) {
		m.OperationalCertificate.ColdSignature = m.OperationalCertificate.ColdSignature[:63]
	}},
	{"cold-signature-by-other-pool", func(m *pcommon.DmqMessage, p, o *dpool, r *core.Rand) {
		m.OperationalCertificate.ColdSignature = ed25519.Sign(o.coldPriv, certArray(&m.OperationalCertificate))
	}},
	{"cold-signature-over-raw-signable", func(m *pcommon.DmqMessage, p, o *dpool, r *core.Rand) {
		m.OperationalCertificate.ColdSignature = ed25519.Sign(p.coldPriv, certRaw(&m.OperationalCertificate))
	}},
	{"kes-signature-bitflip", func(m *pcommon.DmqMessage, p, o *dpool, r *core.Rand) { m.KESSignature = flipBit(m.KESSignature, r.Intn(3584)) }},
	{"kes-signature-truncated", func(m *pcommon.DmqMessage, p, o *dpool, r *core.Rand) { m.KESSignature = m.KESSignature[:447] }},
	{"kes-signature-empty", func(m *pcommon.DmqMessage, p, o *dpool, r *core.Rand) { m.KESSignature = nil }},
	{"kes-signature-over-unwrapped-payload", func(m *pcommon.DmqMessage, p, o *dpool, r *core.Rand) {
		m.KESSignature, _ = kes.Sign(p.keys[0], 0, payloadCbor(&m.Payload))
	}},
	{"kes-signature-over-body-only", func(m *pcommon.DmqMessage, p, o *dpool, r *core.Rand) {
		m.KESSignature, _ = kes.Sign(p.keys[0], 0, m.Payload.MessageBody)
	}},
	{"kes-signature-by-other-pool", func(m *pcommon.DmqMessage, p, o *dpool, r *core.Rand) { resignKES(m, o.keys[0], 0) }},
	{"kes-signature-at-other-evolution", func(m *pcommon.DmqMessage, p, o *dpool, r *core.Rand) { resignKES(m, p.keys[1], 1) }},
}

func scenario(c *core.Ctx, idx int, r *core.Rand) {
	evos := []uint64{0, 1, 5}
	pools := []*dpool{newDPool(r, evos), newDPool(r, evos), newDPool(r, evos)}
	c.Journal("C46 scenario %d cold0=%x", idx, pools[0].coldSeed)
	h := &hist{c: c, auth: pcommon.NewMessageAuthenticator(quietLogger()), mo: newModel(), idx: idx, label: fmt.Sprintf("history#%d", idx)}

	// ---- phase 0: no verifier / insecure mode
	h.register(pools[0].id256())
	h.register(pools[1].id256())
	base := pools[0].mk(r.Bytes(r.Range(0, 40)), 0, 5, 1000)
	h.verify(base, nil, "no-verifier:valid")
	if r.Bool() {
		h.auth.SetAllowInsecureKES(true)
		h.mo.insecure = true
		h.note("insecure on")
		h.verify(base, nil, "insecure:valid")
		bad := cloneMsg(base)
		bad.KESSignature = flipBit(bad.KESSignature, r.Intn(3584))
		h.verify(bad, nil, "insecure:kes-signature-bitflip")
		bad2 := cloneMsg(base)
		bad2.OperationalCertificate.ColdSignature = flipBit(bad2.OperationalCertificate.ColdSignature, r.Intn(512))
		h.verify(bad2, nil, "insecure:cold-signature-bitflip")
		bad3 := cloneMsg(base)
		bad3.MessageID = flipBit(bad3.MessageID, r.Intn(256))
		h.verify(bad3, nil, "insecure:id-bitflip")
		low := pools[0].mk(r.Bytes(8), 0, 2, 1000)
		h.verify(low, nil, "insecure:counter-lower")
		h.auth.SetAllowInsecureKES(false)
		h.mo.insecure = false
		h.note("insecure off")
		h.verify(base, nil, "no-verifier:valid-after-insecure-off")
	}
	h.auth.SetKESVerifier(kesVerifier)
	h.mo.hasVerifier = true
	h.note("verifier set")

	// ---- phase 1: histories
	cur := []uint64{uint64(r.Range(3, 20)), uint64(r.Range(0, 5)), uint64(r.Range(100, 1000))}
	steps := c.N(70, 70)
	for s := 0; s < steps; s++ {
		pi := r.Intn(3)
		p := pools[pi]
		o := pools[(pi+1+r.Intn(2))%3]
		// counter random walk with repeats and decreases
		switch r.Intn(6) {
		case 0, 1:
		case 2:
			cur[pi]++
		case 3:
			cur[pi] += uint64(r.Range(1, 5))
		case 4:
			if cur[pi] > 0 {
				cur[pi]--
			}
		case 5:
			if cur[pi] >= 3 {
				cur[pi] -= 3
			}
		}
		evo := core.Pick(r, evos)
		var slot *uint64
		if evo != 0 || r.Bool() {
			s := (p.start+evo)*spkp + uint64(r.Intn(spkp))
			slot = &s
		}
		switch k := r.Intn(20); {
		case k < 9:
			m := p.mk(r.Bytes(r.Range(1, 60)), evo, cur[pi], uint32(r.Uint64()))
			call := cloneMsg(m)
			if h.verifyObj(m, call, slot, "valid") && r.Chance(1, 2) {
				// the very object (and backing arrays) that was just accepted, mutated in place
				type mut struct {
					name string
					buf  []byte
				}
				muts := []mut{{"kes-signature", call.KESSignature}, {"cold-signature", call.OperationalCertificate.ColdSignature},
					{"message-id", call.MessageID}, {"body", call.Payload.MessageBody}, {"cold-key", call.ColdVerificationKey},
					{"hot-key", call.OperationalCertificate.KESVerificationKey}}
				mu := core.Pick(r, muts)
				bit := r.Intn(8 * len(mu.buf))
				mu.buf[bit/8] ^= 1 << (bit % 8)
				h.verifyObj(cloneMsg(call), call, slot, "in-place-after-accept:"+mu.name)
				mu.buf[bit/8] ^= 1 << (bit % 8)
				// and the restored object is still acceptable (same counter)
				h.verifyObj(cloneMsg(call), call, slot, "valid-restored-in-place")
			}
		case k < 15:
			cr := core.Pick(r, corruptions)
			m := p.mk(r.Bytes(r.Range(1, 60)), 0, cur[pi]+uint64(r.Intn(3)), 777)
			cr.f(m, p, o, r)
			h.verify(m, nil, cr.name)
		case k < 17:
			// forged message carrying a high counter, then a valid one below it
			high := cur[pi] + uint64(r.Range(5, 50))
			m := p.mk(r.Bytes(20), 0, high, 777)
			var cr corruption
			switch r.Intn(3) {
			case 0: // genuine certificate with the high counter, KES signature broken
				cr = corruption{"kes-signature-bitflip", func(m *pcommon.DmqMessage, p, o *dpool, r *core.Rand) { m.KESSignature = flipBit(m.KESSignature, r.Intn(3584)) }}
			case 1:
				cr = corruption{"cold-signature-bitflip", func(m *pcommon.DmqMessage, p, o *dpool, r *core.Rand) {
					m.OperationalCertificate.ColdSignature = flipBit(m.OperationalCertificate.ColdSignature, r.Intn(512))
				}}
			default:
				cr = corruption{"id-bitflip", func(m *pcommon.DmqMessage, p, o *dpool, r *core.Rand) { m.MessageID = flipBit(m.MessageID, r.Intn(256)) }}
			}
			cr.f(m, p, o, r)
			h.verify(m, nil, "high-counter:"+cr.name)
			h.verify(p.mk(r.Bytes(20), 0, cur[pi], 777), nil, "valid-after-forged-high-counter")
		case k < 18:
			// wrong evolution presented through the slot
			s := (p.start+evo+1)*spkp + uint64(r.Intn(spkp))
			h.verify(p.mk(r.Bytes(10), evo, cur[pi], 5), &s, "valid-but-slot-of-next-period")
		case k < 19:
			id := pools[2].id256()
			if h.mo.registered[id] {
				h.unregister(id)
			} else {
				h.register(id)
			}
		default:
			// pool known only under its blake2b-224 id (the ledger's pool id)
			h224, _ := blake2b.New(28, nil)
			h224.Write(p.coldPub)
			id224 := hex.EncodeToString(h224.Sum(nil))
			id := p.id256()
			if h.mo.registered[id] && pi == 1 {
				h.unregister(id)
				h.register(id224)
				h.verify(p.mk(r.Bytes(10), 0, cur[pi], 5), nil, "valid-pool-registered-by-blake2b224-id")
				h.unregister(id224)
				h.register(id)
			}
		}
	}
	if idx%11 == 0 && len(h.log) > 12 {
		c.Sample(map[string]any{"scenario": h.label, "first_ops": h.log[:12]})
	}
}

// ------------------------------------------------------------------ concurrency

type callRec struct {
	start, end uint64
	pool       int
	counter    uint64
	accepted   bool
}

type togRec struct {
	start, end uint64
	register   bool
}

func concurrent(c *core.Ctx, round int, r *core.Rand) {
	evos := []uint64{0}
	// pools 0,1 always registered (few pools => many same-pool overlaps), pool 3 toggled
	pools := []*dpool{newDPool(r, evos), newDPool(r, evos), nil, newDPool(r, evos)}
	pools[2] = pools[1]
	auth := pcommon.NewMessageAuthenticator(quietLogger())
	auth.SetKESVerifier(kesVerifier)
	for _, p := range pools[:2] {
		auth.RegisterSPOPool(p.id256())
	}
	const workers = 8
	perWorker := c.N(120, 400)
	// pre-built messages: one signed payload per pool, certificates per counter
	type pm struct {
		m    *pcommon.DmqMessage
		pool int
	}
	plans := make([][]pm, workers)
	for w := 0; w < workers; w++ {
		wr := r.Fork(uint64(w))
		cur := []uint64{10, 10, 10, 10}
		for i := 0; i < perWorker; i++ {
			pi := wr.Intn(4)
			if pi == 2 {
				pi = 1
			}
			switch wr.Intn(5) {
			case 0:
				cur[pi]++
			case 1:
				cur[pi] += uint64(wr.Range(1, 4))
			case 2:
				if cur[pi] > 0 {
					cur[pi]--
				}
			}
			plans[w] = append(plans[w], pm{pools[pi].mk([]byte{byte(w), byte(i)}, 0, cur[pi], 9), pi})
		}
	}
	var seq atomic.Uint64
	recs := make([][]callRec, workers)
	var togs []togRec
	var wg sync.WaitGroup
	stop := make(chan struct{})
	wg.Add(1)
	go func() { // toggles the 4th pool
		defer wg.Done()
		id := pools[3].id256()
		reg := false
		for {
			select {
			case <-stop:
				return
			default:
			}
			t := togRec{start: seq.Add(1), register: !reg}
			if reg {
				auth.UnregisterSPOPool(id)
			} else {
				auth.RegisterSPOPool(id)
			}
			reg = !reg
			t.end = seq.Add(1)
			togs = append(togs, t)
			for i := 0; i < 50; i++ {
				_ = auth.IsSPOPoolRegistered(id)
			}
		}
	}()
	var wg2 sync.WaitGroup
	for w := 0; w < workers; w++ {
		wg2.Add(1)
		go func(w int) {
			defer wg2.Done()
			for _, p := range plans[w] {
				rec := callRec{pool: p.pool, counter: p.m.OperationalCertificate.IssueNumber}
				rec.start = seq.Add(1)
				err := auth.VerifyMessage(p.m)
				rec.end = seq.Add(1)
				rec.accepted = err == nil
				recs[w] = append(recs[w], rec)
			}
		}(w)
	}
	wg2.Wait()
	close(stop)
	wg.Wait()

	var all []callRec
	for _, rs := range recs {
		all = append(all, rs...)
	}
	sort.Slice(all, func(i, j int) bool { return all[i].end < all[j].end })
	c.EvalN(len(all))
	c.Count("concurrent_calls", len(all))
	c.Count("concurrent_toggles", len(togs))
	// (a) an accepted counter is never below one whose acceptance completed before the call began
	maxDoneBefore := func(x callRec) (uint64, bool) {
		var mx uint64
		found := false
		for _, y := range all {
			if y.end >= x.start {
				break
			}
			if y.accepted && y.pool == x.pool && (!found || y.counter > mx) {
				mx, found = y.counter, true
			}
		}
		return mx, found
	}
	for _, x := range all {
		if !x.accepted {
			c.Count("concurrent_rejects", 1)
			continue
		}
		c.Count("concurrent_accepts", 1)
		c.Distinct("concurrent", round, x.pool, x.counter, x.start)
		if mx, ok := maxDoneBefore(x); ok && x.counter < mx {
			c.Violation("C46:VerifyMessage:concurrent:accepted:counter-below-accepted-max",
				fmt.Sprintf("pool %d: counter %d accepted although counter %d had been accepted before the call started", x.pool, x.counter, mx),
				map[string]any{"pool": x.pool, "counter": x.counter, "earlier_accepted_counter": mx, "call_start_seq": x.start, "call_end_seq": x.end})
		}
		if x.pool == 3 {
			// state after the toggles that completed before the call, and toggles overlapping it
			state := false
			possible := false
			for _, t := range togs {
				if t.end < x.start {
					state = t.register
				} else if t.start <= x.end && t.register {
					possible = true
				}
			}
			if !(state || possible) {
				c.Violation("C46:VerifyMessage:concurrent:accepted:pool-unregistered",
					"a message of the toggled pool was accepted although the pool was unregistered during the whole call",
					map[string]any{"call_start_seq": x.start, "call_end_seq": x.end})
			}
		}
	}
	// (b) a valid message of an always-registered pool whose counter is >= every counter
	// accepted before or during the call must be accepted
	for _, x := range all {
		if x.accepted || x.pool == 3 {
			continue
		}
		blocked := false
		for _, y := range all {
			if y.pool == x.pool && y.accepted && y.counter > x.counter && y.start < x.end {
				blocked = true
				break
			}
		}
		if !blocked {
			c.Violation("C46:VerifyMessage:concurrent:valid-message-rejected",
				fmt.Sprintf("pool %d: valid message with counter %d rejected although no higher counter was accepted before the call ended", x.pool, x.counter),
				map[string]any{"pool": x.pool, "counter": x.counter, "call_start_seq": x.start, "call_end_seq": x.end})
		}
	}
}

func run(c *core.Ctx) {
	n := c.N(40, 2500)
	c.Parallel("scenario", n, 0, func(i int, r *core.Rand) { scenario(c, i, r) })
	rounds := c.N(4, 60)
	for i := 0; i < rounds; i++ {
		concurrent(c, i, c.Rand("concurrent", i))
	}
	if c.Counter("accepts") == 0 || c.Counter("concurrent_accepts") == 0 {
		c.Inconclusive("no message was accepted: only one outcome observed")
	}
	if c.Counter("rejects") == 0 {
		c.Inconclusive("no message was rejected: only one outcome observed")
	}
}
