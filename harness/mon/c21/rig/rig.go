// Package rig is the connection rig shared by the monitors C21, C22 and C23:
// a real ouroboros.Connection (initiator) on one end of an in-memory pipe and
// the raw peer of package rawpeer on the other, with the handshake completed
// by hand; hand-built (cborx) chain-sync and block-fetch messages; corpus block
// facts computed without the library (header bytes, header hash, era); a
// registry that routes the process-global verif trace sink / perturbation
// callback to per-connection handlers; goroutine-dump helpers for the
// bounded-progress rule. Nothing in here decides a verdict.
package rig

import (
	"bytes"
	"errors"
	"fmt"
	"regexp"
	"runtime"
	"strconv"
	"strings"
	"sync"
	"sync/atomic"
	"time"

	ouroboros "github.com/blinklabs-io/gouroboros"
	"github.com/blinklabs-io/gouroboros/protocol"
	"golang.org/x/crypto/blake2b"

	"verifharness/cborx"
	"verifharness/corpus"
	"verifharness/rawpeer"
)

const (
	Magic = uint32(764824073)

	ProtoChainSyncNtN uint16 = 2
	ProtoBlockFetch   uint16 = 3
	ProtoChainSyncNtC uint16 = 5
)

// ------------------------------------------------------------------ corpus

// Block is a corpus block with the facts the oracles need, all derived with
// cborx / blake2b only.
type Block struct {
	Name     string
	Type     uint   // block type as served over node-to-client (0 EBB, 1 Byron main, 2 Shelley ...)
	Cbor     []byte // the block as served
	Header   []byte // bytes of element 0 of the block array
	Hash     [32]byte
	Byron    bool
	ByronSub uint // 0 = EBB, 1 = main (Byron only)
	Era      uint // node-to-node header era (Type-1 for Shelley and later, 0 for Byron)
}

// HeaderHash is the block hash by the ledger's definition: Blake2b-256 of the
// header bytes for Shelley and later, of [subtype, header] for Byron.
func HeaderHash(typ uint, header []byte) [32]byte {
	if typ <= 1 {
		buf := make([]byte, 0, len(header)+2)
		buf = append(buf, 0x82, byte(typ))
		buf = append(buf, header...)
		return blake2b.Sum256(buf)
	}
	return blake2b.Sum256(header)
}

// Describe derives the facts of a block from its bytes. It fails when the
// bytes are not a CBOR array with at least one element.
func Describe(name string, typ uint, data []byte) (*Block, error) {
	n, err := cborx.ParseExact(data)
	if err != nil {
		return nil, err
	}
	if n.Kind != cborx.Array || len(n.Items) == 0 {
		return nil, errors.New("block is not a non-empty array")
	}
	b := &Block{Name: name, Type: typ, Cbor: data, Header: append([]byte(nil), n.Items[0].Slice(data)...)}
	b.Hash = HeaderHash(typ, b.Header)
	if typ <= 1 {
		b.Byron, b.ByronSub = true, typ
	} else {
		b.Era = typ - 1
	}
	return b, nil
}

// Corpus loads and describes the corpus blocks of the checkout.
func Corpus(repo string) ([]*Block, error) {
	raw, err := corpus.Blocks(repo)
	if err != nil {
		return nil, err
	}
	var out []*Block
	for _, r := range raw {
		b, err := Describe(r.Name, r.Type, r.Cbor)
		if err != nil {
			return nil, fmt.Errorf("corpus block %s: %w", r.Name, err)
		}
		out = append(out, b)
	}
	return out, nil
}

// ------------------------------------------------------------------ messages

// Point is a chain point; Hash == nil is the origin.
type Point struct {
	Slot uint64
	Hash []byte
}

func (p Point) String() string {
	if p.Hash == nil {
		return "origin"
	}
	return fmt.Sprintf("%d.%x", p.Slot, p.Hash)
}

func (p Point) Equal(q Point) bool {
	return p.Slot == q.Slot && bytes.Equal(p.Hash, q.Hash) && (p.Hash == nil) == (q.Hash == nil)
}

type Tip struct {
	Point   Point
	BlockNo uint64
}

func (t Tip) String() string { return fmt.Sprintf("%s#%d", t.Point, t.BlockNo) }

func (t Tip) Equal(u Tip) bool { return t.BlockNo == u.BlockNo && t.Point.Equal(u.Point) }

func PointNode(p Point) *cborx.Node {
	if p.Hash == nil {
		return cborx.A()
	}
	return cborx.A(cborx.U(p.Slot), cborx.B(p.Hash))
}

func TipNode(t Tip) *cborx.Node { return cborx.A(PointNode(t.Point), cborx.U(t.BlockNo)) }

// ParsePoint reads [] or [slot, hash].
func ParsePoint(n *cborx.Node) (Point, bool) {
	if n == nil || n.Kind != cborx.Array {
		return Point{}, false
	}
	if len(n.Items) == 0 {
		return Point{}, true
	}
	if len(n.Items) != 2 || n.Items[0].Kind != cborx.Uint || n.Items[1].Kind != cborx.Bytes {
		return Point{}, false
	}
	h := append([]byte{}, n.Items[1].StringData()...)
	return Point{Slot: n.Items[0].Arg, Hash: h}, true
}

// WrapNtC is the node-to-client wrapping of a block: 24(h'[type, block]').
func WrapNtC(typ uint, block []byte) []byte {
	inner := append(cborx.U(uint64(typ)).Encode(), block...)
	inner = append([]byte{0x82}, inner...)
	return cborx.T(24, cborx.B(inner)).Encode()
}

// WrapNtN is the node-to-node wrapping of a header: [era, 24(h'header')] for
// Shelley and later, [0, [[subtype, size], 24(h'header')]] for Byron.
func WrapNtN(b *Block) []byte {
	hdr := cborx.T(24, cborx.B(b.Header))
	if b.Byron {
		return cborx.A(cborx.U(0), cborx.A(cborx.A(cborx.U(uint64(b.ByronSub)), cborx.U(uint64(len(b.Cbor)+2))), hdr)).Encode()
	}
	return cborx.A(cborx.U(uint64(b.Era)), hdr).Encode()
}

func cat(parts ...[]byte) []byte {
	var out []byte
	for _, p := range parts {
		out = append(out, p...)
	}
	return out
}

// Chain-sync messages (server side).
func MsgRollForward(wrapped []byte, t Tip) []byte {
	return cat([]byte{0x83, 0x02}, wrapped, TipNode(t).Encode())
}
func MsgRollBackward(p Point, t Tip) []byte {
	return cborx.A(cborx.U(3), PointNode(p), TipNode(t)).Encode()
}
func MsgAwaitReply() []byte { return []byte{0x81, 0x01} }
func MsgIntersectFound(p Point, t Tip) []byte {
	return cborx.A(cborx.U(5), PointNode(p), TipNode(t)).Encode()
}

// Block-fetch messages (server side).
func MsgStartBatch() []byte { return []byte{0x81, 0x02} }
func MsgNoBlocks() []byte   { return []byte{0x81, 0x03} }
func MsgBatchDone() []byte  { return []byte{0x81, 0x05} }
func MsgBlock(typ uint, block []byte) []byte {
	return cat([]byte{0x82, 0x04}, WrapNtC(typ, block))
}

// MsgTag returns the leading uint of a message array, -1 when malformed.
func MsgTag(n *cborx.Node) int {
	if n == nil || n.Kind != cborx.Array || len(n.Items) == 0 || n.Items[0].Kind != cborx.Uint || n.Items[0].Arg > 1000 {
		return -1
	}
	return int(n.Items[0].Arg)
}

// ------------------------------------------------------------------ link

// Link is one initiator connection under test and its raw remote end.
type Link struct {
	A, B *rawpeer.Conn // A: library side, B: raw side
	Peer *rawpeer.Peer
	Conn *ouroboros.Connection
	// Version accepted in the handshake.
	Version uint64
	// CtorGo is the id of the goroutine that ran ouroboros.NewConnection: the
	// connection's muxer and protocol goroutines are "created by ... in
	// goroutine CtorGo" in a dump.
	CtorGo int64

	errMu   sync.Mutex
	errs    []error
	errDone chan struct{}
}

// acceptBest answers the initiator's proposal with its highest version,
// echoing the version data it offered for that version.
func acceptBest(p *rawpeer.Peer) (uint64, error) {
	prop, _, err := p.RecvMsg(rawpeer.ProtoHandshake)
	if err != nil {
		return 0, err
	}
	offered, err := rawpeer.ParseProposeVersions(prop)
	if err != nil {
		return 0, err
	}
	if len(offered) == 0 {
		return 0, errors.New("empty proposal")
	}
	best := offered[0]
	for _, e := range offered {
		if e.Version > best.Version {
			best = e
		}
	}
	return best.Version, p.SendMsg(rawpeer.ProtoHandshake, rawpeer.AcceptVersion(best.Version, best.Data))
}

// Dial creates the pipe, runs ouroboros.NewConnection (initiator) against the
// raw peer and completes the handshake. ok=false with a nil error means the
// watchdog fired (inconclusive).
func Dial(ntn bool, watchdog time.Duration, opts ...ouroboros.ConnectionOptionFunc) (*Link, error, bool) {
	a, b := rawpeer.Pipe()
	l := &Link{A: a, B: b, Peer: rawpeer.NewPeer(b, true), errDone: make(chan struct{})}
	type hsRes struct {
		v   uint64
		err error
	}
	hch := make(chan hsRes, 1)
	go func() {
		v, err := acceptBest(l.Peer)
		hch <- hsRes{v, err}
	}()
	type cRes struct {
		c   *ouroboros.Connection
		err error
	}
	cch := make(chan cRes, 1)
	var ctorGo atomic.Int64
	go func() {
		ctorGo.Store(GoID())
		all := append([]ouroboros.ConnectionOptionFunc{
			ouroboros.WithConnection(a),
			ouroboros.WithNetworkMagic(Magic),
			ouroboros.WithNodeToNode(ntn),
			ouroboros.WithKeepAlive(false),
		}, opts...)
		oc, err := ouroboros.NewConnection(all...)
		cch <- cRes{oc, err}
	}()
	wd := time.NewTimer(watchdog)
	defer wd.Stop()
	select {
	case cr := <-cch:
		hr := <-hch // the constructor returned, so the raw side has answered (or failed)
		if cr.err != nil || hr.err != nil {
			if cr.c != nil {
				cr.c.Close()
			}
			a.Close()
			b.Close()
			if cr.err == nil {
				cr.err = hr.err
			}
			return nil, cr.err, true
		}
		l.Conn, l.Version, l.CtorGo = cr.c, hr.v, ctorGo.Load()
	case <-wd.C:
		a.Close()
		b.Close()
		go func() {
			if cr := <-cch; cr.c != nil {
				cr.c.Close()
			}
		}()
		return nil, nil, false
	}
	go func() {
		for err := range l.Conn.ErrorChan() {
			l.errMu.Lock()
			l.errs = append(l.errs, err)
			l.errMu.Unlock()
		}
		close(l.errDone)
	}()
	return l, nil, true
}

// Errors returns what the connection's ErrorChan has delivered so far.
func (l *Link) Errors() []error {
	l.errMu.Lock()
	defer l.errMu.Unlock()
	return append([]error(nil), l.errs...)
}

// Close closes the library connection, waits for its ErrorChan to be closed
// (false when the watchdog fired) and closes the library's pipe end, so that
// the raw side reads what is still buffered and then EOF. Call CloseRaw when
// the raw side is done.
func (l *Link) Close(watchdog time.Duration) bool {
	l.Conn.Close()
	ok := true
	t := time.NewTimer(watchdog)
	select {
	case <-l.errDone:
	case <-t.C:
		ok = false
	}
	t.Stop()
	l.A.Close()
	return ok
}

// CloseRaw closes the raw end of the pipe.
func (l *Link) CloseRaw() { l.B.Close() }

// ------------------------------------------------------------------ hooks

// Hook receives the trace events and perturbation points of one Protocol.
type Hook struct {
	OnEvent func(ev protocol.VerifEvent)
	OnPoint func(name string)
}

var hooks sync.Map // *protocol.Protocol -> *Hook

// InstallHooks installs the process-global sink and perturbation callback.
func InstallHooks() {
	protocol.VerifSetSink(func(ev protocol.VerifEvent) {
		if ev.Proto == nil {
			return
		}
		if h, ok := hooks.Load(ev.Proto); ok {
			if f := h.(*Hook).OnEvent; f != nil {
				f(ev)
			}
		}
	})
	protocol.VerifSetPoint(func(name string, p *protocol.Protocol) {
		if h, ok := hooks.Load(p); ok {
			if f := h.(*Hook).OnPoint; f != nil {
				f(name)
			}
		}
	})
}

func RemoveHooks() {
	protocol.VerifSetSink(nil)
	protocol.VerifSetPoint(nil)
}

func Register(p *protocol.Protocol, h *Hook) { hooks.Store(p, h) }
func Unregister(p *protocol.Protocol)        { hooks.Delete(p) }

// Perturber yields / sleeps at perturbation points. Level 0 = never,
// 1 = yield at 1/8 of the points, 2 = yield at 1/2 and sleep 20..200 us at 1/16.
type Perturber struct {
	Seed  uint64
	Level int
	ctr   atomic.Uint64
	Hits  atomic.Int64
}

func mix(z uint64) uint64 {
	z += 0x9e3779b97f4a7c15
	z = (z ^ (z >> 30)) * 0xbf58476d1ce4e5b9
	z = (z ^ (z >> 27)) * 0x94d049bb133111eb
	return z ^ (z >> 31)
}

func (p *Perturber) Point(string) {
	if p.Level == 0 {
		return
	}
	h := mix(p.Seed ^ mix(p.ctr.Add(1)))
	switch p.Level {
	case 1:
		if h%8 == 0 {
			p.Hits.Add(1)
			runtime.Gosched()
		}
	default:
		switch {
		case h%16 == 0:
			p.Hits.Add(1)
			time.Sleep(time.Duration(20+(h>>8)%180) * time.Microsecond)
		case h%2 == 0:
			p.Hits.Add(1)
			runtime.Gosched()
		}
	}
}

// ------------------------------------------------------------------ goroutines

var goidRe = regexp.MustCompile(`^goroutine (\d+) \[`)

// GoID is the id of the calling goroutine.
func GoID() int64 {
	var buf [64]byte
	n := runtime.Stack(buf[:], false)
	m := goidRe.FindSubmatch(buf[:n])
	if m == nil {
		return -1
	}
	id, _ := strconv.ParseInt(string(m[1]), 10, 64)
	return id
}

// Dump returns the stacks of all goroutines.
func Dump() string {
	buf := make([]byte, 1<<20)
	for {
		n := runtime.Stack(buf, true)
		if n < len(buf) {
			return string(buf[:n])
		}
		buf = make([]byte, 2*len(buf))
	}
}

// StackOf returns the block of goroutine id in a dump ("" when absent).
func StackOf(dump string, id int64) string {
	marker := fmt.Sprintf("goroutine %d [", id)
	for _, blk := range strings.Split(dump, "\n\n") {
		if strings.HasPrefix(blk, marker) {
			return blk
		}
	}
	return ""
}

var createdRe = regexp.MustCompile(`created by \S+ in goroutine (\d+)`)

// Goroutine is one parsed block of a dump.
type Goroutine struct {
	ID, Parent int64
	Parked     bool
	Block      string
}

// ParsedDump is a goroutine dump split into its goroutines.
type ParsedDump struct {
	Text string
	Time time.Time
	Gs   []Goroutine
	kids map[int64][]int // parent id -> indexes into Gs
}

func parseDump(text string, at time.Time) *ParsedDump {
	pd := &ParsedDump{Text: text, Time: at, kids: map[int64][]int{}}
	for _, blk := range strings.Split(text, "\n\n") {
		m := goidRe.FindStringSubmatch(blk)
		if m == nil {
			continue
		}
		g := Goroutine{Block: blk, Parent: -1, Parked: Parked(blk)}
		g.ID, _ = strconv.ParseInt(m[1], 10, 64)
		if i := strings.LastIndex(blk, "created by "); i >= 0 {
			if c := createdRe.FindStringSubmatch(blk[i:]); c != nil {
				g.Parent, _ = strconv.ParseInt(c[1], 10, 64)
			}
		}
		pd.kids[g.Parent] = append(pd.kids[g.Parent], len(pd.Gs))
		pd.Gs = append(pd.Gs, g)
	}
	return pd
}

// Descendants returns the goroutines that descend from goroutine id: created
// in it, or in a goroutine created in it, and so on (as far as the
// intermediate goroutines are still alive in the dump).
func (pd *ParsedDump) Descendants(id int64) []Goroutine {
	var out []Goroutine
	queue := []int64{id}
	for len(queue) > 0 {
		p := queue[0]
		queue = queue[1:]
		for _, i := range pd.kids[p] {
			out = append(out, pd.Gs[i])
			queue = append(queue, pd.Gs[i].ID)
		}
	}
	return out
}

// Find returns the goroutine with the given id.
func (pd *ParsedDump) Find(id int64) (Goroutine, bool) {
	for _, g := range pd.Gs {
		if g.ID == id {
			return g, true
		}
	}
	return Goroutine{}, false
}

// CreatedIn returns the blocks of the descendants of goroutine id in a dump text.
func CreatedIn(dump string, id int64) []string {
	var out []string
	for _, g := range parseDump(dump, time.Time{}).Descendants(id) {
		out = append(out, g.Block)
	}
	return out
}

// DumpCount / DumpMs / DumpBytes: how many shared dumps were taken and what they cost.
var DumpCount, DumpMs, DumpBytes atomic.Int64

var (
	dumpMu sync.Mutex
	dumpPD *ParsedDump
)

// SharedDump returns a parsed dump of all goroutines taken at or after
// notBefore. Dumps stop the world and are slow with a few thousand goroutines
// under the race detector, so concurrent callers share one.
func SharedDump(notBefore time.Time) *ParsedDump {
	dumpMu.Lock()
	defer dumpMu.Unlock()
	if dumpPD == nil || dumpPD.Time.Before(notBefore) {
		t := time.Now()
		dumpPD = parseDump(Dump(), t)
		DumpCount.Add(1)
		DumpMs.Add(time.Since(t).Milliseconds())
		DumpBytes.Add(int64(len(dumpPD.Text)))
	}
	return dumpPD
}

func allParked(gs []Goroutine) (bool, string) {
	for _, g := range gs {
		if !g.Parked {
			return false, g.Block
		}
	}
	return true, ""
}

// Quiet reports whether every descendant of goroutine id was parked in two
// dumps taken at least 300 ms apart, both later than frozenSince + 1 s (the
// caller's counters have not moved since frozenSince). It returns the second
// dump and, when not quiet, one goroutine that was not parked.
func Quiet(id int64, frozenSince time.Time) (bool, *ParsedDump, string) {
	d1 := SharedDump(frozenSince.Add(time.Second))
	if ok, busy := allParked(d1.Descendants(id)); !ok {
		return false, d1, busy
	}
	if w := time.Until(d1.Time.Add(300 * time.Millisecond)); w > 0 {
		time.Sleep(w)
	}
	d2 := SharedDump(d1.Time.Add(300 * time.Millisecond))
	own := d2.Descendants(id)
	if len(own) == 0 {
		return false, d2, "no goroutine of the connection found"
	}
	ok, busy := allParked(own)
	return ok, d2, busy
}

// AllParked reports whether every block is in a blocking wait state; the
// second result is the first block that is not.
func AllParked(blocks []string) (bool, string) {
	for _, b := range blocks {
		if !Parked(b) {
			return false, b
		}
	}
	return true, ""
}

// Parked reports whether the goroutine block is blocked on a channel or a
// sync primitive of the program. A goroutine that the dump shows in
// "semacquire" below an ordinary function (waiting for the garbage collector or
// another runtime-internal semaphore in the middle of its work) is not parked.
func Parked(block string) bool {
	i := strings.IndexByte(block, '[')
	j := strings.IndexByte(block, ']')
	if i < 0 || j < i {
		return false
	}
	st := block[i+1 : j]
	for _, s := range []string{"select", "chan receive", "chan send", "sync.Cond.Wait"} {
		if strings.HasPrefix(st, s) {
			return true
		}
	}
	for _, s := range []string{"sync.Mutex.Lock", "sync.RWMutex", "semacquire", "sync.WaitGroup.Wait"} {
		if strings.HasPrefix(st, s) {
			lines := strings.SplitN(block, "\n", 3)
			return len(lines) > 1 && (strings.HasPrefix(lines[1], "sync.") || strings.HasPrefix(lines[1], "internal/sync."))
		}
	}
	return false
}

// Trim shortens a goroutine block for a witness.
func Trim(block string, lines int) string {
	l := strings.Split(block, "\n")
	if len(l) > lines {
		l = l[:lines]
	}
	return strings.Join(l, "\n")
}
