package main

import (
	"os"
	"runtime/pprof"

	"verifharness/core"
	_ "verifharness/mon/c21"
)

func main() {
	f, _ := os.Create("/tmp/c21g/cpu.prof")
	pprof.StartCPUProfile(f)
	m := core.Lookup("C21")
	os.MkdirAll("/tmp/c21g/work", 0o755)
	c := core.NewCtx(m, "quick", 1, "/verif", "/repo", "/tmp/c21g/work")
	m.Run(c)
	pprof.StopCPUProfile()
	f.Close()
	r := c.Finish()
	println(r.Evaluations, int(r.WallS))
}
