// Package c21 monitors C21: chain-sync delivers the server's chain updates
// faithfully. A real chain-sync client (ouroboros.NewConnection, then
// ChainSync().Client.Sync) talks to a scripted server built on the raw peer
// (no gouroboros code on the server side): the handshake is completed by hand,
// then the server follows a history generated from the PRNG.
//
// Observed: the server log (every message written, in order, with its tip; the
// number of RequestNext received; outstanding = requests received - replies
// completed, sampled at every receive), the client log (every RollForward /
// RollBackward callback: kind, block type + hash or rollback point, tip), the
// client's own request count (trace event "enq" of RequestNext) against the
// replies it has been handed, and the outcome of Stop().
//
// Oracle (all logical, no clock): callback i equals the i-th non-AwaitReply
// message of the server log (so: one callback per message, in order, with that
// message's tip, none for AwaitReply); outstanding <= max(1, PipelineLimit) on
// the wire and at the client; Stop() returns, no callback begins after it has
// returned, the client sends nothing after Done, and when the server was
// quiescent at the time of Stop() nothing arrives on the connection's
// ErrorChan. Stalls are judged by the bounded-progress rule only.
package c21

import (
	"bytes"
	"context"
	"fmt"
	"hash/fnv"
	"os"
	"runtime"
	"sort"
	"strconv"
	"strings"
	"sync"
	"sync/atomic"
	"time"

	ouroboros "github.com/blinklabs-io/gouroboros"
	"github.com/blinklabs-io/gouroboros/ledger"
	"github.com/blinklabs-io/gouroboros/pipeline"
	"github.com/blinklabs-io/gouroboros/protocol"
	"github.com/blinklabs-io/gouroboros/protocol/chainsync"
	pcommon "github.com/blinklabs-io/gouroboros/protocol/common"

	"verifharness/cborx"
	"verifharness/core"
	"verifharness/mon/c21/rig"
)

func init() {
	core.Register(&core.Monitor{
		ID:            "C21",
		Race:          true,
		Rule:          "server histories from the PRNG: length 50..2000 messages (75% 50..200, 20% 200..600, 5% 600..2000, thorough 5% 2000..5000; node-to-client histories capped at 160 / thorough 400 because every block is decoded and validated), each message RollForward (corpus block: NtN header / NtC block), RollBackward to an earlier point of the served chain (12%), optionally preceded by AwaitReply (10%), every message with its own tip; x mode {NtN, NtC} x PipelineLimit {0,1,2,10,50,100} x callback kind {decoded, raw; every third node-to-client history with a pipeline.BlockPipeline (2..4 decode workers, perturbed through pipeline.VerifSetPoint) whose ApplyFunc is the roll-forward recorder} x callback delays {none, light, heavy} x perturbation level {0,1,2} x server reply policy {eager, burst, random, lazy} with random segmentation x calls on the same client before Sync {none, GetAvailableBlockRange, GetCurrentTip then GetAvailableBlockRange, GetCurrentTip, GetAvailableBlockRange then GetCurrentTip} (the server answers the first request after them slowly) x stop mode {after the whole history (server quiescent), at callback k begin, at callback k end}. A case is non-trivial when the client delivered at least 20 callbacks that were compared with the server log and Stop() was judged; distinct by (mode, limit, history hash, stop mode, stop index)",
		MinNontrivial: 60,
		RaceAnchors:   []string{"chainsync.(*Client).syncLoop", "chainsync.(*Client).Sync", "chainsync.(*Client).handleRoll"},
		Assumptions: []string{
			"the scripted server is a correct chain-sync server: it only replies to received requests, AwaitReply only as the first answer to a request",
			"a server cannot observe pipelining: a Done that follows pipelined RequestNext messages on the wire is accepted; only messages after Done (or a second Done) are rejected",
			"errors on the connection's ErrorChan are only judged when the server had nothing in flight when Stop() was called; a reply that reaches a stopped client makes the muxer fail the connection (counted as stop_midstream_conn_errors, not judged)",
			"a case whose progress counters are frozen for 8 s is judged only when the goroutine dump shows the client parked; otherwise inconclusive",
		},
		QuickTimeout:    600,
		ThoroughTimeout: 3 * 3600,
		Run:             run,
	})
}

const (
	watchdog   = 90 * time.Second
	quiescence = 8 * time.Second
)

// ------------------------------------------------------------------ history

type reply struct {
	Await bool
	Back  bool
	Blk   int       // corpus index (forward)
	Point rig.Point // rollback target
	Tip   rig.Tip
}

type caseSpec struct {
	Idx      int
	NtN      bool
	Limit    int
	Raw      bool
	Pipe     bool // node-to-client with a pipeline.BlockPipeline: roll-forwards arrive through its ApplyFunc
	CbDelay  int
	Perturb  int
	Policy   int // 0 eager, 1 burst, 2 random, 3 lazy
	StopMode string
	StopAt   int
	Script   []reply
	Prelude  []string // calls made on the same client before Sync: "tip" (GetCurrentTip), "range" (GetAvailableBlockRange)
	Pre      []reply  // the server's replies to the RequestNext messages of the prelude (they produce no callbacks)
	Messages int      // incl. AwaitReply
	Seed     uint64
	Hash     uint64
}

func (cs *caseSpec) mode() string {
	if cs.NtN {
		return "ntn"
	}
	return "ntc"
}

var limits = []int{0, 1, 2, 10, 50, 100}

func genCase(c *core.Ctx, i int, r *core.Rand, blocks []*rig.Block, ebb int) *caseSpec {
	cs := &caseSpec{Idx: i, Seed: r.Uint64()}
	cs.NtN = i%2 == 0
	cs.Limit = limits[(i/2)%len(limits)]
	cs.Raw = r.Chance(1, 4)
	if !cs.NtN && (i/2)%3 == 1 { // every third node-to-client history runs with a block pipeline
		cs.Pipe, cs.Raw = true, false
		if cs.CbDelay = r.Intn(3); cs.CbDelay == 0 && r.Bool() {
			cs.CbDelay = 2
		}
	}
	if !cs.Pipe {
		cs.CbDelay = r.Intn(3)
	}
	cs.Perturb = r.Intn(3)
	cs.Policy = r.Intn(4)
	var n int
	switch p := r.Intn(100); {
	case p < 75:
		n = r.Range(50, 200)
	case p < 95:
		n = r.Range(200, 600)
	default:
		n = r.Range(600, 2000)
	}
	if c.Thorough() && r.Chance(1, 20) {
		n = r.Range(2000, 5000)
	}
	if ntcCap := c.N(160, 400); !cs.NtN && n > ntcCap {
		n = 50 + n%(ntcCap-49) // whole blocks are decoded and validated by the client: ~20 ms each under -race
	}
	// the served chain
	var chain []rig.Point
	ebbUsed := false
	slot := uint64(r.Range(1, 1000))
	blockNo := uint64(r.Range(1, 1000))
	msgs := 0
	h := fnv.New64a()
	for msgs < n {
		var rp reply
		rp.Await = r.Chance(1, 10)
		if len(chain) > 0 && (r.Chance(12, 100) || (msgs == 0 && r.Bool())) {
			rp.Back = true
			k := r.Intn(len(chain) + 1)
			if r.Chance(1, 20) {
				k = 0
			}
			if k == 0 {
				rp.Point = rig.Point{}
			} else {
				rp.Point = chain[k-1]
			}
			chain = chain[:k]
		} else {
			rp.Blk = r.Intn(len(blocks))
			// the 648 kB EBB is served over node-to-client at most once per history, in thorough
			// only (every copy of it costs ~10 ms under the race detector); C22 / C23 serve it too
			for !cs.NtN && rp.Blk == ebb && (ebbUsed || !c.Thorough()) {
				rp.Blk = r.Intn(len(blocks))
			}
			if !cs.NtN && rp.Blk == ebb {
				ebbUsed = true
			}
			slot += uint64(r.Range(1, 40))
			chain = append(chain, rig.Point{Slot: slot, Hash: blocks[rp.Blk].Hash[:]})
		}
		// every message carries its own tip
		blockNo += uint64(r.Range(1, 5))
		rp.Tip = rig.Tip{Point: rig.Point{Slot: slot + uint64(r.Intn(100)), Hash: r.Bytes(32)}, BlockNo: blockNo}
		cs.Script = append(cs.Script, rp)
		msgs++
		if rp.Await {
			msgs++
		}
		fmt.Fprintf(h, "%v|%v|%d|%s|%s;", rp.Await, rp.Back, rp.Blk, rp.Point, rp.Tip)
	}
	cs.Messages = msgs
	cs.Hash = h.Sum64()
	// history families before Sync, cycling over blocks of 12 cases (= every mode x limit)
	switch (i / 12) % 4 {
	case 1:
		cs.Prelude = []string{"range"}
	case 2:
		cs.Prelude = []string{"tip", "range"}
	case 3:
		if (i/48)%2 == 0 {
			cs.Prelude = []string{"tip"}
		} else {
			cs.Prelude = []string{"range", "tip"}
		}
	}
	for _, p := range cs.Prelude {
		if p == "range" {
			// GetAvailableBlockRange: RequestNext -> RollBackward(intersect), RequestNext -> RollForward(first block)
			b := r.Intn(len(blocks))
			for !cs.NtN && b == ebb {
				b = r.Intn(len(blocks))
			}
			cs.Pre = append(cs.Pre,
				reply{Back: true, Point: rig.Point{}, Tip: rig.Tip{Point: rig.Point{Slot: 900001, Hash: r.Bytes(32)}, BlockNo: 800001}},
				reply{Blk: b, Tip: rig.Tip{Point: rig.Point{Slot: 900002, Hash: r.Bytes(32)}, BlockNo: 800002}})
		}
	}
	switch p := r.Intn(10); {
	case p < 5:
		cs.StopMode = "end"
		cs.StopAt = len(cs.Script)
	case p < 8:
		cs.StopMode = "cb-begin"
		cs.StopAt = r.Intn(len(cs.Script))
	default:
		cs.StopMode = "cb-end"
		cs.StopAt = r.Intn(len(cs.Script))
	}
	return cs
}

// ------------------------------------------------------------------ observation

type obs struct {
	Back  bool
	Type  uint
	Hash  []byte
	Cbor  []byte // node-to-client decoded callback: block.Cbor()
	Bad   string // the callback argument was unusable
	Point rig.Point
	Tip   rig.Tip
}

func (o obs) String() string {
	if o.Back {
		return fmt.Sprintf("RollBackward(%s, tip %s)", o.Point, o.Tip)
	}
	return fmt.Sprintf("RollForward(type %d, hash %x, tip %s)", o.Type, o.Hash, o.Tip)
}

type runState struct {
	cs     *caseSpec
	blocks []*rig.Block

	mu        sync.Mutex
	log       []obs
	mismatch  string // class of the first mismatch
	mismatchW map[string]any
	afterStop int

	cbCount      atomic.Int64
	stopReturned atomic.Bool
	stopTrig     chan struct{}
	trigOnce     sync.Once
	allDone      chan struct{}
	doneOnce     sync.Once
	failCh       chan struct{}
	failOnce     sync.Once

	// client side request accounting (trace sink)
	enqReq      atomic.Int64
	delivered   atomic.Int64 // RollForward / RollBackward messages handed to the client's handler
	maxClientOu atomic.Int64
	sig         uint64
	sigMu       sync.Mutex
	events      atomic.Int64
}

func tipOf(t chainsync.Tip) rig.Tip {
	return rig.Tip{Point: pointOf(t.Point), BlockNo: t.BlockNumber}
}

func pointOf(p pcommon.Point) rig.Point {
	if p.Hash == nil && p.Slot == 0 {
		return rig.Point{}
	}
	return rig.Point{Slot: p.Slot, Hash: append([]byte{}, p.Hash...)}
}

func (st *runState) expect(i int) (obs, bool) {
	if i >= len(st.cs.Script) {
		return obs{}, false
	}
	rp := st.cs.Script[i]
	if rp.Back {
		return obs{Back: true, Point: rp.Point, Tip: rp.Tip}, true
	}
	b := st.blocks[rp.Blk]
	return obs{Type: b.Type, Hash: b.Hash[:], Tip: rp.Tip}, true
}

func (st *runState) fail(class string, w map[string]any) {
	if st.mismatch == "" {
		st.mismatch, st.mismatchW = class, w
	}
	st.failOnce.Do(func() { close(st.failCh) })
}

func (st *runState) sleepCb(i int) {
	switch st.cs.CbDelay {
	case 1:
		if i%7 == 3 {
			runtime.Gosched()
		}
	case 2:
		h := uint64(i)*0x9e3779b97f4a7c15 ^ st.cs.Seed
		h ^= h >> 29
		switch {
		case h%64 == 0:
			time.Sleep(time.Duration(1+h>>8%4) * time.Millisecond)
		case h%4 == 0:
			time.Sleep(time.Duration(10+(h>>8)%190) * time.Microsecond)
		default:
			runtime.Gosched()
		}
	}
}

// onCallback is the body of both client callbacks.
func (st *runState) onCallback(o obs) {
	after := st.stopReturned.Load()
	st.mu.Lock()
	i := len(st.log)
	st.log = append(st.log, o)
	if after && !(st.cs.Pipe && !o.Back) {
		st.afterStop++
		st.fail("after-stop", map[string]any{"index": i, "callback": o.String()})
	}
	want, ok := st.expect(i)
	switch {
	case !ok:
		st.fail("extra", map[string]any{"index": i, "callback": o.String(), "server_messages": len(st.cs.Script)})
	case o.Bad != "":
		st.fail("block", map[string]any{"index": i, "callback": o.String(), "server_sent": want.String(), "detail": o.Bad})
	case o.Back != want.Back:
		st.fail("kind", map[string]any{"index": i, "callback": o.String(), "server_sent": want.String()})
	case o.Back && !o.Point.Equal(want.Point):
		st.fail("point", map[string]any{"index": i, "callback": o.String(), "server_sent": want.String()})
	case !o.Back && (o.Type != want.Type || !bytes.Equal(o.Hash, want.Hash)):
		st.fail("block", map[string]any{"index": i, "callback": o.String(), "server_sent": want.String()})
	case !o.Back && o.Cbor != nil && !bytes.Equal(o.Cbor, st.blocks[st.cs.Script[i].Blk].Cbor):
		st.fail("block", map[string]any{"index": i, "callback": o.String(), "server_sent": want.String(), "detail": "block.Cbor() differs from the served bytes"})
	case !o.Tip.Equal(want.Tip):
		w := map[string]any{"index": i, "callback": o.String(), "server_sent": want.String()}
		if i > 0 {
			if prev, _ := st.expect(i - 1); prev.Tip.Equal(o.Tip) {
				w["note"] = "the tip is the previous message's tip"
			}
		}
		st.fail("tip", w)
	}
	st.mu.Unlock()
	st.cbCount.Add(1)
	if st.cs.StopMode == "cb-begin" && i == st.cs.StopAt {
		st.trigOnce.Do(func() { close(st.stopTrig) })
		time.Sleep(time.Duration(2+st.cs.Seed%18) * time.Millisecond)
	}
	st.sleepCb(i)
	if st.cs.StopMode == "cb-end" && i == st.cs.StopAt {
		st.trigOnce.Do(func() { close(st.stopTrig) })
	}
	if i+1 == len(st.cs.Script) {
		st.doneOnce.Do(func() { close(st.allDone) })
	}
}

// ------------------------------------------------------------------ server

type serverLog struct {
	mu         sync.Mutex
	sentMsgs   int // messages written (incl. AwaitReply)
	sentRepl   int // replies completed (RollForward / RollBackward written)
	recvReq    int
	maxOut     int
	depth      map[string]int
	intersects int
	dones      int
	doneOut    int // outstanding when Done was parsed
	afterDone  []string
	unknown    []string
	closedErr  string
	batches    int
}

func depthBucket(d int) string {
	switch {
	case d <= 1:
		return "depth_0_1"
	case d <= 4:
		return "depth_2_4"
	case d <= 16:
		return "depth_5_16"
	case d <= 64:
		return "depth_17_64"
	case d <= 100:
		return "depth_65_100"
	}
	return "depth_gt_100"
}

type srvEvent struct {
	tag  int // 0 RequestNext, 4 FindIntersect, 7 Done, -1 other, -2 closed
	diag string
}

// reader parses the client's chain-sync messages off the wire.
func reader(l *rig.Link, proto uint16, out chan<- srvEvent) {
	for {
		m, raw, err := l.Peer.RecvMsg(proto)
		if err != nil {
			out <- srvEvent{tag: -2, diag: err.Error()}
			return
		}
		tag := rig.MsgTag(m)
		ev := srvEvent{tag: tag}
		switch {
		case tag == 0 && len(m.Items) == 1, tag == 7 && len(m.Items) == 1, tag == 4 && len(m.Items) == 2:
		default:
			ev.tag = -1
			ev.diag = fmt.Sprintf("%x", raw)
		}
		out <- ev
	}
}

func (st *runState) msgBytes(rp reply, wrapped [][]byte) []byte {
	if rp.Back {
		return rig.MsgRollBackward(rp.Point, rp.Tip)
	}
	return rig.MsgRollForward(wrapped[rp.Blk], rp.Tip)
}

// serve runs the scripted server until the script is exhausted and quit is
// closed, or the connection ends.
func serve(st *runState, l *rig.Link, wrapped [][]byte, sl *serverLog, quit <-chan struct{}, done chan<- struct{}) {
	defer close(done)
	cs := st.cs
	proto := rig.ProtoChainSyncNtC
	if cs.NtN {
		proto = rig.ProtoChainSyncNtN
	}
	r := core.NewRand(cs.Seed ^ 0x5e7e7)
	evs := make(chan srvEvent, cs.Messages+400)
	go reader(l, proto, evs)
	script := append(append([]reply{}, cs.Pre...), cs.Script...)
	next := 0 // next script entry
	out := 0
	heldAfterPrelude := len(cs.Pre) == 0
	handle := func(ev srvEvent) bool {
		sl.mu.Lock()
		defer sl.mu.Unlock()
		if ev.tag == -2 {
			sl.closedErr = ev.diag
			return false
		}
		if sl.dones > 0 {
			sl.afterDone = append(sl.afterDone, fmt.Sprintf("tag %d %s", ev.tag, ev.diag))
		}
		switch ev.tag {
		case 0:
			sl.recvReq++
			out = sl.recvReq - sl.sentRepl
			if out > sl.maxOut {
				sl.maxOut = out
			}
			sl.depth[depthBucket(out)]++
		case 4:
			sl.intersects++
			if sl.recvReq > 0 && len(cs.Prelude) == 0 {
				sl.unknown = append(sl.unknown, "FindIntersect after RequestNext")
			}
		case 7:
			sl.dones++
			sl.doneOut = sl.recvReq - sl.sentRepl
		default:
			sl.unknown = append(sl.unknown, ev.diag)
		}
		return true
	}
	intsAnswered := 0
	for {
		// take everything that has arrived
		blocking := intsAnswered == 0 || out == 0 || next >= len(script)
		if blocking {
			select {
			case ev := <-evs:
				if !handle(ev) {
					return
				}
			case <-quit:
				// keep reading until the connection ends so that a late Done is seen
				for ev := range evs {
					if !handle(ev) {
						return
					}
				}
				return
			}
		}
	drain:
		for {
			select {
			case ev := <-evs:
				if !handle(ev) {
					return
				}
			default:
				break drain
			}
		}
		sl.mu.Lock()
		ints, dn := sl.intersects, sl.dones
		out = sl.recvReq - sl.sentRepl
		sl.mu.Unlock()
		if ints > intsAnswered {
			intsAnswered++
			if err := l.Peer.Send(proto, rig.MsgIntersectFound(rig.Point{}, rig.Tip{Point: rig.Point{Slot: 1, Hash: bytes.Repeat([]byte{0xee}, 32)}, BlockNo: 1}), 0); err != nil {
				return
			}
			continue
		}
		if intsAnswered == 0 || dn > 0 || out == 0 || next >= len(script) {
			continue
		}
		if !heldAfterPrelude && next == len(cs.Pre) {
			// first request of the Sync that follows the prelude: answer slowly, so that everything the
			// client sends on its own account is on the wire before the first reply
			heldAfterPrelude = true
			for i := 0; i < 8; i++ {
				runtime.Gosched()
			}
			time.Sleep(3 * time.Millisecond)
			continue
		}
		// how many requests to answer in this round
		k := 1
		switch cs.Policy {
		case 1:
			k = out
		case 2:
			k = 1 + r.Intn(out)
		case 3:
			// lazy: give the client's batch time to arrive, then answer some
			for i := r.Intn(4); i >= 0; i-- {
				runtime.Gosched()
			}
			if r.Chance(1, 8) {
				time.Sleep(time.Duration(50+r.Intn(400)) * time.Microsecond)
			}
			if len(evs) > 0 {
				continue
			}
			k = 1 + r.Intn(out)
		}
		if next < len(cs.Pre) {
			k = 1 // the prelude's requests come one at a time
		}
		if k > len(script)-next {
			k = len(script) - next
		}
		var payload []byte
		nm := 0
		for j := 0; j < k; j++ {
			rp := script[next+j]
			if rp.Await {
				payload = append(payload, rig.MsgAwaitReply()...)
				nm++
				if r.Chance(1, 3) { // the awaited message in a write of its own
					sl.mu.Lock()
					sl.sentMsgs += nm
					sl.batches++
					sl.mu.Unlock()
					if err := l.Peer.Send(proto, payload, 0); err != nil {
						return
					}
					payload, nm = nil, 0
					runtime.Gosched()
				}
			}
			payload = append(payload, st.msgBytes(rp, wrapped)...)
			nm++
		}
		split := 0
		switch p := r.Intn(20); {
		case p == 0 && len(payload) < 4096:
			split = 3 + r.Intn(14)
		case p < 4:
			split = 64 + r.Intn(1500)
		case p < 6:
			split = 4096
		}
		if split > 0 && len(payload)/split > 48 { // the receiver re-parses its buffer at every segment
			split = len(payload)/48 + 1
		}
		sl.mu.Lock()
		sl.sentMsgs += nm
		sl.sentRepl += k
		sl.batches++
		sl.mu.Unlock()
		next += k
		if err := l.Peer.Send(proto, payload, split); err != nil {
			return
		}
		if cs.Policy != 0 && r.Chance(1, 4) {
			runtime.Gosched()
		}
	}
}

// ------------------------------------------------------------------ one case

type totals struct {
	mu    sync.Mutex
	sigs  map[uint64]struct{}
	maxBy map[int]int // limit -> max outstanding seen on the wire
	maxCl map[int]int
}

func classifyErr(err error) string {
	s := err.Error()
	switch {
	case strings.Contains(s, "unknown protocol ID"):
		return "unknown-protocol"
	case strings.Contains(s, "timeout waiting on transition"):
		return "state-timeout"
	case strings.Contains(s, "peer closed the connection"):
		return "peer-closed"
	}
	return "other"
}

func runCase(c *core.Ctx, cs *caseSpec, blocks []*rig.Block, wrappedNtN, wrappedNtC [][]byte, tot *totals) {
	st := &runState{cs: cs, blocks: blocks, stopTrig: make(chan struct{}), allDone: make(chan struct{}), failCh: make(chan struct{})}
	wrapped := wrappedNtC
	if cs.NtN {
		wrapped = wrappedNtN
	}
	bound := cs.Limit
	if bound < 1 {
		bound = 1
	}
	wit := func() map[string]any {
		return map[string]any{"case": cs.Idx, "mode": cs.mode(), "pipeline_limit": cs.Limit, "raw_callback": cs.Raw, "block_pipeline": cs.Pipe, "calls_before_sync": cs.Prelude, "messages": cs.Messages,
			"stop_mode": cs.StopMode, "stop_at": cs.StopAt, "server_policy": cs.Policy, "perturbation": cs.Perturb, "callback_delay": cs.CbDelay,
			"history_head": historyHead(cs, blocks, 12)}
	}

	fwd := func(_ chainsync.CallbackContext, blockType uint, data any, tip chainsync.Tip) error {
		o := obs{Type: blockType, Tip: tipOf(tip)}
		switch v := data.(type) {
		case ledger.Block:
			o.Hash = v.Hash().Bytes()
			o.Cbor = v.Cbor()
		case ledger.BlockHeader:
			o.Hash = v.Hash().Bytes()
		default:
			o.Bad = fmt.Sprintf("callback argument has type %T", data)
		}
		st.onCallback(o)
		return nil
	}
	raw := func(_ chainsync.CallbackContext, blockType uint, data []byte, tip chainsync.Tip) error {
		o := obs{Type: blockType, Tip: tipOf(tip)}
		if cs.NtN {
			h := rig.HeaderHash(blockType, data)
			o.Hash = h[:]
		} else if n, err := cborx.ParseExact(data); err == nil && n.Kind == cborx.Array && len(n.Items) > 0 {
			h := rig.HeaderHash(blockType, n.Items[0].Slice(data))
			o.Hash = h[:]
		}
		st.onCallback(o)
		return nil
	}
	back := func(_ chainsync.CallbackContext, p pcommon.Point, tip chainsync.Tip) error {
		st.onCallback(obs{Back: true, Point: pointOf(p), Tip: tipOf(tip)})
		return nil
	}
	opts := []chainsync.ChainSyncOptionFunc{
		chainsync.WithPipelineLimit(cs.Limit),
		chainsync.WithRollBackwardFunc(back),
		chainsync.WithIntersectTimeout(10 * time.Minute),
	}
	if cs.Raw {
		opts = append(opts, chainsync.WithRollForwardRawFunc(raw))
	} else {
		opts = append(opts, chainsync.WithRollForwardFunc(fwd))
	}
	var pipe *pipeline.BlockPipeline
	if cs.Pipe {
		pipe = pipeline.NewBlockPipeline(
			pipeline.WithDecodeWorkers(2+int(cs.Seed%3)),
			pipeline.WithApplyFunc(func(item *pipeline.BlockItem) error {
				o := obs{Type: item.BlockType(), Tip: tipOf(item.Tip()), Cbor: item.RawCbor()}
				if b := item.Block(); b != nil {
					o.Hash = b.Hash().Bytes()
				} else {
					o.Bad = fmt.Sprintf("pipeline applied an item without a decoded block (decode error: %v)", item.DecodeError())
				}
				st.onCallback(o)
				return nil
			}),
		)
		if err := pipe.Start(context.Background()); err != nil {
			c.Eval()
			c.Inconclusive("pipeline start: " + err.Error())
			return
		}
		defer pipe.Stop()
		opts = append(opts, chainsync.WithPipeline(pipe))
	}
	cfg := chainsync.NewConfig(opts...)

	c.Journal("C21 case %d %s limit=%d msgs=%d stop=%s@%d policy=%d perturb=%d", cs.Idx, cs.mode(), cs.Limit, cs.Messages, cs.StopMode, cs.StopAt, cs.Policy, cs.Perturb)
	l, err, ok := rig.Dial(cs.NtN, watchdog, ouroboros.WithChainSyncConfig(cfg))
	c.Eval()
	if !ok {
		c.Inconclusive(fmt.Sprintf("case %d: connection set-up did not finish within the watchdog", cs.Idx))
		return
	}
	if err != nil {
		c.Inconclusive(fmt.Sprintf("case %d: connection set-up failed: %v", cs.Idx, err))
		return
	}
	client := l.Conn.ChainSync().Client
	proto := client.ProtocolInstance()
	pert := &rig.Perturber{Seed: cs.Seed, Level: cs.Perturb}
	sigH := fnv.New64a()
	rig.Register(proto, &rig.Hook{
		OnEvent: func(ev protocol.VerifEvent) {
			st.events.Add(1)
			if ev.Kind == "deliver" && (ev.MsgType == chainsync.MessageTypeRollForward || ev.MsgType == chainsync.MessageTypeRollBackward) {
				st.delivered.Add(1)
			}
			if ev.Kind == "enq" && ev.MsgType == chainsync.MessageTypeRequestNext {
				n := st.enqReq.Add(1)
				ou := n - st.delivered.Load()
				for {
					m := st.maxClientOu.Load()
					if ou <= m || st.maxClientOu.CompareAndSwap(m, ou) {
						break
					}
				}
			}
			st.sigMu.Lock()
			sigH.Write([]byte{ev.Kind[0], byte(ev.MsgType)})
			st.sigMu.Unlock()
		},
		OnPoint: pert.Point,
	})
	defer rig.Unregister(proto)

	sl := &serverLog{depth: map[string]int{}}
	quit := make(chan struct{})
	srvDone := make(chan struct{})
	go serve(st, l, wrapped, sl, quit, srvDone)

	syncRes := make(chan error, 1)
	go func() {
		for _, p := range cs.Prelude {
			var err error
			switch p {
			case "tip":
				_, err = client.GetCurrentTip()
			case "range":
				_, _, err = client.GetAvailableBlockRange([]pcommon.Point{pcommon.NewPointOrigin()})
			}
			if err != nil {
				syncRes <- fmt.Errorf("prelude %s: %w", p, err)
				return
			}
		}
		syncRes <- client.Sync([]pcommon.Point{pcommon.NewPointOrigin()})
	}()

	type stopRes struct {
		err  error
		goid int64
	}
	stopCh := make(chan stopRes, 1)
	var stopGo atomic.Int64
	stopper := func() {
		stopGo.Store(rig.GoID())
		err := client.Stop()
		st.stopReturned.Store(true)
		stopCh <- stopRes{err: err}
	}
	progress := func() int64 {
		sl.mu.Lock()
		defer sl.mu.Unlock()
		return int64(sl.recvReq+sl.sentMsgs) + st.cbCount.Load() + st.events.Load() + l.A.BytesWritten() + l.B.BytesWritten()
	}

	// ---- phase 1: until the stop trigger, the end of the history, or a failure
	phase := "sync"
	synced := false
	stopStarted := false
	var stopErr error
	stopDone := false
	verdictStall := ""
	var stallDump *rig.ParsedDump
	last, lastChange := progress(), time.Now()
	start := time.Now()
	tick := time.NewTicker(200 * time.Millisecond)
	defer tick.Stop()
	allDone, stopTrig := st.allDone, st.stopTrig
loop:
	for {
		select {
		case err := <-syncRes:
			synced = true
			if err != nil {
				verdictStall = "sync-error: " + err.Error()
				break loop
			}
			phase = "stream"
		case <-allDone:
			allDone = nil
			if cs.StopMode == "end" || !stopStarted {
				// the whole history was delivered: the server is quiescent now
				if !stopStarted {
					if cs.StopMode != "end" {
						cs.StopMode = "end" // the trigger index was never reached concurrently; judge as quiescent
					}
					stopStarted = true
					phase = "stop"
					go stopper()
				}
			}
		case <-stopTrig:
			stopTrig = nil
			if !stopStarted {
				stopStarted = true
				phase = "stop"
				go stopper()
			}
		case r := <-stopCh:
			stopErr, stopDone = r.err, true
			break loop
		case <-st.failCh:
			break loop
		case <-tick.C:
			if p := progress(); p != last {
				last, lastChange = p, time.Now()
			} else if time.Since(lastChange) > quiescence {
				var quiet bool
				quiet, stallDump, _ = rig.Quiet(l.CtorGo, lastChange)
				if p := progress(); (p != last || !quiet) && time.Since(start) < watchdog {
					// frozen counters, but a goroutine of the connection is running (decoding): keep waiting
					last, lastChange = p, time.Now()
					continue
				}
				if f := os.Getenv("VERIF_C21_DUMP"); f != "" {
					os.WriteFile(fmt.Sprintf("%s.%d", f, cs.Idx), []byte(stallDump.Text), 0o644)
				}
				verdictStall = "stall in phase " + phase
				break loop
			}
			if time.Since(start) > watchdog {
				verdictStall = "watchdog in phase " + phase
				break loop
			}
		}
	}
	_ = synced
	// ---- tear down
	close(quit)
	errsBefore := l.Errors()
	closedOK := l.Close(watchdog)
	select {
	case <-srvDone: // the raw side has read everything the client wrote
	case <-time.After(watchdog):
		closedOK = false
	}
	l.CloseRaw()
	if stopStarted && !stopDone {
		// the closed connection lets a stuck Stop() finish; do not leave it behind
		select {
		case <-stopCh:
		case <-time.After(5 * time.Second):
		}
	}
	errs := l.Errors()

	// ---- evidence
	sl.mu.Lock()
	st.mu.Lock()
	defer st.mu.Unlock()
	defer sl.mu.Unlock()
	cbs := len(st.log)
	c.Count("callbacks", cbs)
	nb := 0
	for _, o := range st.log {
		if o.Back {
			nb++
		}
	}
	c.Count("callbacks_rollbackward", nb)
	c.Count("callbacks_rollforward", cbs-nb)
	c.Count("server_messages_sent", sl.sentMsgs)
	c.Count("server_replies_sent", sl.sentRepl)
	c.Count("server_awaitreply_sent", sl.sentMsgs-sl.sentRepl)
	c.Count("server_writes", sl.batches)
	c.Count("requestnext_received", sl.recvReq)
	c.Count("requestnext_enqueued_by_client", int(st.enqReq.Load()))
	c.Count("done_on_wire", sl.dones)
	if sl.dones > 0 && sl.doneOut > 0 {
		c.Count("done_on_wire_behind_pipelined_requests", 1)
	}
	for k, v := range sl.depth {
		c.Count(k, v)
	}
	c.Count("perturbation_hits", int(pert.Hits.Load()))
	c.Count("trace_events", int(st.events.Load()))
	c.Count("mode_"+cs.mode(), 1)
	c.Count("history_"+strings.Join(append([]string{}, append(cs.Prelude, "sync")...), "_then_"), 1)
	if cs.Pipe {
		c.Count("with_block_pipeline", 1)
		c.Count("callbacks_through_pipeline_apply", cbs-nb)
	}
	c.Count(fmt.Sprintf("limit_%d", cs.Limit), 1)
	c.Count("stop_mode_"+cs.StopMode, 1)
	tot.mu.Lock()
	st.sigMu.Lock()
	tot.sigs[sigH.Sum64()] = struct{}{}
	st.sigMu.Unlock()
	if sl.maxOut > tot.maxBy[cs.Limit] {
		tot.maxBy[cs.Limit] = sl.maxOut
	}
	if m := int(st.maxClientOu.Load()); m > tot.maxCl[cs.Limit] {
		tot.maxCl[cs.Limit] = m
	}
	tot.mu.Unlock()
	if !closedOK {
		c.Count("teardown_slow", 1)
	}
	if cs.Idx%37 == 0 {
		c.Sample(map[string]any{"case": wit(), "callbacks": cbs, "requestnext_received": sl.recvReq, "max_outstanding_wire": sl.maxOut,
			"max_outstanding_client": st.maxClientOu.Load(), "done_on_wire": sl.dones, "errors": fmt.Sprint(errs)})
	}

	// ---- oracle
	w := wit()
	w["callbacks"] = cbs
	w["server_replies_sent"] = sl.sentRepl
	w["requestnext_received"] = sl.recvReq
	judged := true
	if st.mismatch != "" {
		for k, v := range st.mismatchW {
			w[k] = v
		}
		key := "C21:callback:" + st.mismatch
		c.Violation(key, fmt.Sprintf("%s PipelineLimit=%d: callback #%v is %v, the server's message #%v was %v (%v)", cs.mode(), cs.Limit,
			w["index"], w["callback"], w["index"], w["server_sent"], st.mismatch), w)
	}
	sentMain := sl.sentRepl - len(cs.Pre)
	if sentMain < 0 {
		sentMain = 0
	}
	if cbs > sentMain {
		c.Violation("C21:callback:more-than-sent", fmt.Sprintf("%s: %d callbacks for %d messages written by the server", cs.mode(), cbs, sentMain), w)
	}
	// outstanding requests
	for _, m := range []struct {
		name string
		v    int
	}{{"on the wire (requests received - replies written, at a server receive)", sl.maxOut}, {"at the client (RequestNext enqueued - replies handed to the message handler)", int(st.maxClientOu.Load())}} {
		if m.v > bound {
			w["max_outstanding"] = m.v
			key := fmt.Sprintf("C21:outstanding:limit=%d", cs.Limit)
			if cs.Limit == 0 && m.v <= chainsync.DefaultPipelineLimit {
				key = "C21:outstanding:limit=0:default-applied"
			}
			c.Violation(key, fmt.Sprintf("%s client configured with PipelineLimit=%d had %d outstanding RequestNext %s; the bound is max(1, limit) = %d",
				cs.mode(), cs.Limit, m.v, m.name, bound), w)
		}
	}
	// wire discipline
	if len(sl.afterDone) > 0 || sl.dones > 1 {
		w["after_done"] = sl.afterDone
		c.Violation("C21:wire:message-after-done", fmt.Sprintf("%s: the client sent %d message(s) after Done (%d Done in total)", cs.mode(), len(sl.afterDone), sl.dones), w)
	}
	if len(sl.unknown) > 0 || sl.intersects > 1+len(cs.Prelude) {
		w["unexpected"] = sl.unknown
		c.Violation("C21:wire:unexpected-message", fmt.Sprintf("%s: the syncing client sent something else than one FindIntersect, RequestNext* and Done: %v", cs.mode(), sl.unknown), w)
	}
	if sl.dones > 0 && !stopStarted {
		c.Violation("C21:wire:done-without-stop", cs.mode()+": Done on the wire although Stop() was never called", w)
	}
	// progress / stop
	switch {
	case verdictStall != "" && strings.HasPrefix(verdictStall, "sync-error"):
		if (len(errs) > 0 && classifyErr(errs[0]) == "state-timeout") || strings.Contains(verdictStall, "prelude ") {
			// a failing GetCurrentTip / GetAvailableBlockRange before Sync is outside the statement
			c.Inconclusive(fmt.Sprintf("case %d: %s", cs.Idx, verdictStall))
		} else {
			c.Violation("C21:sync:error", fmt.Sprintf("%s: Sync() failed against a server that answered IntersectFound: %s", cs.mode(), verdictStall), w)
		}
		judged = false
	case verdictStall != "":
		judged = false
		judgeStall(c, cs, st, sl, verdictStall, stallDump, stopGo.Load(), l.CtorGo, stopStarted, errsBefore, w)
	case st.mismatch == "" && stopDone:
		if stopErr != nil {
			w["stop_error"] = stopErr.Error()
			c.Violation("C21:stop:returned-error", fmt.Sprintf("%s: Stop() returned %v", cs.mode(), stopErr), w)
		}
		if cs.StopMode == "end" {
			c.Count("stop_quiescent_judged", 1)
			if len(errs) > 0 {
				w["errors"] = fmt.Sprint(errs)
				c.Violation("C21:stop:error-on-errorchan:"+classifyErr(errs[0]), fmt.Sprintf("%s: the whole history was delivered, the server was silent, Stop() returned, and the connection reported %v", cs.mode(), errs), w)
			}
		} else {
			c.Count("stop_midstream_judged", 1)
			for _, e := range errs {
				c.Count("stop_midstream_conn_errors_"+classifyErr(e), 1)
			}
		}
	default:
		judged = false
	}
	if judged && st.mismatch == "" && cbs >= 20 {
		c.Distinct(cs.mode(), cs.Pipe, cs.Limit, cs.Hash, cs.StopMode, cs.StopAt, fmt.Sprint(cs.Prelude))
	}
}

// judgeStall applies the bounded-progress rule to a case whose counters froze.
func judgeStall(c *core.Ctx, cs *caseSpec, st *runState, sl *serverLog, what string, dump *rig.ParsedDump, stopGo, ctorGo int64, stopStarted bool, errs []error, w map[string]any) {
	if dump == nil || strings.HasPrefix(what, "watchdog") {
		c.Inconclusive(fmt.Sprintf("case %d (%s limit=%d): %s", cs.Idx, cs.mode(), cs.Limit, what))
		return
	}
	for _, e := range errs {
		if classifyErr(e) == "state-timeout" {
			c.Inconclusive(fmt.Sprintf("case %d: a state timeout fired (%v)", cs.Idx, e))
			return
		}
	}
	if len(errs) > 0 {
		w["errors"] = fmt.Sprint(errs)
		c.Violation("C21:delivery:connection-error:"+classifyErr(errs[0]), fmt.Sprintf("%s limit=%d: the connection failed while the server was following the protocol: %v", cs.mode(), cs.Limit, errs), w)
		return
	}
	if stopStarted {
		g, _ := dump.Find(stopGo)
		blk := g.Block
		if blk != "" && strings.Contains(blk, "chainsync.(*Client).Stop") && g.Parked {
			w["goroutine"] = rig.Trim(blk, 14)
			where := "other"
			switch {
			case strings.Contains(blk, "enqueueMessage"):
				where = "enqueue-done"
			case strings.Contains(blk, "UnregisterProtocol"):
				where = "unregister-protocol"
			case strings.Contains(blk, "[chan receive"):
				where = "wait-protocol-done"
			}
			c.Violation("C21:stop:hang:"+where, fmt.Sprintf("%s limit=%d: Stop() has not returned, all counters frozen for %v, its goroutine is parked inside the client (%s)", cs.mode(), cs.Limit, quiescence, where), w)
			return
		}
		c.Inconclusive(fmt.Sprintf("case %d: %s, Stop() goroutine not found parked in the client", cs.Idx, what))
		return
	}
	cbs := len(st.log)
	out := sl.recvReq - sl.sentRepl
	// the client is idle: every goroutine of this connection is parked, and a sync loop is parked
	syncLoopParked := false
	for _, g := range dump.Gs {
		if g.Parked && strings.Contains(g.Block, "chainsync.(*Client).syncLoop") {
			syncLoopParked = true
		}
	}
	own := dump.Descendants(ctorGo)
	for _, g := range own {
		if !g.Parked {
			c.Inconclusive(fmt.Sprintf("case %d (%s limit=%d): %s, but the connection is still working: %s", cs.Idx, cs.mode(), cs.Limit, what, rig.Trim(g.Block, 3)))
			return
		}
	}
	if len(own) == 0 {
		c.Inconclusive(fmt.Sprintf("case %d (%s limit=%d): %s, no goroutine of the connection in the dump", cs.Idx, cs.mode(), cs.Limit, what))
		return
	}
	sentMain := sl.sentRepl - len(cs.Pre)
	if sentMain < 0 || (len(cs.Pre) > 0 && sl.sentRepl <= len(cs.Pre)) {
		c.Inconclusive(fmt.Sprintf("case %d (%s limit=%d): %s during the calls before Sync %v", cs.Idx, cs.mode(), cs.Limit, what, cs.Prelude))
		return
	}
	switch {
	case cbs == sentMain && out == 0 && sentMain < len(cs.Script) && syncLoopParked:
		c.Violation("C21:progress:no-further-request", fmt.Sprintf("%s limit=%d: all %d replies were delivered, no request is outstanding, the history has %d more messages, and the client's sync loop is parked: it stopped requesting",
			cs.mode(), cs.Limit, cbs, len(cs.Script)-sentMain), w)
	case cbs < sentMain && syncLoopParked:
		c.Violation("C21:progress:message-not-delivered", fmt.Sprintf("%s limit=%d: the server wrote %d replies, only %d callbacks happened, all counters frozen for %v with the client parked",
			cs.mode(), cs.Limit, sentMain, cbs, quiescence), w)
	default:
		c.Inconclusive(fmt.Sprintf("case %d (%s limit=%d): %s (callbacks %d, replies %d, outstanding %d)", cs.Idx, cs.mode(), cs.Limit, what, cbs, sl.sentRepl, out))
	}
}

func historyHead(cs *caseSpec, blocks []*rig.Block, n int) []string {
	var out []string
	for i, rp := range cs.Script {
		if i >= n {
			out = append(out, fmt.Sprintf("... %d more", len(cs.Script)-n))
			break
		}
		s := ""
		if rp.Await {
			s = "AwaitReply, "
		}
		if rp.Back {
			s += fmt.Sprintf("RollBackward(%s, tip %s)", rp.Point, rp.Tip)
		} else {
			s += fmt.Sprintf("RollForward(%s, tip %s)", blocks[rp.Blk].Name, rp.Tip)
		}
		out = append(out, s)
	}
	return out
}

// ------------------------------------------------------------------ run

func run(c *core.Ctx) {
	blocks, err := rig.Corpus(c.RepoDir)
	if err != nil {
		c.Inconclusive("corpus: " + err.Error())
		return
	}
	ebb := -1
	var wrappedNtN, wrappedNtC [][]byte
	for i, b := range blocks {
		if b.Byron && b.ByronSub == 0 {
			ebb = i
		}
		wrappedNtN = append(wrappedNtN, rig.WrapNtN(b))
		wrappedNtC = append(wrappedNtC, rig.WrapNtC(b.Type, b.Cbor))
	}
	rig.InstallHooks()
	defer rig.RemoveHooks()
	var pctr atomic.Uint64
	pipeline.VerifSetPoint(func(string, *pipeline.BlockItem) {
		switch h := pctr.Add(1) * 0x9e3779b97f4a7c15 >> 40; {
		case h%32 == 0:
			time.Sleep(time.Duration(50+h%400) * time.Microsecond)
		case h%4 == 0:
			runtime.Gosched()
		}
	})
	defer pipeline.VerifSetPoint(nil)
	g0 := runtime.NumGoroutine()
	n := c.N(108, 3000)
	cases := make([]*caseSpec, n)
	for i := range cases {
		cases[i] = genCase(c, i, c.Rand("history", i), blocks, ebb)
	}
	tot := &totals{sigs: map[uint64]struct{}{}, maxBy: map[int]int{}, maxCl: map[int]int{}}
	workers := runtime.GOMAXPROCS(0)
	if workers > 16 {
		workers = 16
	}
	if workers < 4 {
		workers = 4
	}
	only := -1
	if v := os.Getenv("VERIF_C21_ONLY"); v != "" { // debugging aid: run one case of the list
		only, _ = strconv.Atoi(v)
	}
	c.Parallel("case", n, workers, func(i int, _ *core.Rand) {
		if only >= 0 && i != only {
			return
		}
		runCase(c, cases[i], blocks, wrappedNtN, wrappedNtC, tot)
	})
	c.Note("distinct_interleaving_signatures", len(tot.sigs))
	c.Note("goroutine_dumps", map[string]int64{"count": rig.DumpCount.Load(), "total_ms": rig.DumpMs.Load()})
	var ls []int
	for l := range tot.maxBy {
		ls = append(ls, l)
	}
	sort.Ints(ls)
	mw, mc := map[string]int{}, map[string]int{}
	for _, l := range ls {
		mw[fmt.Sprintf("limit_%d", l)] = tot.maxBy[l]
		mc[fmt.Sprintf("limit_%d", l)] = tot.maxCl[l]
	}
	c.Note("max_outstanding_seen_on_wire", mw)
	c.Note("max_outstanding_seen_at_client", mc)
	if c.Counter("stop_quiescent_judged") == 0 || c.Counter("stop_midstream_judged") == 0 {
		for i := int64(0); i <= c.Evals()/50+1; i++ {
			c.Inconclusive("the run never judged both a quiescent and a mid-stream Stop()")
		}
	}
	ng := runtime.NumGoroutine()
	for i := 0; i < 300 && ng > g0+8; i++ {
		time.Sleep(10 * time.Millisecond)
		ng = runtime.NumGoroutine()
	}
	c.Note("goroutines_before", g0)
	c.Note("goroutines_after", ng)
}
