//go:build only_c24

package mon

import _ "verifharness/mon/c24"
