// Package c14 registers monitor C14 (state timeouts fire exactly when the peer
// stalls). The implementation lives in package mon/c16 (c14.go) because it
// reuses that package's engine and per-protocol targets.
package c14

import (
	"verifharness/core"
	"verifharness/mon/c16"
)

func init() {
	core.Register(&core.Monitor{
		ID:            "C14",
		Race:          true,
		Rule:          "a case = one fresh engine per (protocol, role, state of the implementation's map reachable with canonical messages, kind): all non-zero state timeouts scaled to T = 400 ms; kind stall (nothing moves for 3.5T / 5T: timed states must report a timeout naming the stall and stop, untimed and initial states must stay quiet), prompt (the agency holder moves after 0.1..0.4 T: no timeout), chain (a conversation of up to 8 steps pausing T/3 before each: no timeout although it lasts longer than T). Gaps are measured between the hook events' own timestamps; cases whose measured gap falls in [T/2, 3T], or that start while a control sleep overshoots by more than T/8, are not judged. Non-trivial = a judged case; distinct by (kind, protocol, role, state)",
		MinNontrivial: 40,
		RaceAnchors:   []string{"protocol.(*Protocol).stateLoop"},
		Assumptions: []string{
			"wall-clock time is the subject of this property: verdicts use measured elapsed time with a not-judged middle band [T/2, 3T]",
			"the set of states that carry a timeout is taken from the implementation's own state maps (equality with the specification's table is not judged here)",
			"timeouts are scaled through a copy of the configuration obtained with the VerifConfig() hook; the engine code under test is unchanged",
		},
		QuickTimeout: 600,
		Run:          c16.RunC14,
	})
}
