package c17

// Reachability over histories: "an enabled protocol is always reachable through
// the connection" must also hold after one role of a mini-protocol was stopped
// or restarted on the established connection, and the roles the negotiation did
// not enable must stay unreachable.

import (
	"fmt"
	"runtime"
	"strings"
	"sync/atomic"
	"time"

	ouroboros "github.com/blinklabs-io/gouroboros"
	"github.com/blinklabs-io/gouroboros/protocol"

	"verifharness/cborx"
	"verifharness/core"
	"verifharness/rawpeer"
)

// initiator instances that have a Stop() (node-to-node), and responders that
// restart themselves when the peer says Done.
var (
	stoppableClients  = []uint16{2, 3, 4, 18, 19, 20}
	restartingServers = []uint16{2, 3, 10, 18, 19}
)

// donePayload: the Done message of the protocol (request direction).
func donePayload(id uint16) *cborx.Node {
	switch id {
	case 2:
		return cborx.A(cborx.U(7))
	case 3:
		return cborx.A(cborx.U(1))
	case 10:
		return cborx.A(cborx.U(2))
	case 18:
		return cborx.A(cborx.U(5))
	case 19:
		return cborx.A(cborx.U(9))
	}
	return cborx.A(cborx.U(2))
}

func clientStopStart(oc *ouroboros.Connection, id uint16) (stop func() error, start func()) {
	switch id {
	case 2:
		return oc.ChainSync().Client.Stop, oc.ChainSync().Client.Start
	case 3:
		return oc.BlockFetch().Client.Stop, oc.BlockFetch().Client.Start
	case 4:
		return oc.TxSubmission().Client.Stop, oc.TxSubmission().Client.Start
	case 18:
		return oc.LeiosNotify().Client.Stop, oc.LeiosNotify().Client.Start
	case 19:
		return oc.LeiosFetch().Client.Stop, oc.LeiosFetch().Client.Start
	case 20:
		return oc.LeiosVotes().Client.Stop, oc.LeiosVotes().Client.Start
	}
	return nil, nil
}

// bounded runs f and reports whether it returned within the watchdog.
func bounded(f func()) bool {
	done := make(chan struct{})
	go func() { f(); close(done) }()
	t := time.NewTimer(watchdog)
	defer t.Stop()
	select {
	case <-done:
		return true
	case <-t.C:
		lastStall.Store(stallDump())
		return false
	}
}

// stallDump: the gouroboros frames of all goroutines (attached to the inconclusive note of a
// history step that did not return).
func stallDump() string {
	buf := make([]byte, 1<<20)
	buf = buf[:runtime.Stack(buf, true)]
	var out []string
	for _, g := range strings.Split(string(buf), "\n\n") {
		if strings.Contains(g, ").Stop(") || strings.Contains(g, "UnregisterProtocol") {
			var fr []string
			for _, l := range strings.Split(g, "\n") {
				if strings.HasPrefix(l, "github.com/blinklabs-io/gouroboros") || strings.HasPrefix(l, "goroutine ") {
					fr = append(fr, strings.TrimPrefix(l, "github.com/blinklabs-io/gouroboros/"))
				}
			}
			out = append(out, strings.Join(fr, " < "))
		}
	}
	if len(out) > 6 {
		out = out[:6]
	}
	return strings.Join(out, " || ")
}

var lastStall atomic.Value

// runHistory performs the history of pr on the established connection; it
// returns "" when the history completed (the rig is not armed yet: its events
// are not part of the probe's observation).
func runHistory(oc *ouroboros.Connection, peer *rawpeer.Peer, r *rig, w *errWatch, cfg config, pr probe) string {
	switch pr.History {
	case "client-stop", "client-restart":
		stop, start := clientStopStart(oc, pr.HistID)
		if stop == nil {
			return "no such client"
		}
		var err error
		if !bounded(func() { err = stop() }) {
			return "Client.Stop() did not return within the watchdog"
		}
		if err != nil {
			return "Client.Stop(): " + err.Error()
		}
		if pr.History == "client-restart" && !bounded(start) {
			return "Client.Start() did not return within the watchdog"
		}
	case "server-restart":
		// the handler restarts the instance synchronously: its `handled` event for the Done
		// message comes after the new instance was registered and started
		r.arm()
		if err := peer.SendSegment(rawpeer.Segment{Timestamp: 5, ProtocolID: pr.HistID, Response: false, Payload: donePayload(pr.HistID).Encode()}); err != nil {
			return "raw peer could not send Done: " + err.Error()
		}
		ok := waitFor(r, w, func() bool { return r.count("handled", protocol.ProtocolRoleServer, int(pr.HistID)) > 0 }, watchdog)
		r.mu.Lock()
		r.armed = false
		stopped := false
		for _, e := range r.evs {
			stopped = stopped || (e.kind == "stop" && e.id == pr.HistID && e.role == protocol.ProtocolRoleServer)
		}
		r.evs = nil
		r.mu.Unlock()
		if !ok {
			return "the responder did not finish handling Done within the watchdog"
		}
		if !stopped {
			return "the responder did not restart on Done"
		}
	default:
		return "unknown history"
	}
	if e, bad := w.first(); bad {
		return "the connection reported an error during the history itself: " + e.Error()
	}
	return ""
}

// historyJobs: full-duplex node-to-node configurations (local client and local
// server, highest version and the lowest version with full duplex), every
// history, then every enabled (protocol, role) again - except the instance the
// history stopped for good; plus the converse on connections that did not
// negotiate duplex: the excluded direction stays refused.
func historyJobs(c *core.Ctx) []rawJob {
	var out []rawJob
	vs := tableVersions("ntn")
	var dv []uint16
	for _, v := range vs {
		if protocol.GetProtocolVersion(v).EnableFullDuplex {
			dv = append(dv, v)
		}
	}
	if len(dv) == 0 {
		return nil
	}
	if c.Quick() && len(dv) > 2 {
		dv = []uint16{dv[0], dv[len(dv)-1]}
	}
	type hist struct {
		kind string
		id   uint16
	}
	var hs []hist
	for _, id := range stoppableClients {
		hs = append(hs, hist{"client-stop", id})
	}
	for _, id := range []uint16{2, 3, 4} {
		hs = append(hs, hist{"client-restart", id})
	}
	for _, id := range restartingServers {
		hs = append(hs, hist{"server-restart", id})
	}
	for _, v := range dv {
		for _, server := range []bool{false, true} {
			cfg := config{Server: server, Mode: "ntn", LocalDuplex: true, PeerDuplex: true, Version: v, LocalPS: true, PeerPS: v > 10}
			ids := sortedIDs(cfg.enabledIDs())
			for _, h := range hs {
				if !cfg.enabledIDs()[h.id] {
					continue
				}
				for _, id := range ids {
					for _, resp := range []bool{false, true} {
						if h.kind == "client-stop" && id == h.id && resp {
							continue // that instance was stopped by its owner
						}
						out = append(out, rawJob{cfg, probe{ID: id, Response: resp, History: h.kind, HistID: h.id}})
					}
				}
			}
		}
	}
	// the converse: no duplex negotiated, history on the enabled side, probes in the excluded direction
	top := vs[len(vs)-1]
	for _, d := range [][2]bool{{true, false}, {false, true}, {false, false}} {
		for _, server := range []bool{false, true} {
			cfg := config{Server: server, Mode: "ntn", LocalDuplex: d[0], PeerDuplex: d[1], Version: top, LocalPS: true, PeerPS: true}
			kind := "client-stop"
			if server {
				kind = "server-restart"
			}
			for _, hid := range []uint16{2, 3} {
				for _, id := range append([]uint16{0, 1}, sortedIDs(cfg.enabledIDs())...) {
					out = append(out, rawJob{cfg, probe{ID: id, Response: server, History: kind, HistID: hid}})
				}
			}
		}
	}
	return out
}

func sortedIDs(m map[uint16]bool) []uint16 {
	var ids []uint16
	for id := range m {
		ids = append(ids, id)
	}
	sortU16(ids)
	return ids
}

var _ = fmt.Sprint
