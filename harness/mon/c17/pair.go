package c17

import (
	"bytes"
	"fmt"
	"time"

	ouroboros "github.com/blinklabs-io/gouroboros"
	"github.com/blinklabs-io/gouroboros/protocol"
	"github.com/blinklabs-io/gouroboros/protocol/blockfetch"
	"github.com/blinklabs-io/gouroboros/protocol/chainsync"
	pcommon "github.com/blinklabs-io/gouroboros/protocol/common"
	"github.com/blinklabs-io/gouroboros/protocol/keepalive"
	"github.com/blinklabs-io/gouroboros/protocol/leiosfetch"
	"github.com/blinklabs-io/gouroboros/protocol/leiosnotify"
	"github.com/blinklabs-io/gouroboros/protocol/leiosvotes"
	"github.com/blinklabs-io/gouroboros/protocol/localmessagenotification"
	"github.com/blinklabs-io/gouroboros/protocol/localmessagesubmission"
	"github.com/blinklabs-io/gouroboros/protocol/localstatequery"
	"github.com/blinklabs-io/gouroboros/protocol/localtxmonitor"
	"github.com/blinklabs-io/gouroboros/protocol/localtxsubmission"
	"github.com/blinklabs-io/gouroboros/protocol/peersharing"
	"github.com/blinklabs-io/gouroboros/protocol/txsubmission"

	"verifharness/core"
	"verifharness/netsim"
)

// pairJob: real client A <-> real server B; the initiator-side instance of
// protocol ID on the Sender's connection sends its first request.
type pairJob struct {
	Mode          string `json:"mode"`
	ADuplex       bool   `json:"client_full_duplex"`
	BDuplex       bool   `json:"server_full_duplex"`
	APS           bool   `json:"client_peer_sharing"`
	BPS           bool   `json:"server_peer_sharing"`
	ID            uint16 `json:"protocol_id"`
	FromResponder bool   `json:"sent_by_the_accepting_side"` // B's initiator-side instance sends (needs duplex)
	// History "client-stop": before the request is sent, the dialing side stops its
	// initiator instance of HistID (its Done also makes the accepting side's responder restart).
	History string `json:"history,omitempty"`
	HistID  uint16 `json:"history_protocol_id,omitempty"`
}

func buildPairJobs(c *core.Ctx) []pairJob {
	var out []pairJob
	bools := []bool{false, true}
	for _, mode := range []string{"ntn", "ntc", "dmq"} {
		vs := tableVersions(mode)
		top := config{Mode: mode, Version: vs[len(vs)-1]}
		var ids []uint16
		for id := range top.enabledIDs() {
			ids = append(ids, id)
		}
		sortU16(ids)
		for _, ad := range bools {
			for _, bd := range bools {
				for _, ap := range bools {
					for _, bp := range bools {
						if mode != "ntn" && (ap || bp) {
							continue
						}
						for _, id := range ids {
							out = append(out, pairJob{Mode: mode, ADuplex: ad, BDuplex: bd, APS: ap, BPS: bp, ID: id})
							// (no keep-alive client on the accepting side: started there, its first ping can
							// overtake the AcceptVersion message and kill the handshake - reported separately)
							if mode == "ntn" && ad && bd && id != 8 {
								out = append(out, pairJob{Mode: mode, ADuplex: ad, BDuplex: bd, APS: ap, BPS: bp, ID: id, FromResponder: true})
							}
						}
					}
				}
			}
		}
	}
	// histories on a full-duplex pair (highest version)
	top := config{Mode: "ntn", Version: tableVersions("ntn")[len(tableVersions("ntn"))-1]}
	for _, hid := range []uint16{2, 3, 4} {
		for _, id := range sortedIDs(top.enabledIDs()) {
			for _, fromB := range []bool{false, true} {
				if (id == hid && !fromB) || (id == 8 && fromB) {
					continue // the stopped instance itself / no keep-alive client on the accepting side
				}
				out = append(out, pairJob{Mode: "ntn", ADuplex: true, BDuplex: true, APS: true, BPS: true, ID: id, FromResponder: fromB, History: "client-stop", HistID: hid})
			}
		}
	}
	return out
}

func sortU16(v []uint16) {
	for i := 1; i < len(v); i++ {
		for j := i; j > 0 && v[j-1] > v[j]; j-- {
			v[j-1], v[j] = v[j], v[j-1]
		}
	}
}

func pt() pcommon.Point { return pcommon.NewPoint(4492800, bytes.Repeat([]byte{0xa1}, 32)) }

// initiatorInstance returns the started initiator-side protocol instance of id
// on oc and a well-formed first request for it.
func initiatorInstance(oc *ouroboros.Connection, mode string, id uint16) (*protocol.Protocol, protocol.Message) {
	switch id {
	case 2, 5:
		return oc.ChainSync().Client.Protocol, chainsync.NewMsgFindIntersect([]pcommon.Point{pt()})
	case 3:
		return oc.BlockFetch().Client.Protocol, blockfetch.NewMsgRequestRange(pt(), pt())
	case 4:
		return oc.TxSubmission().Client.Protocol, txsubmission.NewMsgInit()
	case 6:
		return oc.LocalTxSubmission().Client.Protocol, localtxsubmission.NewMsgDone()
	case 7:
		return oc.LocalStateQuery().Client.Protocol, localstatequery.NewMsgAcquire(pt())
	case 8:
		return oc.KeepAlive().Client.Protocol, nil // the started client sends its ping by itself
	case 9:
		return oc.LocalTxMonitor().Client.Protocol, localtxmonitor.NewMsgAcquire()
	case 10:
		return oc.PeerSharing().Client.Protocol, peersharing.NewMsgShareRequest(2)
	case 14:
		return oc.LocalMessageSubmission().Client.Protocol, localmessagesubmission.NewMsgDone()
	case 15:
		return oc.LocalMessageNotification().Client.Protocol, localmessagenotification.NewMsgRequestMessages(false)
	case 18:
		return oc.LeiosNotify().Client.Protocol, leiosnotify.NewMsgNotificationRequestNext()
	case 19:
		return oc.LeiosFetch().Client.Protocol, leiosfetch.NewMsgBlockRequest(pt())
	case 20:
		return oc.LeiosVotes().Client.Protocol, leiosvotes.NewMsgVotesRequestNext(1)
	}
	return nil, nil
}

var _ = keepalive.ProtocolId

func pairCase(c *core.Ctx, j pairJob) {
	c.Eval()
	a, b := netsim.Pipe()
	ra, lga := newRig()
	rb, lgb := newRig()
	defer rigs.Delete(lga)
	defer rigs.Delete(lgb)
	ra.arm() // from the start: a started keep-alive client pings during set-up
	rb.arm()
	vs := tableVersions(j.Mode)
	cfgA := config{Mode: j.Mode, LocalDuplex: j.ADuplex, PeerDuplex: j.BDuplex, LocalPS: j.APS, PeerPS: j.BPS, Version: vs[len(vs)-1]}
	cfgB := config{Server: true, Mode: j.Mode, LocalDuplex: j.BDuplex, PeerDuplex: j.ADuplex, LocalPS: j.BPS, PeerPS: j.APS, Version: vs[len(vs)-1]}
	ach, bch := make(chan connRes, 1), make(chan connRes, 1)
	go func() {
		oc, err := ouroboros.NewConnection(connOptions(cfgB, b, true, j.BDuplex, j.BPS, false, lgb, rb)...)
		bch <- connRes{oc, err}
	}()
	go func() {
		oc, err := ouroboros.NewConnection(connOptions(cfgA, a, false, j.ADuplex, j.APS, true, lga, ra)...)
		ach <- connRes{oc, err}
	}()
	var ar, br connRes
	var haveA, haveB bool
	wd := time.NewTimer(watchdog)
	defer wd.Stop()
	for !haveA || !haveB {
		select {
		case ar = <-ach:
			haveA = true
		case br = <-bch:
			haveB = true
		case <-wd.C:
			a.Close()
			b.Close()
			if !haveA {
				ar = <-ach
			}
			if !haveB {
				br = <-bch
			}
			for _, r := range []connRes{ar, br} {
				if r.conn != nil {
					r.conn.Close()
				}
			}
			c.Inconclusive(fmt.Sprintf("pair %+v: NewConnection did not return within the watchdog", j))
			return
		}
	}
	var wa, wb *errWatch
	teardown := func() {
		for _, r := range []connRes{ar, br} {
			if r.conn != nil {
				r.conn.Close()
			}
		}
		a.Close()
		b.Close()
		for _, w := range []*errWatch{wa, wb} {
			if w != nil && !waitClosed(w, watchdog) {
				c.Count("teardown_slow", 1)
			}
		}
	}
	if ar.err != nil || br.err != nil {
		extra := ""
		if br.conn != nil {
			wb = watchErrors(br.conn)
			waitClosed(wb, 2*time.Second)
			if e, ok := wb.first(); ok {
				extra = " server-side error: " + e.Error()
			}
		}
		teardown()
		c.Inconclusive(fmt.Sprintf("pair %+v: handshake failed: client=%v server=%v%s", j, ar.err, br.err, extra))
		return
	}
	wa, wb = watchErrors(ar.conn), watchErrors(br.conn)
	va, _ := ar.conn.ProtocolVersion()
	vb, _ := br.conn.ProtocolVersion()
	if va != cfgA.Version || vb != cfgA.Version {
		teardown()
		c.Inconclusive(fmt.Sprintf("pair %+v: negotiated %#x / %#x, not the highest version", j, va, vb))
		return
	}
	sender, recvRig, recvWatch := ar.conn, rb, wb
	if j.FromResponder {
		sender, recvRig, recvWatch = br.conn, ra, wa
	}
	c.Journal("C17 pair %+v", j)
	if j.History == "client-stop" {
		stop, _ := clientStopStart(ar.conn, j.HistID)
		var serr error
		okStop := bounded(func() { serr = stop() })
		// (the Done that Stop sends makes the accepting side's responder of HistID restart, if it
		// gets written before Stop gives up waiting; no probe below targets that instance)
		if _, bad := wa.first(); bad || !okStop || serr != nil {
			ea, _ := wa.first()
			eb, _ := wb.first()
			teardown()
			c.Inconclusive(fmt.Sprintf("pair %+v: the history did not complete (Stop returned=%v err=%v, errors %v / %v) stalled frames: %v", j, okStop, serr, ea, eb, lastStall.Load()))
			return
		}
		if eb, bad := wb.first(); bad {
			teardown()
			c.Violation("C17:history:client-stop:pair-connection-error", fmt.Sprintf("pair %+v: after the dialing side stopped its initiator of protocol %d the accepting connection reported %v", j, j.HistID, eb), map[string]any{"case": j})
			return
		}
	}
	p, msg := initiatorInstance(sender, j.Mode, j.ID)
	w := map[string]any{"case": j}
	if p == nil {
		teardown()
		c.Violation(fmt.Sprintf("C17:reach:pair-no-instance:%s:id%d", j.Mode, j.ID),
			fmt.Sprintf("pair %+v: the connection has no initiator-side instance of protocol %d although version %#x enables it", j, j.ID, cfgA.Version), w)
		return
	}
	if msg != nil {
		if err := p.SendMessage(msg); err != nil {
			teardown()
			c.Inconclusive(fmt.Sprintf("pair %+v: SendMessage failed: %v", j, err))
			return
		}
	}
	got := waitFor(recvRig, recvWatch, func() bool { return recvRig.count("admit", protocol.ProtocolRoleServer, int(j.ID)) > 0 }, watchdog)
	admit := recvRig.count("admit", protocol.ProtocolRoleServer, int(j.ID))
	deliver := recvRig.count("deliver", protocol.ProtocolRoleServer, int(j.ID))
	errText := ""
	if e, ok := recvWatch.first(); ok {
		errText = e.Error()
	}
	// the other direction must stay silent unless duplex was negotiated
	strayA := ra.count("deliver", protocol.ProtocolRoleServer, -1)
	teardown()
	if !got {
		c.Inconclusive(fmt.Sprintf("pair %+v: no observation within the watchdog", j))
		return
	}
	c.Distinct("pair", j)
	w["admit"], w["deliver"], w["receiver_error"], w["receiver_trace"] = admit, deliver, errText, recvRig.dump()
	if admit == 0 && j.History != "" {
		which := "another-protocol"
		if j.ID == j.HistID {
			which = "same-protocol-other-role"
		}
		c.Violation(fmt.Sprintf("C17:history:%s:pair-unreachable:%s", j.History, which),
			fmt.Sprintf("pair %+v: after the dialing side stopped its initiator of protocol %d, the first request of the still enabled protocol %d never reached the responder (error on the receiving connection: %q)", j, j.HistID, j.ID, errText), w)
		return
	}
	if admit == 0 {
		c.Violation(fmt.Sprintf("C17:reach:pair-missing:%s:id%d", j.Mode, j.ID),
			fmt.Sprintf("pair %+v: the first request of protocol %d sent by the real initiator side never reached the responder (error on the receiving connection: %q)", j, j.ID, errText), w)
		return
	}
	c.Count("pair_reached", 1)
	if j.History != "" {
		c.Count("pair_reached_after_history", 1)
	}
	if !cfgA.duplex() && strayA > 0 {
		c.Violation(fmt.Sprintf("C17:gate:pair-delivered-to-responder:%s:%s", j.Mode, cfgA.why()),
			fmt.Sprintf("pair %+v: the client connection negotiated initiator-only but one of its responder instances handled a message", j), w)
	}
}
