// Package c17 monitors C17: connection roles and diffusion modes gate what is
// accepted.
//
// Engine "raw": a real ouroboros.NewConnection (client or server, NtN / NtC /
// DMQ, every fullDuplex / peer-sharing option combination) talks to the raw
// peer of package rawpeer, which completes the handshake by hand on a chosen
// version with chosen version data and then sends exactly one probe segment:
// protocol id 0..20, request direction or response direction. Every probe runs
// on its own connection. Engine "pair": real client <-> real server; for every
// protocol and direction the negotiation enabled, the real initiator-side
// protocol sends its first request and the other side must hand it to its
// responder.
//
// What is observed: trace events of the protocol instances that belong to the
// connection (matched by the connection's logger), the connection's ErrorChan,
// the peer-sharing callback. "Nothing happened" is never decided by waiting:
// when a probe that must be refused shows no reaction, a sentinel segment with
// an empty payload follows; the muxer refuses that one with a distinctive
// error, so an error that is the sentinel's proves that the probe itself was
// let through.
package c17

import (
	"fmt"
	"io"
	"log/slog"
	"runtime"
	"sort"
	"strings"
	"sync"
	"time"

	ouroboros "github.com/blinklabs-io/gouroboros"
	"github.com/blinklabs-io/gouroboros/protocol"
	"github.com/blinklabs-io/gouroboros/protocol/peersharing"
	"github.com/blinklabs-io/gouroboros/protocol/txsubmission"

	"verifharness/cborx"
	"verifharness/core"
	"verifharness/netsim"
	"verifharness/rawpeer"
)

func init() {
	core.Register(&core.Monitor{
		ID:            "C17",
		Race:          true,
		Rule:          "exhaustive product. Engine raw: local role {client, server} x mode {NtN, NtC, DMQ} x local fullDuplex x peer diffusion flag x version (quick: lowest and highest of each table, thorough: every version) x local peer-sharing flag x peer peer-sharing flag (NtN only), and for each configuration one connection per probe: protocol id 0..20 x segment direction {request, response}, plus 'forced' probes (for every protocol of the version the harness starts, through the public API, the instance of the role the negotiation did not enable and the peer sends it a message). Engine pair: real client <-> real server for mode x fullDuplex of either side x peer-sharing of either side, one connection per (enabled protocol, direction). A case is non-trivial when the handshake completed on the forced version and the probe produced a deciding observation (trace event or connection error); distinct by (engine, configuration, probe); the product is exhaustive, the case list does not depend on the seed",
		MinNontrivial: 1500,
		RaceAnchors:   []string{"muxer.(*Muxer).readLoop", "muxer.(*Muxer).SetDiffusionMode", "(*Connection).setupConnection", "muxer.(*Muxer).RegisterProtocol"},
		Assumptions: []string{
			"negotiated duplex = node-to-node and both sides asked for InitiatorAndResponder and the version's table entry has EnableFullDuplex; everything else is initiator-only (client) / responder-only (server)",
			"enabled protocols per version are read from protocol.GetProtocolVersion (keep-alive, peer-sharing, local-state-query, local-tx-monitor flags); chain-sync, block-fetch, tx-submission and the three Leios protocols are expected on every node-to-node version, chain-sync and local-tx-submission on every node-to-client version, ids 14 / 15 on DMQ",
			"a protocol counts as reached when the read loop of a started protocol instance of that id and role accounted the probe message (admit trace event); peer-sharing with the local flag off must not serve the request and must end the connection with an error (whether it counts as reachable is left open)",
			"protocol id 0 is only judged in the direction the negotiation did not enable (the finished handshake instance stays registered in its own direction)",
			"forced probes where the peer advertised duplex but the local side did not are recorded (counter forced_reached_peer_duplex), not judged: the library sets the muxer's mode from the peer's flag only and relies on not registering the responders",
			"a probe for an enabled protocol that shows neither an admit event nor an error for 10 s, and is then proven (sentinel) to have passed the muxer, counts as not reachable (bounded-progress verdict; only mutants get there)",
			"a connection that produces no deciding observation within the 30 s watchdog, or whose error is a state timeout, is inconclusive",
		},
		QuickTimeout:    900,
		ThoroughTimeout: 3 * 3600,
		Run:             run,
	})
}

const (
	watchdog = 30 * time.Second
	grace    = 1500 * time.Millisecond // only decides when the sentinel is sent, never a verdict
	// quiescence: how long a probe that the negotiation enabled may stay without admit
	// event and without error before the sentinel is sent (bounded-progress verdict)
	quiescence = 10 * time.Second
	magic      = uint32(764824073)
)

// ------------------------------------------------------------------ configurations

type config struct {
	Server      bool   `json:"local_is_server"`
	Mode        string `json:"mode"` // ntn | ntc | dmq
	LocalDuplex bool   `json:"local_full_duplex"`
	PeerDuplex  bool   `json:"peer_advertises_duplex"`
	Version     uint16 `json:"version"`
	LocalPS     bool   `json:"local_peer_sharing"`
	PeerPS      bool   `json:"peer_peer_sharing"`
}

func (c config) String() string {
	r := "client"
	if c.Server {
		r = "server"
	}
	return fmt.Sprintf("%s/%s v=%#x duplex(local=%v,peer=%v) ps(local=%v,peer=%v)", r, c.Mode, c.Version, c.LocalDuplex, c.PeerDuplex, c.LocalPS, c.PeerPS)
}

func (c config) duplex() bool {
	return c.Mode == "ntn" && c.LocalDuplex && c.PeerDuplex && protocol.GetProtocolVersion(c.Version).EnableFullDuplex
}

// why names the reason a role is not enabled (part of the finding key).
func (c config) why() string {
	switch {
	case c.Mode != "ntn":
		return "mode-has-no-duplex"
	case !c.LocalDuplex && !c.PeerDuplex:
		return "neither-duplex"
	case !c.LocalDuplex:
		return "local-not-duplex"
	case !c.PeerDuplex:
		return "peer-not-duplex"
	}
	return "version-without-full-duplex"
}

// enabledIDs: protocol ids the negotiated version enables.
func (c config) enabledIDs() map[uint16]bool {
	v := protocol.GetProtocolVersion(c.Version)
	out := map[uint16]bool{}
	switch c.Mode {
	case "ntn":
		for _, id := range []uint16{2, 3, 4, 18, 19, 20} {
			out[id] = true
		}
		if v.EnableKeepAliveProtocol {
			out[8] = true
		}
		if v.EnablePeerSharingProtocol {
			out[10] = true
		}
	case "ntc":
		out[5], out[6] = true, true
		if v.EnableLocalQueryProtocol {
			out[7] = true
		}
		if v.EnableLocalTxMonitorProtocol {
			out[9] = true
		}
	case "dmq":
		out[14], out[15] = true, true
	}
	return out
}

func versionData(c config) *cborx.Node {
	switch c.Mode {
	case "ntc":
		if c.Version&0x7fff >= 15 {
			return rawpeer.VDNtC15(magic, false)
		}
		return rawpeer.VDNtC9to14(magic)
	case "dmq":
		return rawpeer.VDNtC15(magic, false)
	}
	if c.Version <= 10 {
		return rawpeer.VDNtN7to10(magic, !c.PeerDuplex)
	}
	ps := uint64(0)
	if c.PeerPS {
		ps = 1
		if c.Version <= 12 {
			ps = 2
		}
	}
	return rawpeer.VDNtN11(magic, !c.PeerDuplex, ps, false)
}

func tableVersions(mode string) []uint16 {
	switch mode {
	case "ntn":
		return protocol.GetProtocolVersionsNtN()
	case "ntc":
		return protocol.GetProtocolVersionsNtC()
	}
	return protocol.GetProtocolVersionsDMQNtC()
}

func buildConfigs(c *core.Ctx) []config {
	var out []config
	bools := []bool{false, true}
	for _, mode := range []string{"ntn", "ntc", "dmq"} {
		vs := tableVersions(mode)
		if c.Quick() && len(vs) > 2 {
			vs = []uint16{vs[0], vs[len(vs)-1]}
		}
		for _, server := range bools {
			for _, v := range vs {
				for _, ld := range bools {
					for _, pd := range bools {
						if mode != "ntn" {
							out = append(out, config{Server: server, Mode: mode, LocalDuplex: ld, PeerDuplex: pd, Version: v})
							continue
						}
						for _, lp := range bools {
							for _, pp := range bools {
								if v <= 10 && pp {
									continue // versions 7..10 carry no peer-sharing field
								}
								out = append(out, config{Server: server, Mode: mode, LocalDuplex: ld, PeerDuplex: pd, Version: v, LocalPS: lp, PeerPS: pp})
							}
						}
					}
				}
			}
		}
	}
	return out
}

// ------------------------------------------------------------------ probes

type probe struct {
	ID       uint16 `json:"protocol_id"`
	Response bool   `json:"response_direction"`
	Forced   bool   `json:"forced_instance"`
	// History: what happens on the established connection before the probe
	// ("" = nothing): client-stop, client-restart (Stop then Start) of the local
	// initiator instance of HistID, or server-restart (the peer's Done makes the
	// local responder instance of HistID restart itself).
	History string `json:"history,omitempty"`
	HistID  uint16 `json:"history_protocol_id,omitempty"`
}

func (p probe) dir() string {
	if p.Response {
		return "response"
	}
	return "request"
}

var (
	hash32 = strings.Repeat("\xa1", 32)
	ptNode = func() *cborx.Node { return cborx.A(cborx.U(4492800), cborx.B([]byte(hash32))) }
)

// payload: a well-formed first message of the protocol with that id, in the
// given direction (built by hand with cborx).
func payload(id uint16, response bool, cfg config) *cborx.Node {
	if !response {
		switch id {
		case 0:
			return rawpeer.ProposeVersions(rawpeer.VersionEntry{Version: uint64(cfg.Version), Data: versionData(cfg)})
		case 2, 5:
			return cborx.A(cborx.U(0)) // RequestNext
		case 3:
			return cborx.A(cborx.U(0), ptNode(), ptNode()) // RequestRange
		case 4:
			return cborx.A(cborx.U(6)) // Init
		case 6:
			return cborx.A(cborx.U(3)) // Done (a first message of Idle)
		case 7:
			return cborx.A(cborx.U(0), ptNode()) // Acquire
		case 8:
			return cborx.A(cborx.U(0), cborx.U(999)) // KeepAlive
		case 9:
			return cborx.A(cborx.U(1)) // Acquire
		case 10:
			return cborx.A(cborx.U(0), cborx.U(3)) // ShareRequest
		case 14:
			return cborx.A(cborx.U(3)) // Done
		case 15:
			return cborx.A(cborx.U(0), cborx.Bool(false)) // RequestMessages non-blocking
		case 18:
			return cborx.A(cborx.U(0)) // NotificationRequestNext
		case 19:
			return cborx.A(cborx.U(9)) // Done
		case 20:
			return cborx.A(cborx.U(0), cborx.U(1)) // VotesRequestNext(1)
		}
		return cborx.A(cborx.U(0))
	}
	switch id {
	case 0:
		return rawpeer.AcceptVersion(uint64(cfg.Version), versionData(cfg))
	case 2, 5:
		return cborx.A(cborx.U(1)) // AwaitReply
	case 3:
		return cborx.A(cborx.U(3)) // NoBlocks
	case 4:
		return cborx.A(cborx.U(0), cborx.Bool(false), cborx.U(0), cborx.U(1)) // RequestTxIds
	case 6:
		return cborx.A(cborx.U(1)) // AcceptTx
	case 7:
		return cborx.A(cborx.U(1)) // Acquired
	case 8:
		return cborx.A(cborx.U(1), cborx.U(999))
	case 9:
		return cborx.A(cborx.U(2), cborx.U(4492800)) // Acquired
	case 10:
		return cborx.A(cborx.U(1), cborx.A()) // SharePeers []
	case 14:
		return cborx.A(cborx.U(1)) // AcceptMessage
	case 15:
		return cborx.A(cborx.U(2), cborx.A()) // ReplyMessagesBlocking []
	case 18:
		return cborx.A(cborx.U(3), ptNode()) // BlockTxsOffer
	case 19:
		return cborx.A(cborx.U(10)) // NoBlock
	case 20:
		return cborx.A(cborx.U(2)) // (no parameterless reply exists; Done decodes)
	}
	return cborx.A(cborx.U(1))
}

// ------------------------------------------------------------------ trace

type rig struct {
	mu     sync.Mutex
	armed  bool
	evs    []rigEv
	wake   chan struct{}
	served int // peer-sharing callback invocations
}

type rigEv struct {
	kind string
	id   uint16
	role protocol.ProtocolRole
}

var rigs sync.Map // *slog.Logger -> *rig

func sink(ev protocol.VerifEvent) {
	if ev.Proto == nil {
		return
	}
	switch ev.Kind {
	case "admit", "deliver", "handled", "stop":
	default:
		return
	}
	lg := ev.Proto.VerifConfig().Logger
	if lg == nil {
		return
	}
	x, ok := rigs.Load(lg)
	if !ok {
		return
	}
	r := x.(*rig)
	r.mu.Lock()
	if r.armed {
		r.evs = append(r.evs, rigEv{ev.Kind, ev.ProtocolId, ev.Role})
	}
	r.mu.Unlock()
	select {
	case r.wake <- struct{}{}:
	default:
	}
}

func newRig() (*rig, *slog.Logger) {
	lg := slog.New(slog.NewTextHandler(io.Discard, &slog.HandlerOptions{Level: slog.LevelError + 8}))
	r := &rig{wake: make(chan struct{}, 1)}
	rigs.Store(lg, r)
	return r, lg
}

func (r *rig) arm() {
	r.mu.Lock()
	r.armed = true
	r.mu.Unlock()
}

func (r *rig) count(kind string, role protocol.ProtocolRole, id int) int {
	r.mu.Lock()
	defer r.mu.Unlock()
	n := 0
	for _, e := range r.evs {
		if e.kind == kind && e.role == role && (id < 0 || int(e.id) == id) {
			n++
		}
	}
	return n
}

func (r *rig) servedCount() int {
	r.mu.Lock()
	defer r.mu.Unlock()
	return r.served
}

func (r *rig) dump() []string {
	r.mu.Lock()
	defer r.mu.Unlock()
	var out []string
	for _, e := range r.evs {
		out = append(out, fmt.Sprintf("%s id=%d role=%d", e.kind, e.id, e.role))
	}
	return out
}

// ------------------------------------------------------------------ raw engine

func connOptions(cfg config, conn *netsim.Conn, server bool, fullDuplex, ps, keepAlive bool, lg *slog.Logger, r *rig) []ouroboros.ConnectionOptionFunc {
	psCfg := peersharing.NewConfig(peersharing.WithShareRequestFunc(func(peersharing.CallbackContext, int) ([]peersharing.PeerAddress, error) {
		r.mu.Lock()
		r.served++
		r.mu.Unlock()
		select {
		case r.wake <- struct{}{}:
		default:
		}
		return nil, nil
	}))
	txCfg := txsubmission.NewConfig(txsubmission.WithInitFunc(func(txsubmission.CallbackContext) error { return nil }))
	return []ouroboros.ConnectionOptionFunc{
		ouroboros.WithConnection(conn),
		ouroboros.WithNetworkMagic(magic),
		ouroboros.WithServer(server),
		ouroboros.WithNodeToNode(cfg.Mode == "ntn"),
		ouroboros.WithDMQ(cfg.Mode == "dmq"),
		ouroboros.WithFullDuplex(fullDuplex),
		ouroboros.WithPeerSharing(ps),
		ouroboros.WithKeepAlive(keepAlive),
		ouroboros.WithLogger(lg),
		ouroboros.WithPeerSharingConfig(psCfg),
		ouroboros.WithTxSubmissionConfig(txCfg),
	}
}

type connRes struct {
	conn *ouroboros.Connection
	err  error
}

// errWatch collects what the connection's ErrorChan yields.
type errWatch struct {
	mu     sync.Mutex
	errs   []error
	closed bool
	wake   chan struct{}
}

func watchErrors(oc *ouroboros.Connection) *errWatch {
	w := &errWatch{wake: make(chan struct{}, 1)}
	go func() {
		for err := range oc.ErrorChan() {
			w.mu.Lock()
			w.errs = append(w.errs, err)
			w.mu.Unlock()
			select {
			case w.wake <- struct{}{}:
			default:
			}
		}
		w.mu.Lock()
		w.closed = true
		w.mu.Unlock()
		select {
		case w.wake <- struct{}{}:
		default:
		}
	}()
	return w
}

func (w *errWatch) first() (error, bool) {
	w.mu.Lock()
	defer w.mu.Unlock()
	if len(w.errs) > 0 {
		return w.errs[0], true
	}
	return nil, false
}

func (w *errWatch) isClosed() bool {
	w.mu.Lock()
	defer w.mu.Unlock()
	return w.closed
}

const sentinelText = "zero-byte segment payload"

type observation struct {
	Admit      int    // admit events of (probe id, receiving role)
	Deliver    int    // deliver events of the receiving role, any id
	DeliverID  int    // deliver events of (probe id, receiving role)
	Served     int    // peer-sharing callback invocations
	Err        string // first error on ErrorChan ("" = none)
	Sentinel   bool   // that error was the sentinel's
	SentinelTx bool   // the sentinel was sent
	Closed     bool   // ErrorChan was closed afterwards
	Hang       bool
	Trace      []string
}

// waitFor waits until done() holds or the connection reported an error.
func waitFor(r *rig, w *errWatch, done func() bool, d time.Duration) bool {
	t := time.NewTimer(d)
	defer t.Stop()
	for {
		if _, ok := w.first(); ok {
			return true
		}
		if done() {
			return true
		}
		select {
		case <-r.wake:
		case <-w.wake:
		case <-t.C:
			return false
		}
	}
}

func waitClosed(w *errWatch, d time.Duration) bool {
	t := time.NewTimer(d)
	defer t.Stop()
	for !w.isClosed() {
		select {
		case <-w.wake:
		case <-t.C:
			return w.isClosed()
		}
	}
	return true
}

// rawCase runs one (configuration, probe) on a fresh connection.
func rawCase(c *core.Ctx, cfg config, pr probe) {
	c.Eval()
	a, b := netsim.Pipe()
	r, lg := newRig()
	defer rigs.Delete(lg)
	peer := rawpeer.NewPeer(b, !cfg.Server) // local client => we answer as responder
	hs := make(chan error, 1)
	go func() {
		if cfg.Server {
			if err := peer.SendMsg(rawpeer.ProtoHandshake, rawpeer.ProposeVersions(rawpeer.VersionEntry{Version: uint64(cfg.Version), Data: versionData(cfg)})); err != nil {
				hs <- err
				return
			}
			n, _, err := peer.RecvMsg(rawpeer.ProtoHandshake)
			if err == nil {
				var m *rawpeer.HandshakeMsg
				if m, err = rawpeer.ParseHandshake(n); err == nil && (m.Tag != rawpeer.HsAcceptVersion || m.Version != uint64(cfg.Version)) {
					err = fmt.Errorf("the server answered %s", n.Diag())
				}
			}
			hs <- err
			return
		}
		n, _, err := peer.RecvMsg(rawpeer.ProtoHandshake)
		if err != nil {
			hs <- err
			return
		}
		offered, err := rawpeer.ParseProposeVersions(n)
		if err != nil {
			hs <- err
			return
		}
		found := false
		for _, e := range offered {
			found = found || e.Version == uint64(cfg.Version)
		}
		if !found {
			hs <- fmt.Errorf("version %#x was not proposed", cfg.Version)
			return
		}
		hs <- peer.SendMsg(rawpeer.ProtoHandshake, rawpeer.AcceptVersion(uint64(cfg.Version), versionData(cfg)))
	}()
	cch := make(chan connRes, 1)
	go func() {
		oc, err := ouroboros.NewConnection(connOptions(cfg, a, cfg.Server, cfg.LocalDuplex, cfg.LocalPS, true, lg, r)...)
		cch <- connRes{oc, err}
	}()
	var cr connRes
	wd := time.NewTimer(watchdog)
	select {
	case cr = <-cch:
	case <-wd.C:
		a.Close()
		b.Close()
		cr = <-cch
		if cr.conn != nil {
			cr.conn.Close()
		}
		c.Inconclusive(fmt.Sprintf("%s: NewConnection did not return within the watchdog", cfg))
		return
	}
	wd.Stop()
	teardown := func(w *errWatch) {
		if cr.conn != nil {
			cr.conn.Close()
		}
		a.Close()
		b.Close()
		if w != nil && !waitClosed(w, watchdog) {
			c.Count("teardown_slow", 1)
		}
	}
	hsErr := <-hs
	if cr.err != nil || hsErr != nil || cr.conn == nil {
		teardown(nil)
		c.Inconclusive(fmt.Sprintf("%s: handshake with the raw peer failed: conn=%v peer=%v", cfg, cr.err, hsErr))
		return
	}
	w := watchErrors(cr.conn)
	if v, _ := cr.conn.ProtocolVersion(); v != cfg.Version {
		teardown(w)
		c.Inconclusive(fmt.Sprintf("%s: negotiated version %#x", cfg, v))
		return
	}
	// the role of the local instance that would receive the probe
	role := protocol.ProtocolRoleServer
	if pr.Response {
		role = protocol.ProtocolRoleClient
	}
	sideEnabled := cfg.duplex() || (cfg.Server != pr.Response)
	if pr.Forced && !forceStart(cr.conn, pr.ID, role) {
		teardown(w)
		c.Inconclusive(fmt.Sprintf("%s: no instance of protocol %d to start", cfg, pr.ID))
		return
	}
	if pr.History != "" {
		if what := runHistory(cr.conn, peer, r, w, cfg, pr); what != "" {
			teardown(w)
			c.Inconclusive(fmt.Sprintf("%s history %s(%d): %s", cfg, pr.History, pr.HistID, what))
			return
		}
		c.Count("histories_run", 1)
	}
	r.arm()
	c.Journal("C17 raw %s probe id=%d %s forced=%v history=%s(%d)", cfg, pr.ID, pr.dir(), pr.Forced, pr.History, pr.HistID)
	msg := payload(pr.ID, pr.Response, cfg)
	if err := peer.SendSegment(rawpeer.Segment{Timestamp: 7, ProtocolID: pr.ID, Response: pr.Response, Payload: msg.Encode()}); err != nil {
		teardown(w)
		c.Inconclusive(fmt.Sprintf("%s: raw peer could not send the probe: %v", cfg, err))
		return
	}
	var obs observation
	expectReach := sideEnabled && cfg.enabledIDs()[pr.ID] && !pr.Forced
	reached := func() bool { return r.count("admit", role, int(pr.ID)) > 0 || r.count("deliver", role, -1) > 0 }
	switch {
	case sideEnabled && pr.ID == 10 && !pr.Response && cfg.enabledIDs()[10]:
		// peer sharing: the outcome is the callback or the refusal, not the arrival
		obs.Hang = !waitFor(r, w, func() bool { return r.servedCount() > 0 }, watchdog)
	case expectReach:
		// no admit and no error over a long quiescence window: the sentinel then tells
		// whether the muxer had let the probe through (registered, never started)
		if !waitFor(r, w, reached, quiescence) {
			obs.SentinelTx = true
			peer.SendRaw(netsim.EncodeSeg(pr.ID, pr.Response, nil))
			obs.Hang = !waitFor(r, w, reached, watchdog)
		}
	default:
		if !waitFor(r, w, reached, grace) {
			obs.SentinelTx = true
			peer.SendRaw(netsim.EncodeSeg(pr.ID, pr.Response, nil))
			obs.Hang = !waitFor(r, w, reached, watchdog)
		}
	}
	if err, ok := w.first(); ok {
		obs.Err = err.Error()
		obs.Sentinel = strings.Contains(obs.Err, sentinelText)
		// an error means the connection is going down: wait for it, so that the
		// counts below are final
		obs.Closed = waitClosed(w, watchdog)
	}
	obs.Admit = r.count("admit", role, int(pr.ID))
	obs.Deliver = r.count("deliver", role, -1)
	obs.DeliverID = r.count("deliver", role, int(pr.ID))
	obs.Served = r.servedCount()
	obs.Trace = r.dump()
	teardown(w)
	judgeRaw(c, cfg, pr, sideEnabled, expectReach, obs, msg)
}

// forceStart starts, through the public API, the instance of protocol id of
// the role the negotiation did not enable.
func forceStart(oc *ouroboros.Connection, id uint16, role protocol.ProtocolRole) bool {
	srv := role == protocol.ProtocolRoleServer
	pick := func(s, c func()) bool {
		if srv {
			s()
		} else {
			c()
		}
		return true
	}
	switch id {
	case 2, 5:
		return pick(oc.ChainSync().Server.Start, oc.ChainSync().Client.Start)
	case 3:
		return pick(oc.BlockFetch().Server.Start, oc.BlockFetch().Client.Start)
	case 4:
		return pick(oc.TxSubmission().Server.Start, oc.TxSubmission().Client.Start)
	case 6:
		return pick(oc.LocalTxSubmission().Server.Start, oc.LocalTxSubmission().Client.Start)
	case 7:
		return pick(oc.LocalStateQuery().Server.Start, oc.LocalStateQuery().Client.Start)
	case 8:
		return pick(oc.KeepAlive().Server.Start, oc.KeepAlive().Client.Start)
	case 9:
		return pick(oc.LocalTxMonitor().Server.Start, oc.LocalTxMonitor().Client.Start)
	case 10:
		return pick(oc.PeerSharing().Server.Start, oc.PeerSharing().Client.Start)
	case 14:
		return pick(oc.LocalMessageSubmission().Server.Start, oc.LocalMessageSubmission().Client.Start)
	case 15:
		return pick(oc.LocalMessageNotification().Server.Start, oc.LocalMessageNotification().Client.Start)
	case 18:
		return pick(oc.LeiosNotify().Server.Start, oc.LeiosNotify().Client.Start)
	case 19:
		return pick(oc.LeiosFetch().Server.Start, oc.LeiosFetch().Client.Start)
	case 20:
		return pick(oc.LeiosVotes().Server.Start, oc.LeiosVotes().Client.Start)
	}
	return false
}

func judgeRaw(c *core.Ctx, cfg config, pr probe, sideEnabled, expectReach bool, obs observation, msg *cborx.Node) {
	side := "responder"
	if pr.Response {
		side = "initiator"
	}
	w := map[string]any{"config": cfg, "config_text": cfg.String(), "probe": pr, "probe_message": msg.Diag(), "probe_bytes": core.HexFull(msg.Encode()),
		"local_side_receiving": side, "side_enabled_by_negotiation": sideEnabled, "expected_reachable": expectReach, "observation": obs}
	if obs.Hang {
		c.Inconclusive(fmt.Sprintf("%s probe id=%d %s: no deciding observation within the watchdog (%+v)", cfg, pr.ID, pr.dir(), obs))
		return
	}
	if strings.Contains(obs.Err, "timeout waiting on transition") {
		c.Inconclusive(fmt.Sprintf("%s probe id=%d %s: a state timeout fired: %s", cfg, pr.ID, pr.dir(), obs.Err))
		return
	}
	c.Distinct("raw", cfg, pr)
	vio := func(key, what string) {
		c.Violation(key, fmt.Sprintf("%s, probe id=%d %s-direction %s: %s [admit=%d deliver=%d err=%q sentinel=%v]", cfg, pr.ID, pr.dir(), msg.Diag(), what,
			obs.Admit, obs.Deliver, obs.Err, obs.Sentinel), w)
	}
	refused := obs.Err != "" && !obs.Sentinel && obs.Admit == 0 && obs.Deliver == 0

	if pr.Forced {
		// an instance of the not-enabled role exists because the harness started it
		if cfg.Mode == "ntn" && cfg.PeerDuplex {
			if obs.Admit > 0 {
				c.Count("forced_reached_peer_duplex", 1)
			} else {
				c.Count("forced_refused_peer_duplex", 1)
			}
			return
		}
		c.Count("forced_judged", 1)
		if obs.Admit > 0 || obs.Deliver > 0 {
			vio(fmt.Sprintf("C17:gate:forced-%s-reached:%s:%s", side, cfg.Mode, cfg.why()),
				fmt.Sprintf("the connection negotiated no %s role, yet a %s-direction segment reached a local %s instance", side, pr.dir(), side))
		} else if !refused || !obs.Closed {
			vio(fmt.Sprintf("C17:gate:forced-%s-no-error:%s:%s", side, cfg.Mode, cfg.why()),
				"a segment in the direction the negotiation excluded did not end the connection with an error")
		} else {
			c.Count("refused_wrong_direction", 1)
		}
		return
	}

	if !sideEnabled {
		c.Count("judged_direction_gate", 1)
		switch {
		case obs.Admit > 0 || obs.Deliver > 0:
			// (whether the handler already ran when the counts were taken is a race: one key)
			vio(fmt.Sprintf("C17:gate:reached-%s:%s:%s", side, cfg.Mode, cfg.why()),
				fmt.Sprintf("the negotiation did not enable the local %s role, but the peer's %s reached a started local %s protocol instance / its handler", side, pr.dir(), side))
		case !refused:
			vio(fmt.Sprintf("C17:gate:no-error:%s:%s:%s", side, cfg.Mode, cfg.why()),
				fmt.Sprintf("a %s-direction segment on a connection without %s role did not produce an error on ErrorChan (the sentinel's error came first or none)", pr.dir(), side))
		case !obs.Closed:
			vio(fmt.Sprintf("C17:gate:not-closed:%s:%s:%s", side, cfg.Mode, cfg.why()), "the connection reported the error but did not close")
		default:
			c.Count("refused_wrong_direction", 1)
		}
		return
	}
	// peer-sharing with the local flag off: must not be served
	if pr.ID == 10 && !pr.Response && cfg.enabledIDs()[10] && !cfg.LocalPS {
		c.Count("judged_peer_sharing_off", 1)
		if obs.Served > 0 {
			vio("C17:peersharing:served-although-local-flag-off", "the local node advertised NoPeerSharing but answered a ShareRequest through its callback")
		} else if obs.Err == "" || obs.Sentinel || !obs.Closed {
			vio("C17:peersharing:flag-off-no-error", "a ShareRequest to a node that advertised NoPeerSharing did not end the connection with an error")
		}
		return
	}
	if expectReach && pr.History != "" {
		c.Count("judged_reachable_after_history", 1)
		which := "another-protocol"
		if pr.ID == pr.HistID {
			which = "same-protocol-other-role"
			if (pr.History == "server-restart" && !pr.Response) || (pr.History == "client-restart" && pr.Response) {
				which = "restarted-instance"
			}
		}
		switch {
		case obs.Admit == 0:
			vio(fmt.Sprintf("C17:history:%s:unreachable:%s:%s", pr.History, which, side),
				fmt.Sprintf("after %s of protocol %d the still enabled protocol %d (local %s role) is no longer reachable: a well-formed first message did not reach a protocol instance", pr.History, pr.HistID, pr.ID, side))
		case obs.Err != "" && !obs.Sentinel && pr.ID != 10 && strings.Contains(obs.Err, "unknown protocol"):
			vio(fmt.Sprintf("C17:history:%s:unknown-protocol-error:%s", pr.History, side),
				fmt.Sprintf("after %s of protocol %d a message for enabled protocol %d ended the connection with %q", pr.History, pr.HistID, pr.ID, obs.Err))
		default:
			c.Count("reached_after_history", 1)
		}
		return
	}
	if expectReach {
		c.Count("judged_reachable", 1)
		switch {
		case obs.Admit == 0:
			vio(fmt.Sprintf("C17:reach:missing:%s:%s:id%d", cfg.Mode, side, pr.ID),
				fmt.Sprintf("protocol %d is enabled by version %#x for the local %s role, but a well-formed first message did not reach a protocol instance", pr.ID, cfg.Version, side))
		case pr.ID == 10 && !pr.Response && obs.Served == 0:
			vio("C17:peersharing:not-served-although-enabled", "peer sharing is enabled on both the version and the local flag, but the ShareRequest callback was not invoked")
		default:
			c.Count("reached", 1)
		}
		return
	}
	c.Count("judged_unreachable", 1)
	switch {
	case obs.Admit > 0 || obs.Deliver > 0:
		vio(fmt.Sprintf("C17:reach:extra:%s:%s:id%d", cfg.Mode, side, pr.ID),
			fmt.Sprintf("protocol %d is not enabled by version %#x in mode %s, but a message for it reached a local %s protocol instance", pr.ID, cfg.Version, cfg.Mode, side))
	case !refused || !obs.Closed:
		vio(fmt.Sprintf("C17:reach:unknown-protocol-no-error:%s:%s", cfg.Mode, side),
			fmt.Sprintf("a segment for protocol %d, which the negotiated version does not enable, did not end the connection with an error", pr.ID))
	default:
		c.Count("refused_unknown_protocol", 1)
	}
}

// ------------------------------------------------------------------ run

type rawJob struct {
	cfg config
	pr  probe
}

func runInconclusive(c *core.Ctx, what string) {
	for i := int64(0); i <= c.Evals()/50+1; i++ {
		c.Inconclusive(what)
	}
}

func run(c *core.Ctx) {
	protocol.VerifSetSink(sink)
	defer protocol.VerifSetSink(nil)
	g0 := runtime.NumGoroutine()
	cfgs := buildConfigs(c)
	c.Note("configurations_raw", len(cfgs))
	var jobs []rawJob
	for _, cfg := range cfgs {
		for id := uint16(0); id <= 20; id++ {
			for _, resp := range []bool{false, true} {
				// id 0 is judged only in the direction the negotiation excluded
				if id == 0 && (cfg.duplex() || cfg.Server != resp) {
					continue
				}
				jobs = append(jobs, rawJob{cfg, probe{ID: id, Response: resp}})
			}
		}
		if !cfg.duplex() && !(cfg.Mode == "ntn" && cfg.LocalDuplex && cfg.PeerDuplex) {
			// the role the negotiation did not enable: server side on a client connection and vice versa
			// (not where both asked for duplex on a version without it: the library has started those
			// instances itself - known finding - and a second Start of some of them panics at shutdown)
			var ids []uint16
			for id := range cfg.enabledIDs() {
				ids = append(ids, id)
			}
			sortU16(ids)
			for _, id := range ids {
				jobs = append(jobs, rawJob{cfg, probe{ID: id, Response: cfg.Server, Forced: true}})
			}
		}
	}
	jobs = append(jobs, historyJobs(c)...)
	c.Note("cases_raw", len(jobs))
	workers := runtime.GOMAXPROCS(0)
	if workers > 16 {
		workers = 16
	}
	c.Parallel("raw", len(jobs), workers, func(i int, _ *core.Rand) {
		rawCase(c, jobs[i].cfg, jobs[i].pr)
		if i%577 == 0 {
			c.Sample(map[string]any{"engine": "raw", "config": jobs[i].cfg.String(), "probe": jobs[i].pr})
		}
	})
	pjobs := buildPairJobs(c)
	c.Note("cases_pair", len(pjobs))
	c.Parallel("pair", len(pjobs), workers, func(i int, _ *core.Rand) {
		pairCase(c, pjobs[i])
		if i%97 == 0 {
			c.Sample(map[string]any{"engine": "pair", "case": pjobs[i]})
		}
	})
	c.SetExhaustive()
	for _, k := range []string{"refused_wrong_direction", "reached", "refused_unknown_protocol", "judged_peer_sharing_off", "pair_reached", "reached_after_history", "pair_reached_after_history"} {
		if c.Counter(k) == 0 {
			runInconclusive(c, "the run never observed the outcome "+k)
		}
	}
	n := runtime.NumGoroutine()
	for i := 0; i < 300 && n > g0+8; i++ {
		time.Sleep(10 * time.Millisecond)
		n = runtime.NumGoroutine()
	}
	c.Note("goroutines_before", g0)
	c.Note("goroutines_after", n)
	var keys []string
	for _, cfg := range cfgs {
		if cfg.Mode == "ntn" && cfg.LocalDuplex && cfg.PeerDuplex && !cfg.duplex() {
			keys = append(keys, fmt.Sprintf("%#x", cfg.Version))
		}
	}
	sort.Strings(keys)
	c.Note("versions_asked_duplex_but_table_says_no", fmt.Sprint(keys))
}
