// Package c18 monitors C18: version negotiation agrees on the best common
// version. A real handshake client and a real handshake server talk over an
// in-memory connection, (a) directly on the handshake package with custom
// version maps (one muxer each) and (b) through ouroboros.NewConnection on
// both sides. The oracle is a reference negotiation function written from the
// statement; it never looks at elapsed time.
//
// Schedules. The responder reports a refusal / query reply by queueing the
// message and then returning an error from its handler. Every case whose
// reference outcome is a refusal or a query reply is therefore run under the
// "held" schedule, in which the verif trace sink parks the responder's receive
// goroutine at its error event (a point where it may be descheduled anyway,
// no lock held) until the initiator has an outcome; that makes the content of
// the refusal observable. The NewConnection engine additionally runs the same
// cases under the natural schedule (no hold).
package c18

import (
	"errors"
	"fmt"
	"io"
	"log/slog"
	"runtime"
	"sort"
	"strings"
	"sync"
	"sync/atomic"
	"time"

	ouroboros "github.com/blinklabs-io/gouroboros"
	"github.com/blinklabs-io/gouroboros/connection"
	"github.com/blinklabs-io/gouroboros/muxer"
	"github.com/blinklabs-io/gouroboros/protocol"
	"github.com/blinklabs-io/gouroboros/protocol/handshake"

	"verifharness/core"
	"verifharness/rawpeer"
)

func init() {
	core.Register(&core.Monitor{
		ID:            "C18",
		Race:          true,
		Rule:          "engine 'direct' (handshake.Client <-> handshake.Server, one muxer each): for each table (NtC, NtN, DMQ-NtN, DMQ-NtC) all pairs of non-empty subsets of a 4-version window straddling the version-data shape change, x magic equal/different, flags from the PRNG; plus PRNG pairs of non-empty subsets of whole tables (10% cross-table), magic equal 2/3, diffusion / peer-sharing / query on either side from the PRNG. Engine 'conn' (ouroboros.NewConnection on both sides): client mode x server mode in {NtC,NtN,DMQ}^2 x magic equal/different x client query x PRNG flags, each under the natural and (refusal / query outcomes) the held schedule. A case is non-trivial when both endpoints produced an outcome that was compared with the reference negotiation; distinct by (engine, schedule, offered set, supported set, magics equal, flags)",
		MinNontrivial: 600,
		RaceAnchors: []string{"handshake.(*Server)", "handshake.(*Client)", "(*Connection).setupConnection",
			"(*Connection).ProtocolVersion", "(*Connection).QueryReplyVersionMap"},
		Assumptions: []string{
			"each endpoint uses one network magic for all versions it offers",
			"a version carries the query flag iff the handshake CDDL gives it one (NtC >= 15, NtN >= 11, DMQ)",
			"a handshake that produces no outcome within the 30 s watchdog, or that ends in a state-timeout error, is inconclusive",
			"holding the responder's receive goroutine at its error trace event is a schedule the program can have (no lock is held there)",
		},
		QuickTimeout:    600,
		ThoroughTimeout: 3 * 3600,
		Run:             run,
	})
}

const watchdog = 30 * time.Second

// ------------------------------------------------------------------ reference

type side struct {
	Table     string   `json:"table"`
	Versions  []uint16 `json:"versions"`
	Magic     uint32   `json:"magic"`
	Diffusion bool     `json:"diffusion"`
	PeerShare bool     `json:"peer_sharing"`
	Query     bool     `json:"query"`
}

func tableVersions(tbl string) []uint16 {
	switch tbl {
	case "ntc":
		return protocol.GetProtocolVersionsNtC()
	case "ntn":
		return protocol.GetProtocolVersionsNtN()
	case "dmq-ntc":
		return protocol.GetProtocolVersionsDMQNtC()
	case "dmq-ntn":
		return protocol.GetProtocolVersionsDMQNtN()
	}
	return nil
}

func tableMode(tbl string) protocol.ProtocolMode {
	if tbl == "ntn" || tbl == "dmq-ntn" {
		return protocol.ProtocolModeNodeToNode
	}
	return protocol.ProtocolModeNodeToClient
}

// versionMap builds the endpoint's version map from the library's generator,
// restricted to the chosen versions.
func (s side) versionMap() protocol.ProtocolVersionMap {
	var full protocol.ProtocolVersionMap
	switch s.Table {
	case "ntc":
		full = protocol.GetProtocolVersionMap(protocol.ProtocolModeNodeToClient, s.Magic, s.Diffusion, s.PeerShare, s.Query)
	case "ntn":
		full = protocol.GetProtocolVersionMap(protocol.ProtocolModeNodeToNode, s.Magic, s.Diffusion, s.PeerShare, s.Query)
	case "dmq-ntc":
		full = protocol.GetProtocolVersionMapDMQNtC(s.Magic, s.Query)
	case "dmq-ntn":
		full = protocol.GetProtocolVersionMapDMQNtN(s.Magic, s.Diffusion, s.PeerShare, s.Query)
	}
	out := protocol.ProtocolVersionMap{}
	for _, v := range s.Versions {
		if d, ok := full[v]; ok {
			out[v] = d
		}
	}
	return out
}

// carriesQuery: handshake CDDL, by version number.
func carriesQuery(v uint16) bool {
	switch {
	case v&0x8000 != 0:
		return v&0x7fff >= 15
	case v&0x1000 != 0:
		return true
	case v <= 2:
		return true
	default:
		return v >= 11
	}
}

type refKind int

const (
	refAccept refKind = iota
	refMismatch
	refMagic
	refQuery
)

func (k refKind) String() string {
	return [...]string{"accept", "version-mismatch", "magic-mismatch", "query"}[k]
}

type reference struct {
	Kind    refKind
	Version uint16
}

// negotiate is the statement: highest common version whose magic matches,
// else refusal; a query-mode proposal is answered with the table.
func negotiate(a, b side) reference {
	if a.Query {
		for _, v := range a.Versions {
			if carriesQuery(v) {
				return reference{Kind: refQuery}
			}
		}
	}
	inB := map[uint16]bool{}
	for _, v := range b.Versions {
		inB[v] = true
	}
	best, found := uint16(0), false
	for _, v := range a.Versions {
		if inB[v] && (!found || v > best) {
			best, found = v, true
		}
	}
	if !found {
		return reference{Kind: refMismatch}
	}
	if a.Magic != b.Magic {
		return reference{Kind: refMagic, Version: best}
	}
	return reference{Kind: refAccept, Version: best}
}

// ------------------------------------------------------------------ observed

type outcome struct {
	Finished   bool
	Version    uint16
	Data       protocol.VersionData
	QueryReply protocol.ProtocolVersionMap
	Err        error
	Watchdog   bool
}

func (o outcome) String() string {
	switch {
	case o.Watchdog:
		return "no outcome (watchdog)"
	case o.Err != nil:
		return fmt.Sprintf("error %T: %v", o.Err, o.Err)
	case o.QueryReply != nil:
		return fmt.Sprintf("query reply with %d versions, finished version=%d", len(o.QueryReply), o.Version)
	case o.Finished:
		return fmt.Sprintf("finished version=%d", o.Version)
	}
	return "nothing"
}

type caseSpec struct {
	Engine   string `json:"engine"`   // direct | conn
	Schedule string `json:"schedule"` // natural | held
	Gen      string `json:"generator"`
	A        side   `json:"initiator"`
	B        side   `json:"responder"`
}

// ------------------------------------------------------------------ hold sink

type hold struct {
	release chan struct{}
	held    chan struct{}
	once    sync.Once
}

var holds sync.Map // *protocol.Protocol | *slog.Logger -> *hold
var heldEvents atomic.Int64

func sink(ev protocol.VerifEvent) {
	if ev.Kind != "error" || ev.ProtocolId != handshake.ProtocolId || ev.Role != protocol.ProtocolRoleServer || ev.Proto == nil {
		return
	}
	var h *hold
	if x, ok := holds.Load(ev.Proto); ok {
		h = x.(*hold)
	} else if lg := ev.Proto.VerifConfig().Logger; lg != nil {
		if x, ok := holds.Load(lg); ok {
			h = x.(*hold)
		}
	}
	if h == nil {
		return
	}
	heldEvents.Add(1)
	h.once.Do(func() { close(h.held) })
	select {
	case <-h.release:
	case <-time.After(2 * watchdog):
	}
}

func newHold() *hold { return &hold{release: make(chan struct{}), held: make(chan struct{})} }

// ------------------------------------------------------------------ engines

func drain(ch <-chan error, d time.Duration) bool {
	t := time.NewTimer(d)
	defer t.Stop()
	for {
		select {
		case _, ok := <-ch:
			if !ok {
				return true
			}
		case <-t.C:
			return false
		}
	}
}

// runDirect: handshake.Client and handshake.Server, one muxer each.
func runDirect(c *core.Ctx, cs caseSpec) (cli, srv outcome) {
	a, b := rawpeer.Pipe()
	cm, sm := muxer.New(a), muxer.New(b)
	cErr, sErr := make(chan error, 10), make(chan error, 10)
	cFin, sFin := make(chan outcome, 2), make(chan outcome, 2)
	var cQuery atomic.Pointer[protocol.ProtocolVersionMap]

	ccfg := handshake.NewConfig(
		handshake.WithProtocolVersionMap(cs.A.versionMap()),
		handshake.WithFinishedFunc(func(_ handshake.CallbackContext, v uint16, vd protocol.VersionData) error {
			cFin <- outcome{Finished: true, Version: v, Data: vd}
			return nil
		}),
		handshake.WithQueryReplyFunc(func(_ handshake.CallbackContext, m protocol.ProtocolVersionMap) error {
			cQuery.Store(&m)
			return nil
		}),
	)
	scfg := handshake.NewConfig(
		handshake.WithProtocolVersionMap(cs.B.versionMap()),
		handshake.WithFinishedFunc(func(_ handshake.CallbackContext, v uint16, vd protocol.VersionData) error {
			sFin <- outcome{Finished: true, Version: v, Data: vd}
			return nil
		}),
	)
	client := handshake.NewClient(protocol.ProtocolOptions{ConnectionId: connection.ConnectionId{LocalAddr: a.LocalAddr(), RemoteAddr: a.RemoteAddr()}, Muxer: cm, ErrorChan: cErr, Mode: tableMode(cs.A.Table), Role: protocol.ProtocolRoleClient}, &ccfg)
	server := handshake.NewServer(protocol.ProtocolOptions{ConnectionId: connection.ConnectionId{LocalAddr: b.LocalAddr(), RemoteAddr: b.RemoteAddr()}, Muxer: sm, ErrorChan: sErr, Mode: tableMode(cs.B.Table), Role: protocol.ProtocolRoleServer}, &scfg)
	var h *hold
	if cs.Schedule == "held" {
		h = newHold()
		holds.Store(server.Protocol, h)
		defer holds.Delete(server.Protocol)
	}
	server.Start()
	client.Start()
	sm.StartOnce()
	cm.StartOnce()

	// Wait for one outcome per side. As ouroboros.Connection does, the
	// responder's side closes its connection as soon as its handshake fails;
	// under the held schedule that error only surfaces after the release.
	wd := time.NewTimer(watchdog)
	defer wd.Stop()
	var haveCli, haveSrv bool
	setCli := func(o outcome) {
		if m := cQuery.Load(); m != nil {
			o.QueryReply = *m
		}
		cli, haveCli = o, true
		if h != nil {
			close(h.release)
			h = nil
		}
	}
	cmErr, smErr := cm.ErrorChan(), sm.ErrorChan()
	for !haveCli || !haveSrv {
		select {
		case o := <-cFin:
			if !haveCli {
				setCli(o)
			}
		case err := <-cErr:
			if !haveCli {
				setCli(outcome{Err: err})
			}
		case err, ok := <-cmErr:
			if !ok {
				cmErr = nil
				err = errors.New("initiator muxer closed")
			}
			if !haveCli {
				setCli(outcome{Err: fmt.Errorf("muxer: %w", err)})
			}
		case o := <-sFin:
			if !haveSrv {
				srv, haveSrv = o, true
			}
		case err := <-sErr:
			if !haveSrv {
				srv, haveSrv = outcome{Err: err}, true
				sm.Stop()
			}
		case err, ok := <-smErr:
			if !ok {
				smErr = nil
				err = errors.New("responder muxer closed")
			}
			if !haveSrv {
				srv, haveSrv = outcome{Err: fmt.Errorf("muxer: %w", err)}, true
			}
		case <-wd.C:
			if !haveCli {
				setCli(outcome{Watchdog: true})
			}
			if !haveSrv {
				srv, haveSrv = outcome{Watchdog: true}, true
			}
		}
	}
	sm.Stop()
	cm.Stop()
	a.Close()
	b.Close()
	if !drain(cm.ErrorChan(), watchdog) || !drain(sm.ErrorChan(), watchdog) {
		c.Count("teardown_slow", 1)
	}
	return cli, srv
}

type connRes struct {
	conn *ouroboros.Connection
	err  error
}

func connOptions(s side, conn *rawpeer.Conn, server bool, lg *slog.Logger) []ouroboros.ConnectionOptionFunc {
	opts := []ouroboros.ConnectionOptionFunc{
		ouroboros.WithConnection(conn),
		ouroboros.WithNetworkMagic(s.Magic),
		ouroboros.WithServer(server),
		ouroboros.WithDelayProtocolStart(true),
		ouroboros.WithFullDuplex(!s.Diffusion), // diffusion flag true = initiator only
		ouroboros.WithPeerSharing(s.PeerShare),
		ouroboros.WithQueryMode(s.Query),
	}
	switch s.Table {
	case "ntn":
		opts = append(opts, ouroboros.WithNodeToNode(true))
	case "dmq-ntc":
		opts = append(opts, ouroboros.WithDMQ(true))
	}
	if lg != nil {
		opts = append(opts, ouroboros.WithLogger(lg))
	}
	return opts
}

// runConn: ouroboros.NewConnection on both ends.
func runConn(c *core.Ctx, cs caseSpec) (cli, srv outcome) {
	a, b := rawpeer.Pipe()
	var h *hold
	var lg *slog.Logger
	if cs.Schedule == "held" {
		h = newHold()
		lg = slog.New(slog.NewTextHandler(io.Discard, &slog.HandlerOptions{Level: slog.LevelError + 8}))
		holds.Store(lg, h)
		defer holds.Delete(lg)
	}
	sch, cch := make(chan connRes, 1), make(chan connRes, 1)
	go func() {
		oc, err := ouroboros.NewConnection(connOptions(cs.B, b, true, lg)...)
		sch <- connRes{oc, err}
	}()
	go func() {
		oc, err := ouroboros.NewConnection(connOptions(cs.A, a, false, nil)...)
		cch <- connRes{oc, err}
	}()
	var cr, sr connRes
	wd := time.NewTimer(watchdog)
	defer wd.Stop()
	select {
	case cr = <-cch:
		if cr.err != nil {
			cli = outcome{Err: cr.err}
		} else {
			v, vd := cr.conn.ProtocolVersion()
			cli = outcome{Finished: true, Version: v, Data: vd, QueryReply: cr.conn.QueryReplyVersionMap()}
		}
	case <-wd.C:
		cli = outcome{Watchdog: true}
	}
	if h != nil {
		close(h.release)
	}
	if !wd.Stop() {
		select {
		case <-wd.C:
		default:
		}
	}
	wd.Reset(watchdog)
	select {
	case sr = <-sch:
		if sr.err != nil {
			srv = outcome{Err: sr.err}
		} else {
			v, vd := sr.conn.ProtocolVersion()
			srv = outcome{Finished: true, Version: v, Data: vd}
		}
	case <-wd.C:
		srv = outcome{Watchdog: true}
	}
	// tear down: close both library connections, then the pipe ends
	for _, r := range []connRes{cr, sr} {
		if r.conn != nil {
			r.conn.Close()
		}
	}
	a.Close()
	b.Close()
	for _, r := range []connRes{cr, sr} {
		if r.conn != nil && !drain(r.conn.ErrorChan(), watchdog) {
			c.Count("teardown_slow", 1)
		}
	}
	if cli.Watchdog || srv.Watchdog {
		// let the stuck constructors finish after the pipe was closed
		go func() {
			if cli.Watchdog {
				if r := <-cch; r.conn != nil {
					r.conn.Close()
				}
			}
			if srv.Watchdog {
				if r := <-sch; r.conn != nil {
					r.conn.Close()
				}
			}
		}()
	}
	return cli, srv
}

// ------------------------------------------------------------------ oracle

func sortedCopy(v []uint16) []uint16 {
	out := append([]uint16(nil), v...)
	sort.Slice(out, func(i, j int) bool { return out[i] < out[j] })
	return out
}

func equalU16(a, b []uint16) bool {
	if len(a) != len(b) {
		return false
	}
	for i := range a {
		if a[i] != b[i] {
			return false
		}
	}
	return true
}

func isTimeoutErr(err error) bool {
	return err != nil && strings.Contains(err.Error(), "timeout waiting on transition")
}

func judge(c *core.Ctx, cs caseSpec, ref reference, cli, srv outcome) {
	w := map[string]any{"case": cs, "reference": map[string]any{"kind": ref.Kind.String(), "version": ref.Version},
		"initiator_outcome": cli.String(), "responder_outcome": srv.String()}
	if cli.Watchdog || srv.Watchdog {
		c.Inconclusive(fmt.Sprintf("%s/%s %s: no outcome within the watchdog (initiator: %s, responder: %s)", cs.Engine, cs.Schedule, ref.Kind, cli, srv))
		return
	}
	if isTimeoutErr(cli.Err) || isTimeoutErr(srv.Err) {
		c.Inconclusive(fmt.Sprintf("%s/%s %s: state timeout fired (initiator: %s, responder: %s)", cs.Engine, cs.Schedule, ref.Kind, cli, srv))
		return
	}
	c.Distinct(cs.Engine, cs.Schedule, cs.A.Table, fmt.Sprint(cs.A.Versions), cs.B.Table, fmt.Sprint(cs.B.Versions),
		cs.A.Magic == cs.B.Magic, cs.A.Diffusion, cs.A.PeerShare, cs.A.Query, cs.B.Diffusion, cs.B.PeerShare, cs.B.Query)
	c.Count("ref_"+ref.Kind.String(), 1)
	c.Count("ref_"+ref.Kind.String()+"_"+cs.Engine+"_"+cs.Schedule, 1)
	viol := func(key, what string) {
		c.Violation(key, fmt.Sprintf("%s [engine=%s schedule=%s reference=%s v=%d; initiator: %s; responder: %s]", what, cs.Engine, cs.Schedule, ref.Kind, ref.Version, cli, srv), w)
	}

	// "selected a version": finished with something else than the (0, nil) of a query reply
	cliSel := cli.Finished && !(cli.Version == 0 && cli.Data == nil)
	srvSel := srv.Finished

	// 1. nobody may finish on a version the reference does not give
	if cliSel && srvSel && cli.Version != srv.Version {
		viol("C18:agree:versions-differ", fmt.Sprintf("initiator finished with version %d, responder with %d", cli.Version, srv.Version))
		return
	}
	if cliSel || srvSel {
		who, v := "initiator", cli.Version
		if !cliSel {
			who, v = "responder", srv.Version
		}
		switch ref.Kind {
		case refAccept:
			if v != ref.Version {
				viol("C18:agree:not-highest-common", fmt.Sprintf("%s finished with version %d, the highest common version is %d", who, v, ref.Version))
				return
			}
		case refMagic:
			viol("C18:agree:magic-mismatch-accepted", fmt.Sprintf("%s finished with version %d although the magics differ (%d vs %d)", who, v, cs.A.Magic, cs.B.Magic))
			return
		case refMismatch:
			viol("C18:agree:no-common-version-accepted", fmt.Sprintf("%s finished with version %d although no version is common", who, v))
			return
		case refQuery:
			viol("C18:query:version-selected", fmt.Sprintf("%s selected version %d in a query-mode handshake", who, v))
			return
		}
	}

	switch ref.Kind {
	case refAccept:
		switch {
		case cliSel && srvSel:
			c.Count("obs_both_finished", 1)
			if cli.Data == nil || cli.Data.NetworkMagic() != cs.B.Magic || srv.Data == nil || srv.Data.NetworkMagic() != cs.A.Magic {
				viol("C18:agree:magic-of-agreed-data", "the version data handed to the endpoints do not carry the peer's magic")
			}
		case cliSel && !srvSel:
			viol("C18:agree:initiator-finished-responder-failed", "the initiator finished but the responder did not")
		case !cliSel && srvSel:
			viol("C18:agree:responder-finished-initiator-failed", "the responder finished but the initiator did not")
		default:
			viol("C18:refuse:common-version-refused", fmt.Sprintf("version %d is common and the magics match, but the handshake failed", ref.Version))
		}

	case refMismatch, refMagic:
		name := ref.Kind.String()
		if srv.Err == nil {
			viol("C18:refuse:responder-no-error:"+name, "the responder did not report the refusal it had to make")
			return
		}
		var re handshake.RefusalError
		if !errors.As(cli.Err, &re) {
			if cs.Schedule == "natural" {
				c.Count("obs_refusal_lost_"+name, 1)
				viol("C18:refuse:lost:"+name, "the responder refused, but the initiator reports no refusal (the connection went down before the Refuse message was written)")
			} else {
				viol("C18:refuse:not-reported:"+name, "the responder refused and was given time to send, but the initiator reports no refusal")
			}
			return
		}
		c.Count("obs_refusal_reported_"+name, 1)
		if ref.Kind == refMismatch {
			var vm *handshake.VersionMismatchError
			if !errors.As(cli.Err, &vm) {
				viol("C18:refuse:wrong-error-type:"+name, "no common version, but the initiator does not report a VersionMismatchError")
				return
			}
			want := sortedCopy(cs.B.Versions)
			for i := 1; i < len(vm.SupportedVersions); i++ {
				if vm.SupportedVersions[i-1] >= vm.SupportedVersions[i] {
					viol("C18:refuse:mismatch-list-unsorted", fmt.Sprintf("refusal lists %v, not ascending", vm.SupportedVersions))
					return
				}
			}
			if !equalU16(vm.SupportedVersions, want) {
				viol("C18:refuse:mismatch-list-wrong", fmt.Sprintf("refusal lists %v, the responder supports %v", vm.SupportedVersions, want))
				return
			}
			c.Count("obs_mismatch_list_checked", 1)
		} else {
			// any refusal type reports the refusal; which one is coverage only
			c.Count(fmt.Sprintf("obs_magic_refusal_reason_%d", re.ReasonCode()), 1)
		}

	case refQuery:
		if cli.QueryReply == nil {
			if cs.Schedule == "natural" && cli.Err != nil {
				c.Count("obs_query_reply_lost", 1)
				viol("C18:query:reply-lost", "query-mode proposal, but the initiator got no table (the connection went down before the QueryReply message was written)")
			} else {
				viol("C18:query:no-table", "query-mode proposal, but the initiator got no version table")
			}
			return
		}
		if cli.Err != nil || cli.Version != 0 || cli.Data != nil {
			viol("C18:query:version-selected", "query-mode handshake left a version / an error on the initiator")
			return
		}
		want := cs.B.versionMap()
		got := cli.QueryReply
		gk, wk := []uint16{}, []uint16{}
		for k := range got {
			gk = append(gk, k)
		}
		for k := range want {
			wk = append(wk, k)
		}
		gk, wk = sortedCopy(gk), sortedCopy(wk)
		if !equalU16(gk, wk) {
			viol("C18:query:table-versions", fmt.Sprintf("query reply has versions %v, the responder supports %v", gk, wk))
			return
		}
		for _, k := range wk {
			g, x := got[k], want[k]
			if g == nil || g.NetworkMagic() != x.NetworkMagic() || g.DiffusionMode() != x.DiffusionMode() || g.PeerSharing() != x.PeerSharing() || g.Query() != x.Query() {
				viol("C18:query:table-data", fmt.Sprintf("query reply entry %d differs from the responder's table entry", k))
				return
			}
		}
		c.Count("obs_query_table_checked", 1)
	}
}

// ------------------------------------------------------------------ workload

func subsetsOf(vs []uint16) [][]uint16 {
	var out [][]uint16
	for m := 1; m < 1<<len(vs); m++ {
		var s []uint16
		for i, v := range vs {
			if m&(1<<i) != 0 {
				s = append(s, v)
			}
		}
		out = append(out, s)
	}
	return out
}

// window picks up to four versions of a table that straddle its shape change.
func window(tbl string) []uint16 {
	all := tableVersions(tbl)
	var want []uint16
	switch tbl {
	case "ntc":
		want = []uint16{0x800e, 0x800f, 0x8010, 0x8015}
	case "ntn":
		want = []uint16{10, 11, 13, 15}
	default:
		return all
	}
	have := map[uint16]bool{}
	for _, v := range all {
		have[v] = true
	}
	var out []uint16
	for _, v := range want {
		if have[v] {
			out = append(out, v)
		}
	}
	if len(out) < 2 { // table changed: fall back to its last four versions
		out = all
		if len(out) > 4 {
			out = out[len(out)-4:]
		}
	}
	return out
}

func randSubset(r *core.Rand, all []uint16) []uint16 {
	for {
		var s []uint16
		mode := r.Intn(3)
		for _, v := range all {
			switch mode {
			case 0:
				if r.Chance(1, 2) {
					s = append(s, v)
				}
			case 1:
				if r.Chance(1, 5) {
					s = append(s, v)
				}
			default:
				if r.Chance(4, 5) {
					s = append(s, v)
				}
			}
		}
		if len(s) > 0 {
			return s
		}
	}
}

var magicPool = []uint32{1, 2, 42, 764824073, 0x80000000, 0xffffffff}

func flags(r *core.Rand, s *side, queryOdds int) {
	s.Diffusion = r.Bool()
	s.PeerShare = r.Bool()
	s.Query = queryOdds > 0 && r.Chance(1, queryOdds)
}

func buildCases(c *core.Ctx) []caseSpec {
	var cases []caseSpec
	// (1) direct engine, enumerated windows
	r := c.Rand("enum-flags")
	for _, tbl := range []string{"ntc", "ntn", "dmq-ntn", "dmq-ntc"} {
		subs := subsetsOf(window(tbl))
		for _, sa := range subs {
			for _, sb := range subs {
				for _, same := range []bool{true, false} {
					a := side{Table: tbl, Versions: sa, Magic: core.Pick(r, magicPool)}
					b := side{Table: tbl, Versions: sb, Magic: a.Magic}
					for !same && b.Magic == a.Magic {
						b.Magic = core.Pick(r, magicPool)
					}
					flags(r, &a, 10)
					flags(r, &b, 4)
					cases = append(cases, caseSpec{Engine: "direct", Gen: "enum", A: a, B: b})
				}
			}
		}
	}
	// (2) direct engine, PRNG pairs over whole tables
	r = c.Rand("prng-pairs")
	tabs := []string{"ntc", "ntc", "ntc", "ntn", "ntn", "ntn", "dmq-ntn", "dmq-ntc"}
	for i := 0; i < c.N(500, 52000); i++ {
		ta := core.Pick(r, tabs)
		tb := ta
		if r.Chance(1, 10) {
			tb = core.Pick(r, tabs)
		}
		a := side{Table: ta, Versions: randSubset(r, tableVersions(ta)), Magic: core.Pick(r, magicPool)}
		b := side{Table: tb, Versions: randSubset(r, tableVersions(tb)), Magic: a.Magic}
		if r.Chance(1, 3) {
			for b.Magic == a.Magic {
				b.Magic = core.Pick(r, magicPool)
			}
		}
		flags(r, &a, 8)
		flags(r, &b, 4)
		cases = append(cases, caseSpec{Engine: "direct", Gen: "prng", A: a, B: b})
	}
	// (3) NewConnection on both sides: whole tables only
	r = c.Rand("conn")
	modes := []string{"ntc", "ntn", "dmq-ntc"}
	for rep := 0; rep < c.N(5, 150); rep++ {
		for _, ta := range modes {
			for _, tb := range modes {
				for _, same := range []bool{true, false} {
					for _, q := range []bool{false, true} {
						a := side{Table: ta, Versions: tableVersions(ta), Magic: core.Pick(r, magicPool)}
						b := side{Table: tb, Versions: tableVersions(tb), Magic: a.Magic}
						for !same && b.Magic == a.Magic {
							b.Magic = core.Pick(r, magicPool)
						}
						flags(r, &a, 0)
						flags(r, &b, 4)
						a.Query = q
						cases = append(cases, caseSpec{Engine: "conn", Gen: "conn", A: a, B: b})
					}
				}
			}
		}
	}
	// schedules
	var out []caseSpec
	for _, cs := range cases {
		ref := negotiate(cs.A, cs.B)
		if ref.Kind == refAccept {
			cs.Schedule = "natural"
			out = append(out, cs)
			continue
		}
		cs.Schedule = "held"
		out = append(out, cs)
		if cs.Engine == "conn" {
			cs.Schedule = "natural"
			out = append(out, cs)
		}
	}
	return out
}

// runInconclusive makes the whole run inconclusive (more than 2 % of the cases).
func runInconclusive(c *core.Ctx, what string) {
	for i := int64(0); i <= c.Evals()/50+1; i++ {
		c.Inconclusive(what)
	}
}

func run(c *core.Ctx) {
	protocol.VerifSetSink(sink)
	defer protocol.VerifSetSink(nil)
	g0 := runtime.NumGoroutine()
	cases := buildCases(c)
	c.Note("cases_total", len(cases))
	workers := runtime.GOMAXPROCS(0)
	if workers > 16 {
		workers = 16
	}
	c.Parallel("case", len(cases), workers, func(i int, _ *core.Rand) {
		cs := cases[i]
		ref := negotiate(cs.A, cs.B)
		c.Journal("C18 case %d %s/%s %s A=%s%v m=%d B=%s%v m=%d", i, cs.Engine, cs.Schedule, ref.Kind, cs.A.Table, cs.A.Versions, cs.A.Magic, cs.B.Table, cs.B.Versions, cs.B.Magic)
		var cli, srv outcome
		if cs.Engine == "direct" {
			cli, srv = runDirect(c, cs)
		} else {
			cli, srv = runConn(c, cs)
		}
		c.Eval()
		c.Count("gen_"+cs.Gen, 1)
		if i%211 == 0 {
			c.Sample(map[string]any{"case": cs, "reference": ref.Kind.String(), "reference_version": ref.Version,
				"initiator": cli.String(), "responder": srv.String()})
		}
		judge(c, cs, ref, cli, srv)
	})
	c.Count("held_error_events", int(heldEvents.Load()))
	// the property is an either/or: the run must have seen every branch
	for _, k := range []refKind{refAccept, refMismatch, refMagic, refQuery} {
		if c.Counter("ref_"+k.String()) == 0 {
			runInconclusive(c, "no case with reference outcome "+k.String()+" was judged")
		}
	}
	if c.Counter("obs_both_finished") == 0 {
		runInconclusive(c, "no handshake was observed to finish on both sides")
	}
	if c.Counter("obs_mismatch_list_checked") == 0 || c.Counter("obs_query_table_checked") == 0 {
		runInconclusive(c, "no refusal list / query table was observed")
	}
	// goroutine census (coverage only): everything started by the cases should be gone
	n := runtime.NumGoroutine()
	for i := 0; i < 200 && n > g0+8; i++ {
		time.Sleep(10 * time.Millisecond)
		n = runtime.NumGoroutine()
	}
	c.Note("goroutines_before", g0)
	c.Note("goroutines_after", n)
}
