// Package c26 monitors C26: transactions are accepted only inside their
// validity interval.
//
// Observation point: common.VerifyTransaction with the era's complete
// UtxoValidationRules list (the list ledger.VerifyBlock uses), on decoded
// transactions whose body map was written by ledgergen, so the presence and
// value of body key 3 (ttl / invalid-hereafter) and key 8 (validity start) is
// known to the oracle independently of the decoder. Everything else about the
// transaction is valid (the unbounded baseline is checked to be accepted
// first), so an acceptance is an acceptance by "validation" as a whole: an
// upper-bound check living in any differently named rule would be seen too.
//
// Oracle (only the "accepted only if" direction of the statement):
//
//	Shelley : accepted  =>  slot <= ttl
//	Allegra+: accepted  =>  (start absent or start <= slot) and
//	                        (hereafter absent or slot < hereafter)
//
// Presentation is a dimension of the grid: the same bounds are also written
// into bodies whose map keys are not ascending (and, from Mary on, that carry
// keys greater than 8), because nothing in the ledger ties the meaning of key
// 3 / 8 to its position; those cases are judged by the same oracle and keyed
// C26:presentation:body-<order>:<era>:<class>. In addition lg.EnableChecks
// re-validates every case and re-runs rejected cases in other presentations.
//
// In-interval cases are observed as well (counted; an era that never accepts
// one makes the run inconclusive) but a rejection there is not a violation:
// the statement does not promise acceptance.
package c26

import (
	"fmt"
	"math"
	"sort"
	"strings"
	"sync"

	"verifharness/core"
	lg "verifharness/ledgergen"
)

func init() {
	core.Register(&core.Monitor{
		ID:            "C26",
		Rule:          "exhaustive grid: era (Shelley..Dijkstra) x slot s in {0,1,2,1000,2^32,2^32+1,2^64-2,2^64-1} x validity start x ttl/invalid-hereafter, each bound in {absent,0,1,s-1,s,s+1,2^32,2^64-1} (Shelley: ttl only) x body layout (plain payment ascending; Mary+: body that also has keys above 8 - mint, required signers, network id - ascending, descending, key 3 last, key 8 last, PRNG shuffle; Shelley/Allegra: descending, key 3 last, shuffle); every case is validated three times on the same objects and, when rejected, re-run in the generic presentation variants (body / witness-set key order); thorough adds PRNG slots/bounds near each other; a case is non-trivial when at least one bound is present in the body map; distinct by (era, slot, start, ttl, layout)",
		MinNontrivial: 5000,
		Assumptions: []string{
			"the baseline payment built by ledgergen is valid in every other respect (checked at start: the unbounded transaction is accepted by the full rule list)",
			"Shelley transactions without a ttl are not judged (ttl is mandatory in the Shelley CDDL; the statement does not cover them)",
		},
		Run: run,
	})
}

// bound is an optional slot number: present=false means the key is absent
// from the body map.
type bound struct {
	present bool
	v       uint64
}

func (b bound) String() string {
	if !b.present {
		return "absent"
	}
	return fmt.Sprintf("%d", b.v)
}

func (b bound) ptr() *uint64 {
	if !b.present {
		return nil
	}
	v := b.v
	return &v
}

type tcase struct {
	era        lg.Era
	slot       uint64
	start, ttl bound
	// layout is the presentation of the body: "" = the plain payment, keys
	// ascending; "rich" = a body that also carries keys above 8 (mint, and
	// from Alonzo on required signers and network id), ascending; otherwise
	// the name of a non-canonical key order of the rich (Shelley/Allegra:
	// plain) body: "desc", "last-3", "last-8", "shuffle".
	layout string
}

// layouts lists the non-plain layouts of an era.
func layouts(e lg.Era) []string {
	switch {
	case e == lg.Shelley:
		return []string{"desc", "shuffle"} // keys 0..3: ttl is the largest key
	case e == lg.Allegra:
		return []string{"desc", "last-3", "shuffle"}
	}
	return []string{"rich", "desc", "last-3", "last-8", "shuffle"}
}

// keyPrefix is "C26:" for canonical layouts and
// "C26:presentation:body-<order>:" for the others.
func (t tcase) keyPrefix() string {
	if t.layout == "" || t.layout == "rich" {
		return "C26:"
	}
	return "C26:presentation:body-" + t.layout + ":"
}

// dress turns the plain baseline into the layout of the case.
func dress(w *lg.World, spec *lg.TxSpec, layout string, shuffleSeed uint64) {
	if layout == "" {
		return
	}
	if w.Era >= lg.Mary {
		script := lg.NativeSig(w.Payer.Hash())
		policy := lg.ScriptHash(0, script.Encode())
		spec.NativeScripts = append(spec.NativeScripts, script)
		spec.Mint = []lg.Asset{lg.Tok(policy, "T", 1)}
		spec.Outputs[0].Assets = []lg.Asset{lg.Tok(policy, "T", 1)}
	}
	if w.Era >= lg.Alonzo {
		spec.RequiredSigners = []lg.Hash28{w.Payer.Hash()}
		spec.NetworkID = lg.U8(w.Net)
	}
	switch layout {
	case "desc":
		spec.BodyOrder = lg.Descending()
	case "last-3":
		spec.BodyOrder = lg.KeyLast(3)
	case "last-8":
		spec.BodyOrder = lg.KeyLast(8)
	case "shuffle":
		spec.BodyOrder = lg.Shuffled(shuffleSeed)
	}
}

// boundsFor returns the de-duplicated bound set around slot s.
func boundsFor(s uint64) []bound {
	vals := []uint64{0, 1, s, 1 << 32, math.MaxUint64}
	if s > 0 {
		vals = append(vals, s-1)
	}
	if s < math.MaxUint64 {
		vals = append(vals, s+1)
	}
	sort.Slice(vals, func(i, j int) bool { return vals[i] < vals[j] })
	out := []bound{{}}
	for i, v := range vals {
		if i > 0 && vals[i-1] == v {
			continue
		}
		out = append(out, bound{true, v})
	}
	return out
}

// inInterval is the reference predicate written from the statement.
// judged=false: the statement says nothing about the case.
func inInterval(e lg.Era, slot uint64, start, ttl bound) (in bool, judged bool) {
	if e == lg.Shelley {
		if !ttl.present {
			return false, false
		}
		return slot <= ttl.v, true
	}
	lowerOK := !start.present || start.v <= slot
	upperOK := !ttl.present || slot < ttl.v
	return lowerOK && upperOK, true
}

func run(c *core.Ctx) {
	// generic checks: re-validation of the same objects, and presentation
	// variants of every case that validation rejects (see lg.Independence)
	lg.EnableChecks(c)
	worlds := map[lg.Era]*lg.World{}
	for _, e := range lg.AllEras {
		w := lg.NewWorld(e)
		worlds[e] = w
		// pre-flight: the unbounded baseline must be accepted, otherwise no
		// acceptance / rejection below can be attributed to the interval.
		pre := w.Spec
		if e == lg.Shelley {
			// ttl is mandatory in Shelley: the baseline carries one far in the future
			pre = w.Spec.Clone()
			far := ^uint64(0)
			pre.TTL = &far
		}
		o := w.Run(pre, w.Slot)
		if !o.Accepted {
			forceInconclusive(c, fmt.Sprintf("%s: unbounded baseline transaction not accepted (decode=%v verify=%v): cannot judge", e, o.DecodeErr, o.VerifyErr))
			return
		}
		if e >= lg.Mary {
			rich := pre.Clone()
			dress(w, rich, "rich", 0)
			if o := w.Run(rich, w.Slot); !o.Accepted {
				forceInconclusive(c, fmt.Sprintf("%s: unbounded baseline with mint / required signers / network id not accepted (decode=%v verify=%v): cannot judge", e, o.DecodeErr, o.VerifyErr))
				return
			}
		}
		// document how the interval rules are wired into the era's list
		var wired []string
		for _, n := range lg.RuleNames(e) {
			l := strings.ToLower(n)
			if strings.Contains(l, "validity") || strings.Contains(l, "timetolive") || strings.Contains(l, "expired") || strings.Contains(l, "ttl") {
				wired = append(wired, n)
			}
		}
		c.Note("interval_rules_in_list_"+e.String(), strings.Join(wired, ","))
	}

	slots := []uint64{0, 1, 2, 1000, 1 << 32, 1<<32 + 1, math.MaxUint64 - 1, math.MaxUint64}
	var cases []tcase
	for _, e := range lg.AllEras {
		for _, s := range slots {
			bs := boundsFor(s)
			starts := bs
			if !e.HasValidityStart() {
				starts = []bound{{}}
			}
			for _, st := range starts {
				for _, tt := range bs {
					cases = append(cases, tcase{e, s, st, tt, ""})
					// the same bound case in every other layout of the body map
					for _, l := range layouts(e) {
						cases = append(cases, tcase{e, s, st, tt, l})
					}
				}
			}
		}
	}
	gridN := len(cases)
	if c.Thorough() {
		r := c.Rand("random-grid")
		pick := func(near uint64) bound {
			switch r.Intn(6) {
			case 0:
				return bound{}
			case 1:
				return bound{true, r.Uint64()}
			case 2:
				return bound{true, near}
			case 3:
				return bound{true, near + uint64(r.Intn(3))}
			case 4:
				return bound{true, near - uint64(r.Intn(3))}
			}
			return bound{true, uint64(r.Intn(1 << 20))}
		}
		for i := 0; i < 60000; i++ {
			e := core.Pick(r, lg.AllEras)
			var s uint64
			switch r.Intn(3) {
			case 0:
				s = uint64(r.Intn(1 << 20))
			case 1:
				s = r.Uint64()
			default:
				s = 1<<32 - 2 + uint64(r.Intn(5))
			}
			st := pick(s)
			if !e.HasValidityStart() {
				st = bound{}
			}
			lay := ""
			if ls := layouts(e); r.Chance(2, 3) {
				lay = core.Pick(r, ls)
			}
			cases = append(cases, tcase{e, s, st, pick(s), lay})
		}
	}

	var mu sync.Mutex
	var offending []offence
	c.Parallel("case", len(cases), 0, func(i int, _ *core.Rand) {
		tc := cases[i]
		w := worlds[tc.era]
		spec := w.Spec.Clone()
		spec.ValidityStart = tc.start.ptr()
		spec.TTL = tc.ttl.ptr()
		dress(w, spec, tc.layout, uint64(c.Seed)+uint64(i)*0x9e3779b97f4a7c15)
		desc := fmt.Sprintf("era=%s slot=%d start=%s ttl=%s layout=%s", tc.era, tc.slot, tc.start, tc.ttl, tc.layout)
		c.Journal("C26 case %d %s", i, desc)
		o := w.Run(spec, tc.slot)
		c.Eval()
		if tc.start.present || tc.ttl.present {
			c.Distinct(tc.era.String(), tc.slot, tc.start.String(), tc.ttl.String(), tc.layout)
			c.Count("layout:"+tc.layout, 1)
		}
		en := tc.era.String()
		if o.DecodeErr != nil {
			// the decoder may refuse a shape; that is a rejection
			c.Count("decode_rejected_"+en, 1)
			c.Count("decode_rejected_layout:"+tc.layout, 1)
		}
		in, judged := inInterval(tc.era, tc.slot, tc.start, tc.ttl)
		if !judged {
			c.Count("unjudged_shelley_ttl_absent", 1)
			return
		}
		switch {
		case o.Accepted && in:
			c.Count("in_interval_accepted_"+en, 1)
		case !o.Accepted && in:
			c.Count("in_interval_rejected_"+en, 1)
		case !o.Accepted && !in:
			c.Count("outside_rejected_"+en, 1)
			if o.VerifyErr != nil {
				c.Count("reject_type:"+lg.ErrType(o.VerifyErr), 1)
			}
		}
		if i%211 == 0 {
			c.Sample(map[string]any{"case": desc, "tx": core.HexFull(o.Built.Cbor), "accepted": o.Accepted, "in_interval": in, "error_type": lg.ErrType(o.VerifyErr)})
		}
		if !o.Accepted || in {
			return
		}
		// accepted although outside the interval: collected and classified per
		// era after the grid is complete (see report)
		c.Count("outside_accepted_"+en, 1)
		mu.Lock()
		offending = append(offending, offence{tc, o.Built, singleRuleOutcome(tc.era, o, tc.slot, w)})
		mu.Unlock()
	})
	report(c, offending)
	c.Note("grid_cases", gridN)
	c.Note("slots", fmt.Sprint(slots))
	if !c.Thorough() {
		c.SetExhaustive()
	}
	// both outcomes must have been observed in every era
	for _, e := range lg.AllEras {
		if c.Counter("in_interval_accepted_"+e.String()) == 0 {
			forceInconclusive(c, fmt.Sprintf("%s: no in-interval transaction was accepted; the accept => inside implication was never exercised", e))
		}
		if c.Counter("outside_rejected_"+e.String()) == 0 {
			forceInconclusive(c, fmt.Sprintf("%s: no out-of-interval transaction was rejected", e))
		}
	}
}

// singleRuleOutcome reports what the interval-named rules of the era's list
// say on their own (diagnostic part of the witness).
func singleRuleOutcome(e lg.Era, o lg.Outcome, slot uint64, w *lg.World) map[string]string {
	out := map[string]string{}
	for _, f := range lg.Rules(e) {
		n := lg.RuleName(f)
		l := strings.ToLower(n)
		if strings.Contains(l, "validity") || strings.Contains(l, "timetolive") {
			if err := f(o.Tx, slot, w.State, w.PP()); err != nil {
				out[n] = err.Error()
			} else {
				out[n] = "nil"
			}
		}
	}
	return out
}

// forceInconclusive records a run-level reason why nothing can be concluded.
// The supervisor turns a run inconclusive when more than 2 % of the cases are
// inconclusive, so the reason is recorded often enough to cross that line.
func forceInconclusive(c *core.Ctx, what string) {
	n := int(c.Evals()/50) + 1
	for i := 0; i < n; i++ {
		c.Inconclusive(what)
	}
}

// offence is one transaction that was accepted outside its interval.
type offence struct {
	tc     tcase
	built  *lg.Built
	single map[string]string
}

// report classifies the offending acceptances per era and reports one
// violation per (era, class) with the smallest witness. The classes are chosen
// so that different breaks get different keys:
//
//	shelley:ttl0                 ttl = 0 accepted at a later slot
//	shelley:expired-accepted     ttl > 0 accepted at slot > ttl
//	<era>:lower-bound-ignored    accepted at slot < validity start
//	<era>:hereafter-zero-accepted explicit invalid-hereafter = 0 accepted
//	<era>:upper-bound-ignored    accepted at some slot > invalid-hereafter
//	<era>:upper-bound-inclusive  accepted at slot == invalid-hereafter only
//	                             (the bound is enforced, but with <= for <)
func report(c *core.Ctx, offs []offence) {
	type bucket struct{ offs []offence }
	byKey := map[string]*bucket{}
	add := func(k string, o offence) {
		if byKey[k] == nil {
			byKey[k] = &bucket{}
		}
		byKey[k].offs = append(byKey[k].offs, o)
	}
	beyond := map[string]bool{} // (prefix, era) accepted some slot > hereafter (hereafter > 0)
	for _, o := range offs {
		t := o.tc
		if t.era != lg.Shelley && t.ttl.present && t.ttl.v > 0 && t.slot > t.ttl.v {
			beyond[t.keyPrefix()+t.era.String()] = true
		}
	}
	for _, o := range offs {
		t := o.tc
		en := t.era.String()
		p := t.keyPrefix()
		switch {
		case t.era == lg.Shelley && t.ttl.v == 0:
			add(p+"shelley:ttl0", o)
		case t.era == lg.Shelley:
			add(p+"shelley:expired-accepted", o)
		case t.start.present && t.start.v > t.slot:
			add(p+en+":lower-bound-ignored", o)
		case t.ttl.v == 0:
			add(p+en+":hereafter-zero-accepted", o)
		case beyond[p+en]:
			add(p+en+":upper-bound-ignored", o)
		default:
			add(p+en+":upper-bound-inclusive", o)
		}
	}
	var keys []string
	for k := range byKey {
		keys = append(keys, k)
	}
	sort.Strings(keys)
	for _, k := range keys {
		os := byKey[k].offs
		// smallest witness: fewest bounds present, then smallest numbers
		sort.Slice(os, func(i, j int) bool {
			a, b := os[i].tc, os[j].tc
			pa, pb := 0, 0
			for _, x := range []bound{a.start, a.ttl} {
				if x.present {
					pa++
				}
			}
			for _, x := range []bound{b.start, b.ttl} {
				if x.present {
					pb++
				}
			}
			if pa != pb {
				return pa < pb
			}
			if (a.layout == "") != (b.layout == "") {
				return a.layout == ""
			}
			if a.slot != b.slot {
				return a.slot < b.slot
			}
			if a.ttl.v != b.ttl.v {
				return a.ttl.v > b.ttl.v // the bound closest below the slot
			}
			return a.start.v < b.start.v
		})
		o := os[0]
		t := o.tc
		en := t.era.String()
		var what string
		switch {
		case strings.HasSuffix(k, ":ttl0"):
			what = fmt.Sprintf("Shelley transaction with ttl=0 accepted at slot %d (> ttl)", t.slot)
		case strings.HasSuffix(k, ":expired-accepted"):
			what = fmt.Sprintf("Shelley transaction with ttl=%d accepted at slot %d (> ttl)", t.ttl.v, t.slot)
		case strings.HasSuffix(k, ":lower-bound-ignored"):
			what = fmt.Sprintf("%s transaction with validity start %d accepted at earlier slot %d", en, t.start.v, t.slot)
		case strings.HasSuffix(k, ":hereafter-zero-accepted"):
			what = fmt.Sprintf("%s transaction with explicit invalid-hereafter=0 (never valid) accepted at slot %d", en, t.slot)
		case strings.HasSuffix(k, ":upper-bound-inclusive"):
			what = fmt.Sprintf("%s transaction with invalid-hereafter=%d accepted at slot %d == bound (later slots are rejected: the bound is treated as inclusive)", en, t.ttl.v, t.slot)
		default:
			what = fmt.Sprintf("%s transaction with invalid-hereafter=%d accepted at slot %d (>= bound; slots beyond the bound are accepted as well)", en, t.ttl.v, t.slot)
		}
		if t.layout != "" {
			what += fmt.Sprintf(" [body layout %q: %s]", t.layout, o.built.Node.Items[0].Diag())
		}
		c.Violation(k, fmt.Sprintf("%s; VerifyTransaction with the era's full rule list returned nil (%d such acceptances)", what, len(os)), map[string]any{
			"era": en, "slot": t.slot, "validity_start": t.start.String(), "ttl_or_invalid_hereafter": t.ttl.String(),
			"body_layout": t.layout, "body_diag": o.built.Node.Items[0].Diag(),
			"tx_cbor": core.HexFull(o.built.Cbor), "tx_id": fmt.Sprintf("%x", o.built.TxId[:]),
			"interval_rules_alone": o.single, "rule_list": lg.RuleNames(t.era), "acceptances_in_this_class": len(os),
		})
	}
}
