// Package c38 monitors C38: VRF proofs verify exactly when they are genuine.
//
// Relational oracle: Prove(sk, m) = (pi, beta) => VerifyAndHash(pk, pi, m) ==
// beta and Verify(pk, pi, beta, m); every single-bit flip of the 80-byte proof
// and of the public key, message changes, a flipped output, a non-canonical
// response scalar (s + kL) and small-order public keys must fail.
//
// For the small-order keys and the "challenge compared only partially" class
// a random proof is rejected for trivial reasons, so the monitor forges proofs
// that satisfy the verification equations (possible exactly because the key
// has small order / because only the first challenge byte is made to agree).
// That needs the hash-to-curve point H, computed here by an independent
// Elligator2 implementation over math/big (ref.go); the reference verifier
// built on it is self-checked against every genuine proof.
package c38

import (
	"bytes"
	"fmt"
	"math/big"

	"github.com/blinklabs-io/gouroboros/vrf"

	"verifharness/core"
)

func init() {
	core.Register(&core.Monitor{
		ID:            "C38",
		Rule:          "PRNG key seeds and messages (lengths 0..200, the first cases pinned to lengths 0,1,2); per seed: the genuine (pk, proof, msg, output) tuple, all 640 single-bit flips of the proof, all 256 of the public key, sampled message bit flips + truncation/extension/other message, sampled output bit flips, s+kL re-encodings (k=1,2,7,15 while < 2^256), a foreign public key, a forged proof whose challenge agrees with the recomputed one in the first byte only, and forged proofs satisfying the verification equations under each of the 14 encodings of the 8 small-order points; then, on one goroutine, per tuple and entry point (VerifyAndHash, Verify) a history genuine -> tampered -> genuine ...: key / proof / message / output bit flips, small-order and random encodings, s+L, foreign key, each both as a fresh copy and written IN PLACE into the backing arrays the genuine call used, arguments compared for modification, buffers overwritten afterwards and the genuine + another statement re-verified from fresh copies; a case is one verification call; distinct by (kind, key/message hash, position, buffer discipline)",
		MinNontrivial: 20000,
		Assumptions: []string{
			"filippo.io/edwards25519 group and scalar arithmetic is correct (used by the reference verifier and the forger)",
			"crypto/sha512 is correct",
			"a single-bit change of a canonical point/scalar encoding never denotes the same group element (true: 2^k != 0 mod p, mod L)",
		},
		QuickTimeout: 600,
		Run:          run,
	})
}

func hashToCurveKey(b ...[]byte) string {
	h := uint64(1469598103934665603)
	for _, x := range b {
		for _, c := range x {
			h ^= uint64(c)
			h *= 1099511628211
		}
		h ^= 0xff
		h *= 1099511628211
	}
	return fmt.Sprintf("%016x", h)
}

type tuple struct {
	seed, pk, sk, msg, proof, out []byte
}

func (t *tuple) witness(extra map[string]any) map[string]any {
	w := map[string]any{
		"key_seed": core.HexFull(t.seed),
		"pk":       core.HexFull(t.pk),
		"msg":      core.HexFull(t.msg),
		"proof":    core.HexFull(t.proof),
		"output":   core.HexFull(t.out),
	}
	for k, v := range extra {
		w[k] = v
	}
	return w
}

// mustFail runs VerifyAndHash on a non-genuine input and reports acceptance.
func mustFail(c *core.Ctx, t *tuple, kind, key string, pk, proof, msg []byte, extra map[string]any) {
	var out []byte
	var err error
	p, val, stack := core.Safely(func() { out, err = vrf.VerifyAndHash(pk, proof, msg) })
	c.Eval()
	c.Count("neg_"+kind, 1)
	if p {
		c.Violation("C38:VerifyAndHash:panic:"+kind, fmt.Sprintf("VerifyAndHash panicked on a %s input: %v", kind, val),
			t.witness(merge(extra, map[string]any{"used_pk": core.HexFull(pk), "used_proof": core.HexFull(proof), "used_msg": core.HexFull(msg), "stack": stack})))
		return
	}
	if err == nil {
		c.Count("neg_accepted", 1)
		c.Violation(key, fmt.Sprintf("VerifyAndHash accepted a non-genuine input (%s) and returned output %x", kind, out),
			t.witness(merge(extra, map[string]any{"used_pk": core.HexFull(pk), "used_proof": core.HexFull(proof), "used_msg": core.HexFull(msg)})))
		return
	}
	c.Count("rejects", 1)
}

func merge(a, b map[string]any) map[string]any {
	o := map[string]any{}
	for k, v := range a {
		o[k] = v
	}
	for k, v := range b {
		o[k] = v
	}
	return o
}

func flip(b []byte, bit int) []byte {
	o := append([]byte(nil), b...)
	o[bit/8] ^= 1 << (bit % 8)
	return o
}

func proofPart(bit int) string {
	switch {
	case bit < 256:
		return "gamma"
	case bit < 384:
		return "c"
	default:
		return "s"
	}
}

func run(c *core.Ctx) {
	n := c.N(160, 3000)
	smallOrder := smallOrderEncodings()
	c.Note("small_order_encodings", len(smallOrder))
	c.Parallel("seed", n, 0, func(i int, r *core.Rand) {
		t := &tuple{seed: r.Bytes(32)}
		mlen := r.Range(0, 200)
		if i < 3 {
			mlen = i
		}
		t.msg = r.Bytes(mlen)
		c.Journal("C38 seed %d keyseed=%x msglen=%d", i, t.seed, mlen)

		var err error
		if p, val, stack := core.Safely(func() { t.pk, t.sk, err = vrf.KeyGen(t.seed) }); p || err != nil {
			c.Eval()
			c.Violation("C38:KeyGen:failed", fmt.Sprintf("KeyGen failed on a 32-byte seed: err=%v panic=%v", err, val), map[string]any{"key_seed": core.HexFull(t.seed), "stack": stack})
			return
		}
		if p, val, stack := core.Safely(func() { t.proof, t.out, err = vrf.Prove(t.sk, t.msg) }); p || err != nil {
			c.Eval()
			c.Violation("C38:Prove:failed", fmt.Sprintf("Prove failed: err=%v panic=%v", err, val), map[string]any{"key_seed": core.HexFull(t.seed), "msg": core.HexFull(t.msg), "stack": stack})
			return
		}
		if len(t.proof) != vrf.ProofSize || len(t.out) != vrf.OutputSize || len(t.pk) != vrf.PublicKeySize {
			c.Eval()
			c.Violation("C38:Prove:sizes", fmt.Sprintf("Prove/KeyGen returned sizes pk=%d proof=%d output=%d", len(t.pk), len(t.proof), len(t.out)), t.witness(nil))
			return
		}
		kh := hashToCurveKey(t.pk, t.msg)

		// ---- genuine tuple verifies and yields the proving output
		var got []byte
		p, val, stack := core.Safely(func() { got, err = vrf.VerifyAndHash(t.pk, t.proof, t.msg) })
		c.Eval()
		c.Distinct("genuine", kh)
		switch {
		case p:
			c.Violation("C38:VerifyAndHash:panic:genuine", fmt.Sprintf("VerifyAndHash panicked on a genuine proof: %v", val), t.witness(map[string]any{"stack": stack}))
			return
		case err != nil:
			c.Violation("C38:VerifyAndHash:genuine-rejected", "a proof produced by Prove was rejected under the matching public key: "+err.Error(), t.witness(nil))
			return
		case !bytes.Equal(got, t.out):
			c.Violation("C38:VerifyAndHash:output-mismatch", fmt.Sprintf("VerifyAndHash returned %x, Prove returned %x", got, t.out), t.witness(nil))
			return
		}
		c.Count("accepts", 1)
		var ok bool
		p, val, _ = core.Safely(func() { ok, err = vrf.Verify(t.pk, t.proof, t.out, t.msg) })
		c.Eval()
		if p || err != nil || !ok {
			c.Violation("C38:Verify:genuine-false", fmt.Sprintf("Verify(pk, proof, output, msg) = %v, err=%v panic=%v on a genuine tuple", ok, err, val), t.witness(nil))
			return
		}
		c.Count("accepts", 1)
		if i%9 == 0 {
			c.Sample(map[string]any{"key_seed": core.HexFull(t.seed), "msg_len": len(t.msg), "proof": core.HexFull(t.proof)})
		}

		// ---- oracle self-check: the reference verifier accepts the genuine proof
		refOK := refVerify(t.pk, t.proof, t.msg)
		if !refOK {
			c.Inconclusive(fmt.Sprintf("seed %d: reference ECVRF verifier (independent Elligator2) rejects the library's genuine proof; forged-proof classes skipped", i))
			c.Count("reference_disagrees", 1)
		} else {
			c.Count("reference_agrees", 1)
		}

		// ---- proof: all 640 single-bit flips
		for bit := 0; bit < 8*vrf.ProofSize; bit++ {
			part := proofPart(bit)
			c.Distinct("proofbit", kh, bit)
			mustFail(c, t, "proof-bitflip-"+part, "C38:VerifyAndHash:proof-bitflip:"+part, t.pk, flip(t.proof, bit), t.msg, map[string]any{"flipped_bit": bit})
		}
		// ---- public key: all 256 single-bit flips
		for bit := 0; bit < 8*vrf.PublicKeySize; bit++ {
			c.Distinct("pkbit", kh, bit)
			mustFail(c, t, "pk-bitflip", "C38:VerifyAndHash:pk-bitflip", flip(t.pk, bit), t.proof, t.msg, map[string]any{"flipped_bit": bit})
		}
		// ---- message
		if len(t.msg) > 0 {
			nb := 8 * len(t.msg)
			var bits []int
			if nb <= 24 {
				for b := 0; b < nb; b++ {
					bits = append(bits, b)
				}
			} else {
				bits = append(bits, 0, nb-1)
				for k := 0; k < 14; k++ {
					bits = append(bits, r.Intn(nb))
				}
			}
			for _, b := range bits {
				c.Distinct("msgbit", kh, b)
				mustFail(c, t, "msg-bitflip", "C38:VerifyAndHash:message-changed:bitflip", t.pk, t.proof, flip(t.msg, b), map[string]any{"flipped_bit": b})
			}
			c.Distinct("msgtrunc", kh)
			mustFail(c, t, "msg-truncated", "C38:VerifyAndHash:message-changed:truncated", t.pk, t.proof, t.msg[:len(t.msg)-1], nil)
			c.Distinct("msgtrunc0", kh)
			mustFail(c, t, "msg-truncated", "C38:VerifyAndHash:message-changed:truncated", t.pk, t.proof, t.msg[1:], nil)
		}
		for _, b := range []byte{0x00, 0xff} {
			c.Distinct("msgext", kh, b)
			mustFail(c, t, "msg-extended", "C38:VerifyAndHash:message-changed:extended", t.pk, t.proof, append(append([]byte(nil), t.msg...), b), nil)
			mustFail(c, t, "msg-extended", "C38:VerifyAndHash:message-changed:extended", t.pk, t.proof, append([]byte{b}, t.msg...), nil)
		}
		other := r.Bytes(r.Range(0, 200))
		if !bytes.Equal(other, t.msg) {
			c.Distinct("msgother", kh)
			mustFail(c, t, "msg-other", "C38:VerifyAndHash:message-changed:other", t.pk, t.proof, other, nil)
		}
		// ---- output with one bit flipped / wrong length (Verify)
		obits := []int{0, 511}
		for k := 0; k < 10; k++ {
			obits = append(obits, r.Intn(512))
		}
		for _, b := range obits {
			bad := flip(t.out, b)
			var ok bool
			var err error
			p, val, _ := core.Safely(func() { ok, err = vrf.Verify(t.pk, t.proof, bad, t.msg) })
			c.Eval()
			c.Distinct("outbit", kh, b)
			c.Count("neg_output-bitflip", 1)
			if p {
				c.Violation("C38:Verify:panic:output-bitflip", fmt.Sprintf("Verify panicked: %v", val), t.witness(map[string]any{"flipped_bit": b}))
			} else if ok && err == nil {
				c.Violation("C38:Verify:output-bitflip", "Verify returned true for an expected output with one bit flipped", t.witness(map[string]any{"flipped_bit": b, "used_output": core.HexFull(bad)}))
			} else {
				c.Count("rejects", 1)
			}
		}
		for _, bad := range [][]byte{t.out[:63], append(append([]byte(nil), t.out...), 0), {}, t.out[:32]} {
			var ok bool
			var err error
			p, val, _ := core.Safely(func() { ok, err = vrf.Verify(t.pk, t.proof, bad, t.msg) })
			c.Eval()
			c.Distinct("outlen", kh, len(bad))
			c.Count("neg_output-length", 1)
			if p {
				c.Violation("C38:Verify:panic:output-length", fmt.Sprintf("Verify panicked: %v", val), t.witness(map[string]any{"used_output": core.HexFull(bad)}))
			} else if ok && err == nil {
				c.Violation("C38:Verify:output-length", fmt.Sprintf("Verify returned true for an expected output of %d bytes", len(bad)), t.witness(map[string]any{"used_output": core.HexFull(bad)}))
			} else {
				c.Count("rejects", 1)
			}
		}
		// ---- non-canonical response scalar s + kL (< 2^256)
		s := leToInt(t.proof[48:80])
		for _, k := range []int64{1, 2, 7, 15} {
			s2 := new(big.Int).Add(s, new(big.Int).Mul(big.NewInt(k), groupOrder))
			if s2.BitLen() > 256 {
				c.Count("noncanonical_s_overflow_skipped", 1)
				continue
			}
			pr := append([]byte(nil), t.proof...)
			copy(pr[48:80], intToLE(s2, 32))
			c.Distinct("s+kL", kh, k)
			mustFail(c, t, "noncanonical-s", "C38:VerifyAndHash:noncanonical-s", t.pk, pr, t.msg, map[string]any{"k": k})
		}
		// ---- the same proof under another key's public key
		opk, _, err := vrf.KeyGen(r.Bytes(32))
		if err == nil && !bytes.Equal(opk, t.pk) {
			c.Distinct("foreignpk", kh)
			mustFail(c, t, "foreign-pk", "C38:VerifyAndHash:foreign-pk", opk, t.proof, t.msg, nil)
		}
		// ---- wrong proof / key lengths
		for _, pr := range [][]byte{t.proof[:79], append(append([]byte(nil), t.proof...), 0), {}} {
			c.Distinct("prooflen", kh, len(pr))
			mustFail(c, t, "proof-length", "C38:VerifyAndHash:proof-length", t.pk, pr, t.msg, nil)
		}
		for _, pk := range [][]byte{t.pk[:31], append(append([]byte(nil), t.pk...), 0), {}} {
			c.Distinct("pklen", kh, len(pk))
			mustFail(c, t, "pk-length", "C38:VerifyAndHash:pk-length", pk, t.proof, t.msg, nil)
		}

		if !refOK {
			return
		}
		// ---- forged near-miss: recomputed challenge agrees with the encoded
		// one in the first byte only
		if pr, tries := forgeNearMiss(t.pk, t.msg, r, 1); pr != nil {
			c.Count("nearmiss_forged", 1)
			c.Count("nearmiss_tries", tries)
			c.Distinct("nearmiss", kh)
			mustFail(c, t, "near-miss-challenge", "C38:VerifyAndHash:near-miss-challenge", t.pk, pr, t.msg, map[string]any{"agreeing_challenge_bytes": 1})
		} else {
			c.Count("nearmiss_not_found", 1)
		}
		// ---- small-order public keys with proofs that satisfy the equations
		for _, enc := range smallOrder {
			pr, ok := forgeSmallOrder(enc.bytes, t.msg, r)
			if !ok {
				// encoding does not decode to a point with this library: must
				// be rejected whatever the proof
				c.Count("small_order_undecodable", 1)
				pr = t.proof
			} else {
				c.Count("small_order_forged", 1)
			}
			c.Distinct("smallorder", enc.name, hashToCurveKey(t.msg))
			mustFail(c, t, "small-order-pk", "C38:VerifyAndHash:small-order-pk", enc.bytes, pr, t.msg, map[string]any{"encoding": enc.name, "forged_valid_equations": ok})
		}
	})
	// single goroutine: genuine -> tampered histories, fresh-copy and in-place buffers
	historyPhase(c)
	if c.Counter("accepts") == 0 {
		c.Inconclusive("no genuine proof was accepted: only one outcome observed")
	}
	if c.Counter("small_order_forged") == 0 || c.Counter("nearmiss_forged") == 0 {
		c.Inconclusive("forger produced no proofs (small-order / near-miss classes not exercised)")
	}
}
