package c38

// History / buffer-discipline phase. Every tamper class is also presented
// right after a successful verification of the genuine statement in the same
// process (any cache or memo is primed), through both entry points, in two
// buffer disciplines:
//
//	fresh-copy: the tampered bytes live in a new slice;
//	in-place:   the SAME backing arrays the genuine call used are mutated
//	            (key, proof, message, expected output), verified, restored.
//
// The verdict must be "reject" every time and the genuine statement must keep
// verifying in between (genuine -> tampered -> genuine -> tampered ...).
// Verification must not modify its arguments, and scribbling over the
// argument buffers after a call must not change later results. The phase runs
// on one goroutine, after the parallel phase, so that a process-wide
// "last key" style memo cannot be displaced by another worker between the
// genuine and the tampered call.

import (
	"bytes"
	"fmt"
	"math/big"

	"github.com/blinklabs-io/gouroboros/vrf"

	"verifharness/core"
)

type hbuf struct {
	pk, proof, msg, out []byte // the buffers handed to the library
	t                   *tuple // pristine copies
}

func (h *hbuf) restore() {
	copy(h.pk, h.t.pk)
	copy(h.proof, h.t.proof)
	copy(h.msg, h.t.msg)
	copy(h.out, h.t.out)
}

type entry struct {
	name string
	// call returns true when the input was ACCEPTED
	call func(pk, proof, out, msg []byte) (accepted bool, panicked bool, pv any)
}

var entries = []entry{
	{"VerifyAndHash", func(pk, proof, out, msg []byte) (bool, bool, any) {
		var err error
		p, pv, _ := core.Safely(func() { _, err = vrf.VerifyAndHash(pk, proof, msg) })
		return err == nil && !p, p, pv
	}},
	{"Verify", func(pk, proof, out, msg []byte) (bool, bool, any) {
		var ok bool
		var err error
		p, pv, _ := core.Safely(func() { ok, err = vrf.Verify(pk, proof, out, msg) })
		return ok && err == nil && !p, p, pv
	}},
}

func historyPhase(c *core.Ctx) {
	n := c.N(24, 300)
	so := smallOrderEncodings()
	var prev *tuple
	for i := 0; i < n; i++ {
		r := c.Rand("history", i)
		t := &tuple{seed: r.Bytes(32)}
		mlen := r.Range(1, 120)
		t.msg = r.Bytes(mlen)
		var err error
		if t.pk, t.sk, err = vrf.KeyGen(t.seed); err != nil {
			continue
		}
		if t.proof, t.out, err = vrf.Prove(t.sk, t.msg); err != nil {
			continue
		}
		c.Journal("C38 history %d keyseed=%x", i, t.seed)
		h := &hbuf{pk: cpb(t.pk), proof: cpb(t.proof), msg: cpb(t.msg), out: cpb(t.out), t: t}
		for _, e := range entries {
			historyOne(c, h, e, r, so, prev, i)
		}
		prev = t
	}
	c.Count("history_tuples", n)
}

func cpb(b []byte) []byte { return append([]byte{}, b...) }

func historyOne(c *core.Ctx, h *hbuf, e entry, r *core.Rand, so []soEnc, prev *tuple, idx int) {
	t := h.t
	kh := hashToCurveKey(t.pk, t.msg)
	genuine := func(where string) bool {
		h.restore()
		ok, p, pv := e.call(h.pk, h.proof, h.out, h.msg)
		c.Eval()
		c.Count("history_genuine", 1)
		if !bytes.Equal(h.pk, t.pk) || !bytes.Equal(h.proof, t.proof) || !bytes.Equal(h.msg, t.msg) || !bytes.Equal(h.out, t.out) {
			c.Violation("C38:"+e.name+":mutates-argument", "verification modified one of its argument buffers", t.witness(map[string]any{"after": where}))
			h.restore()
		}
		if !ok {
			c.Violation("C38:"+e.name+":history:genuine-rejected", fmt.Sprintf("the genuine statement stopped verifying %s (panic=%v %v)", where, p, pv), t.witness(map[string]any{"after": where}))
			return false
		}
		c.Count("accepts", 1)
		return true
	}
	// reject: one tampered presentation; discipline = "in-place" | "fresh-copy"
	reject := func(kind, discipline string, pk, proof, out, msg []byte, extra map[string]any) {
		ok, p, pv := e.call(pk, proof, out, msg)
		c.Eval()
		c.Count("history_"+discipline, 1)
		c.Distinct("history", e.name, kh, kind, discipline, fmt.Sprint(extra))
		if p {
			c.Violation("C38:"+e.name+":panic:after-genuine:"+kind, fmt.Sprintf("panic: %v", pv), t.witness(extra))
			return
		}
		if ok {
			c.Violation("C38:"+e.name+":after-genuine:"+discipline+":"+kind,
				fmt.Sprintf("%s accepted a tampered input (%s, %s) presented right after the genuine statement had verified", e.name, kind, discipline),
				t.witness(merge(extra, map[string]any{"used_pk": core.HexFull(pk), "used_proof": core.HexFull(proof), "used_msg": core.HexFull(msg), "used_output": core.HexFull(out), "entry_point": e.name, "discipline": discipline})))
			return
		}
		c.Count("rejects", 1)
	}
	if !genuine("at the start of the history") {
		return
	}

	// ---- public key
	pkBits := make([]int, 0, 256)
	if e.name == "VerifyAndHash" {
		for b := 0; b < 256; b++ {
			pkBits = append(pkBits, b)
		}
	} else {
		pkBits = append(pkBits, 0, 255)
		for k := 0; k < 62; k++ {
			pkBits = append(pkBits, r.Intn(256))
		}
	}
	for n, b := range pkBits {
		h.pk[b/8] ^= 1 << (b % 8) // same backing array as the genuine call
		reject("pk-bitflip", "in-place", h.pk, h.proof, h.out, h.msg, map[string]any{"flipped_bit": b})
		h.pk[b/8] ^= 1 << (b % 8)
		if n%4 == 3 || n < 8 {
			if !genuine("after an in-place public-key flip was restored") {
				return
			}
		}
		if n%8 == 0 {
			reject("pk-bitflip", "fresh-copy", flip(t.pk, b), h.proof, h.out, h.msg, map[string]any{"flipped_bit": b})
		}
	}
	// small-order / invalid encodings written into the key buffer
	for _, enc := range so {
		copy(h.pk, enc.bytes)
		reject("small-order-pk", "in-place", h.pk, h.proof, h.out, h.msg, map[string]any{"encoding": enc.name})
		h.restore()
	}
	if !genuine("after small-order encodings were written into the key buffer") {
		return
	}
	for j := 0; j < 4; j++ {
		copy(h.pk, r.Bytes(32))
		reject("pk-random", "in-place", h.pk, h.proof, h.out, h.msg, nil)
		h.restore()
	}
	if prev != nil {
		copy(h.pk, prev.pk)
		reject("foreign-pk", "in-place", h.pk, h.proof, h.out, h.msg, nil)
		h.restore()
	}
	// ---- proof
	if !genuine("before the proof flips") {
		return
	}
	pbits := []int{0, 255, 256, 383, 384, 639}
	for k := 0; k < 120; k++ {
		pbits = append(pbits, r.Intn(640))
	}
	for n, b := range pbits {
		h.proof[b/8] ^= 1 << (b % 8)
		reject("proof-bitflip-"+proofPart(b), "in-place", h.pk, h.proof, h.out, h.msg, map[string]any{"flipped_bit": b})
		h.proof[b/8] ^= 1 << (b % 8)
		if n%8 == 7 {
			if !genuine("after an in-place proof flip was restored") {
				return
			}
			reject("proof-bitflip-"+proofPart(b), "fresh-copy", h.pk, flip(t.proof, b), h.out, h.msg, map[string]any{"flipped_bit": b})
		}
	}
	if s2 := new(big.Int).Add(leToInt(t.proof[48:80]), groupOrder); s2.BitLen() <= 256 {
		copy(h.proof[48:80], intToLE(s2, 32))
		reject("noncanonical-s", "in-place", h.pk, h.proof, h.out, h.msg, nil)
		h.restore()
	}
	// ---- message
	if !genuine("before the message flips") {
		return
	}
	nb := 8 * len(t.msg)
	for k := 0; k < 12; k++ {
		b := r.Intn(nb)
		if k == 0 {
			b = nb - 1
		}
		h.msg[b/8] ^= 1 << (b % 8)
		reject("msg-bitflip", "in-place", h.pk, h.proof, h.out, h.msg, map[string]any{"flipped_bit": b})
		h.msg[b/8] ^= 1 << (b % 8)
		if k%4 == 3 {
			if !genuine("after an in-place message flip was restored") {
				return
			}
			reject("msg-bitflip", "fresh-copy", h.pk, h.proof, h.out, flip(t.msg, b), map[string]any{"flipped_bit": b})
		}
	}
	reject("msg-truncated", "in-place", h.pk, h.proof, h.out, h.msg[:len(h.msg)-1], nil) // same array, shorter view
	// ---- expected output (Verify only)
	if e.name == "Verify" {
		if !genuine("before the output flips") {
			return
		}
		for k := 0; k < 12; k++ {
			b := r.Intn(512)
			if k == 0 {
				b = 511
			}
			h.out[b/8] ^= 1 << (b % 8)
			reject("output-bitflip", "in-place", h.pk, h.proof, h.out, h.msg, map[string]any{"flipped_bit": b})
			h.out[b/8] ^= 1 << (b % 8)
		}
	}
	// ---- retention: scribble over every buffer the library has seen, then
	// the genuine statement (fresh copies) and another statement still verify,
	// and the scribbled buffers are rejected
	if !genuine("before the buffers are overwritten") {
		return
	}
	copy(h.pk, r.Bytes(32))
	copy(h.proof, r.Bytes(80))
	copy(h.msg, r.Bytes(len(h.msg)))
	copy(h.out, r.Bytes(64))
	reject("overwritten-buffers", "in-place", h.pk, h.proof, h.out, h.msg, nil)
	ok, p, pv := e.call(cpb(t.pk), cpb(t.proof), cpb(t.out), cpb(t.msg))
	c.Eval()
	if !ok {
		c.Violation("C38:"+e.name+":history:genuine-rejected", fmt.Sprintf("after the earlier argument buffers were overwritten the genuine statement (fresh copies) no longer verifies (panic=%v %v)", p, pv), t.witness(map[string]any{"after": "buffers overwritten"}))
	} else {
		c.Count("accepts", 1)
	}
	if prev != nil {
		ok, _, _ := e.call(cpb(prev.pk), cpb(prev.proof), cpb(prev.out), cpb(prev.msg))
		c.Eval()
		if !ok {
			c.Violation("C38:"+e.name+":history:genuine-rejected", "another genuine statement no longer verifies after this history", prev.witness(map[string]any{"after": "history of another key"}))
		} else {
			c.Count("accepts", 1)
		}
		// and the previous key's proof does not verify under this key's buffers / vice versa
		reject("foreign-proof", "fresh-copy", cpb(t.pk), cpb(prev.proof), cpb(prev.out), cpb(prev.msg), nil)
	}
	h.restore()
}
