package c38

// Independent pieces used by the forger and the reference verifier:
// Elligator2 hash-to-curve of ECVRF-ED25519-SHA512-Elligator2 (draft-03, as in
// libsodium's ge25519_from_uniform) over math/big, the challenge hash, and the
// verification equations on filippo.io/edwards25519 points.

import (
	"bytes"
	"crypto/sha512"
	"math/big"

	"filippo.io/edwards25519"

	"verifharness/core"
)

var (
	fieldP     = new(big.Int).Sub(new(big.Int).Lsh(big.NewInt(1), 255), big.NewInt(19))
	montA      = big.NewInt(486662)
	groupOrder = func() *big.Int {
		l, _ := new(big.Int).SetString("27742317777372353535851937790883648493", 10)
		return l.Add(l, new(big.Int).Lsh(big.NewInt(1), 252))
	}()
)

func leToInt(b []byte) *big.Int {
	be := make([]byte, len(b))
	for i := range b {
		be[len(b)-1-i] = b[i]
	}
	return new(big.Int).SetBytes(be)
}

func intToLE(x *big.Int, n int) []byte {
	be := x.Bytes()
	out := make([]byte, n)
	for i := 0; i < len(be) && i < n; i++ {
		out[i] = be[len(be)-1-i]
	}
	return out
}

func fmod(x *big.Int) *big.Int { return x.Mod(x, fieldP) }

func finv(x *big.Int) *big.Int {
	if x.Sign() == 0 {
		return new(big.Int)
	}
	return new(big.Int).ModInverse(x, fieldP)
}

// refHashToCurve: H = cofactor * Elligator2(SHA512(suite || 0x01 || Y || alpha)[0:32] with bit 255 cleared).
func refHashToCurve(yCanon, alpha []byte) *edwards25519.Point {
	h := sha512.New()
	h.Write([]byte{0x04, 0x01})
	h.Write(yCanon)
	h.Write(alpha)
	rs := h.Sum(nil)[:32]
	rs[31] &= 0x7f
	r := fmod(leToInt(rs))
	// w = -A / (1 + 2 r^2)
	d := new(big.Int).Mul(r, r)
	d.Lsh(d, 1).Add(d, big.NewInt(1))
	fmod(d)
	w := new(big.Int).Mul(new(big.Int).Neg(montA), finv(d))
	fmod(w)
	// e = chi(w^3 + A w^2 + w)
	w2 := fmod(new(big.Int).Mul(w, w))
	w3 := fmod(new(big.Int).Mul(w2, w))
	g := new(big.Int).Add(w3, new(big.Int).Mul(montA, w2))
	g.Add(g, w)
	fmod(g)
	e := new(big.Int).Exp(g, new(big.Int).Rsh(new(big.Int).Sub(fieldP, big.NewInt(1)), 1), fieldP)
	x := new(big.Int).Set(w)
	if e.Cmp(new(big.Int).Sub(fieldP, big.NewInt(1))) == 0 { // non-square: x = -w - A
		x.Neg(w).Sub(x, montA)
		fmod(x)
	}
	// Edwards y = (x-1)/(x+1), x-sign 0
	num := fmod(new(big.Int).Sub(x, big.NewInt(1)))
	den := fmod(new(big.Int).Add(x, big.NewInt(1)))
	y := fmod(new(big.Int).Mul(num, finv(den)))
	p, err := new(edwards25519.Point).SetBytes(intToLE(y, 32))
	if err != nil {
		return nil
	}
	return p.MultByCofactor(p)
}

func challenge(H, G, U, V *edwards25519.Point) []byte {
	h := sha512.New()
	h.Write([]byte{0x04, 0x02})
	h.Write(H.Bytes())
	h.Write(G.Bytes())
	h.Write(U.Bytes())
	h.Write(V.Bytes())
	return h.Sum(nil)[:16]
}

func scalarFrom16(c16 []byte) *edwards25519.Scalar {
	var b [32]byte
	copy(b[:], c16)
	s, err := edwards25519.NewScalar().SetCanonicalBytes(b[:])
	if err != nil {
		panic(err)
	}
	return s
}

func smallScalar(j int) *edwards25519.Scalar {
	var b [32]byte
	b[0] = byte(j)
	s, _ := edwards25519.NewScalar().SetCanonicalBytes(b[:])
	return s
}

func randScalar(r *core.Rand) *edwards25519.Scalar {
	s, _ := edwards25519.NewScalar().SetUniformBytes(r.Bytes(64))
	return s
}

// equations recomputes the challenge of (Gamma, c, s) under Y for alpha.
func equations(Y, H, G *edwards25519.Point, c, s *edwards25519.Scalar) []byte {
	// U = s*B - c*Y ; V = s*H - c*Gamma
	// (c*Y is computed and subtracted; negating c mod L first would be wrong
	// for torsion points, whose order does not divide L)
	U := new(edwards25519.Point).Subtract(new(edwards25519.Point).ScalarBaseMult(s), new(edwards25519.Point).ScalarMult(c, Y))
	sH := new(edwards25519.Point).ScalarMult(s, H)
	cG := new(edwards25519.Point).ScalarMult(c, G)
	V := new(edwards25519.Point).Subtract(sH, cG)
	return challenge(H, G, U, V)
}

func isSmallOrder(P *edwards25519.Point) bool {
	return new(edwards25519.Point).MultByCofactor(P).Equal(edwards25519.NewIdentityPoint()) == 1
}

// refVerify: ECVRF verification from the specification text.
func refVerify(pk, proof, alpha []byte) bool {
	if len(proof) != 80 || len(pk) != 32 {
		return false
	}
	Y, err := new(edwards25519.Point).SetBytes(pk)
	if err != nil || isSmallOrder(Y) {
		return false
	}
	G, err := new(edwards25519.Point).SetBytes(proof[:32])
	if err != nil {
		return false
	}
	s, err := edwards25519.NewScalar().SetCanonicalBytes(proof[48:80])
	if err != nil {
		return false
	}
	H := refHashToCurve(Y.Bytes(), alpha)
	if H == nil {
		return false
	}
	c := scalarFrom16(proof[32:48])
	return bytes.Equal(equations(Y, H, G, c, s), proof[32:48])
}

// forgeNearMiss searches a proof for the genuine key whose recomputed
// challenge agrees with the encoded one in exactly the first nbytes bytes.
func forgeNearMiss(pk, alpha []byte, r *core.Rand, nbytes int) ([]byte, int) {
	Y, err := new(edwards25519.Point).SetBytes(pk)
	if err != nil {
		return nil, 0
	}
	H := refHashToCurve(Y.Bytes(), alpha)
	if H == nil {
		return nil, 0
	}
	G := new(edwards25519.Point).ScalarBaseMult(randScalar(r))
	limit := 40 << (8 * nbytes)
	for try := 1; try <= limit; try++ {
		c16 := r.Bytes(16)
		s := randScalar(r)
		got := equations(Y, H, G, scalarFrom16(c16), s)
		if bytes.Equal(got[:nbytes], c16[:nbytes]) && !bytes.Equal(got, c16) {
			pr := make([]byte, 0, 80)
			pr = append(pr, G.Bytes()...)
			pr = append(pr, c16...)
			pr = append(pr, s.Bytes()...)
			return pr, try
		}
	}
	return nil, limit
}

// forgeSmallOrder builds (Gamma, c, s) satisfying both verification equations
// under the small-order key encoded by enc: with U = k*B - j*Y, V = k*H -
// j*Gamma and s = k the proof verifies whenever c*Y = j*Y and c*Gamma =
// j*Gamma, which happens with probability >= 1/8 per try.
func forgeSmallOrder(enc, alpha []byte, r *core.Rand) ([]byte, bool) {
	Y, err := new(edwards25519.Point).SetBytes(enc)
	if err != nil {
		return nil, false
	}
	H := refHashToCurve(Y.Bytes(), alpha)
	if H == nil {
		return nil, false
	}
	G := edwards25519.NewIdentityPoint()
	if r.Bool() {
		G = new(edwards25519.Point).Set(Y)
	}
	for try := 0; try < 2000; try++ {
		k := randScalar(r)
		j := smallScalar(r.Intn(8))
		jY := new(edwards25519.Point).ScalarMult(j, Y)
		jG := new(edwards25519.Point).ScalarMult(j, G)
		U := new(edwards25519.Point).Subtract(new(edwards25519.Point).ScalarBaseMult(k), jY)
		V := new(edwards25519.Point).Subtract(new(edwards25519.Point).ScalarMult(k, H), jG)
		c16 := challenge(H, G, U, V)
		c := scalarFrom16(c16)
		if new(edwards25519.Point).ScalarMult(c, Y).Equal(jY) != 1 || new(edwards25519.Point).ScalarMult(c, G).Equal(jG) != 1 {
			continue
		}
		// by construction the recomputed challenge equals c16
		if !bytes.Equal(equations(Y, H, G, c, k), c16) {
			continue
		}
		pr := make([]byte, 0, 80)
		pr = append(pr, G.Bytes()...)
		pr = append(pr, c16...)
		pr = append(pr, k.Bytes()...)
		return pr, true
	}
	return nil, false
}

type soEnc struct {
	name  string
	bytes []byte
}

// smallOrderEncodings: every 32-byte string that decodes (possibly
// non-canonically) to one of the 8 points of order dividing 8.
func smallOrderEncodings() []soEnc {
	ys := []struct{ name, hex string }{
		{"y=1(order1)", "0100000000000000000000000000000000000000000000000000000000000000"},
		{"y=p+1(order1,noncanonical)", "eeffffffffffffffffffffffffffffffffffffffffffffffffffffffffffff7f"},
		{"y=p-1(order2)", "ecffffffffffffffffffffffffffffffffffffffffffffffffffffffffffff7f"},
		{"y=0(order4)", "0000000000000000000000000000000000000000000000000000000000000000"},
		{"y=p(order4,noncanonical)", "edffffffffffffffffffffffffffffffffffffffffffffffffffffffffffff7f"},
		{"order8-a", "26e8958fc2b227b045c3f489f2ef98f0d5dfac05d3c63339b13802886d53fc05"},
		{"order8-b", "c7176a703d4dd84fba3c0b760d10670f2a2053fa2c39ccc64ec7fd7792ac037a"},
	}
	var out []soEnc
	for _, y := range ys {
		b := core.MustUnhex(y.hex)
		out = append(out, soEnc{y.name + ",sign0", b})
		b2 := append([]byte(nil), b...)
		b2[31] |= 0x80
		out = append(out, soEnc{y.name + ",sign1", b2})
	}
	// self-check: every decodable one really has small order
	for _, e := range out {
		if P, err := new(edwards25519.Point).SetBytes(e.bytes); err == nil && !isSmallOrder(P) {
			panic("c38: " + e.name + " is not a small-order point")
		}
	}
	return out
}
