//go:build only_c26

package mon

import _ "verifharness/mon/c26"
