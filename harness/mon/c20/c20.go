// Package c20 monitors C20: the supported-version tables are internally
// consistent. Pure, exhaustive assertions over the finite tables exported by
// gouroboros/protocol; the only outside knowledge is the handshake CDDL (which
// version numbers carry which version-data fields) and the era order.
package c20

import (
	"fmt"
	"sort"

	gcbor "github.com/blinklabs-io/gouroboros/cbor"
	"github.com/blinklabs-io/gouroboros/protocol"

	"verifharness/cborx"
	"verifharness/core"
	"verifharness/rawpeer"
)

func init() {
	core.Register(&core.Monitor{
		ID:            "C20",
		Rule:          "exhaustive: every version of the four tables (Cardano NtC, Cardano NtN, DMQ NtC, DMQ NtN) x magic in {0,1,42,764824073,0x80000000,0xffffffff} x diffusion x peer-sharing x query (only the parameters the table's generator takes); one case = one (table, version, parameter tuple) encode/decode round trip, plus one case per list and per version for the membership / ordering / era-prefix assertions; every case is non-trivial; distinct by (kind, table, version, parameters)",
		MinNontrivial: 800,
		Assumptions: []string{
			"handshake CDDL: NtC 9..14 carry the bare magic, NtC >= 15 and DMQ NtC carry [magic, query], NtN 7..10 carry [magic, diffusion], NtN >= 11 and DMQ NtN carry [magic, diffusion, peerSharing, query]",
			"era sequence is Shelley, Allegra, Mary, Alonzo, Babbage, Conway, Dijkstra",
			"version data are encoded the way the handshake messages encode them (cbor.Encode of the VersionData interface value)",
		},
		Run: run,
	})
}

const ntcBit = 0x8000

type table struct {
	name    string
	list    func() []uint16
	gen     func(magic uint32, diffusion, peerSharing, query bool) protocol.ProtocolVersionMap
	hasDiff bool // generator takes diffusion + peer-sharing parameters
}

var tables = []table{
	{"ntc", protocol.GetProtocolVersionsNtC, func(m uint32, d, p, q bool) protocol.ProtocolVersionMap {
		return protocol.GetProtocolVersionMap(protocol.ProtocolModeNodeToClient, m, d, p, q)
	}, true},
	{"ntn", protocol.GetProtocolVersionsNtN, func(m uint32, d, p, q bool) protocol.ProtocolVersionMap {
		return protocol.GetProtocolVersionMap(protocol.ProtocolModeNodeToNode, m, d, p, q)
	}, true},
	{"dmq-ntc", protocol.GetProtocolVersionsDMQNtC, func(m uint32, d, p, q bool) protocol.ProtocolVersionMap {
		return protocol.GetProtocolVersionMapDMQNtC(m, q)
	}, false},
	{"dmq-ntn", protocol.GetProtocolVersionsDMQNtN, func(m uint32, d, p, q bool) protocol.ProtocolVersionMap {
		return protocol.GetProtocolVersionMapDMQNtN(m, d, p, q)
	}, true},
}

// carried says which fields version v of a table carries on the wire (CDDL).
func carried(tbl string, v uint16) (shape rawpeer.Shape, diffusion, peerSharing, query bool) {
	switch tbl {
	case "ntc":
		if v&0x7fff >= 15 {
			return rawpeer.ShapeMagicQ, false, false, true
		}
		return rawpeer.ShapeMagic, false, false, false
	case "ntn":
		if v >= 11 {
			return rawpeer.ShapeNtN4, true, true, true
		}
		return rawpeer.ShapeNtN2, true, false, false
	case "dmq-ntc":
		return rawpeer.ShapeMagicQ, false, false, true
	default:
		return rawpeer.ShapeNtN4, true, true, true
	}
}

func eraFlags(pv protocol.ProtocolVersion) []bool {
	return []bool{pv.EnableShelleyEra, pv.EnableAllegraEra, pv.EnableMaryEra, pv.EnableAlonzoEra,
		pv.EnableBabbageEra, pv.EnableConwayEra, pv.EnableDijkstraEra}
}

func keysOf(m protocol.ProtocolVersionMap) []uint16 {
	var out []uint16
	for k := range m {
		out = append(out, k)
	}
	sort.Slice(out, func(i, j int) bool { return out[i] < out[j] })
	return out
}

func equalU16(a, b []uint16) bool {
	if len(a) != len(b) {
		return false
	}
	for i := range a {
		if a[i] != b[i] {
			return false
		}
	}
	return true
}

var magics = []uint32{0, 1, 42, 764824073, 0x80000000, 0xffffffff}

func run(c *core.Ctx) {
	bools := []bool{false, true}
	for _, t := range tables {
		list := t.list()
		c.Note("versions_"+t.name, fmt.Sprint(list))
		c.Count("versions_"+t.name, len(list))

		// ---- list membership and order
		c.Eval()
		c.Distinct("list", t.name)
		for i, v := range list {
			switch t.name {
			case "ntc":
				if v&ntcBit == 0 {
					c.Violation("C20:list:ntc:foreign-version",
						fmt.Sprintf("GetProtocolVersionsNtC contains %d (%#x), which has no node-to-client bit", v, v),
						map[string]any{"list": list, "version": v})
				}
			case "ntn":
				if v&ntcBit != 0 {
					c.Violation("C20:list:ntn:foreign-version",
						fmt.Sprintf("GetProtocolVersionsNtN contains %d (%#x), which has the node-to-client bit", v, v),
						map[string]any{"list": list, "version": v})
				}
			}
			if i > 0 && list[i-1] >= v {
				c.Violation("C20:list:"+t.name+":not-ascending",
					fmt.Sprintf("version list of table %s is not strictly ascending at index %d: %v", t.name, i, list),
					map[string]any{"list": list})
			}
			c.Eval()
			c.Distinct("decoder", t.name, v)
			if protocol.GetProtocolVersion(v).NewVersionDataFromCborFunc == nil {
				c.Violation("C20:list:"+t.name+":no-decoder",
					fmt.Sprintf("GetProtocolVersion(%d) of listed version has no version-data decoder", v),
					map[string]any{"version": v})
			}
		}
		if len(list) == 0 {
			c.Violation("C20:list:"+t.name+":empty", "version list of table "+t.name+" is empty", nil)
		}

		// ---- era flags: prefix of the era sequence, never shrinking with v
		prevCount, prevV := -1, uint16(0)
		asc := append([]uint16(nil), list...)
		sort.Slice(asc, func(i, j int) bool { return asc[i] < asc[j] })
		for _, v := range asc {
			c.Eval()
			c.Distinct("era", t.name, v)
			fl := eraFlags(protocol.GetProtocolVersion(v))
			n := 0
			for n < len(fl) && fl[n] {
				n++
			}
			for j := n; j < len(fl); j++ {
				if fl[j] {
					c.Violation("C20:era:"+t.name+":not-prefix",
						fmt.Sprintf("version %d enables era #%d but not era #%d (flags %v)", v, j, n, fl),
						map[string]any{"version": v, "flags": fl})
					break
				}
			}
			cnt := 0
			for _, b := range fl {
				if b {
					cnt++
				}
			}
			c.Count(fmt.Sprintf("eras_%s_%d", t.name, cnt), 1)
			if prevCount >= 0 && cnt < prevCount {
				c.Violation("C20:era:"+t.name+":shrinks",
					fmt.Sprintf("version %d enables %d eras, fewer than the %d of the lower version %d", v, cnt, prevCount, prevV),
					map[string]any{"version": v, "flags": fl, "lower_version": prevV})
			}
			prevCount, prevV = cnt, v
		}

		// ---- generated maps: key sets and round trips
		for _, magic := range magics {
			for _, d := range bools {
				for _, p := range bools {
					if !t.hasDiff && (d || p) {
						continue
					}
					for _, q := range bools {
						m := t.gen(magic, d, p, q)
						c.Eval()
						c.Distinct("keys", t.name, magic, d, p, q)
						if ks := keysOf(m); !equalU16(ks, list) {
							c.Violation("C20:list:"+t.name+":keyset-mismatch",
								fmt.Sprintf("table %s: generated map has versions %v, version list is %v", t.name, ks, list),
								map[string]any{"magic": magic, "diffusion": d, "peer_sharing": p, "query": q, "map_keys": ks, "list": list})
						}
						for _, v := range keysOf(m) {
							roundTrip(c, t.name, v, m[v], magic, d, p, q)
						}
					}
				}
			}
		}
	}
	c.SetExhaustive()
}

func roundTrip(c *core.Ctx, tbl string, v uint16, vd protocol.VersionData, magic uint32, d, p, q bool) {
	c.Eval()
	c.Distinct("rt", tbl, v, magic, d, p, q)
	c.Count("roundtrips_"+tbl, 1)
	w := map[string]any{"table": tbl, "version": v, "magic": magic, "diffusion": d, "peer_sharing": p, "query": q}
	shape, hasD, hasP, hasQ := carried(tbl, v)

	var enc []byte
	var err error
	if panicked, val, _ := core.Safely(func() { enc, err = gcbor.Encode(&vd) }); panicked {
		err = fmt.Errorf("panic: %v", val)
	}
	if err != nil || len(enc) == 0 {
		c.Violation("C20:roundtrip:"+tbl+":encode-error",
			fmt.Sprintf("version data generated for version %d does not encode: %v", v, err), w)
		return
	}
	w["encoded"] = core.HexFull(enc)
	// what is on the wire, read independently (coverage only)
	if n, perr := cborx.ParseExact(enc); perr == nil {
		if wire, ok := rawpeer.DecodeVersionData(n, shape); ok && wire.Magic == magic {
			c.Count("wire_shape_as_cddl", 1)
		} else {
			c.Count("wire_shape_other", 1)
		}
	}
	dec := protocol.GetProtocolVersion(v).NewVersionDataFromCborFunc
	if dec == nil {
		c.Violation("C20:roundtrip:"+tbl+":no-decoder",
			fmt.Sprintf("version %d is generated but GetProtocolVersion has no decoder for it", v), w)
		return
	}
	var got protocol.VersionData
	if panicked, val, _ := core.Safely(func() { got, err = dec(enc) }); panicked {
		err = fmt.Errorf("panic: %v", val)
	}
	if err != nil || got == nil {
		c.Violation("C20:roundtrip:"+tbl+":decode-error",
			fmt.Sprintf("version %d: its own decoder rejects the generated data %x: %v", v, enc, err), w)
		return
	}
	if got.NetworkMagic() != magic {
		c.Violation("C20:roundtrip:"+tbl+":magic",
			fmt.Sprintf("version %d: magic %d decodes as %d", v, magic, got.NetworkMagic()), w)
	}
	if hasD {
		c.Count("diffusion_compared", 1)
		if got.DiffusionMode() != d {
			c.Violation("C20:roundtrip:"+tbl+":diffusion",
				fmt.Sprintf("version %d: diffusion mode %v decodes as %v", v, d, got.DiffusionMode()), w)
		}
	}
	if hasP {
		c.Count("peer_sharing_compared", 1)
		if got.PeerSharing() != p {
			c.Violation("C20:roundtrip:"+tbl+":peer-sharing",
				fmt.Sprintf("version %d: peer sharing %v decodes as %v", v, p, got.PeerSharing()), w)
		}
	}
	if hasQ {
		c.Count("query_compared", 1)
		if got.Query() != q {
			c.Violation("C20:roundtrip:"+tbl+":query",
				fmt.Sprintf("version %d: query flag %v decodes as %v", v, q, got.Query()), w)
		}
	}
	if c.SampleN() < 6 && magic == 764824073 && d && p && q && (v == 0x8009 || v == 0x800f || v == 7 || v == 11 || v == 13 || v == 0x1001) {
		c.Sample(map[string]any{"table": tbl, "version": v, "encoded": core.HexFull(enc),
			"decoded": fmt.Sprintf("magic=%d diffusion=%v peerSharing=%v query=%v", got.NetworkMagic(), got.DiffusionMode(), got.PeerSharing(), got.Query())})
	}
}
