//go:build only_c36

package mon

import _ "verifharness/mon/c36"
