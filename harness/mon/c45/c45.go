// Package c45 monitors C45: reward calculation distributes exactly the reward
// pot. Oracle: conservation checked in big.Int on every successful
// CalculateRewards result.
package c45

import (
	"fmt"
	"math/big"
	"sort"

	gcbor "github.com/blinklabs-io/gouroboros/cbor"
	"github.com/blinklabs-io/gouroboros/ledger/common"

	"verifharness/core"
)

// total lovelace supply: no pot or stake can exceed it
const maxSupply = 45_000_000_000_000_000

func init() {
	core.Register(&core.Monitor{
		ID: "C45",
		Rule: "consistent snapshots (PoolStake = sum of the pool's delegator stakes, TotalActiveStake = sum of PoolStake) with 1..50 pools (1-3 frequent), 0..8 delegators per pool, stakes from {0,1,small,10^6..10^12,pot-scale} scaled to stay within the 45*10^15 lovelace supply, " +
			"margins {0,1,1/3,1/20,999/1000,random}, costs {0, 340 ADA, about the pool reward, above it}, owner subsets, unregistered / unknown delegators, pools without parameters, block production none / all by one pool / proportional / random, a0 in {nil,0,3/10,1}; " +
			"reward pots from {1,2,10,10^6..10^14 random, 2^53-1, 2^53, 2^53+1, 2^53+3, 3*10^16, 45*10^15, random above 2^53} (pots above the supply are executed but not judged); every snapshot is evaluated 5 times because Go map iteration order decides which pool receives the rounding adjustment. " +
			"Non-trivial: a successful distribution with >= 2 rewarded pools or a pool with >= 2 delegators; distinct by the written-out snapshot",
		MinNontrivial: 4000,
		Assumptions: []string{
			"legitimate inputs: reward pot and every stake <= 45*10^15 lovelace (total supply), margins within [0,1], TotalActiveStake > 0 consistent with the pool stakes; pots above the supply are run but not judged",
			"a call with TotalActiveStake == 0 or an empty pot documents 'nothing distributed' (pots returned unchanged) and is not a distribution",
			"violations are classed by pot size (<= 10^15 lovelace: every pot a Cardano network can have; <= 2^53: every lovelace amount is exact in float64; > 2^53: not) because the library computes shares in float64",
			"which pool / delegator is hit depends on Go map iteration order inside the library; the violation classes do not",
		},
		Run: run,
	})
}

// ------------------------------------------------------------------ snapshot description

type deleg struct {
	key        int // index => AddrKeyHash
	stake      uint64
	registered int // 0 false, 1 true, 2 absent from the map
	owner      bool
}

type pool struct {
	id        int
	delegs    []deleg
	cost      uint64
	marginN   int64
	marginD   int64
	blocks    uint32
	noParams  bool
	nilDelegs bool // DelegatorStake entry missing although PoolStake > 0
	extraOwn  bool // an owner that does not delegate to the pool
}

type snap struct {
	pot         uint64
	pools       []pool
	totalBlocks uint32
	a0          *big.Rat
}

func (s *snap) describe() map[string]any {
	var ps []map[string]any
	for _, p := range s.pools {
		var ds []string
		for _, d := range p.delegs {
			f := ""
			if d.owner {
				f += " owner"
			}
			switch d.registered {
			case 0:
				f += " unregistered"
			case 2:
				f += " no-registration-entry"
			}
			ds = append(ds, fmt.Sprintf("k%d:%d%s", d.key, d.stake, f))
		}
		m := map[string]any{"pool": p.id, "cost": p.cost, "margin": fmt.Sprintf("%d/%d", p.marginN, p.marginD), "blocks": p.blocks, "delegators": ds}
		if p.noParams {
			m["no_pool_params"] = true
		}
		if p.nilDelegs {
			m["no_delegator_map"] = true
		}
		if p.extraOwn {
			m["extra_non_delegating_owner"] = true
		}
		ps = append(ps, m)
	}
	a0 := "nil"
	if s.a0 != nil {
		a0 = s.a0.RatString()
	}
	return map[string]any{"reward_pot": s.pot, "total_blocks_in_epoch": s.totalBlocks, "a0": a0, "pools": ps}
}

func poolHash(i int) common.PoolKeyHash {
	var h common.PoolKeyHash
	h[0] = byte(i >> 8)
	h[1] = byte(i)
	h[27] = 0xaa
	return h
}

func keyHash(i int) common.AddrKeyHash {
	var h common.AddrKeyHash
	h[0] = byte(i >> 16)
	h[1] = byte(i >> 8)
	h[2] = byte(i)
	h[27] = 0xbb
	return h
}

func (p *pool) stake() uint64 {
	var t uint64
	for _, d := range p.delegs {
		t += d.stake
	}
	return t
}

func (s *snap) build() (common.AdaPots, common.RewardSnapshot, common.RewardParameters) {
	sn := common.RewardSnapshot{
		PoolStake:          map[common.PoolKeyHash]uint64{},
		DelegatorStake:     map[common.PoolKeyHash]map[common.AddrKeyHash]uint64{},
		PoolParams:         map[common.PoolKeyHash]*common.PoolRegistrationCertificate{},
		StakeRegistrations: map[common.AddrKeyHash]bool{},
		PoolBlocks:         map[common.PoolKeyHash]uint32{},
		TotalBlocksInEpoch: s.totalBlocks,
	}
	for _, p := range s.pools {
		ph := poolHash(p.id)
		st := p.stake()
		sn.PoolStake[ph] = st
		sn.TotalActiveStake += st
		if !p.nilDelegs {
			m := map[common.AddrKeyHash]uint64{}
			for _, d := range p.delegs {
				m[keyHash(d.key)] = d.stake
			}
			sn.DelegatorStake[ph] = m
		}
		for _, d := range p.delegs {
			switch d.registered {
			case 0:
				sn.StakeRegistrations[keyHash(d.key)] = false
			case 1:
				sn.StakeRegistrations[keyHash(d.key)] = true
			}
		}
		if p.blocks > 0 {
			sn.PoolBlocks[ph] = p.blocks
		}
		if !p.noParams {
			cert := &common.PoolRegistrationCertificate{
				Operator: ph,
				Cost:     p.cost,
				Margin:   gcbor.Rat{Rat: big.NewRat(p.marginN, p.marginD)},
			}
			for _, d := range p.delegs {
				if d.owner {
					cert.PoolOwners = append(cert.PoolOwners, keyHash(d.key))
				}
			}
			if p.extraOwn {
				cert.PoolOwners = append(cert.PoolOwners, keyHash(900000+p.id))
			}
			sn.PoolParams[ph] = cert
		}
	}
	pots := common.AdaPots{Reserves: 10_000_000_000_000_000, Treasury: 1_000_000_000_000_000, Rewards: s.pot}
	params := common.RewardParameters{PoolInfluence: s.a0}
	return pots, sn, params
}

// ------------------------------------------------------------------ generator

const two53 = uint64(1) << 53

func genPot(r *core.Rand) uint64 {
	switch r.Intn(24) {
	case 0:
		return 1
	case 1:
		return 2
	case 2:
		return 10
	case 3:
		return two53 - 1
	case 4:
		return two53
	case 5:
		return two53 + 1
	case 6:
		return two53 + 3
	case 7:
		return 30_000_000_000_000_000
	case 8:
		return maxSupply
	case 9, 10:
		return two53 + 1 + r.Uint64()%(maxSupply-two53)
	case 11:
		return uint64(1)<<63 - 1 // above the supply: not judged
	case 12:
		return ^uint64(0) // above the supply: not judged
	case 13:
		return uint64(r.Range(1, 1000))
	case 14:
		return two53 - uint64(r.Range(1, 1000))
	case 15:
		return 1<<52 + r.Uint64()%(1<<52)
	case 16:
		return 1_000_000_000_000_000 - uint64(r.Intn(1000))
	case 17:
		return 1<<49 + r.Uint64()%(1<<49)
	case 18:
		return 1<<52 - uint64(r.Intn(1000))
	case 19:
		return 1<<51 + r.Uint64()%(1<<51)
	}
	// realistic: 10^6 .. 10^14 lovelace, log-uniform
	e := r.Range(6, 14)
	v := uint64(1)
	for i := 0; i < e; i++ {
		v *= 10
	}
	return v + r.Uint64()%v
}

func genStake(r *core.Rand, pot uint64) uint64 {
	switch r.Intn(10) {
	case 0:
		return 0
	case 1:
		return 1
	case 2:
		return uint64(r.Range(2, 1000))
	case 3:
		return pot
	case 4:
		return 1_000_000 * uint64(r.Range(1, 1000))
	case 5:
		return 40_000_000_000_000_000 // alone close to the supply, scaled down later if needed
	}
	e := r.Range(6, 15)
	v := uint64(1)
	for i := 0; i < e; i++ {
		v *= 10
	}
	return v + r.Uint64()%v
}

func genSnap(r *core.Rand) *snap {
	s := &snap{pot: genPot(r)}
	var np int
	switch r.Intn(8) {
	case 0, 1:
		np = 1
	case 2, 3:
		np = 2
	case 4:
		np = 3
	case 5, 6:
		np = r.Range(4, 12)
	default:
		np = r.Range(13, 50)
	}
	switch r.Intn(5) {
	case 0:
		s.a0 = nil
	case 1:
		s.a0 = big.NewRat(0, 1)
	case 2, 3:
		s.a0 = big.NewRat(3, 10)
	default:
		s.a0 = big.NewRat(1, 1)
	}
	keyN := 0
	for i := 0; i < np; i++ {
		p := pool{id: i + 1}
		nd := r.Intn(9)
		if r.Chance(1, 3) {
			nd = r.Range(1, 3)
		}
		for j := 0; j < nd; j++ {
			keyN++
			d := deleg{key: keyN, stake: genStake(r, s.pot), registered: 1}
			switch r.Intn(12) {
			case 0:
				d.registered = 0
			case 1:
				d.registered = 2
			}
			d.owner = r.Chance(1, 4)
			p.delegs = append(p.delegs, d)
		}
		switch r.Intn(6) {
		case 0:
			p.marginN, p.marginD = 0, 1
		case 1:
			p.marginN, p.marginD = 1, 1
		case 2:
			p.marginN, p.marginD = 1, 3
		case 3:
			p.marginN, p.marginD = 1, 20
		case 4:
			p.marginN, p.marginD = 999, 1000
		default:
			d := int64(r.Range(1, 1000))
			p.marginN, p.marginD = int64(r.Intn(int(d)+1)), d
		}
		p.noParams = np > 1 && r.Chance(1, 25)
		p.nilDelegs = r.Chance(1, 40)
		p.extraOwn = r.Chance(1, 15)
		s.pools = append(s.pools, p)
	}
	// keep the whole stake within the supply
	total := new(big.Int)
	for i := range s.pools {
		for _, d := range s.pools[i].delegs {
			total.Add(total, new(big.Int).SetUint64(d.stake))
		}
	}
	if total.Cmp(new(big.Int).SetUint64(maxSupply)) > 0 {
		// scale every stake down by ceil(total/maxSupply)
		f := new(big.Int).Div(total, new(big.Int).SetUint64(maxSupply))
		f.Add(f, big.NewInt(1))
		for i := range s.pools {
			for j := range s.pools[i].delegs {
				s.pools[i].delegs[j].stake /= f.Uint64()
			}
		}
	}
	// make sure there is active stake (the no-stake call is a separate case)
	var tot uint64
	for i := range s.pools {
		tot += s.pools[i].stake()
	}
	if tot == 0 {
		p := &s.pools[0]
		keyN++
		p.delegs = append(p.delegs, deleg{key: keyN, stake: 1_000_000 * uint64(r.Range(1, 1000)), registered: 1})
		tot = p.stake()
	}
	// block production
	switch r.Intn(5) {
	case 0: // no blocks at all
	case 1: // all by one pool
		k := r.Intn(len(s.pools))
		s.pools[k].blocks = uint32(r.Range(1, 21600))
		s.totalBlocks = s.pools[k].blocks
	case 2, 3: // proportional to stake
		for i := range s.pools {
			b := new(big.Int).Mul(new(big.Int).SetUint64(s.pools[i].stake()), big.NewInt(21600))
			b.Div(b, new(big.Int).SetUint64(tot))
			s.pools[i].blocks = uint32(b.Uint64())
			s.totalBlocks += s.pools[i].blocks
		}
	default: // random
		for i := range s.pools {
			if r.Bool() {
				s.pools[i].blocks = uint32(r.Intn(3000))
			}
			s.totalBlocks += s.pools[i].blocks
		}
		if r.Chance(1, 4) {
			s.totalBlocks += uint32(r.Intn(1000)) // blocks by pools outside the snapshot
		}
	}
	// costs relative to an even share of the pot
	even := s.pot / uint64(len(s.pools))
	for i := range s.pools {
		switch r.Intn(6) {
		case 0:
			s.pools[i].cost = 0
		case 1, 2:
			s.pools[i].cost = 340_000_000
		case 3:
			s.pools[i].cost = even - even/10 + r.Uint64()%(even/5+1)
		case 4:
			s.pools[i].cost = even + 1 + r.Uint64()%(even/2+1)
		default:
			s.pools[i].cost = uint64(r.Range(0, 1000))
		}
	}
	return s
}

// ------------------------------------------------------------------ oracle

// potClass: pots up to 10^15 lovelace (10^9 ADA) cover every reward pot that
// can occur on a Cardano network, and the accumulated float64 error of a
// distribution stays below one lovelace there; up to 2^53 every lovelace
// amount is still exact in float64 (violations were seen from about 2^52);
// above that it is not.
func potClass(pot uint64) string {
	switch {
	case pot <= 1_000_000_000_000_000:
		return "pot<=10^15"
	case pot <= two53:
		return "pot<=2^53"
	}
	return "pot>2^53"
}

func u(v uint64) *big.Int { return new(big.Int).SetUint64(v) }

// judge checks one result; it returns true when the result was a distribution.
func judge(c *core.Ctx, s *snap, res *common.RewardCalculationResult, w map[string]any, rep int) {
	pot := u(s.pot)
	cls := potClass(s.pot)
	wit := func(extra map[string]any) map[string]any {
		out := map[string]any{"snapshot": w, "repetition": rep}
		for k, v := range extra {
			out[k] = v
		}
		return out
	}
	// deterministic order for reporting
	var ids []common.PoolKeyHash
	for id := range res.PoolRewards {
		ids = append(ids, id)
	}
	sort.Slice(ids, func(i, j int) bool { return string(ids[i][:]) < string(ids[j][:]) })
	sum := new(big.Int)
	wrappedPool := false
	for _, id := range ids {
		pr := res.PoolRewards[id]
		pid := int(id[0])<<8 | int(id[1])
		tot := u(pr.TotalRewards)
		sum.Add(sum, tot)
		if tot.Cmp(pot) > 0 {
			wrappedPool = true
			c.Violation("C45:pool-totals:wrap:"+cls,
				fmt.Sprintf("pool %d is assigned %d lovelace, more than the whole reward pot %d", pid, pr.TotalRewards, s.pot),
				wit(map[string]any{"pool": pid, "pool_total": pr.TotalRewards}))
			continue // its internal split starts from a garbage total
		}
		// operator + delegators == pool total
		parts := u(pr.OperatorRewards)
		maxPart := pr.OperatorRewards
		for _, v := range pr.DelegatorRewards {
			parts.Add(parts, u(v))
			if v > maxPart {
				maxPart = v
			}
		}
		c.Count("pool_splits_checked", 1)
		// not part of the statement, observed only: rewards paid to a
		// delegator without a true registration flag
		for _, p := range s.pools {
			if p.id != pid {
				continue
			}
			for _, d := range p.delegs {
				if d.registered != 1 && pr.DelegatorRewards[keyHash(d.key)] > 0 {
					c.Count("observed_unregistered_delegator_rewarded", 1)
				}
			}
		}
		switch parts.Cmp(tot) {
		case 1:
			c.Violation("C45:pool-split:overassign:"+cls,
				fmt.Sprintf("pool %d: operator %d + delegators = %s, more than the pool total %d (pot %d)", pid, pr.OperatorRewards, parts, pr.TotalRewards, s.pot),
				wit(map[string]any{"pool": pid, "pool_total": pr.TotalRewards, "operator": pr.OperatorRewards, "delegator_rewards": delegList(pr)}))
		case -1:
			c.Violation("C45:pool-split:underassign:"+cls,
				fmt.Sprintf("pool %d: operator %d + delegators = %s, less than the pool total %d (pot %d)", pid, pr.OperatorRewards, parts, pr.TotalRewards, s.pot),
				wit(map[string]any{"pool": pid, "pool_total": pr.TotalRewards, "operator": pr.OperatorRewards, "delegator_rewards": delegList(pr)}))
		}
		if u(maxPart).Cmp(pot) > 0 {
			c.Violation("C45:pool-split:wrap:"+cls,
				fmt.Sprintf("pool %d (total %d): an individual reward of %d lovelace exceeds the whole reward pot %d", pid, pr.TotalRewards, maxPart, s.pot),
				wit(map[string]any{"pool": pid, "pool_total": pr.TotalRewards, "operator": pr.OperatorRewards, "delegator_rewards": delegList(pr)}))
		}
	}
	cmpSum := sum.Cmp(pot)
	if wrappedPool {
		cmpSum = 0 // already reported: a wrapped pool total always makes the sum exceed the pot
	}
	switch cmpSum {
	case 1:
		c.Violation("C45:pool-totals:sum-over:"+cls,
			fmt.Sprintf("pool totals add up to %s, reward pot is %d (%d pools)", sum, s.pot, len(ids)), wit(map[string]any{"pool_totals": totalsList(res, ids)}))
	case -1:
		c.Violation("C45:pool-totals:sum-under:"+cls,
			fmt.Sprintf("pool totals add up to %s, reward pot is %d (%d pools)", sum, s.pot, len(ids)), wit(map[string]any{"pool_totals": totalsList(res, ids)}))
	}
	if res.TotalRewards != s.pot {
		c.Violation("C45:result:TotalRewards:"+cls, fmt.Sprintf("result.TotalRewards = %d, reward pot = %d", res.TotalRewards, s.pot), wit(nil))
	}
}

func delegList(pr common.PoolRewards) []string {
	var out []string
	for k, v := range pr.DelegatorRewards {
		out = append(out, fmt.Sprintf("k%d:%d", int(k[0])<<16|int(k[1])<<8|int(k[2]), v))
	}
	sort.Strings(out)
	return out
}

func totalsList(res *common.RewardCalculationResult, ids []common.PoolKeyHash) []string {
	var out []string
	for _, id := range ids {
		out = append(out, fmt.Sprintf("pool %d: %d", int(id[0])<<8|int(id[1]), res.PoolRewards[id].TotalRewards))
	}
	return out
}

const repetitions = 5

func run(c *core.Ctx) {
	n := c.N(20000, 1200000)
	c.Parallel("snapshot", n, 0, func(i int, r *core.Rand) {
		s := genSnap(r)
		w := s.describe()
		c.Journal("C45 case %d pot=%d pools=%d", i, s.pot, len(s.pools))
		judged := s.pot <= maxSupply
		if judged {
			c.Count("class:"+potClass(s.pot), 1)
		} else {
			c.Count("class:pot>supply(not judged)", 1)
		}
		nontrivial := false
		for rep := 0; rep < repetitions; rep++ {
			pots, sn, params := s.build()
			var res *common.RewardCalculationResult
			var err error
			p, val, stack := core.Safely(func() { res, err = common.CalculateRewards(pots, sn, params) })
			c.Eval()
			if p {
				c.Violation("C45:CalculateRewards:panic", fmt.Sprintf("panic: %v", val), map[string]any{"snapshot": w, "stack": stack})
				return
			}
			if err != nil {
				c.Count("errors", 1)
				continue
			}
			c.Count("successes", 1)
			if !judged {
				continue
			}
			if res == nil {
				c.Violation("C45:CalculateRewards:nil-result", "nil result without error", map[string]any{"snapshot": w})
				return
			}
			judge(c, s, res, w, rep)
			rewarded := 0
			for _, pr := range res.PoolRewards {
				if pr.TotalRewards > 0 {
					rewarded++
				}
				if len(pr.DelegatorRewards) >= 2 {
					nontrivial = true
				}
			}
			if rewarded >= 2 {
				nontrivial = true
			}
			c.Count(fmt.Sprintf("pools_rewarded_%s", bucket(rewarded)), 1)
		}
		if judged && nontrivial {
			c.Distinct(fmt.Sprint(w))
		}
		if i%2503 == 0 {
			c.Sample(w)
		}
	})

	// the smallest known witnesses of the float64 defects, every run
	for wi, s := range witnesses() {
		w := s.describe()
		for rep := 0; rep < 4*repetitions; rep++ {
			pots, sn, params := s.build()
			res, err := common.CalculateRewards(pots, sn, params)
			c.Eval()
			if err == nil && res != nil {
				judge(c, s, res, w, rep)
			}
		}
		c.Count("fixed_witnesses", 1)
		_ = wi
	}

	// the documented "nothing to distribute" calls
	r := c.Rand("nodist")
	for i := 0; i < 200; i++ {
		s := genSnap(r)
		pots, sn, params := s.build()
		mode := "empty-pot"
		if i%2 == 0 {
			pots.Rewards = 0
		} else {
			mode = "no-active-stake"
			sn.TotalActiveStake = 0
		}
		res, err := common.CalculateRewards(pots, sn, params)
		c.Eval()
		c.Count("nodistribution:"+mode, 1)
		if err != nil || res == nil {
			continue
		}
		tot := new(big.Int)
		for _, pr := range res.PoolRewards {
			tot.Add(tot, u(pr.TotalRewards))
		}
		if tot.Sign() != 0 && res.UpdatedPots.Rewards == pots.Rewards {
			c.Violation("C45:no-distribution:rewards-assigned", fmt.Sprintf("%s: %s lovelace assigned while the pot is reported untouched", mode, tot), map[string]any{"snapshot": s.describe(), "mode": mode})
		}
	}
	if c.Counter("successes") == 0 {
		c.Inconclusive("no successful reward calculation observed")
	}
}

func bucket(n int) string {
	switch {
	case n <= 1:
		return fmt.Sprint(n)
	case n <= 3:
		return "2-3"
	case n <= 12:
		return "4-12"
	}
	return "13+"
}

func witnesses() []*snap {
	one := func(pot uint64, mn, md int64, cost uint64, blocks uint32, ds ...deleg) *snap {
		return &snap{pot: pot, totalBlocks: blocks, a0: big.NewRat(0, 1),
			pools: []pool{{id: 1, delegs: ds, cost: cost, marginN: mn, marginD: md, blocks: blocks}}}
	}
	// pool totals: float64(2^53+3) = 2^53+4 goes to pool 1, the -1 adjustment
	// lands on pool 2 (0 lovelace) when the map iteration ends there
	w1 := &snap{pot: two53 + 3, totalBlocks: 21600, a0: big.NewRat(0, 1), pools: []pool{
		{id: 1, delegs: []deleg{{key: 1, stake: 1_000_000_000_000, registered: 1}}, cost: 340_000_000, marginN: 1, marginD: 20, blocks: 21600},
		{id: 2, cost: 340_000_000, marginN: 0, marginD: 1},
	}}
	return []*snap{
		w1,
		// delegator share rounds up: 1.0 * float64(S) > S
		one(30_000_000_000_000_000, 1, 3, 340_000_000, 21600, deleg{key: 1, stake: 143_000_000, registered: 1}),
		// margin 1: cost + uint64(float64(T-cost)) > T, the stakeholder total wraps
		one(30_330_369_937_324_582, 1, 1, 340_000_000, 21600, deleg{key: 1, stake: 130_000_000, registered: 1}),
		// pot 2^53: stakes 1 and 2^53, 2^53+1 is not a float64
		one(two53, 0, 1, 0, 21600, deleg{key: 1, stake: 1, registered: 1}, deleg{key: 2, stake: two53, registered: 1}),
	}
}
