//go:build only_c22

package mon

import _ "verifharness/mon/c22"
