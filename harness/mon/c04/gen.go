package c04

import (
	gcbor "github.com/blinklabs-io/gouroboros/cbor"
	lcommon "github.com/blinklabs-io/gouroboros/ledger/common"
	pcommon "github.com/blinklabs-io/gouroboros/protocol/common"

	"verifharness/cborx"
	"verifharness/core"
)

// gen produces field values. vi is the index of the value tuple of the
// constructor: the first tuples walk through the boundary values, later ones
// are random.
type gen struct {
	r  *core.Rand
	vi int
	k  int // per-tuple call counter, so that several fields of one tuple differ
	// sizes, when set (concurrent phase), are the blob / raw-item lengths to
	// walk through instead of the small boundary list: buffer-growth
	// boundaries and block-sized payloads.
	sizes []int
}

func (g *gen) pick(bound []uint64, max uint64) uint64 {
	g.k++
	i := g.vi + g.k - 1
	if g.vi < len(bound) {
		return bound[i%len(bound)]
	}
	if max == ^uint64(0) {
		switch g.r.Intn(4) {
		case 0:
			return g.r.Uint64()
		case 1:
			return g.r.Uint64() & 0xffffffff
		}
		return g.r.Uint64() & 0xffffff
	}
	return g.r.Uint64() % (max + 1)
}

func (g *gen) u8() uint8 { return uint8(g.pick([]uint64{0, 1, 23, 24, 255, 100}, 255)) }
func (g *gen) u16() uint16 {
	return uint16(g.pick([]uint64{0, 1, 23, 24, 255, 256, 65535, 1000}, 65535))
}
func (g *gen) u32() uint32 {
	return uint32(g.pick([]uint64{0, 1, 23, 24, 255, 256, 65535, 65536, 1<<32 - 1, 764824073}, 1<<32-1))
}
func (g *gen) u64() uint64 {
	return g.pick([]uint64{0, 1, 23, 24, 255, 256, 65535, 65536, 1<<32 - 1, 1 << 32, 1<<63 - 1, 1 << 63, 1<<64 - 1, 4492800}, ^uint64(0))
}
func (g *gen) boolean() bool  { g.k++; return (g.vi+g.k)%2 == 0 }
func (g *gen) hash32() []byte { return g.r.Bytes(32) }
func (g *gen) hash28() []byte { return g.r.Bytes(28) }

// blob: byte strings of boundary lengths, nil and empty included.
func (g *gen) blob() []byte {
	g.k++
	if g.sizes != nil {
		return g.r.Bytes(g.sizes[(g.vi+g.k)%len(g.sizes)])
	}
	lens := []int{0, -1, 1, 23, 24, 255, 256, 2000, 32}
	i := g.vi + g.k
	if g.vi < len(lens) {
		n := lens[i%len(lens)]
		if n < 0 {
			return nil
		}
		return g.r.Bytes(n)
	}
	return g.r.Bytes(g.r.Intn(300))
}

// blobNonEmpty: at least one byte.
func (g *gen) blobNonEmpty() []byte {
	b := g.blob()
	if len(b) == 0 {
		return g.r.Bytes(1 + g.r.Intn(40))
	}
	return b
}

func (g *gen) point() pcommon.Point {
	g.k++
	if (g.vi+g.k)%5 == 0 {
		return pcommon.NewPointOrigin()
	}
	return pcommon.NewPoint(g.u64(), g.hash32())
}

func (g *gen) tip() pcommon.Tip {
	return pcommon.Tip{Point: g.point(), BlockNumber: g.u64()}
}

func (g *gen) count(max int) int {
	g.k++
	if g.vi < 3 {
		return []int{0, 1, 2}[(g.vi+g.k)%3]
	}
	return g.r.Intn(max + 1)
}

// rawNode: a random well-formed CBOR item (nested, all major types).
func (g *gen) rawNode(depth int) *cborx.Node {
	r := g.r
	top := 8
	if depth > 2 {
		top = 5
	}
	switch r.Intn(top) {
	case 0:
		return cborx.U(r.Uint64() >> uint(r.Intn(64)))
	case 1:
		return cborx.I(-int64(r.Uint64()>>uint(1+r.Intn(63))) - 1)
	case 2:
		return cborx.B(r.Bytes(r.Intn(40)))
	case 3:
		return cborx.S("text")
	case 4:
		return cborx.Bool(r.Bool())
	case 5:
		n := r.Intn(4)
		a := cborx.A()
		for i := 0; i < n; i++ {
			a.Items = append(a.Items, g.rawNode(depth+1))
		}
		return a
	case 6:
		return cborx.M(cborx.U(uint64(r.Intn(10))), g.rawNode(depth+1), cborx.U(uint64(10+r.Intn(10))), g.rawNode(depth+1))
	}
	return cborx.T(24, cborx.B(r.Bytes(r.Intn(20))))
}

func (g *gen) raw() gcbor.RawMessage {
	if g.sizes != nil {
		g.k++
		if n := g.sizes[(g.vi+g.k)%len(g.sizes)]; n > 64 {
			// a block / tx / result sized item: one byte string of n bytes
			return gcbor.RawMessage(cborx.B(g.r.Bytes(n)).Encode())
		}
	}
	return gcbor.RawMessage(g.rawNode(0).Encode())
}

func (g *gen) raws(max int) []gcbor.RawMessage {
	n := g.count(max)
	out := make([]gcbor.RawMessage, 0, n)
	for i := 0; i < n; i++ {
		out = append(out, g.raw())
	}
	return out
}

// block: [header, body...] as chain-sync NtN takes it apart.
func (g *gen) block() []byte {
	hdr := cborx.A(cborx.A(cborx.U(g.u64()), cborx.U(g.u64()), cborx.B(g.hash32())), cborx.B(g.r.Bytes(64)))
	return cborx.A(hdr, cborx.A(), cborx.A(), cborx.M()).Encode()
}

func (g *gen) dmqMessage() pcommon.DmqMessage {
	m := pcommon.DmqMessage{
		Payload: pcommon.DmqMessagePayload{
			MessageBody: g.blobNonEmpty(),
			KESPeriod:   g.u64(),
			ExpiresAt:   g.u32(),
		},
		KESSignature: g.r.Bytes(448),
		OperationalCertificate: pcommon.OperationalCertificate{
			KESVerificationKey: g.hash32(),
			IssueNumber:        g.u64(),
			KESPeriod:          g.u64(),
			ColdSignature:      g.r.Bytes(64),
		},
		ColdVerificationKey: g.hash32(),
	}
	if err := m.SetComputedMessageID(); err != nil {
		panic(err)
	}
	return m
}

func (g *gen) dmqMessages(max int) []pcommon.DmqMessage {
	n := g.count(max)
	out := make([]pcommon.DmqMessage, 0, n)
	for i := 0; i < n; i++ {
		out = append(out, g.dmqMessage())
	}
	return out
}

func (g *gen) leiosVote() lcommon.LeiosVote {
	return lcommon.LeiosVote{
		SlotNo:            g.u64(),
		EndorserBlockHash: lcommon.NewBlake2b256(g.hash32()),
		VoterId:           g.u64(),
		VoteSignature:     g.r.Bytes(lcommon.LeiosBlsSignatureSize),
	}
}

func (g *gen) bitmaps() map[uint16]uint64 {
	n := g.count(4)
	out := map[uint16]uint64{}
	for i := 0; i < n; i++ {
		out[g.u16()] = g.u64()
	}
	return out
}
