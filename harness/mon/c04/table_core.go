package c04

import (
	"fmt"

	"github.com/blinklabs-io/gouroboros/protocol"
	"github.com/blinklabs-io/gouroboros/protocol/blockfetch"
	"github.com/blinklabs-io/gouroboros/protocol/chainsync"
	pcommon "github.com/blinklabs-io/gouroboros/protocol/common"
	"github.com/blinklabs-io/gouroboros/protocol/handshake"
	"github.com/blinklabs-io/gouroboros/protocol/keepalive"
	"github.com/blinklabs-io/gouroboros/protocol/localstatequery"
	"github.com/blinklabs-io/gouroboros/protocol/localtxmonitor"
	"github.com/blinklabs-io/gouroboros/protocol/localtxsubmission"
	"github.com/blinklabs-io/gouroboros/protocol/peersharing"
	"github.com/blinklabs-io/gouroboros/protocol/txsubmission"
)

type decodeFunc = func(uint, []byte) (protocol.Message, error)

// reg returns a registrar for one protocol package.
func reg(pkg string, dec decodeFunc) func(name string, fields []field, build func(g *gen) (protocol.Message, error), opts ...func(*ctor)) {
	return func(name string, fields []field, build func(g *gen) (protocol.Message, error), opts ...func(*ctor)) {
		c := ctor{pkg: pkg, name: name, fields: fields, build: build, decode: dec}
		for _, o := range opts {
			o(&c)
		}
		register(c)
	}
}

func msg(m protocol.Message) (protocol.Message, error) { return m, nil }

func f(name string, k kind) field { return field{name, k} }

var none = []field{}

func noShape(c *ctor)      { c.noShape = true }
func reencodeOnly(c *ctor) { c.reencodeOnly = true }
func noArityMinus(c *ctor) { c.noArityMinus = true }
func noArityPlus(c *ctor)  { c.noArityPlus = true }
func extra(fn func(m protocol.Message) string) func(*ctor) {
	return func(c *ctor) { c.extra = fn }
}

func init() {
	// ------------------------------------------------------------ handshake
	// msgProposeVersions = [0, versionTable]; msgAcceptVersion = [1, versionNumber, versionData]
	// msgRefuse = [2, refuseReason]; msgQueryReply = [3, versionTable]
	hs := reg("handshake", handshake.NewMsgFromCbor)
	versionMap := func(g *gen) protocol.ProtocolVersionMap {
		vm := protocol.ProtocolVersionMap{}
		if g.boolean() {
			for _, v := range []uint16{13, 14, 15}[:1+g.count(2)] {
				vm[v] = protocol.VersionDataNtN13andUp{VersionDataNtN11to12: protocol.VersionDataNtN11to12{
					CborNetworkMagic: g.u32(), CborInitiatorAndResponderDiffusionMode: g.boolean(), CborPeerSharing: uint(g.count(1)), CborQuery: g.boolean()}}
			}
			if g.boolean() {
				vm[10] = protocol.VersionDataNtN7to10{CborNetworkMagic: g.u32(), CborInitiatorAndResponderDiffusionMode: g.boolean()}
			}
		} else {
			vm[32783] = protocol.VersionDataNtC15andUp{CborNetworkMagic: g.u32(), CborQuery: g.boolean()}
			vm[32784] = protocol.VersionDataNtC15andUp{CborNetworkMagic: g.u32(), CborQuery: g.boolean()}
			if g.boolean() {
				vm[32782] = protocol.VersionDataNtC9to14(g.u32())
			}
		}
		return vm
	}
	hs("MsgProposeVersions", []field{f("versionTable", kMap)}, func(g *gen) (protocol.Message, error) {
		return msg(handshake.NewMsgProposeVersions(versionMap(g)))
	})
	hs("MsgAcceptVersion", []field{f("versionNumber", kUint), f("versionData", kAny)}, func(g *gen) (protocol.Message, error) {
		if g.boolean() {
			return msg(handshake.NewMsgAcceptVersion(g.u16(), protocol.VersionDataNtC15andUp{CborNetworkMagic: g.u32(), CborQuery: g.boolean()}))
		}
		return msg(handshake.NewMsgAcceptVersion(g.u16(), protocol.VersionDataNtN13andUp{VersionDataNtN11to12: protocol.VersionDataNtN11to12{
			CborNetworkMagic: g.u32(), CborInitiatorAndResponderDiffusionMode: g.boolean(), CborPeerSharing: uint(g.count(1)), CborQuery: g.boolean()}}))
	})
	hs("MsgRefuse", []field{f("refuseReason", kArray)}, func(g *gen) (protocol.Message, error) {
		// refuseReason = [0, [*versionNumber]] / [1, versionNumber, tstr] / [2, versionNumber, tstr]
		switch g.count(2) {
		case 0:
			vs := []any{}
			for i := 0; i < g.count(4); i++ {
				vs = append(vs, uint64(g.u16()))
			}
			return msg(handshake.NewMsgRefuse([]any{handshake.RefuseReasonVersionMismatch, vs}))
		case 1:
			return msg(handshake.NewMsgRefuse([]any{handshake.RefuseReasonDecodeError, uint64(g.u16()), "decode error"}))
		}
		return msg(handshake.NewMsgRefuse([]any{handshake.RefuseReasonRefused, uint64(g.u16()), "refused"}))
	})
	hs("MsgQueryReply", []field{f("versionTable", kMap)}, func(g *gen) (protocol.Message, error) {
		return msg(handshake.NewMsgQueryReply(versionMap(g)))
	})

	// ------------------------------------------------------------ chain-sync (both modes)
	// msgRequestNext = [0]; msgAwaitReply = [1]; msgRollForward = [2, header, tip]; msgRollBackward = [3, point, tip]
	// msgFindIntersect = [4, points]; msgIntersectFound = [5, point, tip]; msgIntersectNotFound = [6, tip]; msgDone = [7]
	for _, mode := range []struct {
		name string
		dec  decodeFunc
	}{{"chainsync-ntn", chainsync.NewMsgFromCborNtN}, {"chainsync-ntc", chainsync.NewMsgFromCborNtC}} {
		cs := reg(mode.name, mode.dec)
		cs("MsgRequestNext", none, func(g *gen) (protocol.Message, error) { return msg(chainsync.NewMsgRequestNext()) })
		cs("MsgAwaitReply", none, func(g *gen) (protocol.Message, error) { return msg(chainsync.NewMsgAwaitReply()) })
		cs("MsgRollBackward", []field{f("point", kPoint), f("tip", kTip)}, func(g *gen) (protocol.Message, error) {
			return msg(chainsync.NewMsgRollBackward(g.point(), g.tip()))
		})
		cs("MsgFindIntersect", []field{f("points", kPoints)}, func(g *gen) (protocol.Message, error) {
			var pts []pcommon.Point
			for i := 0; i < g.count(6); i++ {
				pts = append(pts, g.point())
			}
			return msg(chainsync.NewMsgFindIntersect(pts))
		})
		cs("MsgIntersectFound", []field{f("point", kPoint), f("tip", kTip)}, func(g *gen) (protocol.Message, error) {
			return msg(chainsync.NewMsgIntersectFound(g.point(), g.tip()))
		})
		cs("MsgIntersectNotFound", []field{f("tip", kTip)}, func(g *gen) (protocol.Message, error) {
			return msg(chainsync.NewMsgIntersectNotFound(g.tip()))
		})
		cs("MsgDone", none, func(g *gen) (protocol.Message, error) { return msg(chainsync.NewMsgDone()) })
	}
	ntn := reg("chainsync-ntn", chainsync.NewMsgFromCborNtN)
	ntn("MsgRollForwardNtN", []field{f("header", kAny), f("tip", kTip)}, func(g *gen) (protocol.Message, error) {
		era := uint(g.count(7))
		byronType := uint(0)
		if era == 0 {
			byronType = uint(g.count(1))
		}
		return chainsync.NewMsgRollForwardNtN(era, byronType, g.block(), g.tip())
	}, extra(func(m protocol.Message) string {
		x := m.(*chainsync.MsgRollForwardNtN)
		return fmt.Sprintf("HeaderCbor=%x ByronType=%d", x.WrappedHeader.HeaderCbor(), x.WrappedHeader.ByronType())
	}))
	ntc := reg("chainsync-ntc", chainsync.NewMsgFromCborNtC)
	ntc("MsgRollForwardNtC", []field{f("block", kAny), f("tip", kTip)}, func(g *gen) (protocol.Message, error) {
		return chainsync.NewMsgRollForwardNtC(uint(g.count(7)), g.raw(), g.tip())
	}, extra(func(m protocol.Message) string {
		x := m.(*chainsync.MsgRollForwardNtC)
		return fmt.Sprintf("BlockType=%d BlockCbor=%x", x.BlockType(), x.BlockCbor())
	}))

	// ------------------------------------------------------------ block-fetch
	// msgRequestRange = [0, point, point]; msgClientDone = [1]; msgStartBatch = [2]; msgNoBlocks = [3]
	// msgBlock = [4, block]; msgBatchDone = [5]
	bf := reg("blockfetch", blockfetch.NewMsgFromCbor)
	bf("MsgRequestRange", []field{f("from", kPoint), f("to", kPoint)}, func(g *gen) (protocol.Message, error) {
		return msg(blockfetch.NewMsgRequestRange(g.point(), g.point()))
	})
	bf("MsgClientDone", none, func(g *gen) (protocol.Message, error) { return msg(blockfetch.NewMsgClientDone()) })
	bf("MsgStartBatch", none, func(g *gen) (protocol.Message, error) { return msg(blockfetch.NewMsgStartBatch()) })
	bf("MsgNoBlocks", none, func(g *gen) (protocol.Message, error) { return msg(blockfetch.NewMsgNoBlocks()) })
	bf("MsgBlock", []field{f("block", kAny)}, func(g *gen) (protocol.Message, error) {
		return msg(blockfetch.NewMsgBlock(g.blobNonEmpty()))
	})
	bf("MsgBatchDone", none, func(g *gen) (protocol.Message, error) { return msg(blockfetch.NewMsgBatchDone()) })

	// ------------------------------------------------------------ tx-submission v2
	// msgInit = [6]; msgRequestTxIds = [0, tsBlocking, txCount, txCount]; msgReplyTxIds = [1, [*txIdAndSize]]
	// msgRequestTxs = [2, txIdList]; msgReplyTxs = [3, txList]; tsMsgDone = [4]
	ts := reg("txsubmission", txsubmission.NewMsgFromCbor)
	ts("MsgInit", none, func(g *gen) (protocol.Message, error) { return msg(txsubmission.NewMsgInit()) })
	ts("MsgRequestTxIds", []field{f("blocking", kBool), f("ack", kUint), f("req", kUint)}, func(g *gen) (protocol.Message, error) {
		return msg(txsubmission.NewMsgRequestTxIds(g.boolean(), g.u16(), g.u16()))
	})
	txid := func(g *gen) txsubmission.TxId {
		var t txsubmission.TxId
		t.EraId = uint16(g.count(7))
		copy(t.TxId[:], g.hash32())
		return t
	}
	ts("MsgReplyTxIds", []field{f("txIdsAndSizes", kArray)}, func(g *gen) (protocol.Message, error) {
		var ids []txsubmission.TxIdAndSize
		for i := 0; i < g.count(5); i++ {
			ids = append(ids, txsubmission.TxIdAndSize{TxId: txid(g), Size: g.u32()})
		}
		return msg(txsubmission.NewMsgReplyTxIds(ids))
	})
	ts("MsgRequestTxs", []field{f("txIds", kArray)}, func(g *gen) (protocol.Message, error) {
		var ids []txsubmission.TxId
		for i := 0; i < g.count(5); i++ {
			ids = append(ids, txid(g))
		}
		return msg(txsubmission.NewMsgRequestTxs(ids))
	})
	ts("MsgReplyTxs", []field{f("txs", kArray)}, func(g *gen) (protocol.Message, error) {
		var txs []txsubmission.TxBody
		for i := 0; i < g.count(4); i++ {
			txs = append(txs, txsubmission.TxBody{EraId: uint16(g.count(7)), TxBody: g.blobNonEmpty()})
		}
		return msg(txsubmission.NewMsgReplyTxs(txs))
	})
	ts("MsgDone", none, func(g *gen) (protocol.Message, error) { return msg(txsubmission.NewMsgDone()) })

	// ------------------------------------------------------------ keep-alive
	// msgKeepAlive = [0, word16]; msgKeepAliveResponse = [1, word16]; msgDone = [2]
	ka := reg("keepalive", keepalive.NewMsgFromCbor)
	ka("MsgKeepAlive", []field{f("cookie", kUint)}, func(g *gen) (protocol.Message, error) { return msg(keepalive.NewMsgKeepAlive(g.u16())) })
	ka("MsgKeepAliveResponse", []field{f("cookie", kUint)}, func(g *gen) (protocol.Message, error) {
		return msg(keepalive.NewMsgKeepAliveResponse(g.u16()))
	})
	ka("MsgDone", none, func(g *gen) (protocol.Message, error) { return msg(keepalive.NewMsgDone()) })

	// ------------------------------------------------------------ peer-sharing
	// msgShareRequest = [0, byte]; msgSharePeers = [1, peerAddresses]; msgDone = [2]
	ps := reg("peersharing", peersharing.NewMsgFromCbor)
	ps("MsgShareRequest", []field{f("amount", kUint)}, func(g *gen) (protocol.Message, error) { return msg(peersharing.NewMsgShareRequest(g.u8())) })
	ps("MsgSharePeers", []field{f("peerAddresses", kArray)}, func(g *gen) (protocol.Message, error) {
		var pa []peersharing.PeerAddress
		for i := 0; i < g.count(5); i++ {
			if g.boolean() {
				pa = append(pa, peersharing.PeerAddress{IP: g.r.Bytes(4), Port: g.u16()})
			} else {
				ip := g.r.Bytes(16)
				ip[0] = 0x20 // not an IPv4-mapped address
				pa = append(pa, peersharing.PeerAddress{IP: ip, Port: g.u16()})
			}
		}
		return msg(peersharing.NewMsgSharePeers(pa))
	})
	ps("MsgDone", none, func(g *gen) (protocol.Message, error) { return msg(peersharing.NewMsgDone()) })

	// ------------------------------------------------------------ local-tx-submission
	// msgSubmitTx = [0, tx]; msgAcceptTx = [1]; msgRejectTx = [2, rejectReason]; ltMsgDone = [3]
	lts := reg("localtxsubmission", localtxsubmission.NewMsgFromCbor)
	lts("MsgSubmitTx", []field{f("tx", kAny)}, func(g *gen) (protocol.Message, error) {
		return msg(localtxsubmission.NewMsgSubmitTx(uint16(g.count(7)), g.blobNonEmpty()))
	})
	lts("MsgAcceptTx", none, func(g *gen) (protocol.Message, error) { return msg(localtxsubmission.NewMsgAcceptTx()) })
	lts("MsgRejectTx", []field{f("rejectReason", kAny)}, func(g *gen) (protocol.Message, error) {
		return msg(localtxsubmission.NewMsgRejectTx(g.raw()))
	})
	lts("MsgDone", none, func(g *gen) (protocol.Message, error) { return msg(localtxsubmission.NewMsgDone()) })

	// ------------------------------------------------------------ local-tx-monitor
	// msgDone = [0]; msgAcquire = [1]; msgAcquired = [2, slotNo]; msgRelease = [3]; msgNextTx = [5]
	// msgReplyNextTx = [6] / [6, tx]; msgHasTx = [7, txId]; msgReplyHasTx = [8, bool]; msgGetSizes = [9]
	// msgReplyGetSizes = [10, [word32, word32, word32]]
	ltm := reg("localtxmonitor", localtxmonitor.NewMsgFromCbor)
	ltm("MsgDone", none, func(g *gen) (protocol.Message, error) { return msg(localtxmonitor.NewMsgDone()) })
	ltm("MsgAcquire", none, func(g *gen) (protocol.Message, error) { return msg(localtxmonitor.NewMsgAcquire()) })
	ltm("MsgAcquired", []field{f("slotNo", kUint)}, func(g *gen) (protocol.Message, error) { return msg(localtxmonitor.NewMsgAcquired(g.u64())) })
	ltm("MsgRelease", none, func(g *gen) (protocol.Message, error) { return msg(localtxmonitor.NewMsgRelease()) })
	ltm("MsgNextTx", none, func(g *gen) (protocol.Message, error) { return msg(localtxmonitor.NewMsgNextTx()) })
	ltm("MsgReplyNextTx-tx", []field{f("tx", kAny)}, func(g *gen) (protocol.Message, error) {
		return msg(localtxmonitor.NewMsgReplyNextTx(uint8(g.count(7)), g.blobNonEmpty()))
	}, noArityMinus) // [6] is the other legal form
	ltm("MsgReplyNextTx-empty", none, func(g *gen) (protocol.Message, error) {
		return msg(localtxmonitor.NewMsgReplyNextTx(0, nil))
	}, noArityPlus) // [6, tx] is the other legal form and tx is left open by the CDDL
	ltm("MsgHasTx", []field{f("txId", kAny)}, func(g *gen) (protocol.Message, error) { return msg(localtxmonitor.NewMsgHasTx(g.hash32())) })
	ltm("MsgReplyHasTx", []field{f("result", kBool)}, func(g *gen) (protocol.Message, error) { return msg(localtxmonitor.NewMsgReplyHasTx(g.boolean())) })
	ltm("MsgGetSizes", none, func(g *gen) (protocol.Message, error) { return msg(localtxmonitor.NewMsgGetSizes()) })
	ltm("MsgReplyGetSizes", []field{f("sizes", kArray)}, func(g *gen) (protocol.Message, error) {
		return msg(localtxmonitor.NewMsgReplyGetSizes(g.u32(), g.u32(), g.u32()))
	})

	// ------------------------------------------------------------ local-state-query
	// msgAcquire = [0, point] / [8] / [10]; msgAcquired = [1]; msgFailure = [2, failure]; msgQuery = [3, query]
	// msgResult = [4, result]; msgRelease = [5]; msgReAcquire = [6, point] / [9] / [11]; lsqMsgDone = [7]
	lsq := reg("localstatequery", localstatequery.NewMsgFromCbor)
	lsq("MsgAcquire", []field{f("point", kPoint)}, func(g *gen) (protocol.Message, error) { return msg(localstatequery.NewMsgAcquire(g.point())) })
	lsq("MsgAcquireVolatileTip", none, func(g *gen) (protocol.Message, error) { return msg(localstatequery.NewMsgAcquireVolatileTip()) })
	lsq("MsgAcquireImmutableTip", none, func(g *gen) (protocol.Message, error) { return msg(localstatequery.NewMsgAcquireImmutableTip()) })
	lsq("MsgAcquired", none, func(g *gen) (protocol.Message, error) { return msg(localstatequery.NewMsgAcquired()) })
	lsq("MsgFailure", []field{f("failure", kUint)}, func(g *gen) (protocol.Message, error) { return msg(localstatequery.NewMsgFailure(uint8(g.count(1)))) })
	lsq("MsgQuery", []field{f("query", kAny)}, func(g *gen) (protocol.Message, error) {
		qs := [][]any{
			{uint64(1)}, {uint64(2)}, {uint64(3)},
			{uint64(0), []any{uint64(2), []any{uint64(1)}}},
			{uint64(0), []any{uint64(2), []any{uint64(0)}}},
			{uint64(0), []any{uint64(0), []any{uint64(6), []any{uint64(1)}}}},
			{uint64(0), []any{uint64(0), []any{uint64(5), []any{uint64(3)}}}},
			{uint64(0), []any{uint64(0), []any{uint64(6), []any{uint64(9), []any{uint64(5)}}}}},
			{uint64(0), []any{uint64(0), []any{uint64(6), []any{uint64(34), uint64(1)}}}},
		}
		return msg(localstatequery.NewMsgQuery(qs[g.vi%len(qs)]))
	}, reencodeOnly)
	lsq("MsgResult", []field{f("result", kAny)}, func(g *gen) (protocol.Message, error) { return msg(localstatequery.NewMsgResult(g.raw())) })
	lsq("MsgRelease", none, func(g *gen) (protocol.Message, error) { return msg(localstatequery.NewMsgRelease()) })
	lsq("MsgReAcquire", []field{f("point", kPoint)}, func(g *gen) (protocol.Message, error) { return msg(localstatequery.NewMsgReAcquire(g.point())) })
	lsq("MsgReAcquireVolatileTip", none, func(g *gen) (protocol.Message, error) { return msg(localstatequery.NewMsgReAcquireVolatileTip()) })
	lsq("MsgReAcquireImmutableTip", none, func(g *gen) (protocol.Message, error) { return msg(localstatequery.NewMsgReAcquireImmutableTip()) })
	lsq("MsgDone", none, func(g *gen) (protocol.Message, error) { return msg(localstatequery.NewMsgDone()) })
}
