package c04

import (
	gcbor "github.com/blinklabs-io/gouroboros/cbor"
	lcommon "github.com/blinklabs-io/gouroboros/ledger/common"
	"github.com/blinklabs-io/gouroboros/protocol"
	pcommon "github.com/blinklabs-io/gouroboros/protocol/common"
	"github.com/blinklabs-io/gouroboros/protocol/leiosfetch"
	"github.com/blinklabs-io/gouroboros/protocol/leiosnotify"
	"github.com/blinklabs-io/gouroboros/protocol/leiosvotes"
	"github.com/blinklabs-io/gouroboros/protocol/localmessagenotification"
	"github.com/blinklabs-io/gouroboros/protocol/localmessagesubmission"
	"github.com/blinklabs-io/gouroboros/protocol/messagesubmission"
)

func init() {
	// ------------------------------------------------------------ CIP-0137 message submission (node-to-node)
	// msgInit = [0]; msgRequestMessageIds = [1, isBlocking, ackCount, reqCount]; msgReplyMessageIds = [2, [*[messageId, size]]]
	// msgRequestMessages = [3, [*messageId]]; msgReplyMessages = [4, [*message]]; msgDone = [5]
	ms := reg("messagesubmission", messagesubmission.NewMsgFromCbor)
	ms("MsgInit", none, func(g *gen) (protocol.Message, error) { return msg(messagesubmission.NewMsgInit()) })
	ms("MsgRequestMessageIds", []field{f("isBlocking", kBool), f("ackCount", kUint), f("requestCount", kUint)}, func(g *gen) (protocol.Message, error) {
		return msg(messagesubmission.NewMsgRequestMessageIds(g.boolean(), g.u16(), g.u16()))
	})
	ms("MsgReplyMessageIds", []field{f("messageIdsAndSizes", kArray)}, func(g *gen) (protocol.Message, error) {
		var ids []pcommon.MessageIDAndSize
		for i := 0; i < g.count(5); i++ {
			ids = append(ids, pcommon.MessageIDAndSize{MessageID: g.hash32(), SizeInBytes: g.u32()})
		}
		return msg(messagesubmission.NewMsgReplyMessageIds(ids))
	})
	ms("MsgRequestMessages", []field{f("messageIds", kArray)}, func(g *gen) (protocol.Message, error) {
		var ids [][]byte
		for i := 0; i < g.count(5); i++ {
			ids = append(ids, g.hash32())
		}
		return msg(messagesubmission.NewMsgRequestMessages(ids))
	})
	ms("MsgReplyMessages", []field{f("messages", kArray)}, func(g *gen) (protocol.Message, error) {
		return msg(messagesubmission.NewMsgReplyMessages(g.dmqMessages(3)))
	})
	ms("MsgDone", none, func(g *gen) (protocol.Message, error) { return msg(messagesubmission.NewMsgDone()) })

	// ------------------------------------------------------------ CIP-0137 local message submission
	// msgSubmitMessage = [0, message]; msgAcceptMessage = [1]; msgRejectMessage = [2, rejectReason]; msgDone = [3]
	lms := reg("localmessagesubmission", localmessagesubmission.NewMsgFromCbor)
	lms("MsgSubmitMessage", []field{f("message", kArray)}, func(g *gen) (protocol.Message, error) {
		return msg(localmessagesubmission.NewMsgSubmitMessage(g.dmqMessage()))
	})
	lms("MsgAcceptMessage", none, func(g *gen) (protocol.Message, error) { return msg(localmessagesubmission.NewMsgAcceptMessage()) })
	lms("MsgRejectMessage", []field{f("rejectReason", kArray)}, func(g *gen) (protocol.Message, error) {
		var r pcommon.RejectReason
		switch g.vi % 4 {
		case 0:
			r = pcommon.InvalidReason{Message: "invalid KES signature"}
		case 1:
			r = pcommon.AlreadyReceivedReason{}
		case 2:
			r = pcommon.ExpiredReason{}
		default:
			r = pcommon.OtherReason{Message: "other"}
		}
		return localmessagesubmission.NewMsgRejectMessage(r)
	})
	lms("MsgDone", none, func(g *gen) (protocol.Message, error) { return msg(localmessagesubmission.NewMsgDone()) })

	// ------------------------------------------------------------ CIP-0137 local message notification
	// msgRequestMessages = [0, isBlocking]; msgReplyMessagesNonBlocking = [1, messages, hasMore]
	// msgReplyMessagesBlocking = [2, messages]; msgClientDone = [3]
	lmn := reg("localmessagenotification", localmessagenotification.NewMsgFromCbor)
	lmn("MsgRequestMessages", []field{f("isBlocking", kBool)}, func(g *gen) (protocol.Message, error) {
		return msg(localmessagenotification.NewMsgRequestMessages(g.boolean()))
	})
	lmn("MsgReplyMessagesNonBlocking", []field{f("messages", kArray), f("hasMore", kBool)}, func(g *gen) (protocol.Message, error) {
		return msg(localmessagenotification.NewMsgReplyMessagesNonBlocking(g.dmqMessages(3), g.boolean()))
	})
	lmn("MsgReplyMessagesBlocking", []field{f("messages", kArray)}, func(g *gen) (protocol.Message, error) {
		return msg(localmessagenotification.NewMsgReplyMessagesBlocking(g.dmqMessages(3)))
	})
	lmn("MsgClientDone", none, func(g *gen) (protocol.Message, error) { return msg(localmessagenotification.NewMsgClientDone()) })

	// ------------------------------------------------------------ Leios (draft; round trip + chain points only)
	voteIDs := func(g *gen) []lcommon.LeiosVoteId {
		var out []lcommon.LeiosVoteId
		for i := 0; i < g.count(5); i++ {
			out = append(out, lcommon.LeiosVoteId{SlotNo: g.u64(), VoterId: g.u64()})
		}
		return out
	}
	votes := func(g *gen, min int) []lcommon.LeiosVote {
		var out []lcommon.LeiosVote
		n := g.count(4)
		if n < min {
			n = min
		}
		for i := 0; i < n; i++ {
			out = append(out, g.leiosVote())
		}
		return out
	}
	lf := reg("leiosfetch", leiosfetch.NewMsgFromCbor)
	lf("MsgBlockRequest", []field{f("point", kPoint)}, func(g *gen) (protocol.Message, error) { return msg(leiosfetch.NewMsgBlockRequest(g.point())) }, noShape)
	lf("MsgBlock", []field{f("block", kAny)}, func(g *gen) (protocol.Message, error) { return msg(leiosfetch.NewMsgBlock(g.raw())) }, noShape)
	lf("MsgBlockTxsRequest", []field{f("point", kPoint), f("bitmaps", kMap)}, func(g *gen) (protocol.Message, error) {
		return msg(leiosfetch.NewMsgBlockTxsRequest(g.point(), g.bitmaps()))
	}, noShape)
	lf("MsgBlockTxs", []field{f("txs", kArray)}, func(g *gen) (protocol.Message, error) { return msg(leiosfetch.NewMsgBlockTxs(g.raws(4))) }, noShape)
	lf("MsgBlockTxsFull", []field{f("point", kPoint), f("bitmaps", kMap), f("txs", kArray)}, func(g *gen) (protocol.Message, error) {
		return msg(leiosfetch.NewMsgBlockTxsFull(g.point(), g.bitmaps(), g.raws(4)))
	}, noShape)
	lf("MsgVotesRequest", []field{f("voteIds", kArray)}, func(g *gen) (protocol.Message, error) { return msg(leiosfetch.NewMsgVotesRequest(voteIDs(g))) }, noShape)
	lf("MsgVotes", []field{f("votes", kArray)}, func(g *gen) (protocol.Message, error) { return msg(leiosfetch.NewMsgVotes(g.raws(4))) }, noShape)
	lf("MsgVotesFromVotes", []field{f("votes", kArray)}, func(g *gen) (protocol.Message, error) { return leiosfetch.NewMsgVotesFromVotes(votes(g, 0)) }, noShape)
	lf("MsgBlockRangeRequest", []field{f("start", kPoint), f("end", kPoint)}, func(g *gen) (protocol.Message, error) {
		return msg(leiosfetch.NewMsgBlockRangeRequest(g.point(), g.point()))
	}, noShape)
	lf("MsgNextBlockAndTxsInRange", nil, func(g *gen) (protocol.Message, error) {
		return msg(leiosfetch.NewMsgNextBlockAndTxsInRange(g.raw(), g.raws(4)))
	}, noShape)
	lf("MsgLastBlockAndTxsInRange", nil, func(g *gen) (protocol.Message, error) {
		return msg(leiosfetch.NewMsgLastBlockAndTxsInRange(g.raw(), g.raws(4)))
	}, noShape)
	lf("MsgDone", none, func(g *gen) (protocol.Message, error) { return msg(leiosfetch.NewMsgDone()) }, noShape)
	lf("MsgNoBlock", none, func(g *gen) (protocol.Message, error) { return msg(leiosfetch.NewMsgNoBlock()) }, noShape)
	lf("MsgNoBlockTxs", none, func(g *gen) (protocol.Message, error) { return msg(leiosfetch.NewMsgNoBlockTxs()) }, noShape)

	ln := reg("leiosnotify", leiosnotify.NewMsgFromCbor)
	ln("MsgNotificationRequestNext", none, func(g *gen) (protocol.Message, error) { return msg(leiosnotify.NewMsgNotificationRequestNext()) }, noShape)
	ln("MsgBlockAnnouncement", nil, func(g *gen) (protocol.Message, error) { return msg(leiosnotify.NewMsgBlockAnnouncement(g.raw())) }, noShape)
	ln("MsgBlockOffer", []field{f("point", kPoint), f("size", kUint)}, func(g *gen) (protocol.Message, error) {
		return msg(leiosnotify.NewMsgBlockOffer(g.point(), g.u64()))
	}, noShape)
	ln("MsgBlockTxsOffer", []field{f("point", kPoint)}, func(g *gen) (protocol.Message, error) { return msg(leiosnotify.NewMsgBlockTxsOffer(g.point())) }, noShape)
	ln("MsgVotesOffer", nil, func(g *gen) (protocol.Message, error) { return msg(leiosnotify.NewMsgVotesOffer(voteIDs(g))) }, noShape)
	ln("MsgVotesOfferFull", nil, func(g *gen) (protocol.Message, error) { return msg(leiosnotify.NewMsgVotesOfferFull(votes(g, 1))) }, noShape)
	ln("MsgVotesOfferPrototype", nil, func(g *gen) (protocol.Message, error) {
		var pv []leiosnotify.PrototypeVote
		for i := 0; i < 1+g.count(3); i++ {
			pv = append(pv, leiosnotify.PrototypeVote{AnnouncingRbHash: lcommon.NewBlake2b256(g.hash32()), VoterId: g.u64(), VoteSignature: g.r.Bytes(lcommon.LeiosBlsSignatureSize)})
		}
		return msg(leiosnotify.NewMsgVotesOfferPrototype(pv))
	}, noShape)
	ln("MsgDone", none, func(g *gen) (protocol.Message, error) { return msg(leiosnotify.NewMsgDone()) }, noShape)

	lv := reg("leiosvotes", leiosvotes.NewMsgFromCbor)
	lv("MsgVotesRequestNext", nil, func(g *gen) (protocol.Message, error) { return msg(leiosvotes.NewMsgVotesRequestNext(g.u64())) }, noShape)
	lv("MsgVote", nil, func(g *gen) (protocol.Message, error) { return msg(leiosvotes.NewMsgVote(g.leiosVote())) }, noShape)
	lv("MsgDone", none, func(g *gen) (protocol.Message, error) { return msg(leiosvotes.NewMsgDone()) }, noShape)
	_ = gcbor.RawMessage(nil)
}
