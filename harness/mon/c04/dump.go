package c04

import (
	"crypto/sha256"
	"encoding/hex"
	"fmt"
	"reflect"
	"sort"
	"strings"
)

// dumpExported renders the exported fields of a message (recursively, through
// pointers and interfaces, maps sorted). Unexported fields - the stored raw
// bytes of cbor.DecodeStoreCbor and private caches - are left out; nil and
// empty slices / maps are the same; byte strings are compared exactly.
func dumpExported(v any) string {
	var sb strings.Builder
	dump(&sb, reflect.ValueOf(v), 0)
	return sb.String()
}

func dump(sb *strings.Builder, v reflect.Value, depth int) {
	if depth > 40 {
		sb.WriteString("<deep>")
		return
	}
	if !v.IsValid() {
		sb.WriteString("nil")
		return
	}
	t := v.Type()
	switch v.Kind() {
	case reflect.Pointer:
		if v.IsNil() {
			sb.WriteString("nil")
			return
		}
		sb.WriteString("&")
		dump(sb, v.Elem(), depth+1)
	case reflect.Interface:
		if v.IsNil() {
			sb.WriteString("nil")
			return
		}
		e := v.Elem()
		// a nil / empty container inside an interface is still "nothing"
		if (e.Kind() == reflect.Slice || e.Kind() == reflect.Map) && e.Len() == 0 {
			sb.WriteString("nil")
			return
		}
		fmt.Fprintf(sb, "(%s)", e.Type().String())
		dump(sb, e, depth+1)
	case reflect.Struct:
		sb.WriteString(t.String())
		sb.WriteString("{")
		for i := 0; i < v.NumField(); i++ {
			f := t.Field(i)
			if !f.IsExported() {
				continue
			}
			if f.Type.Kind() == reflect.Struct && f.Type.NumField() == 0 {
				continue // markers such as cbor.StructAsArray
			}
			sb.WriteString(f.Name)
			sb.WriteString(":")
			dump(sb, v.Field(i), depth+1)
			sb.WriteString(" ")
		}
		sb.WriteString("}")
	case reflect.Slice, reflect.Array:
		if v.Kind() == reflect.Slice && v.Len() == 0 {
			sb.WriteString("nil")
			return
		}
		if t.Elem().Kind() == reflect.Uint8 {
			var b []byte
			if v.Kind() == reflect.Slice {
				b = v.Bytes()
			} else {
				b = make([]byte, v.Len())
				for i := range b {
					b[i] = byte(v.Index(i).Uint())
				}
			}
			if len(b) > 512 {
				// long blobs by length and hash (same comparison, much cheaper)
				sum := sha256.Sum256(b)
				fmt.Fprintf(sb, "h'%s..'(%d bytes, sha256 %x)", hex.EncodeToString(b[:16]), len(b), sum[:])
				return
			}
			sb.WriteString("h'")
			sb.WriteString(hex.EncodeToString(b))
			sb.WriteString("'")
			return
		}
		sb.WriteString("[")
		for i := 0; i < v.Len(); i++ {
			if i > 0 {
				sb.WriteString(",")
			}
			dump(sb, v.Index(i), depth+1)
		}
		sb.WriteString("]")
	case reflect.Map:
		if v.Len() == 0 {
			sb.WriteString("nil")
			return
		}
		var ents []string
		it := v.MapRange()
		for it.Next() {
			var e strings.Builder
			dump(&e, it.Key(), depth+1)
			e.WriteString("=>")
			dump(&e, it.Value(), depth+1)
			ents = append(ents, e.String())
		}
		sort.Strings(ents)
		sb.WriteString("map{")
		sb.WriteString(strings.Join(ents, ","))
		sb.WriteString("}")
	case reflect.String:
		fmt.Fprintf(sb, "%q", v.String())
	case reflect.Bool:
		fmt.Fprintf(sb, "%v", v.Bool())
	case reflect.Int, reflect.Int8, reflect.Int16, reflect.Int32, reflect.Int64:
		fmt.Fprintf(sb, "%d", v.Int())
	case reflect.Uint, reflect.Uint8, reflect.Uint16, reflect.Uint32, reflect.Uint64, reflect.Uintptr:
		fmt.Fprintf(sb, "%d", v.Uint())
	case reflect.Float32, reflect.Float64:
		fmt.Fprintf(sb, "%v", v.Float())
	default:
		sb.WriteString("<" + v.Kind().String() + ">")
	}
}
