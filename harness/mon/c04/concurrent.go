package c04

import (
	"bytes"
	"crypto/sha256"
	"encoding/hex"
	"fmt"
	"runtime"
	"sync"

	gcbor "github.com/blinklabs-io/gouroboros/cbor"
	"github.com/blinklabs-io/gouroboros/protocol"

	"verifharness/core"
)

// Concurrent phase. A codec has to round-trip when several connections use it
// at the same time, and the bytes / values it hands out have to stay what they
// were afterwards. For every constructor a fixed set of instances is built
// with payload sizes walking through the buffer-growth boundaries (0, 23/24,
// 255/256, 65535/65536) and block-sized blobs (20-33 kB, 100 kB); the
// reference encoding and the reference decoded value of each instance are
// computed sequentially. Then G goroutines (GOMAXPROCS varied) encode and
// decode DIFFERENT instances of the SAME message type in tight loops with
// fixed iteration counts. Every goroutine compares each result with the
// sequential reference at once, and keeps some of the returned byte slices,
// direct MarshalCBOR outputs and decoded messages, which are compared again
// after all goroutines have finished (aliasing of pooled buffers). A last
// group mixes all message types. Before that, a purely sequential pass checks
// that the slice a message's own MarshalCBOR hands out is not changed by
// later MarshalCBOR calls on other messages.

// payload sizes walked by the concurrent-phase generator
var concSizes = []int{0, 23, 24, 255, 256, 65535, 65536, 20000, 27000, 33000, 100_000}

const concInstances = 16

type instance struct {
	ct   *ctor
	idx  int
	msg  protocol.Message
	ref  []byte   // sequential cbor.Encode(msg)
	refD [32]byte // digest of the sequentially decoded message
}

type marshaler interface{ MarshalCBOR() ([]byte, error) }

func safeEncode(m any) (b []byte, err error) {
	p, val, _ := core.Safely(func() { b, err = gcbor.Encode(m) })
	if p {
		return nil, fmt.Errorf("panic: %v", val)
	}
	return b, err
}

func safeMarshal(m marshaler) (b []byte, err error) {
	p, val, _ := core.Safely(func() { b, err = m.MarshalCBOR() })
	if p {
		return nil, fmt.Errorf("panic: %v", val)
	}
	return b, err
}

func safeDecode(ct *ctor, t uint, b []byte) (m protocol.Message, err error) {
	p, val, _ := core.Safely(func() { m, err = ct.decode(t, b) })
	if p {
		return nil, fmt.Errorf("panic: %v", val)
	}
	return m, err
}

// digest: everything the sequential phase compares, folded into a hash so that
// many decoded values can be remembered cheaply.
func digest(ct *ctor, m protocol.Message) [32]byte {
	var s string
	p, val, _ := core.Safely(func() {
		s = fmt.Sprintf("%s|%d|", typeName(m), m.Type())
		if ct.reencodeOnly {
			b, err := gcbor.Encode(m)
			s += fmt.Sprintf("%x|%v", b, err)
		} else {
			s += dumpExported(m)
		}
		if ct.extra != nil {
			s += "|" + ct.extra(m)
		}
	})
	if p {
		s = fmt.Sprintf("panic while reading the message: %v", val)
	}
	return sha256.Sum256([]byte(s))
}

func buildInstances(c *core.Ctx, ct *ctor, n int) []instance {
	var out []instance
	for i := 0; i < n; i++ {
		g := &gen{r: c.Rand("concurrent-values", ct.id(), i), vi: 100 + i, sizes: concSizes}
		m, err := ct.build(g)
		if err != nil {
			c.Count("concurrent_constructor_refused_values", 1)
			continue
		}
		ref, err := safeEncode(m)
		if err != nil {
			c.Count("concurrent_reference_encode_failed", 1)
			continue
		}
		m2, err := safeDecode(ct, uint(m.Type()), ref)
		if err != nil {
			// the sequential phase reports round-trip failures; without a
			// reference value there is nothing to compare here
			c.Count("concurrent_reference_decode_failed", 1)
			continue
		}
		out = append(out, instance{ct: ct, idx: i, msg: m, ref: ref, refD: digest(ct, m2)})
	}
	return out
}

func firstDiffOffset(a, b []byte) int {
	i := 0
	for i < len(a) && i < len(b) && a[i] == b[i] {
		i++
	}
	return i
}

func head(b []byte) string {
	if len(b) > 48 {
		return hex.EncodeToString(b[:48]) + fmt.Sprintf("...(%d bytes)", len(b))
	}
	return hex.EncodeToString(b)
}

type kept struct {
	in    *instance
	bytes []byte           // returned by cbor.Encode or MarshalCBOR
	kind  string           // "cbor.Encode" | "MarshalCBOR"
	msg   protocol.Message // decoded message (nil when bytes are kept)
	iter  int
}

type groupCfg struct {
	name  string
	g     int // goroutines
	procs int // GOMAXPROCS (0 = leave)
	iters int
}

// runGroup lets cfg.g goroutines work on disjoint subsets of inst.
func runGroup(c *core.Ctx, coll *collector, order int, label string, inst []instance, cfg groupCfg) {
	if len(inst) < 2 {
		return
	}
	g := cfg.g
	if g > len(inst) {
		g = len(inst)
	}
	if cfg.procs > 0 {
		prev := runtime.GOMAXPROCS(cfg.procs)
		defer runtime.GOMAXPROCS(prev)
	}
	wit := func(in *instance, extra map[string]any) map[string]any {
		m := map[string]any{"constructor": in.ct.id(), "instance": in.idx, "message_type": in.msg.Type(),
			"reference_bytes": len(in.ref), "reference_head": head(in.ref),
			"group": label + "/" + cfg.name, "goroutines": g, "gomaxprocs": runtime.GOMAXPROCS(0), "iterations_per_goroutine": cfg.iters}
		for k, v := range extra {
			m[k] = v
		}
		return m
	}
	start := make(chan struct{})
	var wg sync.WaitGroup
	keptAll := make([][]kept, g)
	var okRoundTrips int64
	var mu sync.Mutex
	for j := 0; j < g; j++ {
		wg.Add(1)
		go func(j int) {
			defer wg.Done()
			var mine []*instance
			for i := j; i < len(inst); i += g {
				mine = append(mine, &inst[i])
			}
			keepEvery := cfg.iters / 6
			if keepEvery == 0 {
				keepEvery = 1
			}
			var keep []kept
			ok := int64(0)
			<-start
			for t := 0; t < cfg.iters; t++ {
				in := mine[t%len(mine)]
				id := in.ct.id()
				enc, err := safeEncode(in.msg)
				good := err == nil && bytes.Equal(enc, in.ref)
				if !good {
					if err != nil {
						coll.add(order+t, "C04:"+id+":concurrent-encode",
							fmt.Sprintf("%s: cbor.Encode of a message fails while other goroutines encode other messages of the same type (it succeeds alone): %v", id, err),
							len(in.ref), wit(in, map[string]any{"iteration": t, "error": err.Error()}))
					} else {
						coll.add(order+t, "C04:"+id+":concurrent-encode",
							fmt.Sprintf("%s: cbor.Encode gives other bytes while other goroutines encode other messages of the same type (%d bytes, first difference at offset %d; alone it gives the %d reference bytes)", id, len(enc), firstDiffOffset(enc, in.ref), len(in.ref)),
							len(in.ref), wit(in, map[string]any{"iteration": t, "got_bytes": len(enc), "got_head": head(enc), "first_difference_offset": firstDiffOffset(enc, in.ref)}))
					}
					enc = in.ref
				}
				if t%keepEvery == 0 && good {
					keep = append(keep, kept{in: in, bytes: enc, kind: "cbor.Encode", iter: t})
				}
				if mar, isMar := in.msg.(marshaler); isMar && t%4 == 0 {
					b, err := safeMarshal(mar)
					if err == nil && t%keepEvery == 0 {
						keep = append(keep, kept{in: in, bytes: b, kind: "MarshalCBOR", iter: t})
					}
				}
				m2, err := safeDecode(in.ct, uint(in.msg.Type()), enc)
				switch {
				case err != nil:
					good = false
					coll.add(order+t, "C04:"+id+":concurrent-decode",
						fmt.Sprintf("%s: a valid encoding is rejected while other goroutines decode other messages of the same type (it decodes alone): %v", id, err),
						len(in.ref), wit(in, map[string]any{"iteration": t, "error": err.Error()}))
				case digest(in.ct, m2) != in.refD:
					good = false
					coll.add(order+t, "C04:"+id+":concurrent-decode",
						fmt.Sprintf("%s: a valid encoding decodes to another value while other goroutines decode other messages of the same type", id),
						len(in.ref), wit(in, map[string]any{"iteration": t, "decoded": clip(dumpExported(m2))}))
				default:
					if t%keepEvery == 0 {
						keep = append(keep, kept{in: in, msg: m2, iter: t})
					}
				}
				if good {
					ok++
				}
			}
			keptAll[j] = keep
			mu.Lock()
			okRoundTrips += ok
			mu.Unlock()
		}(j)
	}
	close(start)
	wg.Wait()
	// (b) everything handed out earlier must still be what it was
	for j := range keptAll {
		for _, k := range keptAll[j] {
			id := k.in.ct.id()
			if k.msg != nil {
				c.Count("concurrent_retained_messages_rechecked", 1)
				if digest(k.in.ct, k.msg) != k.in.refD {
					coll.add(order+k.iter, "C04:"+id+":retained-message-changed",
						fmt.Sprintf("%s: a decoded message changed after it was returned, while other messages were decoded", id),
						len(k.in.ref), wit(k.in, map[string]any{"iteration": k.iter, "now": clip(dumpExported(k.msg))}))
				}
				continue
			}
			c.Count("concurrent_retained_bytes_rechecked", 1)
			if !bytes.Equal(k.bytes, k.in.ref) {
				coll.add(order+k.iter, "C04:"+id+":handed-out-bytes-changed",
					fmt.Sprintf("%s: the byte slice returned by %s no longer holds the message after other messages were encoded (first difference at offset %d)", id, k.kind, firstDiffOffset(k.bytes, k.in.ref)),
					len(k.in.ref), wit(k.in, map[string]any{"iteration": k.iter, "returned_by": k.kind, "now_bytes": len(k.bytes), "now_head": head(k.bytes), "first_difference_offset": firstDiffOffset(k.bytes, k.in.ref)}))
			}
		}
	}
	total := g * cfg.iters
	c.EvalN(total)
	c.Count("concurrent_roundtrips", total)
	c.Count("concurrent_roundtrips_ok", int(okRoundTrips))
	c.Count("concurrent_groups", 1)
	if okRoundTrips > 0 {
		c.Distinct("conc", label, cfg.name)
	}
}

// marshalStability: sequential and deterministic. The slice handed out by a
// message's own MarshalCBOR must still hold that message after MarshalCBOR has
// been called on other messages of the same type.
func marshalStability(c *core.Ctx, coll *collector, order int, inst []instance) {
	type out struct {
		in *instance
		b  []byte
	}
	var outs []out
	for i := range inst {
		mar, ok := inst[i].msg.(marshaler)
		if !ok {
			return
		}
		b, err := safeMarshal(mar)
		if err != nil {
			continue
		}
		outs = append(outs, out{&inst[i], b})
	}
	for _, o := range outs {
		c.Eval()
		c.Count("marshal_outputs_rechecked", 1)
		if !bytes.Equal(o.b, o.in.ref) {
			id := o.in.ct.id()
			coll.add(order+o.in.idx, "C04:"+id+":handed-out-bytes-changed",
				fmt.Sprintf("%s: the byte slice returned by MarshalCBOR no longer holds the message after MarshalCBOR ran on other messages of the same type (single goroutine; first difference at offset %d)", id, firstDiffOffset(o.b, o.in.ref)),
				len(o.in.ref), map[string]any{"constructor": id, "instance": o.in.idx, "reference_bytes": len(o.in.ref), "reference_head": head(o.in.ref),
					"now_bytes": len(o.b), "now_head": head(o.b), "first_difference_offset": firstDiffOffset(o.b, o.in.ref)})
		}
	}
}

func concurrentPhase(c *core.Ctx, coll *collector) {
	iters := c.N(96, 1200)
	byteBudget := c.N(1_500_000, 40_000_000)
	minIters := c.N(24, 200)
	all := runtime.GOMAXPROCS(0)
	cfgs := []groupCfg{
		{"g2-p2", 2, 2, iters},
		{"g4-p4", 4, 4, iters},
		{"g16-p4", 16, 4, iters},
		{"g16-pmax", 16, all, iters},
	}
	c.Note("concurrent_groups_per_constructor", len(cfgs))
	c.Note("concurrent_instances_per_constructor", concInstances)
	c.Note("concurrent_payload_sizes", concSizes)
	var mixed []instance
	base := 1 << 40
	for ci := range table {
		ct := &table[ci]
		inst := buildInstances(c, ct, concInstances)
		c.Journal("C04 concurrent %s (%d instances)", ct.id(), len(inst))
		marshalStability(c, coll, base+ci*1_000_000, inst)
		// fixed iteration counts: the full count for small messages, fewer for
		// block-sized ones (a byte budget per goroutine, never a time budget)
		total := 0
		for i := range inst {
			total += len(inst[i].ref)
		}
		for gi, cfg := range cfgs {
			if len(inst) > 0 {
				if n := byteBudget / (total/len(inst) + 1); n < cfg.iters {
					cfg.iters = n
				}
				if cfg.iters < minIters {
					cfg.iters = minIters
				}
			}
			runGroup(c, coll, base+ci*1_000_000+(gi+1)*10_000, ct.id(), inst, cfg)
		}
		for i := range inst {
			if i < 2 || len(inst[i].ref) > 60_000 && i < 12 {
				mixed = append(mixed, inst[i])
			}
		}
	}
	// all message types at once: shared helper paths (points, tags, pools in package cbor)
	c.Journal("C04 concurrent mixed (%d instances)", len(mixed))
	r := c.Rand("concurrent-mixed")
	perm := r.Perm(len(mixed))
	shuffled := make([]instance, len(mixed))
	for i, p := range perm {
		shuffled[i] = mixed[p]
	}
	for gi, cfg := range []groupCfg{{"mixed-g16-p4", 16, 4, c.N(400, 4000)}, {"mixed-g16-pmax", 16, all, c.N(400, 4000)}} {
		runGroup(c, coll, base+len(table)*1_000_000+gi*10_000, "mixed", shuffled, cfg)
	}
}
