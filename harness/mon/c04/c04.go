// Package c04 monitors C04: mini-protocol message codecs round-trip and reject
// malformed shapes.
//
// (a) For every public NewMsg* constructor of every protocol package, with
// generated field values: cbor.Encode(msg), then that package's
// NewMsgFromCbor(msg.Type(), bytes) must succeed with the same dynamic type,
// the same Type(), equal exported fields (nil == empty containers) and an
// equal re-encoding.
// (b) Shape mutants of the valid encoding made with cborx that the
// network-spec CDDL forbids must be rejected with an error: arity +-1 (where
// the message has no optional trailing field), every field whose type the CDDL
// fixes replaced by an item of each other major type (and, as its own class,
// by null), chain points of length 1, 3, 4 or with a text hash, a tip with an
// extra element.
// (c) The same round trip under concurrency (concurrent.go): results equal the
// sequentially computed references while other goroutines encode / decode
// other messages, and bytes / messages handed out earlier stay unchanged.
package c04

import (
	"bytes"
	"fmt"
	"reflect"
	"sort"
	"sync"

	gcbor "github.com/blinklabs-io/gouroboros/cbor"
	"github.com/blinklabs-io/gouroboros/protocol"

	"verifharness/cborx"
	"verifharness/core"
)

func init() {
	core.Register(&core.Monitor{
		ID:    "C04",
		Level: "exploration",
		Rule: "table of every public NewMsg* constructor (15 protocol packages, chain-sync decoded in both NtN and NtC mode); per constructor 20 (quick) / 2000 (thorough) PRNG field-value tuples incl. integer boundaries, origin / slot+hash points, nil and empty blobs, nested raw CBOR; every valid encoding is decoded back and, for the first 6 (quick) / 16 (thorough) tuples of a constructor, all its CDDL-forbidden shape mutants are decoded too. " +
			"Concurrent phase: per constructor 16 instances with payload sizes over the buffer-growth boundaries (0, 23/24, 255/256, 65535/65536) and block-sized blobs (20-33 kB, 100 kB), references computed sequentially; groups of 2, 4 and 16 goroutines (GOMAXPROCS 2, 4, 4, all) encode and decode different instances of the same type in loops of a fixed length (96 / 1200 iterations, fewer for block-sized messages by a byte budget), each result compared with its reference at once, and retained cbor.Encode / MarshalCBOR outputs and decoded messages compared again after the group has finished; two groups mix all message types; a sequential pass checks that a MarshalCBOR output survives later MarshalCBOR calls. " +
			"Non-trivial: a round trip that decoded (distinct by constructor and encoded bytes), a mutant that was judged (distinct by constructor, mutant class and bytes), or a concurrent group with at least one completed round trip (distinct by constructor and group).",
		MinNontrivial: 1500,
		Assumptions: []string{
			"the per-message field kinds in table_*.go transcribe the CDDL of the Ouroboros network specification / CIP-0137; fields the CDDL leaves open (header, block, tx, txId, query, result, reject reason, version data) are never type-mutated",
			"Leios messages follow a draft without a stable CDDL: they are round-tripped, and only their chain points are mutated",
			"generated field values are valid for their type (32-byte hashes, 48-byte BLS signatures, DMQ message ids consistent with the payload alias)",
		},
		QuickTimeout: 600,
		Run:          run,
	})
}

// ---------------------------------------------------------------- table types

type kind int

const (
	kAny    kind = iota // the CDDL does not fix the type: never mutated
	kUint               // uint / wordNN
	kBool               // bool
	kBytes              // bstr
	kText               // tstr
	kArray              // a list / a fixed-shape group written as an array
	kMap                // map
	kPoint              // point = [] / [slot, hash]
	kTip                // tip = [point, blockNo]
	kPoints             // [* point]
)

func (k kind) major() string {
	switch k {
	case kUint:
		return "uint"
	case kBool:
		return "bool"
	case kBytes:
		return "bytes"
	case kText:
		return "text"
	case kArray, kPoint, kTip, kPoints:
		return "array"
	case kMap:
		return "map"
	}
	return "any"
}

type field struct {
	name string
	kind kind
}

type ctor struct {
	pkg  string // "chainsync"
	name string // "MsgRollBackward" (unique inside pkg; suffix for variants)
	// build calls the public constructor with generated values.
	build  func(g *gen) (protocol.Message, error)
	decode func(msgType uint, data []byte) (protocol.Message, error)
	// fields after the message-type element, as the CDDL fixes them.
	fields []field
	// By default the CDDL gives a message exactly 1+len(fields) elements, so
	// arity +-1 is forbidden; noArityPlus / noArityMinus switch one direction
	// off where the neighbouring arity is another legal form of the message.
	noArityPlus  bool
	noArityMinus bool
	// noShape: only chain-point mutants are derived (draft specifications).
	noShape bool
	// reencodeOnly: the constructor takes an `any` that decodes into a typed
	// value (MsgQuery), so fields are compared through their encoding only.
	reencodeOnly bool
	// extra renders accessor-visible state that is not in exported fields.
	extra func(m protocol.Message) string
}

func (c *ctor) id() string { return c.pkg + "." + c.name }

var table []ctor

func register(c ...ctor) { table = append(table, c...) }

// ---------------------------------------------------------------- violations, ordered

type pend struct {
	order int
	key   string
	what  string
	wit   map[string]any
	size  int
}
type collector struct {
	mu sync.Mutex
	v  []pend
}

func (p *collector) add(order int, key, what string, size int, w map[string]any) {
	p.mu.Lock()
	p.v = append(p.v, pend{order, key, what, w, size})
	p.mu.Unlock()
}
func (p *collector) flush(c *core.Ctx) {
	sort.SliceStable(p.v, func(i, j int) bool {
		a, b := p.v[i], p.v[j]
		if a.key != b.key {
			return a.key < b.key
		}
		if a.size != b.size {
			return a.size < b.size
		}
		return a.order < b.order
	})
	for _, x := range p.v {
		c.Violation(x.key, x.what, x.wit)
	}
}

// ---------------------------------------------------------------- run

func run(c *core.Ctx) {
	values := c.N(20, 2000)
	mutantValues := c.N(6, 16)
	seen := map[string]bool{}
	for i := range table {
		if seen[table[i].id()] {
			panic("c04: duplicate constructor " + table[i].id())
		}
		seen[table[i].id()] = true
	}
	c.Note("constructors", len(table))
	pk := map[string]bool{}
	for i := range table {
		pk[table[i].pkg] = true
	}
	c.Note("protocol_packages", len(pk))
	c.Note("values_per_constructor", values)
	coll := &collector{}
	type job struct{ ci, vi int }
	var jobs []job
	for ci := range table {
		for vi := 0; vi < values; vi++ {
			jobs = append(jobs, job{ci, vi})
		}
	}
	c.Parallel("case", len(jobs), 0, func(ji int, _ *core.Rand) {
		ct := &table[jobs[ji].ci]
		vi := jobs[ji].vi
		g := &gen{r: c.Rand("values", ct.id(), vi), vi: vi}
		order := ji * 4096
		msg, err := ct.build(g)
		if err != nil {
			c.Count("constructor_refused_values", 1)
			return
		}
		var enc []byte
		p, val, _ := core.Safely(func() { enc, err = gcbor.Encode(msg) })
		if p || err != nil {
			// the constructor built a message the encoder does not take:
			// nothing was sent, nothing to decode
			c.Count("encode_failed", 1)
			c.Inconclusive(fmt.Sprintf("%s: cbor.Encode of the constructed message failed: %v %v", ct.id(), err, val))
			return
		}
		c.Eval()
		c.Count("roundtrips", 1)
		c.Journal("C04 roundtrip %s #%d %s", ct.id(), vi, core.HexFull(enc))
		roundTrip(c, coll, order, ct, msg, enc)
		if vi < mutantValues && !ct.noShape {
			mutants(c, coll, order+1, ct, msg, enc)
		} else if vi < mutantValues {
			pointMutantsOnly(c, coll, order+1, ct, msg, enc)
		}
	})
	concurrentPhase(c, coll)
	coll.flush(c)
	if c.Counter("concurrent_roundtrips_ok") == 0 {
		c.Inconclusive("the concurrent phase never completed a round trip")
	}
	if c.Counter("roundtrip_decoded") == 0 || c.Counter("mutant_rejected") == 0 {
		c.Inconclusive("the run never saw both an accepted round trip and a rejected mutant")
	}
}

func typeName(v any) string {
	if v == nil {
		return "nil"
	}
	return reflect.TypeOf(v).String()
}

func roundTrip(c *core.Ctx, coll *collector, order int, ct *ctor, msg protocol.Message, enc []byte) {
	wit := func(extra map[string]any) map[string]any {
		m := map[string]any{"constructor": ct.id(), "message_type": msg.Type(), "encoded_hex": core.HexFull(enc), "built": clip(dumpExported(msg))}
		for k, v := range extra {
			m[k] = v
		}
		return m
	}
	var m2 protocol.Message
	var err error
	p, val, stack := core.Safely(func() { m2, err = ct.decode(uint(msg.Type()), enc) })
	if p {
		c.Count("roundtrip_panics", 1)
		coll.add(order, "C04:"+ct.id()+":roundtrip-panic", fmt.Sprintf("%s: NewMsgFromCbor panicked on the encoding of a constructed message: %v", ct.id(), val), len(enc), wit(map[string]any{"stack": clip(stack)}))
		return
	}
	if err != nil {
		c.Count("roundtrip_decode_errors", 1)
		coll.add(order, "C04:"+ct.id()+":roundtrip-decode-error", fmt.Sprintf("%s: the encoding of a constructed message does not decode: %v", ct.id(), err), len(enc), wit(map[string]any{"error": err.Error()}))
		return
	}
	c.Count("roundtrip_decoded", 1)
	c.Distinct("rt", ct.id(), string(enc))
	if c.SampleN() < 6 && order%37 == 0 {
		c.Sample(map[string]any{"constructor": ct.id(), "hex": core.Hex(enc)})
	}
	if typeName(m2) != typeName(msg) {
		coll.add(order, "C04:"+ct.id()+":roundtrip-type", fmt.Sprintf("%s: decoded as %s", ct.id(), typeName(m2)), len(enc), wit(map[string]any{"decoded_type": typeName(m2)}))
		return
	}
	if m2.Type() != msg.Type() {
		coll.add(order, "C04:"+ct.id()+":roundtrip-msgtype", fmt.Sprintf("%s: Type() %d became %d", ct.id(), msg.Type(), m2.Type()), len(enc), wit(map[string]any{"decoded_message_type": m2.Type()}))
		return
	}
	if !ct.reencodeOnly {
		a, b := dumpExported(msg), dumpExported(m2)
		if a != b {
			coll.add(order, "C04:"+ct.id()+":roundtrip-fields", fmt.Sprintf("%s: exported fields differ after the round trip", ct.id()), len(enc), wit(map[string]any{"decoded": clip(b), "first_difference": firstDiff(a, b)}))
			return
		}
	}
	if ct.extra != nil {
		a, b := ct.extra(msg), ct.extra(m2)
		if a != b {
			coll.add(order, "C04:"+ct.id()+":roundtrip-accessors", fmt.Sprintf("%s: accessor-visible state differs after the round trip: %s vs %s", ct.id(), clip(a), clip(b)), len(enc), wit(map[string]any{"built_accessors": clip(a), "decoded_accessors": clip(b)}))
			return
		}
	}
	var enc2 []byte
	p, val, _ = core.Safely(func() { enc2, err = gcbor.Encode(m2) })
	if p || err != nil {
		coll.add(order, "C04:"+ct.id()+":roundtrip-reencode", fmt.Sprintf("%s: the decoded message cannot be encoded again: %v %v", ct.id(), err, val), len(enc), wit(nil))
		return
	}
	if !bytes.Equal(enc, enc2) {
		coll.add(order, "C04:"+ct.id()+":roundtrip-reencode", fmt.Sprintf("%s: re-encoding the decoded message gives different bytes", ct.id()), len(enc), wit(map[string]any{"reencoded_hex": core.HexFull(enc2)}))
	}
}

func clip(s string) string {
	if len(s) > 1200 {
		return s[:1200] + "..."
	}
	return s
}

func firstDiff(a, b string) string {
	i := 0
	for i < len(a) && i < len(b) && a[i] == b[i] {
		i++
	}
	lo := i - 60
	if lo < 0 {
		lo = 0
	}
	ha, hb := i+60, i+60
	if ha > len(a) {
		ha = len(a)
	}
	if hb > len(b) {
		hb = len(b)
	}
	return fmt.Sprintf("built ...%s... / decoded ...%s...", a[lo:ha], b[lo:hb])
}

// ---------------------------------------------------------------- mutants

type mutant struct {
	class string // finding-key component
	key   string // full key override ("" = C04:<ctor>:<class>)
	what  string
	bytes []byte
}

func replacements() map[string]*cborx.Node {
	return map[string]*cborx.Node{
		"uint":  cborx.U(7),
		"nint":  cborx.I(-1),
		"bytes": cborx.B([]byte{1, 2}),
		"text":  cborx.S("ab"),
		"array": cborx.A(),
		"map":   cborx.M(),
		"bool":  cborx.Bool(true),
	}
}

var replOrder = []string{"uint", "nint", "bytes", "text", "array", "map", "bool"}

func pointMutants(ctID string, root *cborx.Node, path []int, where string) []mutant {
	var out []mutant
	mk := func(class, what string, f func(p *cborx.Node)) {
		r := root.Clone()
		p := r.At(path...)
		if p == nil || p.Kind != cborx.Array {
			return
		}
		f(p)
		out = append(out, mutant{class: class, key: "C04:Point:" + class, what: what + " (" + where + " of " + ctID + ")", bytes: r.Encode()})
	}
	slot := func() *cborx.Node { return cborx.U(4492800) }
	hash := func() *cborx.Node { return cborx.B(bytes.Repeat([]byte{0xab}, 32)) }
	mk("len1", "a chain point with one element [slot] is accepted", func(p *cborx.Node) { p.Items = []*cborx.Node{slot()} })
	mk("len1-hash", "a chain point with one element [hash] is accepted", func(p *cborx.Node) { p.Items = []*cborx.Node{hash()} })
	mk("len3", "a chain point with three elements [slot, hash, 0] is accepted", func(p *cborx.Node) { p.Items = []*cborx.Node{slot(), hash(), cborx.U(0)} })
	mk("len4", "a chain point with four elements is accepted", func(p *cborx.Node) { p.Items = []*cborx.Node{slot(), hash(), cborx.U(0), cborx.U(0)} })
	mk("text-hash", "a chain point whose hash is a text string is accepted", func(p *cborx.Node) {
		p.Items = []*cborx.Node{slot(), cborx.S("abababababababababababababababab")}
	})
	mk("hash-first", "a chain point [hash, slot] is accepted", func(p *cborx.Node) { p.Items = []*cborx.Node{hash(), slot()} })
	mk("negative-slot", "a chain point with a negative slot is accepted", func(p *cborx.Node) { p.Items = []*cborx.Node{cborx.I(-5), hash()} })
	// point = [slot: uint, hash: bytes] – every other type in either position is forbidden
	mk("hash-null", "a chain point whose hash is null is accepted", func(p *cborx.Node) { p.Items = []*cborx.Node{slot(), cborx.Null()} })
	mk("hash-undefined", "a chain point whose hash is undefined is accepted", func(p *cborx.Node) { p.Items = []*cborx.Node{slot(), cborx.Undef()} })
	mk("hash-uint-array", "a chain point whose hash is an array of small integers is accepted", func(p *cborx.Node) {
		p.Items = []*cborx.Node{slot(), cborx.A(cborx.U(1), cborx.U(2), cborx.U(3))}
	})
	mk("hash-empty-array", "a chain point whose hash is an empty array is accepted", func(p *cborx.Node) { p.Items = []*cborx.Node{slot(), cborx.A()} })
	mk("hash-tagged", "a chain point whose hash is a tag-wrapped byte string is accepted", func(p *cborx.Node) {
		p.Items = []*cborx.Node{slot(), cborx.T(24, hash())}
	})
	mk("hash-uint", "a chain point whose hash is an unsigned integer is accepted", func(p *cborx.Node) { p.Items = []*cborx.Node{slot(), cborx.U(7)} })
	mk("hash-map", "a chain point whose hash is a map is accepted", func(p *cborx.Node) { p.Items = []*cborx.Node{slot(), cborx.M()} })
	mk("slot-null", "a chain point whose slot is null is accepted", func(p *cborx.Node) { p.Items = []*cborx.Node{cborx.Null(), hash()} })
	mk("slot-bytes", "a chain point whose slot is a byte string is accepted", func(p *cborx.Node) { p.Items = []*cborx.Node{cborx.B([]byte{1}), hash()} })
	mk("slot-array", "a chain point whose slot is an array is accepted", func(p *cborx.Node) { p.Items = []*cborx.Node{cborx.A(cborx.U(1)), hash()} })
	mk("slot-bool", "a chain point whose slot is a boolean is accepted", func(p *cborx.Node) { p.Items = []*cborx.Node{cborx.Bool(true), hash()} })
	return out
}

func pointPaths(ct *ctor, root *cborx.Node) (paths [][]int, tips [][]int) {
	for i, f := range ct.fields {
		idx := i + 1
		if idx >= len(root.Items) {
			break
		}
		switch f.kind {
		case kPoint:
			paths = append(paths, []int{idx})
		case kTip:
			tips = append(tips, []int{idx})
			paths = append(paths, []int{idx, 0})
		case kPoints:
			if len(root.Items[idx].Items) > 0 {
				paths = append(paths, []int{idx, 0})
				paths = append(paths, []int{idx, len(root.Items[idx].Items) - 1})
			}
		}
	}
	return
}

func buildMutants(ct *ctor, enc []byte, shape bool) []mutant {
	root, err := cborx.ParseExact(enc)
	if err != nil || root.Kind != cborx.Array || len(root.Items) == 0 {
		return nil
	}
	var out []mutant
	n := len(root.Items)
	if shape {
		if !ct.noArityPlus {
			for _, extra := range []*cborx.Node{cborx.U(0), cborx.A()} {
				r := root.Clone()
				r.Items = append(r.Items, extra)
				out = append(out, mutant{class: "arity+1", what: fmt.Sprintf("%d elements instead of %d are accepted", n+1, n), bytes: r.Encode()})
			}
		}
		if !ct.noArityMinus {
			r := root.Clone()
			r.Items = r.Items[:n-1]
			out = append(out, mutant{class: "arity-1", what: fmt.Sprintf("%d elements instead of %d are accepted", n-1, n), bytes: r.Encode()})
		}
		repl := replacements()
		for i, f := range ct.fields {
			idx := i + 1
			if idx >= n || f.kind == kAny {
				continue
			}
			for _, rk := range replOrder {
				if rk == f.kind.major() {
					continue
				}
				r := root.Clone()
				r.Items[idx] = repl[rk].Clone()
				out = append(out, mutant{class: "field-type:" + f.name + "<-" + rk,
					what: fmt.Sprintf("field %s (%s in the CDDL) replaced by a %s item is accepted", f.name, f.kind.major(), rk), bytes: r.Encode()})
			}
			r := root.Clone()
			r.Items[idx] = cborx.Null()
			out = append(out, mutant{class: "field-null:" + f.name, key: "C04:null-for-field:" + ct.id() + "." + f.name,
				what: fmt.Sprintf("field %s (%s in the CDDL) replaced by null is accepted", f.name, f.kind.major()), bytes: r.Encode()})
		}
	}
	paths, tips := pointPaths(ct, root)
	for pi, p := range paths {
		out = append(out, pointMutants(ct.id(), root, p, fmt.Sprintf("point %d", pi))...)
	}
	if shape {
		for _, t := range tips {
			r := root.Clone()
			tn := r.At(t...)
			if tn == nil || tn.Kind != cborx.Array {
				continue
			}
			tn.Items = append(tn.Items, cborx.U(0))
			out = append(out, mutant{class: "tip-extra", key: "C04:Tip:extra-element", what: "a tip with a third element is accepted (" + ct.id() + ")", bytes: r.Encode()})
			r2 := root.Clone()
			tn2 := r2.At(t...)
			tn2.Items = tn2.Items[:1]
			out = append(out, mutant{class: "tip-short", key: "C04:Tip:missing-block-number", what: "a tip without block number is accepted (" + ct.id() + ")", bytes: r2.Encode()})
			for _, alt := range []struct {
				name string
				n    *cborx.Node
			}{{"text", cborx.S("12")}, {"nint", cborx.I(-3)}, {"bytes", cborx.B([]byte{9})}} {
				r3 := root.Clone()
				tn3 := r3.At(t...)
				if len(tn3.Items) != 2 {
					continue
				}
				tn3.Items[1] = alt.n
				out = append(out, mutant{class: "tip-blockno<-" + alt.name, key: "C04:Tip:block-number<-" + alt.name,
					what: "a tip whose block number is a " + alt.name + " item is accepted (" + ct.id() + ")", bytes: r3.Encode()})
			}
		}
	}
	return out
}

func mutants(c *core.Ctx, coll *collector, order int, ct *ctor, msg protocol.Message, enc []byte) {
	judge(c, coll, order, ct, msg, enc, buildMutants(ct, enc, true))
}

func pointMutantsOnly(c *core.Ctx, coll *collector, order int, ct *ctor, msg protocol.Message, enc []byte) {
	judge(c, coll, order, ct, msg, enc, buildMutants(ct, enc, false))
}

func judge(c *core.Ctx, coll *collector, order int, ct *ctor, msg protocol.Message, enc []byte, ms []mutant) {
	for mi, m := range ms {
		if bytes.Equal(m.bytes, enc) {
			continue
		}
		c.Eval()
		c.Count("mutants", 1)
		c.Journal("C04 mutant %s %s %s", ct.id(), m.class, core.HexFull(m.bytes))
		var m2 protocol.Message
		var err error
		p, val, _ := core.Safely(func() { m2, err = ct.decode(uint(msg.Type()), m.bytes) })
		if p {
			c.Count("mutant_panics", 1)
			c.Inconclusive(fmt.Sprintf("%s: decoder panicked on mutant %s %s: %v", ct.id(), m.class, core.Hex(m.bytes), val))
			continue
		}
		c.Distinct("mut", ct.id(), m.class, string(m.bytes))
		if err != nil {
			c.Count("mutant_rejected", 1)
			continue
		}
		c.Count("mutant_accepted", 1)
		key := m.key
		if key == "" {
			key = "C04:" + ct.id() + ":" + m.class
		}
		coll.add(order+mi, key, ct.id()+": "+m.what, len(m.bytes), map[string]any{
			"constructor": ct.id(), "message_type": msg.Type(), "mutant_class": m.class,
			"mutant_hex": core.HexFull(m.bytes), "valid_hex": core.HexFull(enc), "decoded_as": clip(dumpExported(m2)),
		})
	}
}
