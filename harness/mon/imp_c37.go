//go:build only_c37

package mon

import _ "verifharness/mon/c37"
