// Package c22 monitors C22: chain-sync wrapping preserves block and header
// identity. Every corpus block and its cborx re-encodings that the block
// decoder still accepts is pushed (a) through the roll-forward constructors
// NewMsgRollForwardNtC / NewMsgRollForwardNtN -> the encoding the protocol
// layer puts on the wire -> NewMsgFromCbor, and (b) end-to-end through a real
// chainsync.Server (Server.RollForward called from its RequestNext callback)
// and a real chain-sync client (Sync + RollForwardFunc), both created by
// ouroboros.NewConnection over an in-memory pipe.
//
// Oracle. The served facts are computed without the library (package rig:
// cborx + blake2b): header bytes = element 0 of the block array, block hash =
// Blake2b-256 of the header bytes (Byron: of [subtype, header]), node-to-node
// era = block type - 1. NtC: the client sees the same block type and
// block.Cbor() is byte-identical to the served bytes (the wire carries them
// verbatim inside 24(h'[type, block]')). NtN, Shelley and later: the wire era
// maps through ledger.BlockHeaderToBlockTypeMap to the served block type, the
// wrapped header bytes are the served header bytes, header.Hash() equals the
// block hash. Byron: subtype (main / EBB) preserved, hash equal.
package c22

import (
	"bytes"
	"fmt"
	"hash/fnv"
	"runtime"
	"sort"
	"strings"
	"sync"
	"time"

	ouroboros "github.com/blinklabs-io/gouroboros"
	gcbor "github.com/blinklabs-io/gouroboros/cbor"
	"github.com/blinklabs-io/gouroboros/ledger"
	"github.com/blinklabs-io/gouroboros/protocol"
	"github.com/blinklabs-io/gouroboros/protocol/chainsync"
	pcommon "github.com/blinklabs-io/gouroboros/protocol/common"

	"verifharness/cborx"
	"verifharness/core"
	"verifharness/mon/c21/rig"
	"verifharness/rawpeer"
)

func init() {
	core.Register(&core.Monitor{
		ID:            "C22",
		Race:          true,
		Rule:          "every corpus block (11: Byron EBB, Byron main x2, Shelley x2, Allegra, Mary, Alonzo, Babbage, Conway, Dijkstra) x re-encodings {as is; block array header in 1/2/4/8-byte and indefinite form; header element array in the same five forms; PRNG policies that switch 1% / 10% of all nodes to another width or to indefinite length (quick 4, thorough 60 per block); the 648 kB EBB in quick only as is and with an indefinite block array} kept when ledger.NewBlockFromCbor still accepts them x level {constructor -> wire -> NewMsgFromCbor, real server -> real client} x mode {NtC, NtN}. A case is non-trivial when the variant was accepted, served, and the arrival was compared with the served facts; distinct by (level, mode, block, variant bytes hash)",
		MinNontrivial: 250,
		RaceAnchors:   []string{"chainsync.(*MsgRollForward", "chainsync.(*WrappedHeader)", "chainsync.NewWrappedHeader", "chainsync.NewMsgRollForward"},
		Assumptions: []string{
			"block hash = Blake2b-256 of the header bytes as served (Byron: of the two-element list [subtype, header])",
			"node-to-node era of a Shelley-or-later block type T is T-1 (network spec), Byron blocks use era 0 with [subtype, size]",
			"the chain-sync server refuses Byron blocks over node-to-node (no entry in ledger.BlockToBlockHeaderTypeMap); Byron over node-to-node is outside the statement, so that refusal is only counted; refusing any other block that ledger.NewBlockFromCbor accepts (constructor error, Server.RollForward error) is a violation",
			"an end-to-end connection that does not finish within the 120 s watchdog is inconclusive",
		},
		QuickTimeout:    600,
		ThoroughTimeout: 2 * 3600,
		Run:             run,
	})
}

const watchdog = 120 * time.Second

type variant struct {
	Blk    *rig.Block // facts of this variant (Cbor = variant bytes)
	Base   string
	Policy string
	Hash   uint64
}

func bytesHash(b []byte) uint64 {
	h := fnv.New64a()
	h.Write(b)
	return h.Sum64()
}

var forms = []cborx.Form{cborx.Form1, cborx.Form2, cborx.Form4, cborx.Form8, cborx.FormIndef}

// randomPolicy switches a share of the nodes to another header form.
func randomPolicy(root *cborx.Node, r *core.Rand, perMille int) *cborx.Node {
	n := root.Clone()
	for _, x := range n.Nodes() {
		if x.Kind == cborx.Simple || r.Intn(1000) >= perMille {
			continue
		}
		switch x.Kind {
		case cborx.Array, cborx.Map, cborx.Bytes, cborx.Text:
			f := forms[r.Intn(len(forms))]
			if f == cborx.FormIndef && (x.Kind == cborx.Bytes || x.Kind == cborx.Text) {
				x.SetFormChunks(f, 1+r.Intn(3))
			} else {
				x.SetForm(f)
			}
		default:
			x.SetForm(forms[r.Intn(4)])
		}
	}
	return n
}

func buildVariants(c *core.Ctx, b *rig.Block, r *core.Rand) (out []*variant, rejected int) {
	root, err := cborx.ParseExact(b.Cbor)
	if err != nil {
		return nil, 0
	}
	type cand struct {
		policy string
		data   []byte
	}
	cands := []cand{{"as-is", b.Cbor}}
	big := len(b.Cbor) > 200000 // the 648 kB EBB: every copy costs tens of ms under the race detector
	for fi, f := range forms {
		if big && c.Quick() && fi != 4 {
			continue
		}
		n := root.Clone()
		if n.SetForm(f) {
			cands = append(cands, cand{"block-array-" + f.String(), n.Encode()})
		}
		n = root.Clone()
		if h := n.Items[0]; h.Kind == cborx.Array && h.SetForm(f) {
			cands = append(cands, cand{"header-array-" + f.String(), n.Encode()})
		}
	}
	nrand := c.N(4, 60)
	if big {
		nrand = c.N(0, 8)
	}
	for i := 0; i < nrand; i++ {
		pm := 10
		if i%2 == 1 {
			pm = 100
		}
		cands = append(cands, cand{fmt.Sprintf("random-%d-permille-%d", pm, i), randomPolicy(root, r, pm).Encode()})
	}
	seen := map[uint64]bool{}
	for _, cd := range cands {
		h := bytesHash(cd.data)
		if seen[h] {
			continue
		}
		seen[h] = true
		c.Journal("C22 decode %s %s (%d bytes)", b.Name, cd.policy, len(cd.data))
		var derr error
		if p, _, _ := core.Safely(func() { _, derr = ledger.NewBlockFromCbor(b.Type, cd.data) }); p || derr != nil {
			rejected++
			continue
		}
		vb, err := rig.Describe(b.Name, b.Type, cd.data)
		if err != nil {
			rejected++
			continue
		}
		out = append(out, &variant{Blk: vb, Base: b.Name, Policy: cd.policy, Hash: h})
	}
	return
}

func witness(v *variant, mode string) map[string]any {
	w := map[string]any{"block": v.Base, "block_type": v.Blk.Type, "re_encoding": v.Policy, "mode": mode,
		"served_hash": fmt.Sprintf("%x", v.Blk.Hash[:]), "served_header": core.HexFull(v.Blk.Header)}
	if len(v.Blk.Cbor) <= 20000 {
		w["served_block"] = core.HexFull(v.Blk.Cbor)
	} else {
		w["served_block_len"] = len(v.Blk.Cbor)
	}
	return w
}

func eraName(blockType uint) string {
	names := []string{"byron-ebb", "byron", "shelley", "allegra", "mary", "alonzo", "babbage", "conway", "dijkstra"}
	if int(blockType) < len(names) {
		return names[blockType]
	}
	return fmt.Sprintf("type%d", blockType)
}

func tipFor(i int) rig.Tip {
	return rig.Tip{Point: rig.Point{Slot: uint64(1000 + i), Hash: bytes.Repeat([]byte{byte(i)}, 32)}, BlockNo: uint64(77 + i)}
}

func libTip(t rig.Tip) chainsync.Tip {
	return chainsync.Tip{Point: pcommon.NewPoint(t.Point.Slot, t.Point.Hash), BlockNumber: t.BlockNo}
}

// ------------------------------------------------------------------ level 1: constructors and decoder

func checkMsgNtC(c *core.Ctx, v *variant, i int) {
	b := v.Blk
	tip := tipFor(i)
	w := witness(v, "ntc")
	viol := func(class, what string) {
		c.Violation("C22:msg:ntc:"+class, fmt.Sprintf("%s (%s): %s", v.Base, v.Policy, what), w)
	}
	c.Journal("C22 msg ntc %s %s", v.Base, v.Policy)
	m, err := chainsync.NewMsgRollForwardNtC(b.Type, b.Cbor, libTip(tip))
	c.Eval()
	if err != nil {
		// the block decodes (ledger.NewBlockFromCbor accepted it): refusing to wrap it is not a delivery
		c.Count("msg_ntc_constructor_refused", 1)
		w["error"] = err.Error()
		viol("refused:"+eraName(b.Type), fmt.Sprintf("NewMsgRollForwardNtC refuses a block that the ledger decoder accepts: %v", err))
		return
	}
	enc, err := gcbor.Encode(m)
	if err != nil {
		viol("encode", "the constructed message does not encode: "+err.Error())
		return
	}
	w["wire"] = core.Hex(enc)
	// the wire as an independent reader sees it
	n, perr := cborx.ParseExact(enc)
	ok := perr == nil && n.Kind == cborx.Array && len(n.Items) == 3 && n.Items[0].Kind == cborx.Uint && n.Items[0].Arg == 2 &&
		n.Items[1].Kind == cborx.Tag && n.Items[1].Arg == 24 && n.Items[1].Items[0].Kind == cborx.Bytes
	if !ok {
		viol("wire-shape", "the wire message is not [2, 24(bytes), tip]")
		return
	}
	inner := n.Items[1].Items[0].StringData()
	in, ierr := cborx.ParseExact(inner)
	if ierr != nil || in.Kind != cborx.Array || len(in.Items) != 2 || in.Items[0].Kind != cborx.Uint {
		viol("wire-shape", "the wrapped content is not [type, block]")
		return
	}
	if uint(in.Items[0].Arg) != b.Type {
		viol("wire-type", fmt.Sprintf("the wire carries block type %d, served %d", in.Items[0].Arg, b.Type))
		return
	}
	if !bytes.Equal(in.Items[1].Slice(inner), b.Cbor) {
		viol("wire-bytes", "the block bytes on the wire differ from the served bytes")
		return
	}
	if t, ok := parseTip(n.Items[2]); !ok || !t.Equal(tip) {
		viol("wire-tip", "the tip on the wire differs from the one given")
		return
	}
	dm, err := chainsync.NewMsgFromCbor(protocol.ProtocolModeNodeToClient, chainsync.MessageTypeRollForward, enc)
	if err != nil {
		viol("decode", "NewMsgFromCbor rejects the message the constructor built: "+err.Error())
		return
	}
	d, ok := dm.(*chainsync.MsgRollForwardNtC)
	if !ok {
		viol("decode", fmt.Sprintf("NewMsgFromCbor returned %T", dm))
		return
	}
	if d.BlockType() != b.Type {
		viol("type", fmt.Sprintf("decoded block type %d, served %d", d.BlockType(), b.Type))
		return
	}
	if !bytes.Equal(d.BlockCbor(), b.Cbor) {
		viol("bytes", "decoded BlockCbor() differs from the served bytes")
		return
	}
	blk, err := ledger.NewBlockFromCbor(d.BlockType(), d.BlockCbor())
	if err != nil {
		viol("block-decode", "the arrived block does not decode although the served one did: "+err.Error())
		return
	}
	if !bytes.Equal(blk.Cbor(), b.Cbor) {
		viol("block-cbor", "block.Cbor() of the arrived block differs from the served bytes")
		return
	}
	if !bytes.Equal(blk.Hash().Bytes(), b.Hash[:]) {
		w["arrived_hash"] = blk.Hash().String()
		viol("block-hash", "block.Hash() of the arrived block differs from the served block's hash")
		return
	}
	c.Count("msg_ntc_checked", 1)
	c.Distinct("msg", "ntc", v.Base, v.Hash)
	if (v.Policy == "block-array-indef" && v.Base == "shelley_testnet") || (v.Policy == "as-is" && v.Base == "byron_main_testnet") {
		c.Sample(map[string]any{"level": "constructor -> wire -> NewMsgFromCbor", "mode": "ntc", "block": v.Base, "re_encoding": v.Policy,
			"served_block": core.HexFull(b.Cbor), "wire": core.HexFull(enc), "arrived_type": d.BlockType(), "arrived_hash": blk.Hash().String()})
	}
}

func parseTip(n *cborx.Node) (rig.Tip, bool) {
	if n == nil || n.Kind != cborx.Array || len(n.Items) != 2 || n.Items[1].Kind != cborx.Uint {
		return rig.Tip{}, false
	}
	p, ok := rig.ParsePoint(n.Items[0])
	return rig.Tip{Point: p, BlockNo: n.Items[1].Arg}, ok
}

func checkMsgNtN(c *core.Ctx, v *variant, i int) {
	b := v.Blk
	tip := tipFor(i)
	w := witness(v, "ntn")
	viol := func(class, what string) {
		c.Violation("C22:msg:ntn:"+class, fmt.Sprintf("%s (%s): %s", v.Base, v.Policy, what), w)
	}
	c.Journal("C22 msg ntn %s %s", v.Base, v.Policy)
	era, sub := uint(0), b.ByronSub
	if !b.Byron {
		e, ok := ledger.BlockToBlockHeaderTypeMap[b.Type]
		c.Eval()
		if !ok {
			viol("era-map", fmt.Sprintf("BlockToBlockHeaderTypeMap has no entry for block type %d", b.Type))
			return
		}
		if e != b.Era {
			viol("era-map", fmt.Sprintf("BlockToBlockHeaderTypeMap[%d] = %d, the node-to-node era of that block type is %d", b.Type, e, b.Era))
			return
		}
		era, sub = e, 0
	} else {
		c.Eval()
	}
	m, err := chainsync.NewMsgRollForwardNtN(era, sub, b.Cbor, libTip(tip))
	if err != nil {
		if b.Byron { // Byron over node-to-node is outside the statement: counted only
			c.Count("msg_ntn_byron_constructor_refused", 1)
			return
		}
		c.Count("msg_ntn_constructor_refused", 1)
		w["error"] = err.Error()
		viol("refused:"+eraName(b.Type), fmt.Sprintf("NewMsgRollForwardNtN refuses a %s block that the ledger decoder accepts: %v", eraName(b.Type), err))
		return
	}
	enc, err := gcbor.Encode(m)
	if err != nil {
		viol("encode", "the constructed message does not encode: "+err.Error())
		return
	}
	w["wire"] = core.Hex(enc)
	n, perr := cborx.ParseExact(enc)
	if perr != nil || n.Kind != cborx.Array || len(n.Items) != 3 || n.Items[0].Kind != cborx.Uint || n.Items[0].Arg != 2 ||
		n.Items[1].Kind != cborx.Array || len(n.Items[1].Items) != 2 || n.Items[1].Items[0].Kind != cborx.Uint {
		viol("wire-shape", "the wire message is not [2, [era, ...], tip]")
		return
	}
	wireEra := uint(n.Items[1].Items[0].Arg)
	hdrTag := n.Items[1].Items[1]
	if b.Byron {
		if wireEra != 0 || hdrTag.Kind != cborx.Array || len(hdrTag.Items) != 2 || hdrTag.Items[0].Kind != cborx.Array ||
			len(hdrTag.Items[0].Items) != 2 || hdrTag.Items[0].Items[0].Kind != cborx.Uint {
			viol("wire-shape", "the Byron wrapping is not [0, [[subtype, size], 24(header)]]")
			return
		}
		if uint(hdrTag.Items[0].Items[0].Arg) != b.ByronSub {
			viol("wire-byron-subtype", fmt.Sprintf("the wire carries Byron subtype %d, served %d", hdrTag.Items[0].Items[0].Arg, b.ByronSub))
			return
		}
		hdrTag = hdrTag.Items[1]
	} else if wireEra != b.Era {
		viol("wire-era", fmt.Sprintf("the wire carries era %d for block type %d (era %d)", wireEra, b.Type, b.Era))
		return
	}
	if hdrTag.Kind != cborx.Tag || hdrTag.Arg != 24 || hdrTag.Items[0].Kind != cborx.Bytes {
		viol("wire-shape", "the header is not wrapped as 24(bytes)")
		return
	}
	if !bytes.Equal(hdrTag.Items[0].StringData(), b.Header) {
		w["wire_header"] = core.HexFull(hdrTag.Items[0].StringData())
		viol("wire-header-bytes", "the header bytes on the wire differ from the served header bytes")
		return
	}
	if t, ok := parseTip(n.Items[2]); !ok || !t.Equal(tip) {
		viol("wire-tip", "the tip on the wire differs from the one given")
		return
	}
	dm, err := chainsync.NewMsgFromCbor(protocol.ProtocolModeNodeToNode, chainsync.MessageTypeRollForward, enc)
	if err != nil {
		viol("decode", "NewMsgFromCbor rejects the message the constructor built: "+err.Error())
		return
	}
	d, ok := dm.(*chainsync.MsgRollForwardNtN)
	if !ok {
		viol("decode", fmt.Sprintf("NewMsgFromCbor returned %T", dm))
		return
	}
	var arrivedType uint
	if b.Byron {
		if d.WrappedHeader.Era != ledger.BlockHeaderTypeByron {
			viol("era", fmt.Sprintf("decoded era %d for a Byron block", d.WrappedHeader.Era))
			return
		}
		arrivedType = d.WrappedHeader.ByronType()
		if arrivedType != b.ByronSub {
			viol("byron-subtype", fmt.Sprintf("decoded Byron subtype %d, served %d", arrivedType, b.ByronSub))
			return
		}
	} else {
		t, ok := ledger.BlockHeaderToBlockTypeMap[d.WrappedHeader.Era]
		if !ok || t != b.Type {
			viol("era", fmt.Sprintf("decoded era %d maps to block type %d (known=%v), served block type %d", d.WrappedHeader.Era, t, ok, b.Type))
			return
		}
		arrivedType = t
	}
	if !bytes.Equal(d.WrappedHeader.HeaderCbor(), b.Header) {
		w["arrived_header"] = core.HexFull(d.WrappedHeader.HeaderCbor())
		viol("header-bytes", "decoded HeaderCbor() differs from the served header bytes")
		return
	}
	hdr, err := ledger.NewBlockHeaderFromCbor(arrivedType, d.WrappedHeader.HeaderCbor())
	if err != nil {
		viol("header-decode", "the arrived header does not decode although the block did: "+err.Error())
		return
	}
	if !bytes.Equal(hdr.Hash().Bytes(), b.Hash[:]) {
		w["arrived_hash"] = hdr.Hash().String()
		viol("header-hash", "header.Hash() of the arrived header differs from the served block's hash")
		return
	}
	if (v.Policy == "header-array-w1" && v.Base == "shelley_testnet") || (v.Policy == "as-is" && v.Base == "byron_main_testnet") {
		c.Sample(map[string]any{"level": "constructor -> wire -> NewMsgFromCbor", "mode": "ntn", "block": v.Base, "re_encoding": v.Policy,
			"served_header": core.HexFull(b.Header), "served_hash": fmt.Sprintf("%x", b.Hash[:]), "wire": core.HexFull(enc),
			"arrived_era": d.WrappedHeader.Era, "arrived_block_type": arrivedType, "arrived_hash": hdr.Hash().String()})
	}
	if b.Byron {
		c.Count("msg_ntn_byron_checked", 1)
	} else {
		c.Count("msg_ntn_checked", 1)
	}
	c.Distinct("msg", "ntn", v.Base, v.Hash)
}

// ------------------------------------------------------------------ level 2: real server, real client

type arrival struct {
	Type uint
	Hash []byte
	Cbor []byte
	Tip  rig.Tip
	Bad  string
}

type connRes struct {
	c   *ouroboros.Connection
	err error
}

func drainErrors(oc *ouroboros.Connection, into *[]error, mu *sync.Mutex, done chan struct{}) {
	for e := range oc.ErrorChan() {
		mu.Lock()
		*into = append(*into, e)
		mu.Unlock()
	}
	close(done)
}

// runE2E serves the variants of one block over one real connection pair and
// judges every arrival. It returns how many variants were judged.
func runE2E(c *core.Ctx, ntn bool, vs []*variant, limit int) {
	mode := "ntc"
	if ntn {
		mode = "ntn"
	}
	if len(vs) == 0 {
		return
	}
	c.Journal("C22 e2e %s %s (%d variants)", mode, vs[0].Base, len(vs))
	var mu sync.Mutex
	served := 0    // variants the server has tried to send (index of the next one)
	var sent []int // indexes of the variants the server did send
	refused := map[int]string{}
	var arrivals []arrival
	progress := make(chan struct{}, 4*len(vs)+8)
	note := func() {
		select {
		case progress <- struct{}{}:
		default:
		}
	}

	srvCfg := chainsync.NewConfig(
		chainsync.WithFindIntersectFunc(func(_ chainsync.CallbackContext, _ []pcommon.Point) (pcommon.Point, chainsync.Tip, error) {
			return pcommon.NewPointOrigin(), libTip(tipFor(0)), nil
		}),
		chainsync.WithRequestNextFunc(func(ctx chainsync.CallbackContext) error {
			for {
				mu.Lock()
				i := served
				if i >= len(vs) {
					mu.Unlock()
					note()
					return ctx.Server.AwaitReply()
				}
				served++
				mu.Unlock()
				v := vs[i]
				mu.Lock()
				sent = append(sent, i) // before the call: the arrival may be faster than the return
				mu.Unlock()
				if err := ctx.Server.RollForward(v.Blk.Type, v.Blk.Cbor, libTip(tipFor(i))); err != nil {
					mu.Lock()
					sent = sent[:len(sent)-1]
					refused[i] = err.Error()
					mu.Unlock()
					note()
					continue // nothing was sent: the request is still to be answered
				}
				return nil
			}
		}),
	)
	cliCfg := chainsync.NewConfig(
		chainsync.WithPipelineLimit(limit),
		chainsync.WithIntersectTimeout(10*time.Minute),
		chainsync.WithRollBackwardFunc(func(chainsync.CallbackContext, pcommon.Point, chainsync.Tip) error { return nil }),
		chainsync.WithRollForwardFunc(func(_ chainsync.CallbackContext, blockType uint, data any, tip chainsync.Tip) error {
			a := arrival{Type: blockType, Tip: rig.Tip{Point: rig.Point{Slot: tip.Point.Slot, Hash: tip.Point.Hash}, BlockNo: tip.BlockNumber}}
			switch x := data.(type) {
			case ledger.Block:
				a.Hash, a.Cbor = x.Hash().Bytes(), x.Cbor()
			case ledger.BlockHeader:
				a.Hash, a.Cbor = x.Hash().Bytes(), x.Cbor()
			default:
				a.Bad = fmt.Sprintf("callback argument of type %T", data)
			}
			mu.Lock()
			arrivals = append(arrivals, a)
			mu.Unlock()
			note()
			return nil
		}),
	)
	a, b := rawpeer.Pipe()
	sch, cch := make(chan connRes, 1), make(chan connRes, 1)
	go func() {
		oc, err := ouroboros.NewConnection(ouroboros.WithConnection(b), ouroboros.WithNetworkMagic(rig.Magic), ouroboros.WithServer(true),
			ouroboros.WithNodeToNode(ntn), ouroboros.WithChainSyncConfig(srvCfg))
		sch <- connRes{oc, err}
	}()
	go func() {
		oc, err := ouroboros.NewConnection(ouroboros.WithConnection(a), ouroboros.WithNetworkMagic(rig.Magic),
			ouroboros.WithNodeToNode(ntn), ouroboros.WithKeepAlive(false), ouroboros.WithChainSyncConfig(cliCfg))
		cch <- connRes{oc, err}
	}()
	wd := time.NewTimer(watchdog)
	defer wd.Stop()
	var cr, sr connRes
	gotC, gotS := false, false
	for !gotC || !gotS {
		select {
		case cr = <-cch:
			gotC = true
		case sr = <-sch:
			gotS = true
		case <-wd.C:
			a.Close()
			b.Close()
			c.Eval()
			c.Inconclusive(fmt.Sprintf("e2e %s %s: connection set-up did not finish within the watchdog", mode, vs[0].Base))
			go func() {
				for _, ch := range []chan connRes{cch, sch} {
					if r := <-ch; r.c != nil {
						r.c.Close()
					}
				}
			}()
			return
		}
	}
	if cr.err != nil || sr.err != nil {
		for _, r := range []connRes{cr, sr} {
			if r.c != nil {
				r.c.Close()
			}
		}
		a.Close()
		b.Close()
		c.Eval()
		c.Inconclusive(fmt.Sprintf("e2e %s %s: connection set-up failed: %v / %v", mode, vs[0].Base, cr.err, sr.err))
		return
	}
	var errMu sync.Mutex
	var cErrs, sErrs []error
	cDone, sDone := make(chan struct{}), make(chan struct{})
	go drainErrors(cr.c, &cErrs, &errMu, cDone)
	go drainErrors(sr.c, &sErrs, &errMu, sDone)

	syncErr := make(chan error, 1)
	go func() { syncErr <- cr.c.ChainSync().Client.Sync([]pcommon.Point{pcommon.NewPointOrigin()}) }()

	// wait until every variant was tried and every sent one arrived, or an error / the watchdog ends it
	timedOut := false
	var failed string
wait:
	for {
		mu.Lock()
		doneAll := served >= len(vs) && len(arrivals) >= len(sent)
		mu.Unlock()
		if doneAll {
			break
		}
		select {
		case <-progress:
		case err := <-syncErr:
			if err != nil {
				failed = "Sync: " + err.Error()
				break wait
			}
		case <-cDone:
			failed = "client connection ended"
			break wait
		case <-sDone:
			failed = "server connection ended"
			break wait
		case <-wd.C:
			timedOut = true
			break wait
		}
	}
	cr.c.Close()
	sr.c.Close()
	a.Close()
	b.Close()
	for _, ch := range []chan struct{}{cDone, sDone} {
		select {
		case <-ch:
		case <-time.After(watchdog):
			c.Count("teardown_slow", 1)
		}
	}

	mu.Lock()
	defer mu.Unlock()
	errMu.Lock()
	defer errMu.Unlock()
	// judge the arrivals in order against the variants that were sent
	for k, a := range arrivals {
		c.Eval()
		if k >= len(sent) {
			c.Violation("C22:e2e:"+mode+":extra-arrival", fmt.Sprintf("%s: the client got %d roll-forwards for %d served blocks", vs[0].Base, len(arrivals), len(sent)), witness(vs[0], mode))
			break
		}
		i := sent[k]
		v := vs[i]
		w := witness(v, mode)
		w["pipeline_limit"] = limit
		viol := func(class, what string) {
			c.Violation("C22:e2e:"+mode+":"+class, fmt.Sprintf("%s (%s): %s", v.Base, v.Policy, what), w)
		}
		switch {
		case a.Bad != "":
			viol("argument", a.Bad)
		case a.Type != v.Blk.Type:
			viol("type", fmt.Sprintf("the client was handed block type %d, the server served type %d", a.Type, v.Blk.Type))
		case !ntn && !bytes.Equal(a.Cbor, v.Blk.Cbor):
			viol("block-cbor", "block.Cbor() at the client differs from the bytes the server served")
		case ntn && !bytes.Equal(a.Cbor, v.Blk.Header):
			w["arrived_header"] = core.HexFull(a.Cbor)
			viol("header-bytes", "header.Cbor() at the client differs from the header bytes of the served block")
		case !bytes.Equal(a.Hash, v.Blk.Hash[:]):
			w["arrived_hash"] = fmt.Sprintf("%x", a.Hash)
			viol("hash", "Hash() at the client differs from the hash of the served block")
		case !a.Tip.Equal(tipFor(i)):
			viol("tip", fmt.Sprintf("tip %s at the client, served %s", a.Tip, tipFor(i)))
		default:
			c.Count("e2e_"+mode+"_checked", 1)
			c.Distinct("e2e", mode, v.Base, v.Hash)
			if v.Base == "dijkstra" && (v.Policy == "as-is" || v.Policy == "block-array-w2") {
				c.Sample(map[string]any{"level": "real server -> real client", "mode": mode, "block": v.Base, "re_encoding": v.Policy, "pipeline_limit": limit,
					"served_block": core.HexFull(v.Blk.Cbor), "served_hash": fmt.Sprintf("%x", v.Blk.Hash[:]), "client_block_type": a.Type,
					"client_hash": fmt.Sprintf("%x", a.Hash), "client_cbor_len": len(a.Cbor), "tip": a.Tip.String()})
			}
		}
	}
	for i, why := range refused {
		c.Eval()
		v := vs[i]
		if ntn && v.Blk.Byron && strings.Contains(why, "unknown block type") {
			c.Count("e2e_ntn_byron_refused_by_server", 1)
			continue
		}
		c.Count("e2e_"+mode+"_refused_by_server", 1)
		w := witness(v, mode)
		w["error"] = why
		c.Violation("C22:e2e:"+mode+":refused:"+eraName(v.Blk.Type), fmt.Sprintf("%s (%s): chainsync.Server.RollForward refuses a %s block that the ledger decoder accepts: %s",
			v.Base, v.Policy, eraName(v.Blk.Type), why), w)
	}
	if len(arrivals) < len(sent) {
		c.Eval()
		v := vs[sent[len(arrivals)]]
		w := witness(v, mode)
		w["client_errors"] = fmt.Sprint(cErrs)
		w["server_errors"] = fmt.Sprint(sErrs)
		w["failed"] = failed
		switch {
		case timedOut:
			c.Inconclusive(fmt.Sprintf("e2e %s %s (%s): no arrival within the watchdog", mode, v.Base, v.Policy))
		case len(cErrs) > 0 && strings.Contains(cErrs[0].Error(), "timeout waiting on transition"):
			c.Inconclusive(fmt.Sprintf("e2e %s %s: state timeout %v", mode, v.Base, cErrs[0]))
		default:
			c.Violation("C22:e2e:"+mode+":lost", fmt.Sprintf("%s (%s): the block decodes (ledger.NewBlockFromCbor) and the server sent it, but it never reached the client's callback: %s; client errors %v, server errors %v",
				v.Base, v.Policy, failed, cErrs, sErrs), w)
		}
	}
}

// ------------------------------------------------------------------ run

func run(c *core.Ctx) {
	blocks, err := rig.Corpus(c.RepoDir)
	if err != nil {
		c.Inconclusive("corpus: " + err.Error())
		return
	}
	g0 := runtime.NumGoroutine()
	all := make([][]*variant, len(blocks))
	c.Parallel("variants", len(blocks), 0, func(i int, r *core.Rand) {
		vs, rej := buildVariants(c, blocks[i], r)
		all[i] = vs
		c.Count("variants_accepted_by_decoder", len(vs))
		c.Count("variants_rejected_by_decoder", rej)
		c.Count("variants_"+blocks[i].Name, len(vs))
	})
	type job struct {
		kind string
		v    *variant
		vs   []*variant
		idx  int
		ntn  bool
		lim  int
	}
	var jobs []job
	lr := c.Rand("limits")
	// biggest blocks first: their jobs are the long poles
	order := make([]int, len(blocks))
	for i := range order {
		order[i] = i
	}
	sort.Slice(order, func(x, y int) bool { return len(blocks[order[x]].Cbor) > len(blocks[order[y]].Cbor) })
	for _, bi := range order {
		for i, v := range all[bi] {
			jobs = append(jobs, job{kind: "msg", v: v, idx: i})
		}
		for _, ntn := range []bool{false, true} {
			vs := all[bi]
			if !ntn && len(blocks[bi].Cbor) > 200000 && len(vs) > c.N(1, 12) {
				vs = vs[:c.N(1, 12)] // the 648 kB EBB: every copy is expensive under the race detector
			}
			// several connections per block so that one failure does not hide the other variants
			const chunk = 8
			for lo := 0; lo < len(vs); lo += chunk {
				hi := lo + chunk
				if hi > len(vs) {
					hi = len(vs)
				}
				jobs = append(jobs, job{kind: "e2e", vs: vs[lo:hi], ntn: ntn, lim: core.Pick(lr, []int{1, 2, 10, 50})})
			}
		}
	}
	workers := runtime.GOMAXPROCS(0)
	if workers > 16 {
		workers = 16
	}
	c.Parallel("job", len(jobs), workers, func(i int, _ *core.Rand) {
		j := jobs[i]
		if j.kind == "msg" {
			// quick: the 648 kB EBB goes through the NtC constructor / decoder once, in the end-to-end job
			if c.Thorough() || len(j.v.Blk.Cbor) < 200000 {
				checkMsgNtC(c, j.v, j.idx)
			}
			checkMsgNtN(c, j.v, j.idx)
			return
		}
		runE2E(c, j.ntn, j.vs, j.lim)
	})
	if c.Counter("e2e_ntc_checked") == 0 || c.Counter("e2e_ntn_checked") == 0 || c.Counter("msg_ntn_byron_checked") == 0 {
		for i := int64(0); i <= c.Evals()/50+1; i++ {
			c.Inconclusive("one of the levels (e2e ntc, e2e ntn, Byron ntn wrapping) was never judged")
		}
	}
	if !c.Thorough() {
		c.Note("corpus_blocks", len(blocks))
	}
	ng := runtime.NumGoroutine()
	for i := 0; i < 300 && ng > g0+8; i++ {
		time.Sleep(10 * time.Millisecond)
		ng = runtime.NumGoroutine()
	}
	c.Note("goroutines_before", g0)
	c.Note("goroutines_after", ng)
}
