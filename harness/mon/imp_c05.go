//go:build only_c05

package mon

import _ "verifharness/mon/c05"
