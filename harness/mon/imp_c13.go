//go:build only_c13

package mon

import _ "verifharness/mon/c13"
