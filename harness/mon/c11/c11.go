// Package c11 registers monitor C11 (received messages are checked against the
// protocol state machine). The implementation lives in package mon/c16
// (c11.go), next to the engine and target code it shares with C16.
package c11

import (
	"verifharness/core"
	"verifharness/mon/c16"
)

func init() {
	core.Register(&core.Monitor{
		ID:            "C11",
		Race:          true,
		Rule:          "for every (target, role) - 17 protocol/mode targets x {client, server} - 60 (quick) / 3000 (thorough) PRNG scripts of 5..29 steps over the implementation's own state map on a fresh real engine (configuration of the live instance, recorder handler, raw muxer-segment peer): at each step the agency holder makes a legal move (local: SendMessage, peer: raw bytes), or the peer sends a well-formed message of a type the state does not permit, or speaks out of turn while the local side holds agency (half of the time with a type the current state permits to the local side), duplicates, bursts of several messages in one segment, messages split over two segments; three of four scripts run with PRNG-chosen yields / sleeps at the protocol's verif points. A script is non-trivial when at least one message was processed; distinct by (target, role, script text)",
		MinNontrivial: 800,
		RaceAnchors:   []string{"protocol.(*Protocol).stateLoop", "protocol.(*Protocol).recvLoop", "protocol.(*Protocol).readLoop", "protocol.(*Protocol).handleMessage", "protocol.(*Protocol).getCurrentState", "protocol.(*Protocol).SendError"},
		Assumptions: []string{
			"the implementation's own state map (taken from the live instance with VerifConfig) defines 'permitted' and 'agency'; its equality with the specification is C16",
			"a message the peer sends while the local side holds agency may be deferred and processed later (pipelining) or refused at once; it must never reach the handler in a state where the peer does not hold agency",
			"an engine that produces no deciding trace event within the 30 s watchdog, or whose state timeout fires, makes the script inconclusive",
		},
		QuickTimeout:    900,
		ThoroughTimeout: 3 * 3600,
		Run:             c16.RunC11,
	})
}
