//go:build only_c12

package mon

import _ "verifharness/mon/c12"
