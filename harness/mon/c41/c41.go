// Package c41 monitors C41: chain selection is a consistent preference order.
//
// Oracle: on generated candidate sets the library's comparison must be
// antisymmetric and transitive, must agree with a reference ordering written
// here (deep fork => window density first; then block number; then lower VRF
// output), and Preferred* must return a maximal candidate for every order the
// candidates are given in.
package c41

import (
	"bytes"
	"fmt"
	"io"
	"log/slog"
	"math/big"
	"strings"

	"github.com/blinklabs-io/gouroboros/consensus"
	"github.com/blinklabs-io/gouroboros/consensus/genesis"

	"verifharness/core"
)

func init() {
	core.Register(&core.Monitor{
		ID: "C41",
		Rule: "candidate sets of 1..6 tips drawn with repetition from a small pool (block numbers base+{0,1,2} and 0 / 2^64-1, VRF outputs of 0/1/2/31/32/33/64 bytes (shared prefixes, leading zero bytes, numerically equal values of different lengths, neighbours across a length boundary), window slot lists placed around forkSlot and forkSlot+window incl. the uint64 edge, legacy densities from a 4-value pool) so that ties at every level are frequent; " +
			"selector k in {0,1,3,2160,2^64-1}, window in {0,1,10,129600,2^64-1}, tip height around forkBlock+k+{-1,0,1,2}; tip kinds: library SimpleChainTip / WindowedChainTip and harness-defined ChainTip implementations; " +
			"homogeneous sets (all simple, all windowed with a window, all windowed without) carry the main keys, heterogeneous sets are judged under C41:mixed-tip-kinds:*; GenesisSelector is driven with harness and SimpleChainFragment fragments. " +
			"Every set: full comparison matrix, all triples, all permutations (<= 720) through Preferred*. Non-trivial: >= 3 candidates; distinct by written-out (selector, fork, tip, set)",
		MinNontrivial: 1500,
		Assumptions: []string{
			"a VRF output is a big-endian unsigned number of any length (0x01 and 0x0001 tie, 0xff is below 0x0100); an empty / nil output is a missing VRF and is the least preferred, two missing outputs tie",
			"the legacy density of a tip is the float64 its Density method reports (ChainTip.Density returns float64); NaN densities are not generated",
			"nil candidates are ordered below every tip (documented in Compare); typed nil pointers are not generated",
			"for GenesisSelector the window count is the value the fragment reports; the property is the ordering built on it",
		},
		Run: run,
	})
}

// ------------------------------------------------------------------ harness tips

type hTip struct {
	slot, bn uint64
	vrf      []byte
	dens     float64
}

func (t *hTip) Slot() uint64             { return t.slot }
func (t *hTip) BlockNumber() uint64      { return t.bn }
func (t *hTip) VRFOutput() []byte        { return t.vrf }
func (t *hTip) Density(_ uint64) float64 { return t.dens }

type hWin struct {
	hTip
	slots []uint64
}

func (t *hWin) BlocksInWindow(forkSlot, windowSlots uint64) uint64 {
	return refCount(t.slots, forkSlot, windowSlots)
}

// refCount: blocks with forkSlot < s <= forkSlot+window, evaluated without
// wrapping.
func refCount(slots []uint64, forkSlot, window uint64) uint64 {
	hi := new(big.Int).Add(new(big.Int).SetUint64(forkSlot), new(big.Int).SetUint64(window))
	lo := new(big.Int).SetUint64(forkSlot)
	var n uint64
	for _, s := range slots {
		b := new(big.Int).SetUint64(s)
		if b.Cmp(lo) > 0 && b.Cmp(hi) <= 0 {
			n++
		}
	}
	return n
}

// ------------------------------------------------------------------ candidate description

type cand struct {
	kind string // "nil" | "simple" | "windowed" | "hsimple" | "hwindowed"
	slot uint64
	bn   uint64
	vrf  []byte
	// simple: legacy density inputs
	blocksAfter, slotsAfter uint64
	dens                    float64 // harness tips: reported density
	slots                   []uint64
	tip                     consensus.ChainTip
}

func (c *cand) windowed() bool { return c.kind == "windowed" || c.kind == "hwindowed" }

func (c *cand) String() string {
	if c.kind == "nil" {
		return "nil"
	}
	s := fmt.Sprintf("%s{bn=%d vrf=%x", c.kind, c.bn, c.vrf)
	switch c.kind {
	case "simple":
		s += fmt.Sprintf(" density=%d/%d", c.blocksAfter, c.slotsAfter)
	case "hsimple":
		s += fmt.Sprintf(" density=%g", c.dens)
	case "hwindowed":
		s += fmt.Sprintf(" density=%g slots=%v", c.dens, c.slots)
	case "windowed":
		s += fmt.Sprintf(" slots=%v", c.slots)
	}
	return s + "}"
}

func (c *cand) build() {
	switch c.kind {
	case "nil":
		c.tip = nil
	case "simple":
		c.tip = consensus.NewSimpleChainTipWithDensity(c.slot, c.bn, c.vrf, c.blocksAfter, c.slotsAfter)
	case "windowed":
		c.tip = consensus.NewWindowedChainTip(c.slot, c.bn, c.vrf, c.slots)
	case "hsimple":
		c.tip = &hTip{c.slot, c.bn, c.vrf, c.dens}
	case "hwindowed":
		c.tip = &hWin{hTip{c.slot, c.bn, c.vrf, c.dens}, c.slots}
	}
}

// legacyDensity is the float64 the tip reports, computed from the
// documented definitions.
func (c *cand) legacyDensity(forkSlot uint64) float64 {
	switch c.kind {
	case "simple":
		if c.slotsAfter == 0 {
			return 0
		}
		return float64(c.blocksAfter) / float64(c.slotsAfter)
	case "windowed":
		var blocks, maxSlot uint64
		for _, s := range c.slots {
			if s > forkSlot {
				blocks++
				if s > maxSlot {
					maxSlot = s
				}
			}
		}
		if blocks == 0 {
			return 0
		}
		return float64(blocks) / float64(maxSlot-forkSlot)
	}
	return c.dens
}

// ------------------------------------------------------------------ reference order

type scenario struct {
	k, window      uint64
	forkSlot       uint64
	forkBlock, tip uint64
	withDensity    bool // CompareWithDensity / PreferredWithDensity vs Compare / Preferred
}

func (s *scenario) String() string {
	if !s.withDensity {
		return fmt.Sprintf("Compare k=%d", s.k)
	}
	return fmt.Sprintf("CompareWithDensity k=%d window=%d fork={slot %d, block %d} tip=%d", s.k, s.window, s.forkSlot, s.forkBlock, s.tip)
}

func refDeep(s *scenario) bool {
	if !s.withDensity {
		return false
	}
	t := new(big.Int).SetUint64(s.tip)
	f := new(big.Int).SetUint64(s.forkBlock)
	d := new(big.Int).Sub(t, f)
	return d.Cmp(new(big.Int).SetUint64(s.k)) > 0
}

func sgn(x int) int {
	switch {
	case x > 0:
		return 1
	case x < 0:
		return -1
	}
	return 0
}

// refVRF: +1 if a is preferred. A VRF output is a big-endian unsigned
// number and the lower number wins, whatever the lengths of the two byte
// strings (a 64-byte TPraos output against a 32-byte Praos output, leading
// zero bytes): strip leading zeros, then the shorter string is the smaller
// number, equal lengths compare bytewise. An empty / nil output is a missing
// VRF and is the least preferred (two missing outputs tie) - the convention of
// the code under test. Written without math/big.
func refVRF(a, b []byte) (int, bool) {
	switch {
	case len(a) == 0 && len(b) == 0:
		return 0, true
	case len(a) == 0:
		return -1, true
	case len(b) == 0:
		return 1, true
	}
	strip := func(x []byte) []byte {
		for len(x) > 0 && x[0] == 0 {
			x = x[1:]
		}
		return x
	}
	a, b = strip(a), strip(b)
	if len(a) != len(b) {
		if len(a) < len(b) {
			return 1, true
		}
		return -1, true
	}
	return -bytes.Compare(a, b), true
}

// refCmp returns the reference sign, the rule that decided, and whether the
// pair is judged at all. metric: "none" | "window" | "legacy".
func refCmp(s *scenario, metric string, a, b *cand) (int, string, bool) {
	if a.kind == "nil" || b.kind == "nil" {
		switch {
		case a.kind == "nil" && b.kind == "nil":
			return 0, "nil", true
		case a.kind == "nil":
			return -1, "nil", true
		}
		return 1, "nil", true
	}
	switch metric {
	case "window":
		ca, cb := refCount(a.slots, s.forkSlot, s.window), refCount(b.slots, s.forkSlot, s.window)
		if ca != cb {
			if ca > cb {
				return 1, "density-first", true
			}
			return -1, "density-first", true
		}
	case "legacy":
		da, db := a.legacyDensity(s.forkSlot), b.legacyDensity(s.forkSlot)
		if da != db {
			if da > db {
				return 1, "density-first", true
			}
			return -1, "density-first", true
		}
	}
	if a.bn != b.bn {
		if a.bn > b.bn {
			return 1, "length", true
		}
		return -1, "length", true
	}
	v, ok := refVRF(a.vrf, b.vrf)
	return v, "vrf", ok
}

// ------------------------------------------------------------------ generators

var vrfPool [][]byte

func init() {
	base := bytes.Repeat([]byte{0x5a}, 32)
	v := func(f func(b []byte)) []byte {
		b := append([]byte{}, base...)
		f(b)
		return b
	}
	cat := func(parts ...[]byte) []byte {
		var out []byte
		for _, p := range parts {
			out = append(out, p...)
		}
		return out
	}
	vrfPool = [][]byte{
		nil,
		{},
		base,
		v(func(b []byte) { b[31]++ }),
		v(func(b []byte) { b[31]-- }),
		v(func(b []byte) { b[0] = 0x00 }),
		v(func(b []byte) { b[0] = 0xff }),
		make([]byte, 32),
		bytes.Repeat([]byte{0xff}, 32),
		// mixed lengths: 1, 2, 31, 33, 64 bytes
		{0x00},
		{0x01},
		{0x00, 0x01},                        // numerically equal to 0x01
		{0xff},                              // adjacent across a length boundary ...
		{0x01, 0x00},                        // ... 0xff < 0x0100 although "ff" > "0100" bytewise
		{0x00, 0xff},                        // == 0xff
		base[1:],                            // 31 bytes: lower than base (5a.. dropped), bytewise equal prefix
		cat([]byte{0x00}, base),             // 33 bytes, numerically equal to base
		cat([]byte{0x00}, base[1:]),         // 32 bytes with a leading zero == the 31-byte value
		cat([]byte{0x01}, make([]byte, 32)), // 33 bytes: 2^256, just above ff..ff (32 bytes)
		cat(make([]byte, 32), base),         // 64 bytes (TPraos size) numerically equal to base
		cat(make([]byte, 31), []byte{0x01}, base), // 64 bytes, above every 32-byte value
		bytes.Repeat([]byte{0x01}, 64),            // 64 bytes, bytewise below base, numerically far above
		make([]byte, 64),                          // 64-byte zero == 32-byte zero == 0x00
	}
}

func pickU64(r *core.Rand, vals ...uint64) uint64 { return vals[r.Intn(len(vals))] }

func genScenario(r *core.Rand, withDensity bool) *scenario {
	s := &scenario{withDensity: withDensity}
	s.k = pickU64(r, 0, 1, 3, 3, 2160, 2160, ^uint64(0))
	s.window = pickU64(r, 0, 1, 10, 10, 129600, 129600, ^uint64(0))
	s.forkSlot = pickU64(r, 0, 5, 1000, 1000, 1000, 1<<40, ^uint64(0)-5, ^uint64(0))
	s.forkBlock = pickU64(r, 0, 7, 500, 500, 500000, ^uint64(0)-2, ^uint64(0))
	// tip height around the deep/shallow boundary
	switch r.Intn(8) {
	case 0:
		s.tip = 0
	case 1:
		s.tip = s.forkBlock
	case 2:
		s.tip = ^uint64(0)
	default:
		t := new(big.Int).SetUint64(s.forkBlock)
		t.Add(t, new(big.Int).SetUint64(s.k))
		t.Add(t, big.NewInt(int64(r.Range(-1, 2))))
		if t.Sign() < 0 {
			s.tip = 0
		} else if !t.IsUint64() {
			s.tip = ^uint64(0)
		} else {
			s.tip = t.Uint64()
		}
	}
	return s
}

func genSlots(r *core.Rand, s *scenario) []uint64 {
	n := r.Intn(9)
	var out []uint64
	f := new(big.Int).SetUint64(s.forkSlot)
	w := new(big.Int).SetUint64(s.window)
	for i := 0; i < n; i++ {
		v := new(big.Int)
		switch r.Intn(8) {
		case 0:
			v.Sub(f, big.NewInt(int64(r.Range(0, 3))))
		case 1, 2:
			v.Add(f, big.NewInt(int64(r.Range(1, 4))))
		case 3, 4:
			v.Add(f, w)
			v.Add(v, big.NewInt(int64(r.Range(-2, 2))))
		case 5:
			v.SetUint64(r.Uint64())
		case 6:
			v.Add(f, big.NewInt(int64(r.Range(1, 200000))))
		default:
			v.Add(f, big.NewInt(int64(r.Range(1, 12))))
		}
		if v.Sign() < 0 {
			v.SetUint64(0)
		}
		if !v.IsUint64() {
			v.SetUint64(^uint64(0) - uint64(r.Intn(3)))
		}
		out = append(out, v.Uint64())
	}
	return out
}

func genCand(r *core.Rand, kind string, s *scenario, bnBase uint64) *cand {
	c := &cand{kind: kind}
	if kind == "nil" {
		return c
	}
	c.slot = s.forkSlot + uint64(r.Intn(50))
	switch r.Intn(10) {
	case 0:
		c.bn = 0
	case 1:
		c.bn = ^uint64(0)
	default:
		c.bn = bnBase + uint64(r.Intn(3))
	}
	c.vrf = core.Pick(r, vrfPool)
	switch kind {
	case "simple":
		c.blocksAfter = pickU64(r, 0, 1, 5, 5, 10, 1<<53+1, 1<<53)
		c.slotsAfter = pickU64(r, 0, 10, 10, 20, 100, 1<<53)
	case "hsimple", "hwindowed":
		c.dens = []float64{0, 0.05, 0.05, 0.5, 1}[r.Intn(5)]
	}
	if kind == "windowed" || kind == "hwindowed" {
		c.slots = genSlots(r, s)
	}
	return c
}

// genSet draws a pool of distinct descriptions and then a set with
// repetition, so equal candidates occur.
func genSet(r *core.Rand, kinds []string, s *scenario, allowNil bool) []*cand {
	bnBase := pickU64(r, 1, 100, 100, 1<<32, ^uint64(0)-3)
	poolN := r.Range(1, 4)
	var pool []*cand
	for i := 0; i < poolN; i++ {
		pool = append(pool, genCand(r, core.Pick(r, kinds), s, bnBase))
	}
	n := r.Range(1, 6)
	var set []*cand
	for i := 0; i < n; i++ {
		if allowNil && r.Chance(1, 25) {
			set = append(set, &cand{kind: "nil"})
			continue
		}
		var c cand
		if r.Chance(1, 3) {
			c = *core.Pick(r, pool) // exact duplicate description
		} else {
			c = *genCand(r, core.Pick(r, kinds), s, bnBase)
			if r.Bool() { // share fields with a pool member so later criteria decide
				p := core.Pick(r, pool)
				if p.kind == c.kind {
					switch r.Intn(3) {
					case 0:
						c.bn = p.bn
					case 1:
						c.bn, c.slots, c.blocksAfter, c.slotsAfter, c.dens = p.bn, p.slots, p.blocksAfter, p.slotsAfter, p.dens
					case 2:
						c.slots, c.blocksAfter, c.slotsAfter, c.dens = p.slots, p.blocksAfter, p.slotsAfter, p.dens
					}
				}
			}
		}
		cc := c
		set = append(set, &cc)
	}
	for _, c := range set {
		c.build()
	}
	return set
}

// ------------------------------------------------------------------ permutations

func permutations(n int, f func(p []int)) {
	p := make([]int, n)
	for i := range p {
		p[i] = i
	}
	var rec func(k int)
	rec = func(k int) {
		if k == n {
			f(p)
			return
		}
		for i := k; i < n; i++ {
			p[k], p[i] = p[i], p[k]
			rec(k + 1)
			p[k], p[i] = p[i], p[k]
		}
	}
	rec(0)
}

// ------------------------------------------------------------------ the check

type setCase struct {
	name  string // generator name
	mixed bool
	s     *scenario
	set   []*cand
}

func describe(sc *setCase) map[string]any {
	var cs []string
	for _, c := range sc.set {
		cs = append(cs, c.String())
	}
	return map[string]any{"generator": sc.name, "call": sc.s.String(), "candidates": cs}
}

func checkSet(c *core.Ctx, sc *setCase) {
	s := sc.s
	sel := consensus.NewPraosChainSelectorWithWindow(s.k, s.window)
	fork := consensus.ForkPoint{Slot: s.forkSlot, BlockNumber: s.forkBlock}
	fn, pfn := "Compare", "Preferred"
	if s.withDensity {
		fn, pfn = "CompareWithDensity", "PreferredWithDensity"
	}
	cmp := func(a, b consensus.ChainTip) int {
		if s.withDensity {
			return sel.CompareWithDensity(a, b, fork, s.tip)
		}
		return sel.Compare(a, b)
	}
	deep := refDeep(s)
	if s.withDensity {
		if got := sel.IsDeepFork(fork, s.tip); got != deep {
			c.Violation("C41:IsDeepFork:boundary",
				fmt.Sprintf("IsDeepFork(fork block %d, tip %d) with k=%d = %v, reference (tip-fork > k) = %v", s.forkBlock, s.tip, s.k, got, deep),
				describe(sc))
		}
		if deep {
			c.Count("scenario_deep", 1)
		} else {
			c.Count("scenario_shallow", 1)
		}
	}
	// which metric applies (homogeneous sets only have one)
	metric := "none"
	regime := "shallow"
	if !s.withDensity {
		regime = "plain"
	}
	hasNil := false
	allWin := true
	for _, x := range sc.set {
		if x.kind == "nil" {
			hasNil = true
		} else if !x.windowed() {
			allWin = false
		}
	}
	if deep {
		if s.window > 0 && allWin {
			metric, regime = "window", "deep-window"
		} else {
			metric, regime = "legacy", "deep-legacy"
		}
	}
	judgeRef := !(sc.mixed && deep) // mixed deep sets: pairs use different metrics, no reference order
	prefix := "C41:"
	if sc.mixed {
		prefix = "C41:mixed-tip-kinds:"
	}
	if sc.mixed && deep {
		// pairs of a heterogeneous set use different metrics (window count
		// between two windowed tips, legacy ratio otherwise)
		regime = "deep"
	}
	suffix := ":" + regime
	if hasNil && !sc.mixed {
		suffix += ":nil"
	}
	w := describe(sc)
	c.Count("regime:"+regime, 1)

	n := len(sc.set)
	m := make([][]int, n)
	for i := range m {
		m[i] = make([]int, n)
		for j := range m[i] {
			m[i][j] = sgn(cmp(sc.set[i].tip, sc.set[j].tip))
			c.Count(fmt.Sprintf("cmp_sign_%+d", m[i][j]), 1)
		}
	}
	// library WindowedChainTip window count against the reference count
	if s.withDensity {
		for _, x := range sc.set {
			if x.kind == "windowed" {
				got := x.tip.(consensus.WindowBlockCounter).BlocksInWindow(s.forkSlot, s.window)
				if want := refCount(x.slots, s.forkSlot, s.window); got != want {
					c.Violation("C41:WindowedChainTip.BlocksInWindow:count",
						fmt.Sprintf("BlocksInWindow(fork %d, window %d) over slots %v = %d, reference count = %d", s.forkSlot, s.window, x.slots, got, want), w)
				}
				c.Count("window_counts_checked", 1)
			}
		}
	}
	for i := 0; i < n; i++ {
		if m[i][i] != 0 {
			c.Violation(prefix+fn+":antisymmetry"+suffix, fmt.Sprintf("%s(a,a) = %d for a=%s", fn, m[i][i], sc.set[i]), w)
		}
		for j := i + 1; j < n; j++ {
			if m[i][j] != -m[j][i] {
				c.Violation(prefix+fn+":antisymmetry"+suffix,
					fmt.Sprintf("%s(a,b) = %d but %s(b,a) = %d for a=%s b=%s [%s]", fn, m[i][j], fn, m[j][i], sc.set[i], sc.set[j], s), w)
			}
		}
	}
	for i := 0; i < n; i++ {
		for j := 0; j < n; j++ {
			for k := 0; k < n; k++ {
				if i == j || j == k || i == k {
					continue
				}
				c.Count("triples", 1)
				if m[i][j] >= 0 && m[j][k] >= 0 && m[i][k] < 0 {
					c.Violation(prefix+fn+":transitivity"+suffix,
						fmt.Sprintf("a>=b (%d) and b>=c (%d) but a<c (%d) for a=%s b=%s c=%s [%s]", m[i][j], m[j][k], m[i][k], sc.set[i], sc.set[j], sc.set[k], s), w)
				}
			}
		}
	}
	if judgeRef {
		for i := 0; i < n; i++ {
			for j := 0; j < n; j++ {
				want, rule, ok := refCmp(s, metric, sc.set[i], sc.set[j])
				if !ok {
					c.Count("reference_unjudged_pairs", 1)
					continue
				}
				c.Count("reference_rule:"+rule, 1)
				if m[i][j] != want {
					c.Violation(prefix+fn+":reference:"+rule+suffix,
						fmt.Sprintf("%s(a,b) = %d, reference order (%s decides) = %d for a=%s b=%s [%s]", fn, m[i][j], rule, want, sc.set[i], sc.set[j], s), w)
				}
			}
		}
	}
	// Preferred over every candidate order
	tips := make([]consensus.ChainTip, n)
	perms := 0
	reported := false
	permutations(n, func(p []int) {
		if reported {
			return
		}
		perms++
		for i, j := range p {
			tips[i] = sc.set[j].tip
		}
		var got consensus.ChainTip
		if s.withDensity {
			got = sel.PreferredWithDensity(tips, fork, s.tip)
		} else {
			got = sel.Preferred(tips)
		}
		gi := -1
		for i := range sc.set {
			if sc.set[i].tip == got {
				gi = i
				break
			}
		}
		if gi < 0 {
			reported = true
			c.Violation(prefix+pfn+":not-a-candidate"+suffix, fmt.Sprintf("%s returned %v which is none of the candidates (order %v)", pfn, got, p), w)
			return
		}
		for i := range sc.set {
			above := m[i][gi] > 0
			if !above && judgeRef {
				if want, _, ok := refCmp(s, metric, sc.set[i], sc.set[gi]); ok && want > 0 {
					above = true
				}
			}
			if above {
				reported = true
				c.Violation(prefix+pfn+":not-maximal"+suffix,
					fmt.Sprintf("%s over candidate order %v returned %s although %s is strictly preferred [%s]", pfn, p, sc.set[gi], sc.set[i], s), w)
				return
			}
		}
	})
	c.Count("permutations", perms)
	c.Eval()
	if n >= 3 {
		var sb strings.Builder
		for _, x := range sc.set {
			sb.WriteString(x.String())
		}
		c.Distinct(sc.name, s.String(), sb.String())
	}
}

// ------------------------------------------------------------------ GenesisSelector

type hFrag struct {
	inter, tip, blocks, inWindow uint64
}

func (f *hFrag) IntersectionSlot() uint64           { return f.inter }
func (f *hFrag) TipSlot() uint64                    { return f.tip }
func (f *hFrag) BlockCount() uint64                 { return f.blocks }
func (f *hFrag) BlockCountInWindow(_ uint64) uint64 { return f.inWindow }
func (f *hFrag) String() string {
	return fmt.Sprintf("frag{inWindow=%d blocks=%d}", f.inWindow, f.blocks)
}
func fragString(f genesis.ChainFragment, w uint64) string {
	if h, ok := f.(*hFrag); ok {
		return h.String()
	}
	s := f.(*genesis.SimpleChainFragment)
	return fmt.Sprintf("SimpleChainFragment{Intersection=%d Tip=%d Blocks=%d -> inWindow=%d}", s.Intersection, s.Tip, s.Blocks, s.BlockCountInWindow(w))
}

func checkGenesis(c *core.Ctx, i int, r *core.Rand) {
	window := pickU64(r, 0, 1, 10, 129600, ^uint64(0))
	gs := genesis.NewGenesisSelector(genesis.GenesisConfig{SecurityParam: pickU64(r, 0, 3, 2160), GenesisWindow: window})
	n := r.Range(1, 6)
	lib := r.Bool()
	frags := make([]genesis.ChainFragment, n)
	for j := range frags {
		if lib {
			inter := pickU64(r, 0, 100, 100, 1000)
			frags[j] = &genesis.SimpleChainFragment{
				Intersection: inter,
				Tip:          inter + pickU64(r, 0, 1, 5, 10, 20, 129600, 200000, 1<<40),
				Blocks:       pickU64(r, 0, 1, 2, 3, 10, 10, 100, 6480, 1<<53+1),
			}
		} else {
			frags[j] = &hFrag{0, 0, pickU64(r, 0, 1, 2, 3, ^uint64(0)), pickU64(r, 0, 1, 2, ^uint64(0))}
		}
	}
	var desc []string
	for _, f := range frags {
		desc = append(desc, fragString(f, window))
	}
	w := map[string]any{"generator": "genesis", "window": window, "fragments": desc}
	ref := func(a, b genesis.ChainFragment) int {
		wa, wb := a.BlockCountInWindow(window), b.BlockCountInWindow(window)
		if wa != wb {
			if wa > wb {
				return 1
			}
			return -1
		}
		if a.BlockCount() != b.BlockCount() {
			if a.BlockCount() > b.BlockCount() {
				return 1
			}
			return -1
		}
		return 0
	}
	m := make([][]int, n)
	for a := range m {
		m[a] = make([]int, n)
		for b := range m[a] {
			m[a][b] = sgn(gs.Compare(frags[a], frags[b]))
			if want := ref(frags[a], frags[b]); m[a][b] != want {
				c.Violation("C41:GenesisSelector.Compare:reference",
					fmt.Sprintf("Compare(%s, %s) = %d, reference (window count, then length) = %d", desc[a], desc[b], m[a][b], want), w)
			}
		}
	}
	for a := 0; a < n; a++ {
		for b := 0; b < n; b++ {
			if m[a][b] != -m[b][a] {
				c.Violation("C41:GenesisSelector.Compare:antisymmetry", fmt.Sprintf("Compare(a,b)=%d, Compare(b,a)=%d for %s, %s", m[a][b], m[b][a], desc[a], desc[b]), w)
			}
			for d := 0; d < n; d++ {
				if m[a][b] >= 0 && m[b][d] >= 0 && m[a][d] < 0 {
					c.Violation("C41:GenesisSelector.Compare:transitivity", fmt.Sprintf("a>=b, b>=c, a<c for %s, %s, %s", desc[a], desc[b], desc[d]), w)
				}
			}
		}
	}
	order := make([]genesis.ChainFragment, n)
	reported := false
	perms := 0
	permutations(n, func(p []int) {
		if reported {
			return
		}
		perms++
		for x, y := range p {
			order[x] = frags[y]
		}
		got := gs.Preferred(order)
		gi := -1
		for x := range frags {
			if frags[x] == got {
				gi = x
				break
			}
		}
		if gi < 0 {
			reported = true
			c.Violation("C41:GenesisSelector.Preferred:not-a-candidate", fmt.Sprintf("Preferred returned %v", got), w)
			return
		}
		for x := range frags {
			if m[x][gi] > 0 || ref(frags[x], frags[gi]) > 0 {
				reported = true
				c.Violation("C41:GenesisSelector.Preferred:not-maximal",
					fmt.Sprintf("Preferred over order %v returned %s although %s is strictly preferred", p, desc[gi], desc[x]), w)
				return
			}
		}
	})
	c.Count("permutations", perms)
	c.Count("regime:genesis", 1)
	c.Eval()
	if n >= 3 {
		c.Distinct("genesis", window, strings.Join(desc, ";"))
	}
	if i%997 == 0 {
		c.Sample(w)
	}
}

// ------------------------------------------------------------------ run

type genSpec struct {
	name        string
	kinds       []string
	mixed       bool
	withDensity bool
	forceWindow int // 0 any, 1 window > 0, 2 window == 0
	weight      int
}

var gens = []genSpec{
	{"plain-simple", []string{"simple"}, false, false, 0, 2},
	{"plain-harness", []string{"hsimple"}, false, false, 0, 1},
	{"density-simple", []string{"simple"}, false, true, 0, 3},
	{"density-harness-simple", []string{"hsimple"}, false, true, 0, 2},
	{"density-windowed", []string{"windowed"}, false, true, 1, 4},
	{"density-harness-windowed", []string{"hwindowed"}, false, true, 1, 3},
	{"density-windowed-nowindow", []string{"windowed"}, false, true, 2, 2},
	{"density-harness-windowed-nowindow", []string{"hwindowed"}, false, true, 2, 1},
	{"mixed", []string{"simple", "windowed"}, true, true, 1, 3},
	{"mixed-harness", []string{"hsimple", "hwindowed", "simple", "windowed"}, true, true, 0, 2},
}

func run(c *core.Ctx) {
	// the selector warns once per instance when it falls back to the legacy
	// density ratio; every case builds its own selector
	slog.SetDefault(slog.New(slog.NewTextHandler(io.Discard, nil)))
	var table []int
	for gi, g := range gens {
		for k := 0; k < g.weight; k++ {
			table = append(table, gi)
		}
	}
	n := c.N(6000, 500000)
	c.Parallel("set", n, 0, func(i int, r *core.Rand) {
		g := gens[table[i%len(table)]]
		s := genScenario(r, g.withDensity)
		switch g.forceWindow {
		case 1:
			for s.window == 0 {
				s.window = pickU64(r, 1, 10, 129600, ^uint64(0))
			}
		case 2:
			s.window = 0
		}
		// two thirds of the density scenarios are forced deep so that the
		// density rule is exercised
		if g.withDensity && r.Chance(2, 3) && s.k != ^uint64(0) {
			if s.forkBlock > ^uint64(0)-s.k-2 {
				s.forkBlock = 500
				if s.k > ^uint64(0)-600 {
					s.k = 2160
				}
			}
			s.tip = s.forkBlock + s.k + 1 + uint64(r.Intn(2))
		}
		set := genSet(r, g.kinds, s, true)
		mixed := false
		if g.mixed {
			// only genuinely heterogeneous sets go under the mixed key
			hasW, hasS := false, false
			for _, x := range set {
				if x.kind == "nil" {
					continue
				}
				if x.windowed() {
					hasW = true
				} else {
					hasS = true
				}
			}
			mixed = hasW && hasS
		}
		sc := &setCase{name: g.name, mixed: mixed, s: s, set: set}
		c.Journal("C41 case %d %s %s", i, g.name, s)
		c.Count("gen:"+g.name, 1)
		if mixed {
			c.Count("sets_heterogeneous", 1)
		}
		p, val, stack := core.Safely(func() { checkSet(c, sc) })
		if p {
			w := describe(sc)
			w["stack"] = stack
			c.Violation("C41:panic", fmt.Sprintf("panic: %v", val), w)
		}
		if i%1009 == 0 {
			c.Sample(describe(sc))
		}
	})
	c.Parallel("genesis", c.N(1500, 100000), 0, func(i int, r *core.Rand) {
		p, val, stack := core.Safely(func() { checkGenesis(c, i, r) })
		if p {
			c.Violation("C41:GenesisSelector:panic", fmt.Sprintf("panic: %v", val), map[string]any{"stack": stack})
		}
	})
	for _, k := range []string{"regime:deep-window", "regime:deep-legacy", "regime:shallow", "regime:plain", "cmp_sign_+1", "cmp_sign_-1", "cmp_sign_+0"} {
		if c.Counter(k) == 0 {
			c.Inconclusive("never observed " + k)
		}
	}
}
