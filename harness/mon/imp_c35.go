//go:build only_c35

package mon

import _ "verifharness/mon/c35"
