// Package pipex is the shared scenario machinery of the block-pipeline
// monitors C42, C43 and C44: the event log with one global counter, block
// factory (real corpus blocks, corrupted variants, a validatable block), the
// hook dispatcher with per-item delays / holds, goroutine census and the
// "every pipeline goroutine is parked" settle test.
package pipex

import (
	"bytes"
	"encoding/hex"
	"fmt"
	"hash/fnv"
	"os"
	"regexp"
	"runtime"
	"sort"
	"strconv"
	"strings"
	"sync"
	"sync/atomic"
	"time"

	"github.com/blinklabs-io/gouroboros/ledger"
	lcommon "github.com/blinklabs-io/gouroboros/ledger/common"
	"github.com/blinklabs-io/gouroboros/pipeline"
	pcommon "github.com/blinklabs-io/gouroboros/protocol/common"

	"verifharness/core"
	"verifharness/corpus"
)

// ------------------------------------------------------------------ events

const (
	SubmitCall uint8 = iota
	SubmitRet
	Point     // hook point reached (Pt = point index)
	HoldStart // harness blocks the item at point Pt
	HoldEnd   // harness lets the item go
	ApplyCall
	ApplyRet
	Result // item received on Results()
	ErrorEv
	DrainCall
	DrainRet
	StopCall
	StopRet
	nKinds
)

var KindNames = [...]string{"submit_call", "submit_ret", "point", "hold_start", "hold_end",
	"apply_call", "apply_ret", "result", "error", "drain_call", "drain_ret", "stop_call", "stop_ret"}

// Hook points (index into PointNames).
const (
	PtSubmitAfterSeq uint8 = iota
	PtDecodeTake
	PtDecodeDone
	PtValidateTake
	PtValidateDone
	PtApplyRecv
	PtApplyFunc // pseudo point: inside the harness' ApplyFunc
	NPoints
)

var PointNames = [...]string{"submit.afterSeq", "decode.worker.afterTake", "decode.worker.afterProcess",
	"validate.worker.afterTake", "validate.worker.afterProcess", "apply.afterRecv", "apply.func"}

func PointIndex(name string) (uint8, bool) {
	for i, n := range PointNames {
		if n == name {
			return uint8(i), true
		}
	}
	return 0, false
}

// Event is one entry of the totally ordered log. N is the global stamp.
type Event struct {
	N    uint64
	K    uint8
	Pt   uint8
	ID   int32 // block id, -1 = none
	PSeq int64 // pipeline sequence number when known, else -1
	Err  string
}

func (e Event) String() string {
	s := fmt.Sprintf("%d:%s", e.N, KindNames[e.K])
	if e.K == Point || e.K == HoldStart || e.K == HoldEnd {
		s += "@" + PointNames[e.Pt]
	}
	if e.ID >= 0 {
		s += fmt.Sprintf(" id=%d", e.ID)
	}
	if e.PSeq >= 0 {
		s += fmt.Sprintf(" seq=%d", e.PSeq)
	}
	if e.Err != "" {
		s += " err=" + e.Err
	}
	return s
}

// Log stamps events under one mutex, so the order of the slice is the order
// of the stamps and is consistent with real time.
type Log struct {
	mu   sync.Mutex
	evs  []Event
	n    atomic.Uint64
	trig uint64
	trCh chan struct{}
}

func NewLog() *Log { return &Log{evs: make([]Event, 0, 4096)} }

// Add appends an event and returns its stamp (>= 1).
func (l *Log) Add(k uint8, id int, pt uint8, pseq int64, err error) uint64 {
	es := ""
	if err != nil {
		es = err.Error()
	}
	l.mu.Lock()
	n := uint64(len(l.evs)) + 1
	l.evs = append(l.evs, Event{N: n, K: k, Pt: pt, ID: int32(id), PSeq: pseq, Err: es})
	l.n.Store(n)
	if l.trCh != nil && n >= l.trig {
		close(l.trCh)
		l.trCh = nil
	}
	l.mu.Unlock()
	return n
}

// Len is the number of events so far (lock-free).
func (l *Log) Len() uint64 { return l.n.Load() }

// TriggerAt returns a channel closed as soon as the log holds n events.
func (l *Log) TriggerAt(n uint64) <-chan struct{} {
	ch := make(chan struct{})
	l.mu.Lock()
	if uint64(len(l.evs)) >= n {
		close(ch)
	} else {
		l.trig, l.trCh = n, ch
	}
	l.mu.Unlock()
	return ch
}

func (l *Log) Snapshot() []Event {
	l.mu.Lock()
	out := make([]Event, len(l.evs))
	copy(out, l.evs)
	l.mu.Unlock()
	return out
}

// Tail renders the last n events (for witnesses).
func Tail(evs []Event, n int) []string {
	if len(evs) > n {
		evs = evs[len(evs)-n:]
	}
	out := make([]string, len(evs))
	for i, e := range evs {
		out[i] = e.String()
	}
	return out
}

// Strings renders events, keeping at most max (head and tail).
func Strings(evs []Event, max int) []string {
	if len(evs) <= max {
		return Tail(evs, max)
	}
	h := Tail(evs[:max/2], max/2)
	h = append(h, fmt.Sprintf("... %d events omitted ...", len(evs)-max))
	return append(h, Tail(evs, max/2)...)
}

// ------------------------------------------------------------------ blocks

type Class uint8

const (
	Good        Class = iota // decodes (and validates when validation is on); ApplyFunc returns nil
	BadDecode                // corrupted bytes: ledger.NewBlockFromCbor fails
	BadValidate              // decodes but fails VerifyBlock (validation mode only)
	ApplyErr                 // good block for which the harness' ApplyFunc returns an error
)

var ClassNames = [...]string{"good", "bad-decode", "bad-validate", "apply-err"}

type Blk struct {
	Name  string
	Type  uint
	Cbor  []byte
	Class Class
	Hard  bool // BadDecode only: fails to decode even with SkipBodyHashValidation
}

// Factory holds the block templates of one process.
type Factory struct {
	Good    []Blk // corpus blocks that decode with body-hash validation on
	Bad     []Blk // corrupted variants that do not decode
	VGood   Blk   // block that passes the validate stage with Eta0 (decode needs SkipBodyHash)
	VBad    []Blk // blocks that decode but fail the validate stage with Eta0
	VOK     bool  // validation templates available
	Eta0    string
	VConfig lcommon.VerifyConfig
	Notes   []string
}

// Conway header taken from /repo/ledger/verify_block_test.go together with
// the epoch nonce it verifies under (read at run time from the checkout when
// possible; this copy is the fallback).
const vHeaderEta0 = "4ef95a10f639d0cf16bb963c3a580d4bf2a95b6ae7848702665884843e3c661d"

const SlotsPerKesPeriod = 129600

var hdrRe = regexp.MustCompile(`"(828a1a00a60faf[0-9a-f]+)"`)

// NewFactory builds the templates; every class is decided by running the
// library's own decoder / verifier once on the template (single-threaded), so
// "good" and "bad" mean exactly what the pipeline's stages will see.
func NewFactory(repo string, r *core.Rand) (*Factory, error) {
	f := &Factory{Eta0: vHeaderEta0}
	blocks, err := corpus.Blocks(repo)
	if err != nil {
		return nil, err
	}
	for _, b := range blocks {
		if len(b.Cbor) > 40000 {
			continue // the 650 kB EBB would only slow the race build down
		}
		if _, err := ledger.NewBlockFromCbor(b.Type, b.Cbor, lcommon.VerifyConfig{}); err != nil {
			f.Notes = append(f.Notes, fmt.Sprintf("corpus block %s does not decode: %v", b.Name, err))
			continue
		}
		f.Good = append(f.Good, Blk{Name: b.Name, Type: b.Type, Cbor: b.Cbor, Class: Good})
	}
	if len(f.Good) < 4 {
		return nil, fmt.Errorf("only %d corpus blocks decode", len(f.Good))
	}
	sort.Slice(f.Good, func(i, j int) bool { return len(f.Good[i].Cbor) < len(f.Good[j].Cbor) })
	// corrupted variants
	for i, g := range f.Good {
		for v := 0; v < 4; v++ {
			c := append([]byte(nil), g.Cbor...)
			name := ""
			switch v {
			case 0:
				c = c[:len(c)-1-r.Intn(8)]
				name = "truncated"
			case 1:
				c[0] = 0xff
				name = "first-byte-ff"
			case 2:
				p := len(c)/2 + r.Intn(len(c)/2)
				c[p] ^= 1 << uint(r.Intn(8))
				name = fmt.Sprintf("bitflip@%d", p)
			case 3:
				c = append(c, 0x00)
				name = "trailing-byte"
			}
			if _, err := ledger.NewBlockFromCbor(g.Type, c, lcommon.VerifyConfig{}); err != nil {
				_, err2 := ledger.NewBlockFromCbor(g.Type, c, lcommon.VerifyConfig{SkipBodyHashValidation: true})
				f.Bad = append(f.Bad, Blk{Name: g.Name + "/" + name, Type: g.Type, Cbor: c, Class: BadDecode, Hard: err2 != nil})
			}
		}
		_ = i
	}
	if len(f.Bad) < 4 {
		return nil, fmt.Errorf("only %d corrupted variants fail to decode", len(f.Bad))
	}
	f.buildValidation(repo)
	return f, nil
}

func (f *Factory) buildValidation(repo string) {
	f.VConfig = lcommon.VerifyConfig{
		SkipBodyHashValidation:    true,
		SkipTransactionValidation: true,
		SkipStakePoolValidation:   true,
		SkipBlockLimitsValidation: true,
	}
	hdrHex := ""
	if b, err := readFile(repo + "/ledger/verify_block_test.go"); err == nil {
		if m := hdrRe.FindSubmatch(b); m != nil {
			hdrHex = string(m[1])
		}
	}
	if hdrHex == "" {
		f.Notes = append(f.Notes, "validation header not found in ledger/verify_block_test.go")
		return
	}
	hdr, err := hex.DecodeString(hdrHex)
	if err != nil {
		f.Notes = append(f.Notes, "validation header hex: "+err.Error())
		return
	}
	// Conway block = [header, tx_bodies, tx_witness_sets, aux_data_map, invalid_txs]
	blk := append([]byte{0x85}, hdr...)
	blk = append(blk, 0x80, 0x80, 0xa0, 0x80)
	ok := func(typ uint, c []byte) (decoded, valid bool, err error) {
		b, err := ledger.NewBlockFromCbor(typ, c, lcommon.VerifyConfig{SkipBodyHashValidation: true})
		if err != nil {
			return false, false, err
		}
		v, _, _, _, err := ledger.VerifyBlock(b, f.Eta0, SlotsPerKesPeriod, f.VConfig)
		return true, v && err == nil, err
	}
	dec, val, err := ok(corpus.TypeConway, blk)
	if !dec || !val {
		f.Notes = append(f.Notes, fmt.Sprintf("synthesised Conway block: decoded=%v valid=%v err=%v", dec, val, err))
		return
	}
	f.VGood = Blk{Name: "conway-header-empty-body", Type: corpus.TypeConway, Cbor: blk, Class: Good}
	for _, g := range f.Good {
		if g.Type < corpus.TypeShelley {
			continue
		}
		dec, val, _ := ok(g.Type, g.Cbor)
		if dec && !val {
			f.VBad = append(f.VBad, Blk{Name: g.Name + "/wrong-eta0", Type: g.Type, Cbor: g.Cbor, Class: BadValidate})
		}
	}
	f.VOK = len(f.VBad) > 0
}

func readFile(p string) ([]byte, error) { return os.ReadFile(p) }

// Tip makes a block unique: slot = id, block number = run.
func Tip(run, id int) pcommon.Tip {
	h := fnv.New64a()
	fmt.Fprintf(h, "%d/%d", run, id)
	return pcommon.Tip{Point: pcommon.NewPoint(uint64(id), h.Sum(nil)), BlockNumber: uint64(run)}
}

// ItemID recovers (run, id) from an item in hand.
func ItemID(it *pipeline.BlockItem) (run, id int) {
	t := it.Tip()
	return int(t.BlockNumber), int(t.Point.Slot)
}

// ------------------------------------------------------------------ holds

// Hold blocks whoever waits on it until released (idempotent release).
type Hold struct {
	ch   chan struct{}
	once sync.Once
}

func NewHold() *Hold               { return &Hold{ch: make(chan struct{})} }
func (h *Hold) Release()           { h.once.Do(func() { close(h.ch) }) }
func (h *Hold) C() <-chan struct{} { return h.ch }
func (h *Hold) Released() bool {
	select {
	case <-h.ch:
		return true
	default:
		return false
	}
}

// HoldWait parks the calling goroutine on the hold. Kept as a separate,
// non-inlined function so it is recognisable in goroutine dumps.
//
//go:noinline
func HoldWait(h *Hold) { <-h.ch }

// Delay performs a perturbation: 0 nothing, 1 Gosched, otherwise sleep d µs.
func Delay(us int) {
	switch {
	case us <= 0:
	case us == 1:
		runtime.Gosched()
	default:
		time.Sleep(time.Duration(us) * time.Microsecond)
	}
}

// ------------------------------------------------------------------ goroutines

type G struct {
	ID        int
	State     string
	Funcs     []string
	Created   string
	Text      string
	Internal  bool // created by the pipeline package
	InHarness bool // a harness frame (hook / ApplyFunc) is on an internal goroutine's stack
}

const pipePkg = "github.com/blinklabs-io/gouroboros/pipeline."

var gHead = regexp.MustCompile(`^goroutine (\d+) \[([^\]]*)\]:`)

// Goroutines parses runtime.Stack(all).
func Goroutines() []G {
	buf := make([]byte, 1<<20)
	for {
		n := runtime.Stack(buf, true)
		if n < len(buf) {
			buf = buf[:n]
			break
		}
		buf = make([]byte, 2*len(buf))
	}
	var out []G
	for _, blk := range bytes.Split(buf, []byte("\n\n")) {
		lines := strings.Split(strings.TrimSpace(string(blk)), "\n")
		if len(lines) == 0 {
			continue
		}
		m := gHead.FindStringSubmatch(lines[0])
		if m == nil {
			continue
		}
		g := G{Text: string(blk)}
		g.ID, _ = strconv.Atoi(m[1])
		st := m[2]
		if i := strings.Index(st, ","); i >= 0 {
			st = st[:i]
		}
		g.State = st
		for _, ln := range lines[1:] {
			if strings.HasPrefix(ln, "\t") {
				continue
			}
			if strings.HasPrefix(ln, "created by ") {
				g.Created = strings.TrimPrefix(ln, "created by ")
				continue
			}
			fn := ln
			if j := strings.LastIndex(fn, "("); j > 0 {
				fn = fn[:j]
			}
			g.Funcs = append(g.Funcs, fn)
		}
		g.Internal = strings.HasPrefix(g.Created, pipePkg)
		if g.Internal {
			for _, fn := range g.Funcs {
				if strings.HasPrefix(fn, "verifharness/") {
					g.InHarness = true
				}
			}
		}
		out = append(out, g)
	}
	return out
}

// PipelineInternal returns the goroutines started by the pipeline package.
func PipelineInternal(gs []G) []G {
	var out []G
	for _, g := range gs {
		if g.Internal {
			out = append(out, g)
		}
	}
	return out
}

// HasPipelineFrame reports goroutines (of any origin) with a pipeline frame.
func HasPipelineFrame(g G) bool {
	for _, fn := range g.Funcs {
		if strings.HasPrefix(fn, pipePkg) {
			return true
		}
	}
	return false
}

func parkedState(s string) bool {
	return s == "select" || s == "chan receive" || s == "chan send"
}

// Parked reports whether every goroutine started by the pipeline is blocked
// on a channel operation (in library code or on a harness hold). The stack
// dump is taken with the world stopped, so "all parked" is a consistent
// snapshot: nothing inside the pipeline can move until something outside
// (a submitter, a release, a collector) acts. Returns the offenders otherwise.
func Parked() (bool, []G, []G) {
	gs := PipelineInternal(Goroutines())
	var bad []G
	for _, g := range gs {
		if !parkedState(g.State) {
			bad = append(bad, g)
		}
	}
	return len(bad) == 0, bad, gs
}

// Settle waits until the pipeline is parked in `rounds` consecutive dumps with
// no new log event in between. It is a logical condition; the time bound only
// turns an unreachable state into "not settled" (caller: inconclusive).
func Settle(l *Log, rounds int, limit time.Duration) bool {
	deadline := time.Now().Add(limit)
	okRounds := 0
	last := l.Len()
	for {
		ok, _, _ := Parked()
		cur := l.Len()
		if ok && cur == last {
			okRounds++
			if okRounds >= rounds {
				return true
			}
		} else {
			okRounds = 0
		}
		last = cur
		if time.Now().After(deadline) {
			return false
		}
		runtime.Gosched()
		time.Sleep(500 * time.Microsecond)
	}
}

// Census waits (with retries) for every pipeline-started goroutine to be gone
// and returns the leftovers.
func Census(retries int) []G {
	var left []G
	for i := 0; i < retries; i++ {
		left = PipelineInternal(Goroutines())
		if len(left) == 0 {
			return nil
		}
		runtime.Gosched()
		time.Sleep(time.Duration(1+i/4) * time.Millisecond)
	}
	return left
}

// Describe renders goroutines compactly for witnesses.
func Describe(gs []G) []string {
	var out []string
	for _, g := range gs {
		top := ""
		for _, fn := range g.Funcs {
			if strings.HasPrefix(fn, pipePkg) || strings.HasPrefix(fn, "verifharness/") {
				top = fn
				break
			}
		}
		out = append(out, fmt.Sprintf("g%d [%s] %s (created by %s)", g.ID, g.State, top, g.Created))
	}
	sort.Strings(out)
	return out
}

// Sig hashes a sequence of ints (interleaving signature).
func Sig(xs []int) uint64 {
	h := fnv.New64a()
	var b [8]byte
	for _, x := range xs {
		for i := 0; i < 8; i++ {
			b[i] = byte(uint64(x) >> (8 * i))
		}
		h.Write(b[:])
	}
	return h.Sum64()
}

// Inversions counts pairs out of ascending order (O(n log n) merge count).
func Inversions(xs []int) int {
	a := append([]int(nil), xs...)
	tmp := make([]int, len(a))
	var rec func(lo, hi int) int
	rec = func(lo, hi int) int {
		if hi-lo < 2 {
			return 0
		}
		mid := (lo + hi) / 2
		c := rec(lo, mid) + rec(mid, hi)
		i, j, k := lo, mid, lo
		for i < mid && j < hi {
			if a[i] <= a[j] {
				tmp[k] = a[i]
				i++
			} else {
				tmp[k] = a[j]
				j++
				c += mid - i
			}
			k++
		}
		for i < mid {
			tmp[k] = a[i]
			i++
			k++
		}
		for j < hi {
			tmp[k] = a[j]
			j++
			k++
		}
		copy(a[lo:hi], tmp[lo:hi])
		return c
	}
	return rec(0, len(a))
}

// ------------------------------------------------------------------ waiting

// Await waits until cond() holds. The verdict "stalled" is a logical one: the
// log has not moved, every goroutine started by the pipeline is parked on a
// channel operation in several consecutive world-stopped dumps, and cond still
// does not hold -- nothing inside the pipeline can move any more. Wall clock is
// used only to decide when to look (quiet) and as the hard watchdog ("timeout",
// which callers must treat as inconclusive).
func Await(l *Log, cond func() bool, quiet, hard time.Duration) string {
	start := time.Now()
	last := l.Len()
	lastChange := time.Now()
	for {
		if cond() {
			return "ok"
		}
		time.Sleep(300 * time.Microsecond)
		cur := l.Len()
		now := time.Now()
		if cur != last {
			last, lastChange = cur, now
			continue
		}
		if now.Sub(lastChange) > quiet {
			if Settle(l, 5, time.Second) && l.Len() == cur {
				if cond() {
					return "ok"
				}
				return "stalled"
			}
			lastChange = time.Now()
		}
		if now.Sub(start) > hard {
			return "timeout"
		}
	}
}

// WaitCh waits for ch with a watchdog.
func WaitCh(ch <-chan struct{}, d time.Duration) bool {
	t := time.NewTimer(d)
	defer t.Stop()
	select {
	case <-ch:
		return true
	case <-t.C:
		return false
	}
}
