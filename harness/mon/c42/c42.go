// Package c42 monitors C42: the block pipeline applies each good block once,
// in order; every submitted block appears exactly once on the results stream;
// Stop concurrent with Submit never panics and ends all pipeline goroutines.
//
// The real BlockPipeline is driven with unique blocks (real corpus blocks made
// unique through the tip argument, corrupted variants as failing blocks), all
// Submit call/return, hook-point, ApplyFunc, Results()/Errors() and Stop events
// are stamped by one global counter, and the oracle works on that log only.
package c42

import (
	"context"
	"errors"
	"fmt"
	"sort"
	"sync"
	"sync/atomic"
	"time"

	"github.com/anishathalye/porcupine"
	"github.com/blinklabs-io/gouroboros/pipeline"

	"verifharness/core"
	"verifharness/mon/c42/pipex"
)

func init() {
	core.Register(&core.Monitor{
		ID:    "C42",
		Race:  true,
		Level: "exploration",
		Rule: "runs of the real BlockPipeline: 8..600 (thorough ..2000) unique blocks (8..40 for the histories cross-checked with porcupine) (corpus blocks, 0-50% corrupted, some with a failing ApplyFunc), " +
			"1..16 decode workers, validation stage off or on (1..16 workers, real VerifyBlock with a block that verifies and blocks that do not), 1..8 submitters, " +
			"channel buffer 1..1000, pending limit 1..2160, per-item latencies injected at the verif hook points from 5 skew profiles, Stop after completion or at a PRNG-chosen event; " +
			"a run is non-trivial when items actually overtook each other on the way to the apply stage (arrival order at apply.afterRecv or channel-send order after submit.afterSeq differs from sequence order) " +
			"or Stop landed while submissions/results were outstanding; distinct by interleaving signature = hash(arrival order of ids at the apply stage, stop position, outcome of every Submit)",
		MinNontrivial: 20,
		RaceAnchors:   []string{"pipeline.(*ApplyStage)", "pipeline.(*BlockPipeline)", "pipeline.(*StageWorkerPool)", "pipeline.(*ApplyStageRunner)"},
		Assumptions: []string{
			"ledger.NewBlockFromCbor / ledger.VerifyBlock are deterministic: a template classified good/bad once behaves the same inside the pipeline",
			"the harness drains Results() and Errors() continuously, as the pipeline's contract expects",
			"goroutine schedules are not reproducible; the replay carries the event log of the failing run",
		},
		QuickTimeout:    600,
		ThoroughTimeout: 4 * 3600,
		Run:             run,
	})
}

var errApply = errors.New("harness: apply refused")

type runCfg struct {
	Idx        int    `json:"run"`
	N          int    `json:"blocks"`
	DecodeW    int    `json:"decode_workers"`
	ValidateW  int    `json:"validate_workers"`
	Submitters int    `json:"submitters"`
	Buf        int    `json:"buffer"`
	MaxPending int    `json:"max_pending"`
	Profile    string `json:"latency_profile"`
	StopAt     int    `json:"stop_at_event"` // 0 = after completion
	Short      bool   `json:"short_history"`
	BadPct     int    `json:"bad_pct"`

	blk   []pipex.Blk
	class []pipex.Class
	delay [pipex.NPoints][]uint16
}

var profiles = []string{"heavy-tail", "reverse-ramp", "few-very-slow", "submit-skew", "slow-apply"}

func pickSmall(r *core.Rand, n int) int {
	a, b := r.Intn(n), r.Intn(n)
	if b < a {
		a = b
	}
	return a
}

func genCfg(c *core.Ctx, f *pipex.Factory, i int, r *core.Rand) *runCfg {
	cfg := &runCfg{Idx: i}
	cfg.Short = i%5 == 3
	stop := i%5 == 2 || (i%5 == 4 && r.Bool())
	validate := f.VOK && i%4 == 1
	switch {
	case cfg.Short:
		cfg.N = r.Range(8, 40)
	case validate:
		cfg.N = r.Range(40, c.N(160, 500))
	default:
		cfg.N = r.Range(50, c.N(600, 2000))
	}
	ws := []int{1, 2, 2, 3, 4, 4, 6, 8, 12, 16}
	cfg.DecodeW = core.Pick(r, ws)
	if validate {
		cfg.ValidateW = core.Pick(r, ws)
	}
	if r.Chance(2, 5) && !cfg.Short {
		cfg.Submitters = 1
	} else {
		cfg.Submitters = r.Range(2, 8)
	}
	cfg.Buf = core.Pick(r, []int{1, 2, 4, 16, 64, 1000})
	cfg.MaxPending = core.Pick(r, []int{1, 2, 4, 8, 2160, 2160})
	cfg.BadPct = core.Pick(r, []int{0, 5, 20, 50})
	applyErrPct := core.Pick(r, []int{0, 0, 5})
	cfg.Profile = profiles[r.Intn(len(profiles))]
	n := cfg.N
	cfg.blk = make([]pipex.Blk, n)
	cfg.class = make([]pipex.Class, n)
	var hard []pipex.Blk
	for _, b := range f.Bad {
		if b.Hard {
			hard = append(hard, b)
		}
	}
	for id := 0; id < n; id++ {
		roll := r.Intn(100)
		switch {
		case roll < cfg.BadPct && validate && r.Bool():
			cfg.blk[id] = f.VBad[pickSmall(r, len(f.VBad))]
		case roll < cfg.BadPct && validate:
			cfg.blk[id] = hard[pickSmall(r, len(hard))]
		case roll < cfg.BadPct:
			cfg.blk[id] = f.Bad[pickSmall(r, len(f.Bad))]
		case validate:
			cfg.blk[id] = f.VGood
		default:
			cfg.blk[id] = f.Good[pickSmall(r, min(len(f.Good), 7))]
		}
		cfg.class[id] = cfg.blk[id].Class
		if cfg.class[id] == pipex.Good && r.Intn(100) < applyErrPct {
			cfg.class[id] = pipex.ApplyErr
		}
	}
	for pt := range cfg.delay {
		cfg.delay[pt] = make([]uint16, n)
	}
	stagePts := []uint8{pipex.PtDecodeTake, pipex.PtDecodeDone}
	if validate {
		stagePts = append(stagePts, pipex.PtValidateTake, pipex.PtValidateDone)
	}
	for id := 0; id < n; id++ {
		// background: a yield here and there
		for pt := uint8(0); pt < pipex.NPoints; pt++ {
			if r.Chance(1, 6) {
				cfg.delay[pt][id] = 1
			}
		}
		switch cfg.Profile {
		case "heavy-tail":
			for _, pt := range stagePts {
				if r.Chance(1, 8) {
					cfg.delay[pt][id] = uint16(r.Range(200, 1500))
				}
			}
		case "reverse-ramp":
			w := 2 * cfg.DecodeW
			cfg.delay[pipex.PtDecodeTake][id] = uint16((w - id%w) * 60)
		case "few-very-slow":
			if r.Chance(1, 40) {
				cfg.delay[core.Pick(r, stagePts)][id] = uint16(r.Range(3000, 8000))
			}
		case "submit-skew":
			if r.Chance(1, 5) {
				cfg.delay[pipex.PtSubmitAfterSeq][id] = uint16(r.Range(100, 800))
			}
			if r.Chance(1, 10) {
				cfg.delay[pipex.PtDecodeDone][id] = uint16(r.Range(100, 600))
			}
		case "slow-apply":
			if r.Chance(1, 6) {
				cfg.delay[pipex.PtApplyFunc][id] = uint16(r.Range(100, 700))
			}
			if r.Chance(1, 10) {
				cfg.delay[pipex.PtApplyRecv][id] = uint16(r.Range(50, 300))
			}
			if r.Chance(1, 10) {
				cfg.delay[pipex.PtDecodeTake][id] = uint16(r.Range(200, 900))
			}
		}
	}
	if stop {
		perBlock := 7
		if validate {
			perBlock = 9
		}
		cfg.StopAt = r.Range(1, perBlock*n)
	}
	return cfg
}

type outcome struct {
	evs            []pipex.Event
	concurrentStop bool
	startErr       error
	submitPhase    string // ok | stalled | timeout
	completion     string // ok | stalled | timeout | skipped
	stopWait       string // ok | hang | timeout
	panics         []string
	stallDump      []string
	pendingAtStall int
	leftover       []pipex.G
	lateSubmitters int
}

func execute(c *core.Ctx, f *pipex.Factory, cfg *runCfg) *outcome {
	out := &outcome{}
	log := pipex.NewLog()
	n := cfg.N

	hook := func(name string, it *pipeline.BlockItem) {
		rn, id := pipex.ItemID(it)
		if rn != cfg.Idx || id < 0 || id >= n {
			return
		}
		pt, ok := pipex.PointIndex(name)
		if !ok {
			return
		}
		log.Add(pipex.Point, id, pt, int64(it.SequenceNumber()), nil)
		pipex.Delay(int(cfg.delay[pt][id]))
	}
	applyFn := func(it *pipeline.BlockItem) error {
		rn, id := pipex.ItemID(it)
		if rn != cfg.Idx || id < 0 || id >= n {
			return nil
		}
		log.Add(pipex.ApplyCall, id, pipex.PtApplyFunc, int64(it.SequenceNumber()), nil)
		pipex.Delay(int(cfg.delay[pipex.PtApplyFunc][id]))
		var err error
		if cfg.class[id] == pipex.ApplyErr {
			err = errApply
		}
		log.Add(pipex.ApplyRet, id, pipex.PtApplyFunc, int64(it.SequenceNumber()), err)
		return err
	}
	opts := []pipeline.PipelineOption{
		pipeline.WithDecodeWorkers(cfg.DecodeW),
		pipeline.WithValidateWorkers(cfg.ValidateW),
		pipeline.WithPrefetchBufferSize(cfg.Buf),
		pipeline.WithMaxPendingBlocks(cfg.MaxPending),
		pipeline.WithApplyFunc(applyFn),
	}
	if cfg.ValidateW > 0 {
		opts = append(opts,
			pipeline.WithEta0(f.Eta0),
			pipeline.WithSlotsPerKesPeriod(pipex.SlotsPerKesPeriod),
			pipeline.WithVerifyConfig(f.VConfig),
			pipeline.WithSkipBodyHashValidation(true))
	}
	p := pipeline.NewBlockPipeline(opts...)
	pipeline.VerifSetPoint(hook)
	defer pipeline.VerifSetPoint(nil)
	if err := p.Start(context.Background()); err != nil {
		out.startErr = err
		return out
	}

	var panicMu sync.Mutex
	addPanic := func(where string, v any, stack string) {
		panicMu.Lock()
		out.panics = append(out.panics, fmt.Sprintf("%s: %v\n%s", where, v, stack))
		panicMu.Unlock()
	}

	// collectors
	var nResults atomic.Int64
	seen := make([]atomic.Bool, n)
	quit := make(chan struct{})
	var collectors sync.WaitGroup
	resCh, errCh := p.Results(), p.Errors()
	collectors.Add(2)
	go func() {
		defer collectors.Done()
		rec := func(it *pipeline.BlockItem) {
			rn, id := pipex.ItemID(it)
			if rn != cfg.Idx {
				id = -1
			}
			var e error
			if !it.IsApplied() {
				e = errors.New("not-applied")
			}
			log.Add(pipex.Result, id, 0, int64(it.SequenceNumber()), e)
			if id >= 0 && id < n && !seen[id].Swap(true) {
				nResults.Add(1) // distinct ids: a duplicate must not end the completion wait early
			}
		}
		for {
			select {
			case it, ok := <-resCh:
				if !ok {
					return
				}
				rec(it)
			case <-quit:
				for {
					select {
					case it, ok := <-resCh:
						if !ok {
							return
						}
						rec(it)
					default:
						return
					}
				}
			}
		}
	}()
	go func() {
		defer collectors.Done()
		for {
			select {
			case e, ok := <-errCh:
				if !ok {
					return
				}
				log.Add(pipex.ErrorEv, -1, 0, -1, e)
			case <-quit:
				return
			}
		}
	}()

	// stop
	var stopOnce sync.Once
	var stopCalled atomic.Bool
	stopDone := make(chan struct{})
	doStop := func(concurrent bool) {
		stopOnce.Do(func() {
			if concurrent {
				out.concurrentStop = true
			}
			stopCalled.Store(true)
			log.Add(pipex.StopCall, -1, 0, -1, nil)
			var serr error
			if pn, v, st := core.Safely(func() { serr = p.Stop() }); pn {
				addPanic("Stop", v, st)
			}
			log.Add(pipex.StopRet, -1, 0, -1, serr)
			close(stopDone)
		})
	}
	stopperDone := make(chan struct{})
	if cfg.StopAt > 0 {
		trig := log.TriggerAt(uint64(cfg.StopAt))
		go func() {
			defer close(stopperDone)
			select {
			case <-trig:
				doStop(true)
			case <-quit:
			}
		}()
	} else {
		close(stopperDone)
	}

	// submitters
	var next atomic.Int64
	var okSubmits atomic.Int64
	var subWG sync.WaitGroup
	subsDone := make(chan struct{})
	for s := 0; s < cfg.Submitters; s++ {
		subWG.Add(1)
		go func() {
			defer subWG.Done()
			for {
				id := int(next.Add(1) - 1)
				if id >= n {
					return
				}
				b := cfg.blk[id]
				tip := pipex.Tip(cfg.Idx, id)
				log.Add(pipex.SubmitCall, id, 0, -1, nil)
				var err error
				if pn, v, st := core.Safely(func() { err = p.Submit(context.Background(), b.Type, b.Cbor, tip) }); pn {
					addPanic("Submit", v, st)
					err = fmt.Errorf("panic: %v", v)
				}
				if err == nil {
					okSubmits.Add(1)
				}
				log.Add(pipex.SubmitRet, id, 0, -1, err)
			}
		}()
	}
	go func() { subWG.Wait(); close(subsDone) }()

	closed := func(ch <-chan struct{}) func() bool {
		return func() bool {
			select {
			case <-ch:
				return true
			default:
				return false
			}
		}
	}
	dumpStall := func() {
		_, _, gs := pipex.Parked()
		out.stallDump = pipex.Describe(gs)
		out.pendingAtStall = p.PendingCount()
	}
	out.submitPhase = pipex.Await(log, closed(subsDone), 1500*time.Millisecond, 90*time.Second)
	if out.submitPhase == "stalled" {
		dumpStall()
	}
	out.completion = "skipped"
	if out.submitPhase == "ok" && !stopCalled.Load() {
		out.completion = pipex.Await(log, func() bool {
			return stopCalled.Load() || nResults.Load() >= okSubmits.Load()
		}, 1500*time.Millisecond, 90*time.Second)
		if out.completion == "stalled" {
			dumpStall()
		}
	}
	go doStop(false)
	out.stopWait = "ok"
	if r := pipex.Await(log, closed(stopDone), 1500*time.Millisecond, 60*time.Second); r != "ok" {
		out.stopWait = map[string]string{"stalled": "hang", "timeout": "timeout"}[r]
		_, _, gs := pipex.Parked()
		out.stallDump = append(out.stallDump, pipex.Describe(gs)...)
	}
	if out.submitPhase != "ok" {
		// Stop has cancelled the pipeline context: every Submit must come back now
		if !pipex.WaitCh(subsDone, 20*time.Second) {
			out.lateSubmitters = 1
		}
	}
	close(quit)
	if out.stopWait == "ok" {
		collectors.Wait()
		<-stopperDone
		pipeline.VerifSetPoint(nil)
		out.leftover = pipex.Census(80)
	}
	out.evs = log.Snapshot()
	return out
}

// ------------------------------------------------------------------ oracle

type idInfo struct {
	subCall, subRet uint64
	subErr          string
	subReturned     bool
	applyCalls      []uint64
	results         int
	pseq            int64
}

func judge(c *core.Ctx, cfg *runCfg, out *outcome) {
	witness := func(extra map[string]any) map[string]any {
		w := map[string]any{"config": cfg, "events": pipex.Strings(out.evs, 400)}
		for k, v := range extra {
			w[k] = v
		}
		return w
	}
	if out.startErr != nil {
		c.Inconclusive(fmt.Sprintf("run %d: Start failed: %v", cfg.Idx, out.startErr))
		return
	}
	for _, pn := range out.panics {
		key := "C42:panic:submit"
		if len(pn) >= 4 && pn[:4] == "Stop" {
			key = "C42:panic:stop"
		}
		c.Violation(key, "panic while Stop ran concurrently with Submit: "+firstLine(pn), witness(map[string]any{"panic": pn}))
	}
	switch {
	case out.submitPhase == "timeout" || out.completion == "timeout" || out.stopWait == "timeout":
		c.Inconclusive(fmt.Sprintf("run %d: watchdog (submit=%s completion=%s stop=%s)", cfg.Idx, out.submitPhase, out.completion, out.stopWait))
		return
	}
	if out.stopWait == "hang" {
		c.Violation("C42:stop:hang", "Stop did not return: the log is frozen and every pipeline goroutine is parked",
			witness(map[string]any{"goroutines": out.stallDump}))
		return
	}
	if out.lateSubmitters > 0 {
		c.Violation("C42:stop:submit-hang", "a Submit call did not return after Stop", witness(map[string]any{"goroutines": out.stallDump}))
		return
	}

	n := cfg.N
	info := make([]idInfo, n)
	for i := range info {
		info[i].pseq = -1
	}
	var applyOrder []int  // ids in ApplyCall order
	var arriveApply []int // pipeline seqs in order of arrival at the apply stage
	var sendOrder []int   // pipeline seqs in order of leaving submit.afterSeq
	var stopCall, stopRet uint64
	kinds := make([]int, len(pipex.KindNames))
	pendingLimitErrs := 0
	resultsAfterStopRet := 0
	for _, e := range out.evs {
		kinds[e.K]++
		id := int(e.ID)
		switch e.K {
		case pipex.StopCall:
			stopCall = e.N
		case pipex.StopRet:
			stopRet = e.N
		case pipex.ErrorEv:
			if e.Err == pipeline.ErrPendingLimitExceeded.Error() {
				pendingLimitErrs++
			}
		}
		if id < 0 || id >= n {
			continue
		}
		in := &info[id]
		switch e.K {
		case pipex.SubmitCall:
			in.subCall = e.N
		case pipex.SubmitRet:
			in.subRet, in.subErr, in.subReturned = e.N, e.Err, true
		case pipex.ApplyCall:
			in.applyCalls = append(in.applyCalls, e.N)
			applyOrder = append(applyOrder, id)
		case pipex.Result:
			in.results++
			if stopRet != 0 {
				resultsAfterStopRet++
			}
		case pipex.Point:
			in.pseq = e.PSeq
			switch e.Pt {
			case pipex.PtApplyRecv:
				arriveApply = append(arriveApply, int(e.PSeq))
			case pipex.PtSubmitAfterSeq:
				sendOrder = append(sendOrder, int(e.PSeq))
			}
		}
	}
	for k, v := range kinds {
		c.Count("events_"+pipex.KindNames[k], v)
	}
	relaxed := out.concurrentStop
	// Without a concurrent Stop a stall is a verdict of its own.
	if !relaxed && (out.submitPhase == "stalled" || out.completion == "stalled") {
		c.Violation("C42:stall", fmt.Sprintf("pipeline came to rest with work outstanding (submit phase %s, completion %s, PendingCount=%d): log frozen and every pipeline goroutine parked",
			out.submitPhase, out.completion, out.pendingAtStall), witness(map[string]any{"goroutines": out.stallDump}))
	}
	if relaxed && out.submitPhase == "stalled" {
		c.Violation("C42:stop:submit-hang", "Submit calls blocked although Stop was called", witness(map[string]any{"goroutines": out.stallDump}))
	}

	okSub, errSub, applied, badApplied := 0, 0, 0, 0
	for id := 0; id < n; id++ {
		in := &info[id]
		cl := cfg.class[id]
		cname := pipex.ClassNames[cl]
		if !in.subReturned {
			continue // already reported as hang / stall
		}
		if len(in.applyCalls) > 1 {
			c.Violation("C42:apply-twice", fmt.Sprintf("block id %d (%s) was applied %d times", id, cname, len(in.applyCalls)), witness(map[string]any{"id": id}))
		}
		if in.results > 1 {
			c.Violation("C42:result-duplicate", fmt.Sprintf("block id %d (%s) appeared %d times on Results()", id, cname, in.results), witness(map[string]any{"id": id}))
		}
		if len(in.applyCalls) > 0 {
			applied++
			if cl == pipex.BadDecode || cl == pipex.BadValidate {
				badApplied++
				c.Violation("C42:applied-bad-block:"+cname, fmt.Sprintf("block id %d (%s, %s) reached ApplyFunc", id, cname, cfg.blk[id].Name),
					witness(map[string]any{"id": id, "block": core.HexFull(cfg.blk[id].Cbor), "type": cfg.blk[id].Type}))
			}
		}
		if in.subErr != "" {
			errSub++
			if !relaxed {
				c.Violation("C42:submit-failed-unstopped", fmt.Sprintf("Submit of id %d returned %q although the pipeline was started and Stop had not been called", id, in.subErr), witness(map[string]any{"id": id}))
			}
			continue
		}
		okSub++
		if relaxed {
			continue
		}
		if in.results == 0 {
			c.Violation("C42:result-missing", fmt.Sprintf("block id %d (%s, seq %d) was accepted by Submit but never appeared on Results()", id, cname, in.pseq), witness(map[string]any{"id": id}))
		}
		if (cl == pipex.Good || cl == pipex.ApplyErr) && len(in.applyCalls) == 0 {
			c.Violation("C42:good-not-applied", fmt.Sprintf("good block id %d (seq %d) was accepted by Submit but never applied", id, in.pseq), witness(map[string]any{"id": id}))
		}
	}
	// order: no pair with Submit(A) returned before Submit(B) was called and B applied before A
	maxCall, maxID := uint64(0), -1
	for _, id := range applyOrder {
		in := &info[id]
		if maxID >= 0 && in.subReturned && in.subRet < maxCall {
			key := "C42:apply-order:multi-submitter"
			if cfg.Submitters == 1 {
				key = "C42:apply-order:single-submitter"
			}
			c.Violation(key, fmt.Sprintf("id %d applied after id %d although Submit(%d) had returned (event %d) before Submit(%d) was called (event %d)",
				id, maxID, id, in.subRet, maxID, maxCall), witness(map[string]any{"apply_order": applyOrder}))
			break
		}
		if in.subCall > maxCall {
			maxCall, maxID = in.subCall, id
		}
	}
	if out.stopWait == "ok" && len(out.leftover) > 0 {
		c.Violation("C42:stop:goroutine-leak", fmt.Sprintf("%d goroutines started by the pipeline are still alive after Stop returned", len(out.leftover)),
			witness(map[string]any{"goroutines": pipex.Describe(out.leftover), "first": out.leftover[0].Text}))
	}
	if resultsAfterStopRet > 0 {
		c.Count("results_read_after_stop_returned", resultsAfterStopRet)
	}

	// porcupine cross-check of short, completed histories against a FIFO queue
	if cfg.Short && !relaxed && out.completion == "ok" {
		checkPorcupine(c, cfg, info, witness)
	}

	// evidence
	invApply := pipex.Inversions(arriveApply)
	invSend := pipex.Inversions(sendOrder)
	c.Count("runs", 1)
	c.Count("blocks_submitted_ok", okSub)
	c.Count("blocks_submit_error", errSub)
	c.Count("blocks_applied", applied)
	c.Count("pending_limit_errors", pendingLimitErrs)
	c.Count("overtaken_pairs_at_apply_stage", invApply)
	c.Count("overtaken_pairs_at_submit_send", invSend)
	if cfg.ValidateW > 0 {
		c.Count("runs_validation_on", 1)
	}
	if cfg.Submitters > 1 {
		c.Count("runs_multi_submitter", 1)
	}
	c.Count("profile_"+cfg.Profile, 1)
	midStop := false
	if relaxed {
		c.Count("runs_concurrent_stop", 1)
		outstanding := 0
		for id := 0; id < n; id++ {
			in := &info[id]
			if in.subCall == 0 || in.subCall > stopCall || (in.subErr == "" && in.results == 0) || in.subRet > stopCall {
				outstanding++
			}
		}
		if outstanding > 0 && stopCall > 0 {
			midStop = true
			c.Count("runs_stop_midstream", 1)
		}
		if errSub > 0 {
			c.Count("runs_submit_refused_after_stop", 1)
		}
	} else {
		c.Count("runs_completed_all_results", 1)
	}
	overtook := invApply > 0 || invSend > 0
	if overtook {
		c.Count("runs_with_overtaking", 1)
	}
	if overtook || midStop {
		outc := make([]int, 0, n+2)
		for id := 0; id < n; id++ {
			v := 0
			if info[id].subErr != "" {
				v = 1
			}
			outc = append(outc, v)
		}
		c.Distinct(pipex.Sig(arriveApply), pipex.Sig(sendOrder), pipex.Sig(outc), relaxed)
	}
	if c.SampleN() < 6 && cfg.Idx%9 == 0 {
		c.Sample(map[string]any{"config": cfg, "submitted_ok": okSub, "submit_errors": errSub, "applied": applied,
			"overtaken_pairs_at_apply": invApply, "concurrent_stop": relaxed, "first_events": pipex.Strings(out.evs, 24)})
	}
}

func firstLine(s string) string {
	for i := 0; i < len(s); i++ {
		if s[i] == '\n' {
			return s[:i]
		}
	}
	return s
}

// ------------------------------------------------------------------ porcupine

type qIn struct {
	enq bool
	id  int
}

func checkPorcupine(c *core.Ctx, cfg *runCfg, info []idInfo, witness func(map[string]any) map[string]any) {
	// FIFO queue specialised with the observed output: all ids are unique and
	// every enqueued id of the history is dequeued exactly once, so the queue
	// is FIFO iff the enqueues can be linearised in the order of the dequeues.
	// State = (number of enqueues, number of dequeues) along that order. This is
	// equivalent to the list-valued queue model but keeps porcupine's search
	// linear when many Submit calls overlap for long.
	type qState struct{ e, d int }
	var order []int // ids in ApplyFunc order
	type ac struct {
		at uint64
		id int
	}
	var acs []ac
	for id := range info {
		in := &info[id]
		cl := cfg.class[id]
		if (cl == pipex.Good || cl == pipex.ApplyErr) && in.subErr == "" && in.subReturned && len(in.applyCalls) == 1 {
			acs = append(acs, ac{in.applyCalls[0], id})
		}
	}
	sort.Slice(acs, func(i, j int) bool { return acs[i].at < acs[j].at })
	for _, a := range acs {
		order = append(order, a.id)
	}
	model := porcupine.Model{
		Init: func() interface{} { return qState{} },
		Step: func(state, input, output interface{}) (bool, interface{}) {
			st := state.(qState)
			in := input.(qIn)
			if in.enq {
				if st.e < len(order) && order[st.e] == in.id {
					return true, qState{st.e + 1, st.d}
				}
				return false, st
			}
			got := output.(int)
			if st.d < st.e && order[st.d] == got {
				return true, qState{st.e, st.d + 1}
			}
			return false, st
		},
	}
	var ops []porcupine.Operation
	client := 0
	for id := range info {
		in := &info[id]
		cl := cfg.class[id]
		if cl != pipex.Good && cl != pipex.ApplyErr {
			continue
		}
		if in.subErr != "" || !in.subReturned || len(in.applyCalls) != 1 {
			continue
		}
		ops = append(ops, porcupine.Operation{ClientId: client % 8, Input: qIn{enq: true, id: id}, Call: int64(in.subCall), Output: 0, Return: int64(in.subRet)})
		client++
		// the dequeue is the ApplyFunc call; a point operation on the apply goroutine
		ops = append(ops, porcupine.Operation{ClientId: 8, Input: qIn{}, Call: int64(in.applyCalls[0]), Output: id, Return: int64(in.applyCalls[0])})
	}
	sort.Slice(ops, func(i, j int) bool { return ops[i].Call < ops[j].Call })
	res := porcupine.CheckOperationsTimeout(model, ops, 20*time.Second)
	c.Count("porcupine_histories", 1)
	c.Count("porcupine_operations", len(ops))
	switch res {
	case porcupine.Ok:
		c.Count("porcupine_ok", 1)
	case porcupine.Illegal:
		c.Violation("C42:porcupine-fifo", "the Submit/apply history is not linearizable as a FIFO queue", witness(nil))
	default:
		c.Inconclusive(fmt.Sprintf("run %d: porcupine returned Unknown", cfg.Idx))
	}
}

// ------------------------------------------------------------------ run

func run(c *core.Ctx) {
	f, err := pipex.NewFactory(c.RepoDir, c.Rand("factory"))
	if err != nil {
		c.Inconclusive("block factory: " + err.Error())
		return
	}
	c.Note("good_templates", len(f.Good))
	c.Note("bad_templates", len(f.Bad))
	c.Note("validation_templates", f.VOK)
	if len(f.Notes) > 0 {
		c.Note("factory_notes", f.Notes)
	}
	runs := c.N(60, 1500)
	for i := 0; i < runs; i++ {
		cfg := genCfg(c, f, i, c.Rand("run", i))
		c.Journal("C42 run %d n=%d dw=%d vw=%d subs=%d buf=%d maxp=%d profile=%s stopAt=%d", i, cfg.N, cfg.DecodeW, cfg.ValidateW, cfg.Submitters, cfg.Buf, cfg.MaxPending, cfg.Profile, cfg.StopAt)
		out := execute(c, f, cfg)
		c.Eval()
		judge(c, cfg, out)
	}
}
