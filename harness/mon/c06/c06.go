// Package c06 monitors C06: multi-asset values form a commutative group up to
// zeros. Oracle: a reference model map[(policy,name)]*big.Int with zeros
// dropped, written here; canonical encodings are inspected with cborx.
package c06

import (
	"bytes"
	"fmt"
	"math/big"
	"sort"
	"strings"

	gcbor "github.com/blinklabs-io/gouroboros/cbor"
	"github.com/blinklabs-io/gouroboros/ledger/common"

	"verifharness/cborx"
	"verifharness/core"
)

type MA = common.MultiAsset[*big.Int]

func init() {
	core.Register(&core.Monitor{
		ID: "C06",
		Rule: "triples (A,B,C) of MultiAsset[*big.Int] values: <= 4 policies x <= 4 names drawn from a universe of 6 policies / 7 names (so operands overlap), quantities from {0, +-1, +-2^63, 2^63-1, 2^64-1, +-2^64, +-2^80, random 8/63/64/100-bit}; " +
			"B and C are with probability 1/2 derived from the previous operand (zero-variant: zero entries / empty policies added or removed; negation; one quantity changed) so that equal-up-to-zeros and cancelling pairs are frequent; " +
			"each value is built three ways (map literal in a random insertion order, Add of single-entry values, decode of a harness-built CBOR map in random key order). " +
			"A triple is non-trivial when all three operands are non-empty and two of them share a (policy,name) key; distinct by the written-out triple",
		MinNontrivial: 3000,
		Assumptions: []string{
			"only the *big.Int instantiation (MultiAssetTypeOutput / MultiAssetTypeMint) is judged; int64/uint64 overflow is not part of the statement",
			"quantities are non-nil *big.Int (nil is what Asset() reports for an absent entry and is read as 0)",
			"Encode is judged on: identical bytes for every construction order, definite maps with strictly ascending canonical (length-then-bytewise) keys, and content equal to the model up to zeros - not on whether zero entries are written",
			"in-place modification of a *big.Int obtained from a sum must not change an operand (Add must not alias)",
		},
		Run: run,
	})
}

// ------------------------------------------------------------------ model

type entry struct {
	pol  int // index into universe
	name int
	qty  *big.Int
}

// raw value: ordered entries with unique (pol,name) plus policies that are
// present with an empty asset map.
type rawVal struct {
	entries  []entry
	emptyPol []int
}

type key struct{ pol, name int }

type model map[key]*big.Int

func (v *rawVal) model() model {
	m := model{}
	for _, e := range v.entries {
		if e.qty.Sign() != 0 {
			m[key{e.pol, e.name}] = e.qty
		}
	}
	return m
}

func modelEq(a, b model) bool {
	if len(a) != len(b) {
		return false
	}
	for k, v := range a {
		w, ok := b[k]
		if !ok || v.Cmp(w) != 0 {
			return false
		}
	}
	return true
}

func modelAdd(a, b model) model {
	out := model{}
	for k, v := range a {
		out[k] = new(big.Int).Set(v)
	}
	for k, v := range b {
		if w, ok := out[k]; ok {
			w.Add(w, v)
			if w.Sign() == 0 {
				delete(out, k)
			}
		} else {
			out[k] = new(big.Int).Set(v)
		}
	}
	return out
}

func (m model) String() string {
	var ks []key
	for k := range m {
		ks = append(ks, k)
	}
	sort.Slice(ks, func(i, j int) bool {
		if ks[i].pol != ks[j].pol {
			return ks[i].pol < ks[j].pol
		}
		return ks[i].name < ks[j].name
	})
	var sb strings.Builder
	sb.WriteByte('{')
	for i, k := range ks {
		if i > 0 {
			sb.WriteByte(' ')
		}
		fmt.Fprintf(&sb, "p%d.n%d=%s", k.pol, k.name, m[k])
	}
	sb.WriteByte('}')
	return sb.String()
}

func (v *rawVal) String() string {
	var sb strings.Builder
	sb.WriteByte('[')
	for i, e := range v.entries {
		if i > 0 {
			sb.WriteByte(' ')
		}
		fmt.Fprintf(&sb, "p%d.n%d=%s", e.pol, e.name, e.qty)
	}
	for _, p := range v.emptyPol {
		fmt.Fprintf(&sb, " p%d={}", p)
	}
	sb.WriteByte(']')
	return sb.String()
}

// ------------------------------------------------------------------ universe

var policies [6]common.Blake2b224
var names = [][]byte{
	{},
	[]byte("b"),
	[]byte("ab"),
	{0x00},
	bytes.Repeat([]byte{0x61}, 24), // needs the 0x58 header
	append(bytes.Repeat([]byte{0xff}, 31), 0x00),
	append(bytes.Repeat([]byte{0xff}, 31), 0x01),
}

func init() {
	for i := range policies {
		for j := range policies[i] {
			policies[i][j] = byte(0x11 * (i + 1))
		}
	}
	// two policies that differ only in the last byte, one starting with 00
	copy(policies[4][:], policies[3][:])
	policies[4][27] ^= 1
	policies[5][0] = 0
}

func pow2(k uint) *big.Int { return new(big.Int).Lsh(big.NewInt(1), k) }

// regime 0: |q| < 2^63 only; 1: 64-bit forms; 2: everything incl. bignums
func randQty(r *core.Rand, regime int) *big.Int {
	neg := func(v *big.Int) *big.Int { return new(big.Int).Neg(v) }
	sel := r.Intn(20)
	if regime == 0 {
		sel = []int{0, 1, 2, 3, 6, 13, 14, 15, 18, 19}[r.Intn(10)]
	} else if regime == 1 {
		sel = []int{0, 2, 3, 4, 5, 6, 7, 9, 13, 15, 16, 16, 18}[r.Intn(13)]
	}
	switch sel {
	case 0, 1:
		return big.NewInt(0)
	case 2:
		return big.NewInt(1)
	case 3:
		return big.NewInt(-1)
	case 4:
		return pow2(63)
	case 5:
		return neg(pow2(63))
	case 6:
		return new(big.Int).Sub(pow2(63), big.NewInt(1))
	case 7:
		return new(big.Int).Sub(pow2(64), big.NewInt(1))
	case 8:
		return pow2(64)
	case 9:
		return neg(pow2(64))
	case 10:
		return pow2(80)
	case 11:
		return neg(pow2(80))
	case 12:
		return neg(new(big.Int).Add(pow2(64), big.NewInt(1)))
	case 13, 14:
		v := big.NewInt(int64(r.Intn(256)))
		if r.Bool() {
			v.Neg(v)
		}
		return v
	case 15:
		v := new(big.Int).SetUint64(r.Uint64() >> 1)
		if r.Bool() {
			v.Neg(v)
		}
		return v
	case 16:
		v := new(big.Int).SetUint64(r.Uint64())
		if r.Bool() {
			v.Neg(v)
		}
		return v
	case 17:
		v := new(big.Int).SetBytes(r.Bytes(13))
		if r.Bool() {
			v.Neg(v)
		}
		return v
	}
	return big.NewInt(int64(r.Range(1, 1000000)))
}

func randVal(r *core.Rand, regime int) *rawVal {
	v := &rawVal{}
	np := r.Intn(5)
	pols := r.Perm(len(policies))[:np]
	for _, p := range pols {
		nn := r.Intn(5)
		if nn == 0 {
			v.emptyPol = append(v.emptyPol, p)
			continue
		}
		for _, n := range r.Perm(len(names))[:nn] {
			v.entries = append(v.entries, entry{p, n, randQty(r, regime)})
		}
	}
	return v
}

func (v *rawVal) clone() *rawVal {
	c := &rawVal{emptyPol: append([]int{}, v.emptyPol...)}
	for _, e := range v.entries {
		c.entries = append(c.entries, entry{e.pol, e.name, new(big.Int).Set(e.qty)})
	}
	return c
}

func (v *rawVal) has(p, n int) bool {
	for _, e := range v.entries {
		if e.pol == p && e.name == n {
			return true
		}
	}
	return false
}

func (v *rawVal) hasPol(p int) bool {
	for _, e := range v.entries {
		if e.pol == p {
			return true
		}
	}
	for _, q := range v.emptyPol {
		if q == p {
			return true
		}
	}
	return false
}

// derive makes a value related to v.
func derive(v *rawVal, r *core.Rand) (*rawVal, string) {
	c := v.clone()
	switch r.Intn(6) {
	case 0, 1: // zero-variant: drop zero entries, add zero entries, add/remove empty policies
		var kept []entry
		for _, e := range c.entries {
			if e.qty.Sign() == 0 && r.Bool() {
				continue
			}
			kept = append(kept, e)
		}
		c.entries = kept
		for i := r.Intn(3); i > 0; i-- {
			p, n := r.Intn(len(policies)), r.Intn(len(names))
			if !c.has(p, n) {
				// if p was an "empty policy" it now has an entry
				c.dropEmpty(p)
				c.entries = append(c.entries, entry{p, n, big.NewInt(0)})
			}
		}
		if r.Bool() {
			c.emptyPol = nil
		}
		if r.Bool() {
			p := r.Intn(len(policies))
			if !c.hasPol(p) {
				c.emptyPol = append(c.emptyPol, p)
			}
		}
		// shuffle entry order
		p := r.Perm(len(c.entries))
		sh := make([]entry, len(c.entries))
		for i, j := range p {
			sh[i] = c.entries[j]
		}
		c.entries = sh
		return c, "zero-variant"
	case 2: // negation
		for i := range c.entries {
			c.entries[i].qty.Neg(c.entries[i].qty)
		}
		return c, "negation"
	case 3: // one quantity changed by +-1, +-2^32 or +-2^64
		if len(c.entries) > 0 {
			e := &c.entries[r.Intn(len(c.entries))]
			d := []*big.Int{big.NewInt(1), big.NewInt(1), pow2(32), pow2(64)}[r.Intn(4)]
			if r.Bool() {
				e.qty.Add(e.qty, d)
			} else {
				e.qty.Sub(e.qty, d)
			}
		}
		return c, "one-changed"
	case 4: // one key moved to another name / policy
		if len(c.entries) > 0 {
			e := &c.entries[r.Intn(len(c.entries))]
			p, n := e.pol, r.Intn(len(names))
			if r.Bool() {
				p = r.Intn(len(policies))
			}
			if !c.has(p, n) {
				c.dropEmpty(p)
				oldp := e.pol
				e.pol, e.name = p, n
				_ = oldp
			}
		}
		return c, "key-moved"
	}
	return c, "copy"
}

func (v *rawVal) dropEmpty(p int) {
	var k []int
	for _, q := range v.emptyPol {
		if q != p {
			k = append(k, q)
		}
	}
	v.emptyPol = k
}

// ------------------------------------------------------------------ builders

func buildMap(v *rawVal, order []int) *MA {
	data := map[common.Blake2b224]map[gcbor.ByteString]*big.Int{}
	for _, p := range v.emptyPol {
		data[policies[p]] = map[gcbor.ByteString]*big.Int{}
	}
	for _, i := range order {
		e := v.entries[i]
		if _, ok := data[policies[e.pol]]; !ok {
			data[policies[e.pol]] = map[gcbor.ByteString]*big.Int{}
		}
		data[policies[e.pol]][gcbor.NewByteString(names[e.name])] = new(big.Int).Set(e.qty)
	}
	ma := common.NewMultiAsset[*big.Int](data)
	return &ma
}

func single(e entry) *MA {
	ma := common.NewMultiAsset[*big.Int](map[common.Blake2b224]map[gcbor.ByteString]*big.Int{
		policies[e.pol]: {gcbor.NewByteString(names[e.name]): new(big.Int).Set(e.qty)},
	})
	return &ma
}

func buildByAdd(v *rawVal, order []int) *MA {
	ma := common.NewMultiAsset[*big.Int](nil)
	for _, i := range order {
		ma.Add(single(v.entries[i]))
	}
	return &ma
}

// foreignEncoding writes the value as a CBOR map of maps in the given entry
// order (policy groups in order of first appearance), definite lengths.
func foreignEncoding(v *rawVal, order []int, r *core.Rand) []byte {
	var polOrder []int
	byPol := map[int][]entry{}
	for _, i := range order {
		e := v.entries[i]
		if _, ok := byPol[e.pol]; !ok {
			polOrder = append(polOrder, e.pol)
		}
		byPol[e.pol] = append(byPol[e.pol], e)
	}
	for _, p := range v.emptyPol {
		pos := r.Intn(len(polOrder) + 1)
		polOrder = append(polOrder[:pos], append([]int{p}, polOrder[pos:]...)...)
	}
	var outer []*cborx.Node
	for _, p := range polOrder {
		var inner []*cborx.Node
		for _, e := range byPol[p] {
			inner = append(inner, cborx.B(names[e.name]), cborx.Big(e.qty))
		}
		outer = append(outer, cborx.B(policies[p][:]), cborx.M(inner...))
	}
	return cborx.M(outer...).Encode()
}

func clone(c *core.Ctx, m *MA) *MA {
	// deep copy through the public enumeration API
	data := map[common.Blake2b224]map[gcbor.ByteString]*big.Int{}
	for _, p := range m.Policies() {
		data[p] = map[gcbor.ByteString]*big.Int{}
		for _, n := range m.Assets(p) {
			q := m.Asset(p, n)
			if q != nil {
				q = new(big.Int).Set(q)
			}
			data[p][gcbor.NewByteString(append([]byte{}, n...))] = q
		}
	}
	ma := common.NewMultiAsset[*big.Int](data)
	return &ma
}

// observe reads a library value back into a model through Policies / Assets /
// Asset; zeros reports how many zero-quantity entries / empty policies were
// enumerated; unknown is set when a key outside the universe shows up.
func observe(m *MA) (mod model, zeros int, unknown string) {
	mod = model{}
	for _, p := range m.Policies() {
		pi := -1
		for i := range policies {
			if policies[i] == p {
				pi = i
			}
		}
		if pi < 0 {
			return mod, zeros, fmt.Sprintf("policy %x", p[:])
		}
		as := m.Assets(p)
		if len(as) == 0 {
			zeros++
		}
		for _, n := range as {
			ni := -1
			for i := range names {
				if bytes.Equal(names[i], n) {
					ni = i
				}
			}
			if ni < 0 {
				return mod, zeros, fmt.Sprintf("name %x", n)
			}
			q := m.Asset(p, n)
			if q == nil || q.Sign() == 0 {
				zeros++
				continue
			}
			if _, dup := mod[key{pi, ni}]; dup {
				return mod, zeros, fmt.Sprintf("key p%d.n%d enumerated twice", pi, ni)
			}
			mod[key{pi, ni}] = new(big.Int).Set(q)
		}
	}
	return mod, zeros, ""
}

// observeByAsset reads the whole universe through Asset() only.
func observeByAsset(m *MA) model {
	mod := model{}
	for pi := range policies {
		for ni := range names {
			q := m.Asset(policies[pi], names[ni])
			if q != nil && q.Sign() != 0 {
				mod[key{pi, ni}] = new(big.Int).Set(q)
			}
		}
	}
	return mod
}

// ------------------------------------------------------------------ encoding

func cmpKey(a, b []byte) int {
	if len(a) != len(b) {
		if len(a) < len(b) {
			return -1
		}
		return 1
	}
	return bytes.Compare(a, b)
}

// inspectEncoding checks the canonical shape of an encoded value and returns
// its content as a model (zeros dropped).
func inspectEncoding(b []byte) (model, string) {
	n, err := cborx.ParseExact(b)
	if err != nil {
		return nil, "not one CBOR item: " + err.Error()
	}
	if n.Kind != cborx.Map {
		return nil, "not a map"
	}
	mod := model{}
	bad := ""
	n.Walk(func(x *cborx.Node) {
		if bad != "" {
			return
		}
		if x.Form == cborx.FormIndef {
			bad = "indefinite-length item"
		} else if x.Kind != cborx.Tag && x.Kind != cborx.Simple && !x.IsMinimal() {
			bad = fmt.Sprintf("non-minimal header at offset %d", x.Start)
		}
	})
	if bad != "" {
		return nil, bad
	}
	var prevP []byte
	for i := 0; i+1 < len(n.Items); i += 2 {
		pk, pv := n.Items[i], n.Items[i+1]
		if pk.Kind != cborx.Bytes || pv.Kind != cborx.Map {
			return nil, "policy entry is not bytes => map"
		}
		if i > 0 && cmpKey(prevP, pk.Data) >= 0 {
			return nil, fmt.Sprintf("policy keys not strictly ascending: %x then %x", prevP, pk.Data)
		}
		prevP = pk.Data
		pi := -1
		for j := range policies {
			if bytes.Equal(policies[j][:], pk.Data) {
				pi = j
			}
		}
		if pi < 0 {
			return nil, fmt.Sprintf("unknown policy %x", pk.Data)
		}
		var prevN []byte
		for j := 0; j+1 < len(pv.Items); j += 2 {
			nk, nv := pv.Items[j], pv.Items[j+1]
			if nk.Kind != cborx.Bytes {
				return nil, "asset key is not bytes"
			}
			if j > 0 && cmpKey(prevN, nk.Data) >= 0 {
				return nil, fmt.Sprintf("asset keys not strictly ascending: %x then %x", prevN, nk.Data)
			}
			prevN = nk.Data
			ni := -1
			for k := range names {
				if bytes.Equal(names[k], nk.Data) {
					ni = k
				}
			}
			if ni < 0 {
				return nil, fmt.Sprintf("unknown asset name %x", nk.Data)
			}
			q, ok := nv.Int()
			if !ok {
				return nil, "quantity is not an integer"
			}
			if q.Sign() != 0 {
				mod[key{pi, ni}] = q
			}
		}
	}
	return mod, ""
}

func encode(m *MA) ([]byte, error) { return gcbor.Encode(m) }

func decode(b []byte) (*MA, error) {
	var m MA
	if _, err := gcbor.Decode(b, &m); err != nil {
		return nil, err
	}
	return &m, nil
}

// ------------------------------------------------------------------ run

func qclass(vs ...*rawVal) string {
	cls := "small"
	lim63 := pow2(63)
	lim64 := pow2(64)
	for _, v := range vs {
		for _, e := range v.entries {
			a := new(big.Int).Abs(e.qty)
			if a.Cmp(lim64) >= 0 {
				return "bignum"
			}
			if a.Cmp(lim63) >= 0 {
				cls = "word"
			}
		}
	}
	return cls
}

func identityPerm(n int) []int {
	p := make([]int, n)
	for i := range p {
		p[i] = i
	}
	return p
}

func run(c *core.Ctx) {
	n := c.N(12000, 800000)
	c.Parallel("triple", n, 0, func(i int, r *core.Rand) {
		regime := []int{0, 0, 1, 2, 2}[r.Intn(5)]
		A := randVal(r, regime)
		var B, C *rawVal
		relAB, relBC := "random", "random"
		if r.Bool() {
			B, relAB = derive(A, r)
		} else {
			B = randVal(r, regime)
		}
		if r.Bool() {
			C, relBC = derive(B, r)
		} else {
			C = randVal(r, regime)
		}
		c.Journal("C06 case %d A=%s B=%s C=%s", i, A, B, C)
		c.Eval()
		c.Count("relAB:"+relAB, 1)
		c.Count("relBC:"+relBC, 1)
		cls := qclass(A, B, C)
		c.Count("qclass:"+cls, 1)
		wit := map[string]any{"A": A.String(), "B": B.String(), "C": C.String(), "policies": "p<i> = universe policy i", "names": "n<i> = universe name i"}
		p, val, stack := core.Safely(func() { checkTriple(c, r, A, B, C, cls, wit) })
		if p {
			c.Violation("C06:panic:"+cls, fmt.Sprintf("panic: %v", val), map[string]any{"A": A.String(), "B": B.String(), "C": C.String(), "stack": stack})
		}
		mA, mB, mC := A.model(), B.model(), C.model()
		if len(mA) > 0 && len(mB) > 0 && len(mC) > 0 && (overlap(mA, mB) || overlap(mB, mC) || overlap(mA, mC)) {
			c.Distinct(A.String(), B.String(), C.String())
		}
		if i%3001 == 0 {
			c.Sample(map[string]any{"A": A.String(), "B": B.String(), "C": C.String(), "A+B": modelAdd(mA, mB).String()})
		}
	})
	if c.Counter("compare_true") == 0 || c.Counter("compare_false") == 0 || c.Counter("transitive_premise_held") == 0 {
		c.Inconclusive("Compare was never observed with both outcomes / transitivity premise never held")
	}
}

func overlap(a, b model) bool {
	for k := range a {
		if _, ok := b[k]; ok {
			return true
		}
	}
	return false
}

func checkTriple(c *core.Ctx, r *core.Rand, A, B, C *rawVal, cls string, wit map[string]any) {
	vals := []*rawVal{A, B, C}
	mods := []model{A.model(), B.model(), C.model()}
	libs := make([]*MA, 3)
	viol := func(key, what string) {
		c.Violation(key+":"+cls, what, wit)
	}

	// --- construction: three builds of every operand agree with the model
	for k, v := range vals {
		order := r.Perm(len(v.entries))
		m1 := buildMap(v, order)
		libs[k] = m1
		if got, _, unk := observe(m1); unk != "" || !modelEq(got, mods[k]) {
			viol("C06:Asset:readback", fmt.Sprintf("value built from %s reads back as %s %s", v, got, unk))
			return
		}
		m2 := buildByAdd(v, r.Perm(len(v.entries)))
		if got := observeByAsset(m2); !modelEq(got, mods[k]) {
			viol("C06:Add:model", fmt.Sprintf("adding the single entries of %s one by one onto the empty value gives %s", v, got))
		}
		if !m1.Compare(m2) || !m2.Compare(m1) {
			viol("C06:Compare:model:equal-reported-unequal", fmt.Sprintf("%s built as a map and built by Add compare unequal", v))
		}
		// encoding: every construction order gives the same bytes
		e1, err := encode(m1)
		if err != nil {
			viol("C06:Encode:error", fmt.Sprintf("Encode(%s): %v", v, err))
			continue
		}
		for rep := 0; rep < 3; rep++ {
			var other *MA
			if rep == 2 {
				other = m1 // same object again: map iteration order differs between calls
			} else {
				other = buildMap(v, r.Perm(len(v.entries)))
			}
			e2, err := encode(other)
			if err != nil || !bytes.Equal(e1, e2) {
				viol("C06:Encode:order-dependent", fmt.Sprintf("Encode(%s) = %x for one insertion order and %x for another (err=%v)", v, e1, e2, err))
				break
			}
		}
		c.Count("encodings", 1)
		content, bad := inspectEncoding(e1)
		if bad != "" {
			viol("C06:Encode:not-canonical", fmt.Sprintf("Encode(%s) = %x: %s", v, e1, bad))
		} else if !modelEq(content, mods[k]) {
			viol("C06:Encode:content", fmt.Sprintf("Encode(%s) = %x carries %s", v, e1, content))
		}
		// decode(encode(v)) == v with no zero entries
		d, err := decode(e1)
		if err != nil {
			viol("C06:Decode:error", fmt.Sprintf("Decode(Encode(%s)) = %x failed: %v", v, e1, err))
		} else {
			c.Count("decodes", 1)
			got, zeros, unk := observe(d)
			if unk != "" || !modelEq(got, mods[k]) {
				viol("C06:Decode:roundtrip-unequal", fmt.Sprintf("Decode(Encode(%s)) reads back as %s %s", v, got, unk))
			}
			if zeros > 0 {
				viol("C06:Decode:zero-entry-kept", fmt.Sprintf("Decode(Encode(%s)) enumerates %d zero quantities / empty policies", v, zeros))
			}
			if !d.Compare(m1) || !m1.Compare(d) {
				viol("C06:Decode:roundtrip-compare", fmt.Sprintf("Decode(Encode(%s)) does not Compare equal to the original", v))
			}
			if err := d.CheckForDuplicateKeys(); err != nil {
				viol("C06:Decode:spurious-duplicate", fmt.Sprintf("Decode(Encode(%s)) reports duplicate keys", v))
			}
			if e3, err := encode(d); err != nil {
				viol("C06:Encode:error", fmt.Sprintf("re-encoding Decode(Encode(%s)): %v", v, err))
			} else if c2, bad := inspectEncoding(e3); bad != "" {
				viol("C06:Encode:not-canonical", fmt.Sprintf("re-encoding Decode(Encode(%s)) = %x: %s", v, e3, bad))
			} else if !modelEq(c2, mods[k]) {
				viol("C06:Encode:content", fmt.Sprintf("re-encoding Decode(Encode(%s)) = %x carries %s", v, e3, c2))
			}
		}
		// a foreign (non-canonical key order) encoding of the same value
		fe := foreignEncoding(v, r.Perm(len(v.entries)), r)
		if d, err := decode(fe); err != nil {
			viol("C06:Decode:foreign-order", fmt.Sprintf("decoding %x (the entries of %s in another key order) failed: %v", fe, v, err))
		} else {
			c.Count("decodes_foreign", 1)
			got, zeros, unk := observe(d)
			if unk != "" || !modelEq(got, mods[k]) {
				viol("C06:Decode:foreign-order", fmt.Sprintf("decoding %x (the entries of %s in another key order) reads back as %s %s", fe, v, got, unk))
			}
			if zeros > 0 {
				viol("C06:Decode:zero-entry-kept", fmt.Sprintf("decoding %x enumerates %d zero quantities / empty policies", fe, zeros))
			}
			if !d.Compare(m1) || !m1.Compare(d) {
				viol("C06:Compare:model:equal-reported-unequal", fmt.Sprintf("decoded %x and the map-built %s compare unequal", fe, v))
			}
		}
	}

	// --- Compare: reflexive, agrees with the model, symmetric, transitive
	cmp := [3][3]bool{}
	for i := 0; i < 3; i++ {
		for j := 0; j < 3; j++ {
			cmp[i][j] = libs[i].Compare(libs[j])
			if cmp[i][j] {
				c.Count("compare_true", 1)
			} else {
				c.Count("compare_false", 1)
			}
		}
		if !cmp[i][i] {
			viol("C06:Compare:reflexive", fmt.Sprintf("%s does not compare equal to itself", vals[i]))
		}
	}
	name := "ABC"
	for i := 0; i < 3; i++ {
		for j := 0; j < 3; j++ {
			if i == j {
				continue
			}
			want := modelEq(mods[i], mods[j])
			if cmp[i][j] != want {
				k := "C06:Compare:model:equal-reported-unequal"
				if !want {
					k = "C06:Compare:model:unequal-reported-equal"
				}
				viol(k, fmt.Sprintf("%c.Compare(%c) = %v for %s and %s; non-zero quantities are %s and %s", name[i], name[j], cmp[i][j], vals[i], vals[j], mods[i], mods[j]))
			}
			if i < j && cmp[i][j] != cmp[j][i] {
				viol("C06:Compare:symmetric", fmt.Sprintf("%c.Compare(%c) = %v but %c.Compare(%c) = %v for %s and %s", name[i], name[j], cmp[i][j], name[j], name[i], cmp[j][i], vals[i], vals[j]))
			}
		}
	}
	for _, p := range [][3]int{{0, 1, 2}, {0, 2, 1}, {1, 0, 2}} {
		if cmp[p[0]][p[1]] && cmp[p[1]][p[2]] {
			c.Count("transitive_premise_held", 1)
			if !cmp[p[0]][p[2]] {
				viol("C06:Compare:transitive", fmt.Sprintf("%s == %s and %s == %s but the first and last compare unequal", vals[p[0]], vals[p[1]], vals[p[1]], vals[p[2]]))
			}
		}
	}

	// --- Add
	sum := func(x, y *MA) *MA {
		s := clone(c, x)
		s.Add(y)
		return s
	}
	a, b, cc := libs[0], libs[1], libs[2]
	ab := sum(a, b)
	c.Count("adds", 1)
	if got, _, unk := observe(b); unk != "" || !modelEq(got, mods[1]) {
		viol("C06:Add:mutates-argument", fmt.Sprintf("after A.Add(B), B = %s reads back as %s", B, got))
	}
	ba := sum(b, a)
	mAB := modelAdd(mods[0], mods[1])
	if got := observeByAsset(ab); !modelEq(got, mAB) {
		viol("C06:Add:model", fmt.Sprintf("%s + %s = %s, per-asset integer addition gives %s", A, B, got, mAB))
	}
	if got, _, unk := observe(ab); unk != "" || !modelEq(got, mAB) {
		viol("C06:Add:model", fmt.Sprintf("%s + %s enumerates as %s %s, per-asset integer addition gives %s", A, B, got, unk, mAB))
	}
	if got := observeByAsset(ba); !modelEq(got, mAB) {
		viol("C06:Add:model", fmt.Sprintf("%s + %s = %s, per-asset integer addition gives %s", B, A, got, mAB))
	}
	if !ab.Compare(ba) || !ba.Compare(ab) {
		viol("C06:Add:commutative", fmt.Sprintf("A+B and B+A compare unequal for A=%s B=%s", A, B))
	}
	// associativity
	abc1 := sum(ab, cc)
	bc := sum(b, cc)
	abc2 := sum(a, bc)
	mABC := modelAdd(mAB, mods[2])
	if !abc1.Compare(abc2) || !abc2.Compare(abc1) {
		viol("C06:Add:associative", fmt.Sprintf("(A+B)+C and A+(B+C) compare unequal for A=%s B=%s C=%s", A, B, C))
	}
	if g1, g2 := observeByAsset(abc1), observeByAsset(abc2); !modelEq(g1, mABC) || !modelEq(g2, mABC) {
		viol("C06:Add:model", fmt.Sprintf("(A+B)+C = %s, A+(B+C) = %s, per-asset integer addition gives %s", g1, g2, mABC))
	}
	// A + (-A) is the empty value
	negA := A.clone()
	for i := range negA.entries {
		negA.entries[i].qty.Neg(negA.entries[i].qty)
	}
	z := sum(a, buildMap(negA, identityPerm(len(negA.entries))))
	empty := common.NewMultiAsset[*big.Int](nil)
	if !z.Compare(&empty) || !empty.Compare(z) {
		viol("C06:Add:inverse", fmt.Sprintf("A + (-A) does not compare equal to the empty value for A=%s", A))
	}
	if ze, err := encode(z); err == nil {
		if d, err := decode(ze); err == nil {
			if got, zeros, _ := observe(d); len(got) != 0 || zeros != 0 {
				viol("C06:Decode:zero-entry-kept", fmt.Sprintf("Decode(Encode(A + (-A))) still enumerates entries (%s, %d zeros) for A=%s", got, zeros, A))
			}
		}
	}
	// the sum must own its quantities: changing them in place must not reach an operand
	for pi := range policies {
		for ni := range names {
			if q := ab.Asset(policies[pi], names[ni]); q != nil {
				q.Add(q, big.NewInt(7))
			}
		}
	}
	if got := observeByAsset(b); !modelEq(got, mods[1]) {
		viol("C06:Add:aliases-operand", fmt.Sprintf("modifying the quantities of A+B in place changed B: B=%s now reads %s (A=%s)", B, got, A))
	}
	// a (the receiver's original) was cloned before Add, so it must be intact too
	if got := observeByAsset(a); !modelEq(got, mods[0]) {
		viol("C06:Add:aliases-operand", fmt.Sprintf("modifying the quantities of A+B in place changed A: A=%s now reads %s", A, got))
	}
}
