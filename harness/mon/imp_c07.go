//go:build only_c07

package mon

import _ "verifharness/mon/c07"
