//go:build only_c04

package mon

import _ "verifharness/mon/c04"
