// Package c09 monitors C09: the muxer delivers each byte stream intact to the
// right endpoint.
//
// Real muxer A <-> netsim (scripted fragmentation, wire tap) <-> real muxer B.
// Every segment payload starts with a unique id (stream index, counter); the
// offline checker compares, per (protocol, direction) stream, the sent id
// sequence with what the registered receiver got and with what an independent
// parser finds on the wire. A second part drives a real muxer with a raw peer
// that sends hostile segments.
package c09

import (
	"bytes"
	"encoding/binary"
	"fmt"
	"hash/fnv"
	"os"
	"runtime"
	"strings"
	"sync"
	"sync/atomic"
	"time"

	"github.com/blinklabs-io/gouroboros/muxer"

	"verifharness/core"
	"verifharness/netsim"
	"verifharness/protorig"
)

func init() {
	core.Register(&core.Monitor{
		ID:   "C09",
		Race: true,
		Rule: "a run = two real muxers over a scripted in-memory connection with S concurrent sender streams (protocol x role x side), payload sizes from {1..8,65534,65535} and random, read fragmentation scripts (PRNG chunks, enumerated split points) and yield/sleep perturbation before the send lock; plus hostile-segment scenarios against a raw peer, and registration-table changes on a live full-duplex muxer (one protocol/direction unregistered, re-registered, every other registration must keep receiving; a segment for the removed one must close the connection). A run is non-trivial when >= 2 streams interleaved on one wire direction or a fault scenario reached its verdict; distinct = wire interleaving signature (hash of the stream-id order on the wire) or fault scenario name",
		MinNontrivial: 20,
		RaceAnchors:   []string{"muxer.(*Muxer)", "muxer.NewSegment", "muxer.(*Segment)"},
		Assumptions: []string{
			"in-memory net.Conn (netsim) stands in for TCP: writes are atomic per call, reads fragment per script",
			"one sending goroutine per registered (protocol, role) stream defines per-protocol send order",
		},
		QuickTimeout: 1800,
		Run:          run,
	})
}

type stream struct {
	idx      int
	side     int // 0 = A sends, 1 = B sends
	proto    uint16
	response bool // sent by the responder role
	sendCh   chan *muxer.Segment
	doneCh   chan bool
	sent     [][]byte // payloads in send order
	recvMu   sync.Mutex
	recv     [][]byte
	recvBad  []string
}

type endpoint struct {
	m    *muxer.Muxer
	conn *netsim.Conn
	errs []error
	errM sync.Mutex
	done chan struct{}
}

func (e *endpoint) drainErrors() {
	e.done = make(chan struct{})
	go func() {
		defer close(e.done)
		for err := range e.m.ErrorChan() {
			e.errM.Lock()
			e.errs = append(e.errs, err)
			e.errM.Unlock()
		}
	}()
}

func (e *endpoint) errors() []error {
	e.errM.Lock()
	defer e.errM.Unlock()
	return append([]error(nil), e.errs...)
}

var sizesSpecial = []int{8, 9, 10, 11, 12, 13, 14, 15, 16, 65534, 65535}

func pickSize(r *core.Rand) int {
	switch r.Intn(10) {
	case 0:
		return core.Pick(r, sizesSpecial)
	case 1:
		if r.Chance(1, 3) {
			return r.Range(60000, 65535)
		}
		return r.Range(8, 300)
	case 2, 3:
		return r.Range(8, 64)
	default:
		return r.Range(8, 3000)
	}
}

func chunkScript(r *core.Rand, mode int) netsim.ChunkFunc {
	var mu sync.Mutex
	switch mode {
	case 0:
		return nil // whole reads
	case 1:
		// tiny chunks for the first 6 KiB of the stream (header and payload
		// boundaries of the first segments), then large ones: one 64 KiB
		// payload read 1..7 bytes at a time costs ~16k reads under -race
		n := 0
		return func() int {
			mu.Lock()
			defer mu.Unlock()
			if n < 6144 {
				k := r.Range(1, 7)
				n += k
				return k
			}
			return r.Range(1, 65536)
		}
	case 2:
		return func() int { mu.Lock(); defer mu.Unlock(); return r.Range(1, 65536) }
	default:
		return func() int {
			mu.Lock()
			defer mu.Unlock()
			if r.Chance(1, 3) {
				return r.Range(1, 9)
			}
			return r.Range(1, 20000)
		}
	}
}

// splitScript delivers bytes so that read boundaries fall exactly at the given
// absolute stream offsets (enumerated split points), whole reads otherwise.
func splitScript(points []int) netsim.ChunkFunc {
	var mu sync.Mutex
	pos := 0
	return func() int {
		mu.Lock()
		defer mu.Unlock()
		for _, p := range points {
			if p > pos {
				n := p - pos
				pos = p
				return n
			}
		}
		return 1 << 30
	}
}

func run(c *core.Ctx) {
	nRuns := c.N(60, 4000)
	sigs := map[uint64]struct{}{}
	t0 := time.Now()
	for i := 0; i < nRuns; i++ {
		r := c.Rand("run", i)
		oneRun(c, i, r, sigs, nil)
		if c.Counter("broken_runs") >= 3 {
			break // already refuted; every further broken run costs a quiescence window
		}
	}
	c.Note("wall_random_runs_s", time.Since(t0).Seconds())
	t0 = time.Now()
	defer func() { c.Note("wall_enum_and_faults_s", time.Since(t0).Seconds()) }()
	// enumerated split points over a short 3-segment stream: every byte
	// boundary, single and (sampled) double splits
	enumSplits(c, sigs)
	c.Note("distinct_wire_interleavings", len(sigs))
	faults(c)
	unregisterScenarios(c)
	segmentLimits(c)
}

func enumSplits(c *core.Ctx, sigs map[uint64]struct{}) {
	// one stream, three segments of sizes 3, 1, 5 => stream length 3*8+9 = 33
	total := 33
	var lists [][]int
	for p := 1; p < total; p++ {
		lists = append(lists, []int{p})
	}
	r := c.Rand("double-splits")
	nd := c.N(30, 33*32/2)
	if c.Thorough() {
		for p := 1; p < total; p++ {
			for q := p + 1; q < total; q++ {
				lists = append(lists, []int{p, q})
			}
		}
	} else {
		for k := 0; k < nd; k++ {
			p := r.Range(1, total-2)
			q := r.Range(p+1, total-1)
			lists = append(lists, []int{p, q})
		}
	}
	for i, pts := range lists {
		if c.Counter("broken_runs") >= 6 {
			break
		}
		oneRun(c, 100000+i, c.Rand("split", i), sigs, pts)
		c.Count("enumerated_split_runs", 1)
	}
}

func oneRun(c *core.Ctx, idx int, r *core.Rand, sigs map[uint64]struct{}, splitPts []int) {
	c.Journal("C09 run %d", idx)
	if os.Getenv("VERIF_DEBUG") != "" {
		t := time.Now()
		defer func() {
			fmt.Fprintf(os.Stderr, "run %d took %v gmp=%d\n", idx, time.Since(t), runtime.GOMAXPROCS(0))
		}()
	}
	gmp := []int{1, 2, 4, 16}[r.Intn(4)]
	old := runtime.GOMAXPROCS(gmp)
	defer runtime.GOMAXPROCS(old)

	ca, cb := netsim.Pipe()
	ca.EnableTap()
	cb.EnableTap()
	nProto := []int{1, 3, 8}[r.Intn(3)]
	perStream := r.Range(5, 40)
	if splitPts != nil {
		nProto = 1
		ca.SetReadChunks(nil)
		cb.SetReadChunks(splitScript(splitPts))
	} else {
		ca.SetReadChunks(chunkScript(r.Fork(1), r.Intn(4)))
		cb.SetReadChunks(chunkScript(r.Fork(2), r.Intn(4)))
	}
	// perturbation before the send lock
	pr := r.Fork(3)
	var prMu sync.Mutex
	pertMode := r.Intn(3)
	muxer.VerifSetPoint(func(name string, _ *muxer.Muxer) {
		if name != "Send.beforeLock" || pertMode == 0 {
			return
		}
		prMu.Lock()
		k := pr.Intn(8)
		prMu.Unlock()
		switch {
		case k < 3:
			runtime.Gosched()
		case k == 3 && pertMode == 2:
			time.Sleep(time.Duration(50) * time.Microsecond)
		}
	})
	defer muxer.VerifSetPoint(nil)

	A := &endpoint{m: muxer.New(ca), conn: ca}
	B := &endpoint{m: muxer.New(cb), conn: cb}
	A.drainErrors()
	B.drainErrors()
	eps := [2]*endpoint{A, B}
	if r.Bool() {
		A.m.SetDiffusionMode(muxer.DiffusionModeInitiatorAndResponder)
		B.m.SetDiffusionMode(muxer.DiffusionModeInitiatorAndResponder)
	}

	// protocol ids: small, distinct, include ids whose low bits resemble others
	ids := []uint16{2, 3, 5, 7, 8, 10, 0x7ffe, 0x0100}
	var streams []*stream
	type regKey struct {
		side  int
		proto uint16
		role  muxer.ProtocolRole
	}
	recvChans := map[regKey]chan *muxer.Segment{}
	sendChans := map[regKey]chan *muxer.Segment{}
	doneChans := map[regKey]chan bool{}
	duplex := r.Bool()
	if splitPts != nil {
		duplex = false
	}
	for p := 0; p < nProto; p++ {
		id := ids[p]
		for side := 0; side < 2; side++ {
			roles := []muxer.ProtocolRole{muxer.ProtocolRoleInitiator}
			if side == 1 {
				roles = []muxer.ProtocolRole{muxer.ProtocolRoleResponder}
			}
			if duplex {
				roles = []muxer.ProtocolRole{muxer.ProtocolRoleInitiator, muxer.ProtocolRoleResponder}
			}
			for _, role := range roles {
				s, rc, dc := eps[side].m.RegisterProtocol(id, role)
				if s == nil {
					c.Inconclusive("RegisterProtocol returned nil on a fresh muxer")
					return
				}
				sendChans[regKey{side, id, role}] = s
				doneChans[regKey{side, id, role}] = dc
				recvChans[regKey{side, id, role}] = rc
			}
		}
	}
	// one stream per registered sender
	for k, ch := range sendChans {
		st := &stream{side: k.side, proto: k.proto, response: k.role == muxer.ProtocolRoleResponder, sendCh: ch, doneCh: doneChans[k]}
		streams = append(streams, st)
	}
	// deterministic order of streams
	for i := 0; i < len(streams); i++ {
		for j := i + 1; j < len(streams); j++ {
			a, b := streams[i], streams[j]
			ka := fmt.Sprintf("%d-%05d-%v", a.side, a.proto, a.response)
			kb := fmt.Sprintf("%d-%05d-%v", b.side, b.proto, b.response)
			if kb < ka {
				streams[i], streams[j] = streams[j], streams[i]
			}
		}
	}
	if splitPts != nil {
		// only A->B initiator stream sends
		var keep []*stream
		for _, s := range streams {
			if s.side == 0 {
				keep = append(keep, s)
			}
		}
		streams = keep
	}
	for i, s := range streams {
		s.idx = i
		n := perStream
		sr := r.Fork(uint64(100 + i))
		if splitPts != nil {
			for _, sz := range []int{3, 1, 5} {
				p := make([]byte, sz)
				for j := range p {
					p[j] = byte(0xa0 + j + sz)
				}
				s.sent = append(s.sent, p)
			}
			continue
		}
		for k := 0; k < n; k++ {
			sz := pickSize(sr)
			p := sr.Bytes(sz)
			binary.BigEndian.PutUint16(p[0:], uint16(i))
			binary.BigEndian.PutUint32(p[2:], uint32(k))
			p[6], p[7] = 0xC0, 0x09
			s.sent = append(s.sent, p)
		}
	}
	// receivers: a segment sent by side X with role R arrives at side 1-X on
	// the receiver registered for the opposite role.
	var received atomic.Int64
	byRecv := map[regKey]*stream{}
	for _, s := range streams {
		role := muxer.ProtocolRoleResponder // request -> responder
		if s.response {
			role = muxer.ProtocolRoleInitiator
		}
		byRecv[regKey{1 - s.side, s.proto, role}] = s
	}
	var unexpected sync.Map // segments on receivers that no stream targets
	var rwg sync.WaitGroup
	for k, rc := range recvChans {
		rwg.Add(1)
		go func(k regKey, rc chan *muxer.Segment) {
			defer rwg.Done()
			st := byRecv[k]
			for seg := range rc {
				if st == nil {
					unexpected.Store(fmt.Sprintf("side%d proto%d role%d", k.side, k.proto, k.role), core.Hex(seg.Payload))
					received.Add(1)
					continue
				}
				st.recvMu.Lock()
				st.recv = append(st.recv, seg.Payload)
				if seg.GetProtocolId() != st.proto || seg.IsResponse() != st.response {
					st.recvBad = append(st.recvBad, fmt.Sprintf("segment header proto=%d response=%v on receiver of stream proto=%d response=%v", seg.GetProtocolId(), seg.IsResponse(), st.proto, st.response))
				}
				st.recvMu.Unlock()
				received.Add(1)
			}
		}(k, rc)
	}
	if os.Getenv("VERIF_DEBUG") != "" {
		fmt.Fprintf(os.Stderr, "  nProto=%d perStream=%d duplex=%v pert=%d streams=%d\n", nProto, perStream, duplex, pertMode, len(streams))
	}
	A.m.Start()
	B.m.Start()
	var swg sync.WaitGroup
	var expected int64
	for _, s := range streams {
		expected += int64(len(s.sent))
	}
	for _, s := range streams {
		swg.Add(1)
		go func(s *stream) {
			defer swg.Done()
			for _, p := range s.sent {
				seg := muxer.NewSegment(s.proto, p, s.response)
				if seg == nil {
					c.Violation("C09:NewSegment:nil-for-legal-size", fmt.Sprintf("NewSegment returned nil for %d payload bytes", len(p)), nil)
					return
				}
				select {
				case s.sendCh <- seg:
				case <-s.doneCh:
					return // muxer shut down under us: reported below via its error channel / missing deliveries
				}
			}
		}(s)
	}
	swg.Wait()
	if os.Getenv("VERIF_DEBUG") != "" {
		fmt.Fprintf(os.Stderr, "  senders done\n")
	}
	ok, frozen := protorig.WaitUntil(func() bool {
		return received.Load() >= expected || len(A.errors())+len(B.errors()) > 0
	},
		func() int64 {
			return received.Load()*1000003 + int64(ca.ReadCount()+cb.ReadCount()+ca.Written()+cb.Written())
		}, 30*time.Second, 300*time.Second)
	if os.Getenv("VERIF_DEBUG") != "" {
		fmt.Fprintf(os.Stderr, "  received ok=%v\n", ok)
	}
	errsA, errsB := A.errors(), B.errors()
	// shut down
	A.m.Stop()
	B.m.Stop()
	<-A.done
	<-B.done
	rwg.Wait()
	c.Eval()
	if os.Getenv("VERIF_DEBUG") != "" {
		fmt.Fprintf(os.Stderr, "  stopped\n")
	}

	wit := func() map[string]any {
		return map[string]any{"run": idx, "seed": c.Seed, "streams": len(streams), "per_stream": perStream, "gomaxprocs": gmp, "split_points": splitPts}
	}
	if len(errsA)+len(errsB) > 0 {
		c.Violation("C09:transfer:unexpected-error", fmt.Sprintf("muxer reported an error during a legal transfer: A=%v B=%v", errsA, errsB), wit())
		c.Count("broken_runs", 1)
		return
	}
	if !ok {
		if frozen {
			c.Violation("C09:transfer:stalled", fmt.Sprintf("receivers got %d of %d segments and made no progress for 30 s after all senders finished while every library goroutine is parked", received.Load(), expected), wit())
			c.Count("broken_runs", 1)
		} else {
			c.Inconclusive(fmt.Sprintf("run %d: transfer did not finish within the watchdog", idx))
		}
		return
	}
	unexpected.Range(func(k, v any) bool {
		c.Violation("C09:routing:segment-on-foreign-receiver", fmt.Sprintf("a segment arrived on receiver %v that no sender targets: %v", k, v), wit())
		return true
	})
	for _, s := range streams {
		if len(s.recvBad) > 0 {
			c.Violation("C09:routing:wrong-receiver", s.recvBad[0], wit())
		}
		if len(s.recv) != len(s.sent) {
			c.Violation("C09:delivery:count", fmt.Sprintf("stream proto=%d response=%v: sent %d segments, receiver got %d", s.proto, s.response, len(s.sent), len(s.recv)), wit())
			continue
		}
		for k := range s.sent {
			if !bytes.Equal(s.sent[k], s.recv[k]) {
				c.Violation("C09:delivery:payload-or-order", fmt.Sprintf("stream proto=%d response=%v: segment %d differs (sent %s, got %s)", s.proto, s.response, k, core.Hex(s.sent[k]), core.Hex(s.recv[k])), wit())
				break
			}
		}
	}
	if os.Getenv("VERIF_DEBUG") != "" {
		fmt.Fprintf(os.Stderr, "  streams compared\n")
	}
	// wire: independent parse of both directions
	runSig := fnv.New64a()
	interleaved := false
	for side, cn := range []*netsim.Conn{ca, cb} {
		segs, err := netsim.ParseSegs(cn.TapBytes())
		if err != nil {
			c.Violation("C09:wire:unparseable", fmt.Sprintf("side %d wire stream does not parse into whole segments: %v", side, err), wit())
			continue
		}
		per := map[string][][]byte{}
		h := fnv.New64a()
		multi := map[string]bool{}
		for _, sg := range segs {
			k := fmt.Sprintf("%d/%v", sg.Proto, sg.Response)
			per[k] = append(per[k], sg.Payload)
			multi[k] = true
			fmt.Fprintf(h, "%s;", k)
			if len(sg.Payload) == 0 {
				c.Violation("C09:wire:zero-length-segment-sent", "the muxer wrote a zero-length segment", wit())
			}
		}
		c.Count("wire_segments", len(segs))
		for _, s := range streams {
			if s.side != side {
				continue
			}
			k := fmt.Sprintf("%d/%v", s.proto, s.response)
			got := per[k]
			if len(got) != len(s.sent) {
				c.Violation("C09:wire:count", fmt.Sprintf("stream %s: %d segments sent, %d on the wire", k, len(s.sent), len(got)), wit())
				continue
			}
			for i := range got {
				if !bytes.Equal(got[i], s.sent[i]) {
					c.Violation("C09:wire:payload-or-order", fmt.Sprintf("stream %s: wire segment %d differs from what was sent", k, i), wit())
					break
				}
			}
		}
		fmt.Fprintf(runSig, "%d:%x|", side, h.Sum64())
		if len(multi) >= 2 {
			interleaved = true
		}
	}
	if os.Getenv("VERIF_DEBUG") != "" {
		fmt.Fprintf(os.Stderr, "  wire analysed\n")
	}
	if interleaved {
		sig := runSig.Sum64()
		if _, seen := sigs[sig]; !seen {
			sigs[sig] = struct{}{}
			c.Distinct("wire", sig)
		}
		c.Count("runs_with_interleaved_streams", 1)
	} else if splitPts != nil {
		c.Distinct("split", fmt.Sprint(splitPts))
	}
	c.Count("segments_delivered", int(received.Load()))
	if idx%40 == 0 {
		c.Sample(map[string]any{"run": idx, "streams": len(streams), "segments_per_stream": perStream, "duplex": duplex, "gomaxprocs": gmp,
			"delivered": received.Load(), "first_payload": core.Hex(streams[0].sent[0])})
	}
}

// faults drives one real muxer with raw bytes from the peer side.
func faults(c *core.Ctx) {
	type scen struct {
		name     string
		register func(m *muxer.Muxer)
		mode     muxer.DiffusionMode
		wire     []byte
		wantErr  string // substring expected in some error; "" = must stay open
	}
	pl := []byte{0x82, 0x00, 0x01}
	scens := []scen{
		{"zero-length-segment", func(m *muxer.Muxer) { m.RegisterProtocol(2, muxer.ProtocolRoleResponder) }, 0,
			netsim.EncodeSeg(2, false, nil), "zero"},
		{"zero-length-after-valid", func(m *muxer.Muxer) { drain(m.RegisterProtocol(2, muxer.ProtocolRoleResponder)) }, 0,
			append(netsim.EncodeSeg(2, false, pl), netsim.EncodeSeg(2, false, nil)...), "zero"},
		{"unregistered-protocol", func(m *muxer.Muxer) { drain(m.RegisterProtocol(2, muxer.ProtocolRoleResponder)) }, 0,
			netsim.EncodeSeg(9, false, pl), "unknown protocol"},
		{"response-for-responder-only", func(m *muxer.Muxer) { drain(m.RegisterProtocol(2, muxer.ProtocolRoleResponder)) }, 0,
			netsim.EncodeSeg(2, true, pl), "unknown protocol"},
		{"request-for-initiator-only", func(m *muxer.Muxer) { drain(m.RegisterProtocol(2, muxer.ProtocolRoleInitiator)) }, 0,
			netsim.EncodeSeg(2, false, pl), "unknown protocol"},
		{"request-in-initiator-mode", func(m *muxer.Muxer) { drain(m.RegisterProtocol(2, muxer.ProtocolRoleInitiator)) }, muxer.DiffusionModeInitiator,
			netsim.EncodeSeg(2, false, pl), "initiator"},
		{"response-in-responder-mode", func(m *muxer.Muxer) { drain(m.RegisterProtocol(2, muxer.ProtocolRoleResponder)) }, muxer.DiffusionModeResponder,
			netsim.EncodeSeg(2, true, pl), "responder"},
		{"valid-request-control", func(m *muxer.Muxer) { drain(m.RegisterProtocol(2, muxer.ProtocolRoleResponder)) }, 0,
			netsim.EncodeSeg(2, false, pl), ""},
		{"valid-response-control", func(m *muxer.Muxer) { drain(m.RegisterProtocol(2, muxer.ProtocolRoleInitiator)) }, 0,
			netsim.EncodeSeg(2, true, pl), ""},
	}
	for i, s := range scens {
		for rep := 0; rep < c.N(2, 20); rep++ {
			r := c.Rand("fault", i, rep)
			c.Journal("C09 fault %s rep %d", s.name, rep)
			ca, cb := netsim.Pipe()
			ca.SetReadChunks(chunkScript(r, r.Intn(4)))
			m := muxer.New(ca)
			s.register(m)
			if s.mode != 0 {
				m.SetDiffusionMode(s.mode)
			}
			m.Start()
			var errs []error
			done := make(chan struct{})
			go func() {
				for e := range m.ErrorChan() {
					errs = append(errs, e)
				}
				close(done)
			}()
			cb.Write(s.wire)
			c.Eval()
			if s.wantErr == "" {
				// must stay open: send a second valid segment later and see the muxer alive
				time.Sleep(20 * time.Millisecond)
				select {
				case <-done:
					c.Violation("C09:fault:"+s.name+":closed", fmt.Sprintf("muxer closed on a valid segment: %v", errs), nil)
				default:
					c.Count("control_stayed_open", 1)
				}
				m.Stop()
				<-done
				c.Distinct("fault", s.name)
				continue
			}
			select {
			case <-done:
			case <-time.After(10 * time.Second):
				c.Violation("C09:fault:"+s.name+":not-closed", "muxer neither reported an error nor shut down within 10 s of a hostile segment ("+s.name+")", map[string]any{"wire": core.HexFull(s.wire)})
				m.Stop()
				<-done
				continue
			}
			found := false
			for _, e := range errs {
				if strings.Contains(strings.ToLower(e.Error()), s.wantErr) {
					found = true
				}
			}
			if len(errs) == 0 {
				c.Violation("C09:fault:"+s.name+":no-error", "muxer shut down without reporting an error for "+s.name, map[string]any{"wire": core.HexFull(s.wire)})
			} else if !found {
				// any error satisfies the statement; note the text for the evidence
				c.Count("fault_error_other_text", 1)
			}
			if !ca.Closed() {
				c.Violation("C09:fault:"+s.name+":conn-open", "connection left open after hostile segment "+s.name, nil)
			}
			c.Count("fault_closed_with_error", 1)
			c.Distinct("fault", s.name)
		}
	}
}

func drain(_ chan *muxer.Segment, rc chan *muxer.Segment, _ chan bool) {
	go func() {
		for range rc {
		}
	}()
}

func segmentLimits(c *core.Ctx) {
	for _, n := range []int{0, 1, 65534, 65535, 65536, 65537, 70000, 131071, 1 << 20} {
		seg := muxer.NewSegment(5, make([]byte, n), false)
		c.Eval()
		if n > 65535 && seg != nil {
			c.Violation("C09:NewSegment:oversize-accepted", fmt.Sprintf("NewSegment accepted %d payload bytes (PayloadLength=%d)", n, seg.PayloadLength), nil)
		}
		if n <= 65535 && (seg == nil || int(seg.PayloadLength) != n) {
			c.Violation("C09:NewSegment:legal-size-rejected", fmt.Sprintf("NewSegment mishandled %d payload bytes", n), nil)
		}
	}
	c.Count("segment_limit_cases", 9)
}
