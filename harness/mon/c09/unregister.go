package c09

import (
	"bytes"
	"fmt"
	"time"

	"github.com/blinklabs-io/gouroboros/muxer"

	"verifharness/core"
	"verifharness/netsim"
	"verifharness/protorig"
)

// unregisterScenarios: a real full-duplex muxer with two protocols registered
// in BOTH roles against a raw peer. One (protocol, role) registration is
// removed while the connection is in use; every OTHER registration must keep
// receiving its segments (payload intact, on its own channel, connection
// open), also after the removed role was registered again, and a segment for
// the removed registration must close the connection with an error. The
// statement's "delivered only to the receiver registered for that protocol
// number and direction" and "a segment for an unregistered protocol closes the
// connection" are both about the registration table as it is at that moment,
// not as it was when the muxer started.
func unregisterScenarios(c *core.Ctx) {
	type reg struct {
		proto uint16
		role  muxer.ProtocolRole
	}
	all := []reg{
		{2, muxer.ProtocolRoleInitiator}, {2, muxer.ProtocolRoleResponder},
		{3, muxer.ProtocolRoleInitiator}, {3, muxer.ProtocolRoleResponder},
	}
	roleName := func(r muxer.ProtocolRole) string {
		if r == muxer.ProtocolRoleInitiator {
			return "initiator"
		}
		return "responder"
	}
	for vi, victim := range all {
		for _, tail := range []string{"keep-using-others", "re-register", "segment-for-removed"} {
			for rep := 0; rep < c.N(1, 10); rep++ {
				name := fmt.Sprintf("unregister:%d/%s:%s", victim.proto, roleName(victim.role), tail)
				c.Journal("C09 %s rep %d", name, rep)
				r := c.Rand("unregister", vi, tail, rep)
				ca, cb := netsim.Pipe()
				ca.SetReadChunks(chunkScript(r, r.Intn(4)))
				m := muxer.New(ca)
				m.SetDiffusionMode(muxer.DiffusionModeInitiatorAndResponder)
				recv := map[reg]chan *muxer.Segment{}
				for _, g := range all {
					_, rc, _ := m.RegisterProtocol(g.proto, g.role)
					recv[g] = rc
				}
				m.Start()
				var errs []error
				done := make(chan struct{})
				go func() {
					for e := range m.ErrorChan() {
						errs = append(errs, e)
					}
					close(done)
				}()
				seq := 0
				// deliver sends one segment for g from the raw peer and expects it
				// on g's channel; returns false after reporting.
				deliver := func(g reg, phase string) bool {
					seq++
					pl := append([]byte{0xC0, 0x09, byte(g.proto), byte(g.role), byte(seq)}, r.Bytes(r.Range(1, 40))...)
					// a segment sent BY the peer's responder is addressed to our initiator
					cb.Write(netsim.EncodeSeg(g.proto, g.role == muxer.ProtocolRoleInitiator, pl))
					select {
					case seg, ok := <-recv[g]:
						if !ok || seg == nil {
							c.Violation("C09:unregister:receiver-closed", fmt.Sprintf("%s, %s: the receiver of protocol %d/%s (still registered) was closed after protocol %d/%s was unregistered", name, phase, g.proto, roleName(g.role), victim.proto, roleName(victim.role)), nil)
							return false
						}
						if !bytes.Equal(seg.Payload, pl) || seg.GetProtocolId() != g.proto {
							c.Violation("C09:unregister:payload", fmt.Sprintf("%s, %s: segment for %d/%s arrived altered", name, phase, g.proto, roleName(g.role)), map[string]any{"sent": core.HexFull(pl), "got": core.HexFull(seg.Payload)})
							return false
						}
						c.Count("unregister_segments_delivered", 1)
						return true
					case <-done:
						c.Violation("C09:unregister:registered-not-delivered", fmt.Sprintf("%s, %s: a segment for protocol %d/%s, which is registered, was not delivered; the muxer shut down with %v", name, phase, g.proto, roleName(g.role), errs),
							map[string]any{"scenario": name, "phase": phase, "segment": core.HexFull(netsim.EncodeSeg(g.proto, g.role == muxer.ProtocolRoleInitiator, pl))})
						return false
					case <-time.After(20 * time.Second):
						busy, parked := stallDump()
						if len(busy) > 0 {
							c.Inconclusive(name + ": segment not delivered within 20 s but goroutines still running")
						} else {
							c.Violation("C09:unregister:registered-not-delivered", fmt.Sprintf("%s, %s: a segment for protocol %d/%s, which is registered, was neither delivered nor answered with an error; everything is parked", name, phase, g.proto, roleName(g.role)), map[string]any{"parked": parked})
						}
						return false
					}
				}
				ok := true
				for _, g := range all {
					ok = ok && deliver(g, "before")
				}
				if ok {
					m.UnregisterProtocol(victim.proto, victim.role)
					for k := 0; k < 2 && ok; k++ {
						for _, g := range all {
							if g != victim {
								ok = ok && deliver(g, "after-unregister")
							}
						}
					}
				}
				if ok && tail == "re-register" {
					_, rc, _ := m.RegisterProtocol(victim.proto, victim.role)
					if rc == nil {
						c.Inconclusive(name + ": RegisterProtocol returned nil on a running muxer")
						ok = false
					} else {
						recv[victim] = rc
						for _, g := range all {
							ok = ok && deliver(g, "after-re-register")
						}
					}
				}
				c.Eval()
				if ok && tail == "segment-for-removed" {
					cb.Write(netsim.EncodeSeg(victim.proto, victim.role == muxer.ProtocolRoleInitiator, []byte{0x82, 0x00, 0x01}))
					select {
					case <-done:
						if len(errs) == 0 {
							c.Violation("C09:unregister:removed:no-error", name+": muxer shut down without an error after a segment for an unregistered protocol/direction", nil)
						} else {
							c.Count("unregister_removed_closed_with_error", 1)
						}
					case <-time.After(10 * time.Second):
						if busy, parked := stallDump(); len(busy) > 0 {
							c.Inconclusive(name + ": no verdict on the segment for the removed registration within 10 s, goroutines still running")
						} else {
							c.Violation("C09:unregister:removed:not-closed", name+": a segment for a protocol/direction that was unregistered neither produced an error nor closed the connection; everything is parked", map[string]any{"parked": parked})
						}
					}
				} else if ok {
					select {
					case <-done:
						c.Violation("C09:unregister:closed", fmt.Sprintf("%s: muxer closed although only segments for registered protocols were sent: %v", name, errs), nil)
					default:
						c.Count("unregister_stayed_open", 1)
					}
				}
				m.Stop()
				<-done
				if ok {
					c.Distinct("unregister", name)
				}
			}
		}
	}
}

func stallDump() (busy, parked []string) { return protorig.StallDump() }
