//go:build only_c28

package mon

import _ "verifharness/mon/c28"
