// vmon is the monitor binary: supervisor + child.
//
//	vmon <ID> <quick|thorough>          supervisor: runs the child, merges race
//	                                    reports, writes /verif/evidence/<ID>.json
//	vmon <ID> replay <path>             re-runs the case list of a replay file and
//	                                    reports whether its key fires again
//	vmon -child <ID> <tier>             child: runs the monitor itself
//	vmon -list                          registered monitors (ID race)
package main

import (
	"bufio"
	"io"
	"encoding/json"
	"fmt"
	"os"
	"os/exec"
	"path/filepath"
	"regexp"
	"runtime/pprof"
	"sort"
	"strconv"
	"strings"
	"syscall"
	"time"

	"verifharness/core"
	_ "verifharness/mon"
)

func envOr(k, d string) string {
	if v := os.Getenv(k); v != "" {
		return v
	}
	return d
}

func main() {
	if len(os.Args) >= 2 && os.Args[1] == "-list" {
		for _, id := range core.IDs() {
			fmt.Println(id, core.Lookup(id).Race)
		}
		return
	}
	if len(os.Args) >= 4 && os.Args[1] == "-child" {
		child(os.Args[2], os.Args[3])
		return
	}
	if len(os.Args) < 3 {
		fmt.Fprintln(os.Stderr, "usage: vmon <ID> <quick|thorough|replay> [path]")
		os.Exit(3)
	}
	os.Exit(supervise(os.Args[1], os.Args[2], os.Args[3:]))
}

func seed() int64 {
	s, err := strconv.ParseInt(envOr("VERIF_SEED", "1"), 10, 64)
	if err != nil {
		return 1
	}
	return s
}

func dirs(id string) (verif, repo, work string) {
	verif = envOr("VERIF_DIR", "/verif")
	repo = envOr("VERIF_REPO", "/repo")
	// one scratch directory per supervisor invocation: concurrent runs of the
	// same check (e.g. a mutation experiment next to a normal run) must not
	// delete each other's journal / result files
	if w := os.Getenv("VERIF_WORK"); w != "" {
		work = w
	} else {
		work = filepath.Join(verif, ".work", fmt.Sprintf("%s.%d", id, os.Getpid()))
	}
	return
}

func child(id, tier string) {
	m := core.Lookup(id)
	if m == nil {
		fmt.Fprintln(os.Stderr, "unknown monitor", id)
		os.Exit(3)
	}
	verif, repo, work := dirs(id)
	c := core.NewCtx(m, tier, seed(), verif, repo, work)
	if pf := os.Getenv("VERIF_CPUPROFILE"); pf != "" {
		if f, err := os.Create(pf); err == nil {
			pprof.StartCPUProfile(f)
			go func() {
				time.Sleep(45 * time.Second)
				pprof.StopCPUProfile()
				f.Close()
			}()
		}
	}
	m.Run(c)
	c.Finish()
}

// ------------------------------------------------------------------ supervisor

type raceReport struct {
	Key     string   `json:"key"`
	Frames  []string `json:"frames"`
	Count   int      `json:"count"`
	Anchor  bool     `json:"anchored"`
	Harness bool     `json:"harness_only"`
	Text    string   `json:"-"`
}

var lineNo = regexp.MustCompile(`:\d+( \+0x[0-9a-f]+)?$`)

const repoPrefix = "github.com/blinklabs-io/gouroboros"

// parseRaceLogs splits the race detector output into report blocks and
// de-duplicates them by the pair of innermost gouroboros frames.
func parseRaceLogs(work string, anchors []string) []*raceReport {
	files, _ := filepath.Glob(filepath.Join(work, "race.*"))
	byKey := map[string]*raceReport{}
	var order []string
	for _, f := range files {
		b, err := os.ReadFile(f)
		if err != nil {
			continue
		}
		for _, blk := range strings.Split(string(b), "==================") {
			if !strings.Contains(blk, "WARNING: DATA RACE") {
				continue
			}
			// access stacks are the first two paragraphs that start with
			// "Read at"/"Write at"/"Previous read"/"Previous write"
			var tops []string
			var fileOf []string
			for _, para := range strings.Split(blk, "\n\n") {
				p := strings.TrimSpace(para)
				p = strings.TrimPrefix(p, "WARNING: DATA RACE\n")
				if !(strings.HasPrefix(p, "Read at") || strings.HasPrefix(p, "Write at") ||
					strings.HasPrefix(p, "Previous read") || strings.HasPrefix(p, "Previous write") ||
					strings.HasPrefix(p, "Atomic") || strings.HasPrefix(p, "Previous atomic")) {
					continue
				}
				lines := strings.Split(p, "\n")
				top, tf := "", ""
				for i := 1; i+1 < len(lines); i += 2 {
					fn := strings.TrimSpace(lines[i])
					if strings.HasPrefix(fn, repoPrefix) {
						if j := strings.LastIndex(fn, "("); j > 0 && strings.HasSuffix(fn, ")") {
							fn = fn[:j]
						}
						top = strings.TrimPrefix(fn, repoPrefix+"/")
						tf = lineNo.ReplaceAllString(strings.TrimSpace(lines[i+1]), "")
						break
					}
				}
				tops = append(tops, top)
				fileOf = append(fileOf, tf)
			}
			for len(tops) < 2 {
				tops = append(tops, "")
				fileOf = append(fileOf, "")
			}
			pair := []string{tops[0], tops[1]}
			sort.Strings(pair)
			key := pair[0] + "|" + pair[1]
			r, ok := byKey[key]
			if !ok {
				r = &raceReport{Key: key, Frames: []string{tops[0] + " " + fileOf[0], tops[1] + " " + fileOf[1]}, Text: blk}
				r.Harness = tops[0] == "" && tops[1] == ""
				if !r.Harness && tops[0] != "" && tops[1] != "" {
					m0, m1 := false, false
					for _, a := range anchors {
						if strings.Contains(tops[0], a) || strings.Contains(fileOf[0], a) {
							m0 = true
						}
						if strings.Contains(tops[1], a) || strings.Contains(fileOf[1], a) {
							m1 = true
						}
					}
					r.Anchor = m0 && m1
				}
				byKey[key] = r
				order = append(order, key)
			}
			r.Count++
		}
	}
	var out []*raceReport
	for _, k := range order {
		out = append(out, byKey[k])
	}
	return out
}

func tail(path string, n int) []string {
	f, err := os.Open(path)
	if err != nil {
		return nil
	}
	defer f.Close()
	var lines []string
	sc := bufio.NewScanner(f)
	sc.Buffer(make([]byte, 1<<20), 1<<24)
	for sc.Scan() {
		lines = append(lines, sc.Text())
		if len(lines) > n*4 {
			lines = lines[len(lines)-n:]
		}
	}
	if len(lines) > n {
		lines = lines[len(lines)-n:]
	}
	return lines
}

func supervise(id, tier string, rest []string) int {
	m := core.Lookup(id)
	if m == nil {
		fmt.Fprintln(os.Stderr, "unknown monitor", id)
		return 3
	}
	verif, _, work := dirs(id)
	sd := seed()
	onlyKey := ""
	if tier == "replay" {
		if len(rest) < 1 {
			fmt.Fprintln(os.Stderr, "replay needs a path")
			return 3
		}
		b, err := os.ReadFile(rest[0])
		if err != nil {
			fmt.Fprintln(os.Stderr, err)
			return 3
		}
		var rec struct {
			Tier string `json:"tier"`
			Seed int64  `json:"seed"`
			Key  string `json:"key"`
		}
		if err := json.Unmarshal(b, &rec); err != nil {
			fmt.Fprintln(os.Stderr, err)
			return 3
		}
		tier, sd, onlyKey = rec.Tier, rec.Seed, rec.Key
		fmt.Printf("replaying %s tier=%s seed=%d key=%s\n", id, tier, sd, onlyKey)
	}
	if tier != "quick" && tier != "thorough" {
		fmt.Fprintln(os.Stderr, "tier must be quick or thorough")
		return 3
	}
	os.RemoveAll(work)
	if err := os.MkdirAll(work, 0o755); err != nil {
		fmt.Fprintln(os.Stderr, err)
		return 3
	}
	start := time.Now()
	logPath := filepath.Join(work, "child.log")
	logf, _ := os.Create(logPath)
	cmd := exec.Command(os.Args[0], "-child", id, tier)
	vc := &violationCounter{}
	cmd.Stdout = io.MultiWriter(os.Stdout, vc)
	cmd.Stderr = logf
	cmd.Env = append(os.Environ(),
		"VERIF_WORK="+work,
		"VERIF_SEED="+strconv.FormatInt(sd, 10),
		"GORACE=halt_on_error=0 log_path="+filepath.Join(work, "race"),
		"GOTRACEBACK=all",
	)
	if onlyKey != "" {
		cmd.Env = append(cmd.Env, "VERIF_ONLY_KEY="+onlyKey)
	}
	timeout := m.QuickTimeout
	if tier == "thorough" {
		timeout = m.ThoroughTimeout
	}
	if timeout == 0 {
		timeout = 900
		if tier == "thorough" {
			timeout = 4 * 3600
		}
	}
	if err := cmd.Start(); err != nil {
		fmt.Fprintln(os.Stderr, err)
		return 3
	}
	done := make(chan error, 1)
	go func() { done <- cmd.Wait() }()
	timedOut := false
	var werr error
	select {
	case werr = <-done:
	case <-time.After(time.Duration(timeout) * time.Second):
		timedOut = true
		cmd.Process.Signal(syscall.SIGQUIT) // goroutine dump into the log
		select {
		case werr = <-done:
		case <-time.After(15 * time.Second):
			cmd.Process.Kill()
			werr = <-done
		}
	}
	logf.Close()

	var res core.Result
	haveResult := false
	if b, err := os.ReadFile(filepath.Join(work, "result.json")); err == nil {
		if json.Unmarshal(b, &res) == nil && res.Finished {
			haveResult = true
		}
	}
	exit := 0
	var inconclusive []string
	unknownViol := 0
	knownViol := 0

	if !haveResult {
		// the child died: attribute it through the journal and the log
		jl := tail(filepath.Join(work, "journal"), 20)
		headLines, crashLine, inLib := scanLog(logPath, 300)
		ll := tail(logPath, 100)
		crashDir := filepath.Join(verif, "replays", id)
		os.MkdirAll(crashDir, 0o755)
		crashPath := filepath.Join(crashDir, "child-crash.log")
		os.WriteFile(crashPath, []byte("journal tail:\n"+strings.Join(jl, "\n")+"\n\nlog head:\n"+strings.Join(headLines, "\n")+"\n\nlog tail:\n"+strings.Join(ll, "\n")+"\n"), 0o644)
		switch {
		case vc.n > 0:
			// the child already printed VIOLATION lines before it died / was stopped
			unknownViol += vc.n
			exit = 1
			inconclusive = append(inconclusive, fmt.Sprintf("child did not finish (%v, timed out=%v) after reporting %d violation(s); see %s", werr, timedOut, vc.n, crashPath))
		case timedOut:
			inconclusive = append(inconclusive, fmt.Sprintf("watchdog fired after %ds (goroutine dump in %s)", timeout, crashPath))
			exit = 2
		case crashLine != "" && inLib:
			// A Go panic / runtime-fatal error with gouroboros frames on the
			// stacks: the library crashed under this property's workload.
			fmt.Printf("VIOLATION property=%s replay=%s\n  key=%s:child-crash\n  the monitor process crashed inside gouroboros code (%s); last journal line: %s\n",
				id, crashPath, id, crashLine, lastOf(jl))
			unknownViol++
			exit = 1
		default:
			inconclusive = append(inconclusive, fmt.Sprintf("child exited without a result (%v, %s); see %s", werr, crashLine, crashPath))
			exit = 2
		}
		res = core.Result{ID: id, Tier: tier, Seed: sd, Counters: map[string]int64{}, Notes: map[string]any{}}
	}
	for _, v := range res.Violations {
		if v.Known {
			knownViol++
		} else {
			unknownViol++
			exit = 1
		}
	}
	// race reports
	var races []*raceReport
	if m.Race {
		races = parseRaceLogs(work, m.RaceAnchors)
		known, _ := core.LoadAllFindings(verif)
		for _, r := range races {
			if !r.Anchor {
				continue
			}
			key := id + ":race:" + r.Key
			isKnown := false
			for _, f := range known {
				if f.Property == id && f.Status == "known" && f.Key == key {
					isKnown = true
					fmt.Printf("KNOWN-FINDING: property=%s %s [%s]\n", id, key, f.What)
				}
			}
			if isKnown {
				knownViol++
				continue
			}
			dir := filepath.Join(verif, "replays", id)
			os.MkdirAll(dir, 0o755)
			path := filepath.Join(dir, "race-"+sanitize(r.Key)+".txt")
			os.WriteFile(path, []byte(r.Text), 0o644)
			fmt.Printf("VIOLATION property=%s replay=%s\n  key=%s\n  data race on state the property rests on: %s\n", id, path, key, strings.Join(r.Frames, " <-> "))
			unknownViol++
			exit = 1
		}
	}
	if haveResult {
		if res.Distinct < m.MinNontrivial {
			inconclusive = append(inconclusive, fmt.Sprintf("only %d distinct non-trivial cases observed, floor is %d", res.Distinct, m.MinNontrivial))
		}
		ic := res.Counters["inconclusive_cases"]
		if ic > 0 && ic*50 > res.Evaluations {
			inconclusive = append(inconclusive, fmt.Sprintf("%d of %d cases inconclusive (> 2%%)", ic, res.Evaluations))
		}
		if len(inconclusive) > 0 && exit == 0 {
			exit = 2
		}
	}
	for _, s := range inconclusive {
		fmt.Printf("INCONCLUSIVE property=%s %s\n", id, s)
	}
	for _, s := range res.Inconclusive {
		fmt.Printf("  inconclusive case: %s\n", s)
	}

	// evidence
	cov := map[string]any{}
	for k, v := range res.Notes {
		cov[k] = v
	}
	counters := map[string]int64{}
	for k, v := range res.Counters {
		counters[k] = v
	}
	cov["counters"] = counters
	cov["evaluations"] = res.Evaluations
	cov["distinct_nontrivial"] = res.Distinct
	cov["rule"] = m.Rule
	if len(res.Samples) == 0 {
		res.Samples = []any{}
	}
	cov["samples"] = res.Samples
	if res.Exhaustive {
		cov["exhaustive"] = true
	}
	cov["inconclusive"] = append(inconclusive, res.Inconclusive...)
	if m.Race {
		var other, anch []map[string]any
		for _, r := range races {
			e := map[string]any{"frames": r.Frames, "count": r.Count, "harness_only": r.Harness}
			if r.Anchor {
				anch = append(anch, e)
			} else {
				other = append(other, e)
			}
		}
		cov["race_detector"] = "on"
		cov["race_reports_anchored"] = anch
		cov["race_reports_other"] = other
	}
	var kf, vk []string
	for _, v := range res.Violations {
		if v.Known {
			kf = append(kf, v.Key)
		} else {
			vk = append(vk, v.Key)
		}
	}
	cov["known_findings_seen"] = kf
	cov["violation_keys"] = vk
	verdict := "held"
	switch exit {
	case 1:
		verdict = "violated"
	case 2:
		verdict = "inconclusive"
	}
	cov["verdict"] = verdict
	ev := map[string]any{
		"property_id": id,
		"tier":        tier,
		"seed":        sd,
		"level":       m.Level,
		"coverage":    cov,
		"assumptions": m.Assumptions,
		"wall_s":      time.Since(start).Seconds(),
		"violations":  unknownViol,
	}
	if m.Assumptions == nil {
		ev["assumptions"] = []string{}
	}
	// runs against another checkout (mutation / seeded-change experiments) must
	// not overwrite the evidence of the real tree
	evDir := filepath.Join(verif, "evidence")
	if r := envOr("VERIF_REPO", "/repo"); r != "/repo" {
		evDir = filepath.Join(verif, ".work", "evidence-other-repo")
	}
	os.MkdirAll(evDir, 0o755)
	b, _ := json.MarshalIndent(ev, "", " ")
	if err := os.WriteFile(filepath.Join(evDir, id+".json"), append(b, '\n'), 0o644); err != nil {
		fmt.Fprintln(os.Stderr, "cannot write evidence:", err)
		return 3
	}
	fmt.Printf("%s %s seed=%d: %s — %d evaluations, %d distinct non-trivial, %d violations, %d known findings, %.1fs\n",
		id, tier, sd, verdict, res.Evaluations, res.Distinct, unknownViol, knownViol, time.Since(start).Seconds())
	if os.Getenv("VERIF_KEEP_WORK") == "" {
		os.RemoveAll(work) // crash logs / race reports worth keeping were copied to replays/<ID>/
	}
	return exit
}

// violationCounter counts VIOLATION lines in the child's stdout.
type violationCounter struct {
	n    int
	part []byte
}

func (v *violationCounter) Write(p []byte) (int, error) {
	v.part = append(v.part, p...)
	for {
		i := strings.IndexByte(string(v.part), '\n')
		if i < 0 {
			break
		}
		if strings.HasPrefix(string(v.part[:i]), "VIOLATION property=") {
			v.n++
		}
		v.part = v.part[i+1:]
	}
	return len(p), nil
}

// scanLog returns the first n lines of the log, the first line that announces
// a crash, and whether any stack frame belongs to gouroboros.
func scanLog(path string, n int) (head []string, crash string, inLib bool) {
	f, err := os.Open(path)
	if err != nil {
		return nil, "", false
	}
	defer f.Close()
	sc := bufio.NewScanner(f)
	sc.Buffer(make([]byte, 1<<20), 1<<24)
	for sc.Scan() {
		t := sc.Text()
		if len(head) < n {
			head = append(head, t)
		}
		if crash == "" && (strings.HasPrefix(t, "panic:") || strings.HasPrefix(t, "fatal error:") || strings.HasPrefix(t, "runtime: goroutine stack exceeds")) {
			crash = t
		}
		if !inLib && strings.HasPrefix(t, repoPrefix+"/") {
			inLib = true
		}
	}
	return
}

func lastOf(l []string) string {
	if len(l) == 0 {
		return "(empty)"
	}
	return l[len(l)-1]
}

func sanitize(s string) string {
	var b strings.Builder
	for _, r := range s {
		switch {
		case r >= 'a' && r <= 'z', r >= 'A' && r <= 'Z', r >= '0' && r <= '9', r == '-', r == '_', r == '.':
			b.WriteRune(r)
		default:
			b.WriteByte('_')
		}
		if b.Len() > 120 {
			break
		}
	}
	return b.String()
}
