// Package blockx holds the ground truth the block-level monitors (C01, C07,
// C34, later C22) share: where the components of a Cardano block live inside
// its bytes, computed with cborx only (no gouroboros code), a classification
// of every container of a block by structural role, and enumerators for
// semantically-neutral re-encodings ("encoding policies").
//
// Everything works on a cborx tree whose Start/End offsets refer to the byte
// string under test; after changing forms call Node.Reparse and analyse the
// new tree. Document order of Node.Nodes() is stable under Clone / SetForm /
// Reparse, so "the k-th node" names the same item in every variant.
package blockx

import (
	"errors"
	"fmt"

	"verifharness/cborx"
	"verifharness/core"
	"verifharness/corpus"
)

// Tx is the ground truth of one transaction inside a block.
type Tx struct {
	Index   int
	Whole   *cborx.Node // the complete transaction item (Byron [body,wits] pair, Dijkstra [body,wits,aux]); nil for the split-segment eras
	Body    *cborx.Node
	Witness *cborx.Node
	Aux     *cborx.Node // auxiliary data / metadata value; nil when absent (or CBOR null)
	Valid   bool        // false when the index is listed in invalid_transactions
	Outputs []*cborx.Node
}

// Layout is the ground truth of a block.
type Layout struct {
	Type   uint
	Src    []byte
	Root   *cborx.Node
	Header *cborx.Node
	Txs    []Tx
	// Split: Shelley..Conway layout [header, bodies, witness sets, aux map (, invalid)].
	Split bool
	// Segments: the top-level items the header's body hash commits to
	// (Shelley..Conway: items 1..; Dijkstra: the block_body item; Byron: nil,
	// see ByronParts).
	Segments []*cborx.Node
	// Split layout only.
	Bodies, Witnesses, AuxMap, Invalid *cborx.Node
	// Byron main only.
	ByronBody, ByronTxPayload, ByronSsc, ByronDlg, ByronUpd *cborx.Node
	// Dijkstra only.
	DjBody, DjInvalid, DjTxs *cborx.Node
}

func IsByron(t uint) bool { return t == corpus.TypeByronEBB || t == corpus.TypeByronMain }

// TxType returns the ledger.TxType* value of the transactions of a block type.
func TxType(blockType uint) uint {
	if IsByron(blockType) {
		return 0
	}
	return blockType - 1
}

// Analyze parses src and computes the layout for a block of the given type.
func Analyze(blockType uint, src []byte) (*Layout, error) {
	root, err := cborx.ParseExact(src)
	if err != nil {
		return nil, err
	}
	return AnalyzeNode(blockType, src, root)
}

func bodyOutputs(body *cborx.Node) []*cborx.Node {
	if body == nil || body.Kind != cborx.Map {
		return nil
	}
	outs := body.MapGet(1)
	if outs == nil || outs.Kind != cborx.Array {
		return nil
	}
	return outs.Items
}

func isNull(n *cborx.Node) bool {
	return n != nil && n.Kind == cborx.Simple && n.Form == cborx.FormDirect && n.Arg == 22
}

// AnalyzeNode computes the layout from an already parsed tree (offsets must
// refer to src).
func AnalyzeNode(blockType uint, src []byte, root *cborx.Node) (*Layout, error) {
	l := &Layout{Type: blockType, Src: src, Root: root}
	if root.Kind != cborx.Array || len(root.Items) < 2 {
		return nil, errors.New("blockx: block is not an array of >= 2 items")
	}
	l.Header = root.Items[0]
	switch {
	case blockType == corpus.TypeByronEBB:
		return l, nil
	case blockType == corpus.TypeByronMain:
		if len(root.Items) != 3 || root.Items[1].Kind != cborx.Array || len(root.Items[1].Items) != 4 {
			return nil, errors.New("blockx: not a Byron main block")
		}
		b := root.Items[1]
		l.ByronBody, l.ByronTxPayload, l.ByronSsc, l.ByronDlg, l.ByronUpd = b, b.Items[0], b.Items[1], b.Items[2], b.Items[3]
		if l.ByronTxPayload.Kind != cborx.Array {
			return nil, errors.New("blockx: Byron tx payload is not an array")
		}
		for i, p := range l.ByronTxPayload.Items {
			if p.Kind != cborx.Array || len(p.Items) != 2 {
				return nil, fmt.Errorf("blockx: Byron tx %d is not a pair", i)
			}
			t := Tx{Index: i, Whole: p, Body: p.Items[0], Witness: p.Items[1], Valid: true}
			if t.Body.Kind == cborx.Array && len(t.Body.Items) >= 2 && t.Body.Items[1].Kind == cborx.Array {
				t.Outputs = t.Body.Items[1].Items
			}
			l.Txs = append(l.Txs, t)
		}
		return l, nil
	case blockType == corpus.TypeDijkstra:
		if len(root.Items) != 2 || root.Items[1].Kind != cborx.Array || len(root.Items[1].Items) != 4 {
			return nil, errors.New("blockx: not a Dijkstra block")
		}
		b := root.Items[1]
		l.DjBody, l.DjInvalid, l.DjTxs = b, b.Items[0], b.Items[1]
		l.Segments = []*cborx.Node{b}
		if l.DjTxs.Kind != cborx.Array {
			return nil, errors.New("blockx: Dijkstra transactions is not an array")
		}
		invalid := map[uint64]bool{}
		if l.DjInvalid.Kind == cborx.Array {
			for _, it := range l.DjInvalid.Items {
				invalid[it.Arg] = true
			}
		} else if l.DjInvalid.Kind == cborx.Tag && l.DjInvalid.Items[0].Kind == cborx.Array {
			for _, it := range l.DjInvalid.Items[0].Items {
				invalid[it.Arg] = true
			}
		}
		for i, p := range l.DjTxs.Items {
			if p.Kind != cborx.Array || len(p.Items) != 3 {
				return nil, fmt.Errorf("blockx: Dijkstra tx %d is not a triple", i)
			}
			t := Tx{Index: i, Whole: p, Body: p.Items[0], Witness: p.Items[1], Valid: !invalid[uint64(i)]}
			if !isNull(p.Items[2]) {
				t.Aux = p.Items[2]
			}
			t.Outputs = bodyOutputs(t.Body)
			l.Txs = append(l.Txs, t)
		}
		return l, nil
	}
	// Shelley .. Conway
	if len(root.Items) < 4 {
		return nil, errors.New("blockx: split-segment block has fewer than 4 items")
	}
	l.Split = true
	l.Bodies, l.Witnesses, l.AuxMap = root.Items[1], root.Items[2], root.Items[3]
	l.Segments = root.Items[1:]
	if len(root.Items) > 4 {
		l.Invalid = root.Items[4]
	}
	if l.Bodies.Kind != cborx.Array || l.Witnesses.Kind != cborx.Array || l.AuxMap.Kind != cborx.Map {
		return nil, errors.New("blockx: unexpected segment kinds")
	}
	if len(l.Bodies.Items) != len(l.Witnesses.Items) {
		return nil, errors.New("blockx: bodies / witness sets differ in length")
	}
	invalid := map[uint64]bool{}
	if l.Invalid != nil && l.Invalid.Kind == cborx.Array {
		for _, it := range l.Invalid.Items {
			invalid[it.Arg] = true
		}
	}
	for i := range l.Bodies.Items {
		t := Tx{Index: i, Body: l.Bodies.Items[i], Witness: l.Witnesses.Items[i], Valid: !invalid[uint64(i)]}
		t.Aux = l.AuxMap.MapGet(uint64(i))
		t.Outputs = bodyOutputs(t.Body)
		l.Txs = append(l.Txs, t)
	}
	return l, nil
}

// ------------------------------------------------------------ witness parts

// Redeemer is the ground truth of one redeemer: its key and the node of its
// data item.
type Redeemer struct {
	Tag, Index uint64
	Data       *cborx.Node
}

// WitParts are the witness-set components the offset extractor reports.
type WitParts struct {
	Datums    []*cborx.Node         // elements of key 4
	Redeemers []Redeemer            // key 5 (array or map form)
	Scripts   map[int][]*cborx.Node // script arrays by witness key (1,3,6,7,8)
	// Containers: the list nodes themselves (after stripping a tag 258), by witness key.
	Lists  map[int]*cborx.Node
	Tagged map[int]bool // the value of that key is wrapped in a tag (e.g. 258 set)
}

var ScriptKeys = []int{1, 3, 6, 7, 8}

// WitnessParts walks a Shelley+ witness-set map.
func WitnessParts(w *cborx.Node) WitParts {
	p := WitParts{Scripts: map[int][]*cborx.Node{}, Lists: map[int]*cborx.Node{}, Tagged: map[int]bool{}}
	if w == nil || w.Kind != cborx.Map {
		return p
	}
	get := func(k int) *cborx.Node {
		v := w.MapGet(uint64(k))
		if v == nil {
			return nil
		}
		if v.Kind == cborx.Tag {
			p.Tagged[k] = true
			v = v.Items[0]
		}
		p.Lists[k] = v
		return v
	}
	if d := get(4); d != nil && d.Kind == cborx.Array {
		p.Datums = d.Items
	}
	if r := get(5); r != nil {
		switch r.Kind {
		case cborx.Array:
			for _, e := range r.Items {
				if e.Kind == cborx.Array && len(e.Items) >= 3 {
					p.Redeemers = append(p.Redeemers, Redeemer{e.Items[0].Arg, e.Items[1].Arg, e.Items[2]})
				}
			}
		case cborx.Map:
			for i := 0; i+1 < len(r.Items); i += 2 {
				k, v := r.Items[i], r.Items[i+1]
				if k.Kind == cborx.Array && len(k.Items) == 2 && v.Kind == cborx.Array && len(v.Items) >= 1 {
					p.Redeemers = append(p.Redeemers, Redeemer{k.Items[0].Arg, k.Items[1].Arg, v.Items[0]})
				}
			}
		}
	}
	for _, k := range ScriptKeys {
		if s := get(k); s != nil && s.Kind == cborx.Array {
			p.Scripts[k] = s.Items
		}
	}
	return p
}

// ------------------------------------------------------------ classification

// Classified is a container (array or map) of a block together with its
// structural role and its position in document order (index into
// Root.Nodes()).
type Classified struct {
	Node  *cborx.Node
	Ord   int
	Class string
}

// Classes returns every array/map of the block with a low-cardinality class
// name. Classes ending in "-inner" are containers below the level the
// decoders / offset extractor address individually.
func (l *Layout) Classes() []Classified {
	cls := map[*cborx.Node]string{}
	set := func(n *cborx.Node, c string) {
		if n != nil {
			cls[n] = c
		}
	}
	// mark everything below n (exclusive) that is still unclassified
	inner := func(n *cborx.Node, c string) {
		if n == nil {
			return
		}
		n.Walk(func(x *cborx.Node) {
			if x != n {
				if _, ok := cls[x]; !ok {
					cls[x] = c
				}
			}
		})
	}
	set(l.Root, "block")
	set(l.Header, "header")
	inner(l.Header, "header-inner")
	markTx := func(t *Tx) {
		if IsByron(l.Type) {
			set(t.Whole, "byron.txpair")
			set(t.Body, "byron.txbody")
			if t.Body.Kind == cborx.Array && len(t.Body.Items) >= 2 {
				set(t.Body.Items[0], "byron.inputs")
				set(t.Body.Items[1], "byron.outputs")
			}
			for _, o := range t.Outputs {
				set(o, "output")
				inner(o, "output-inner")
			}
			inner(t.Body, "body-inner")
			set(t.Witness, "byron.witnesses")
			inner(t.Witness, "witset-inner")
			return
		}
		set(t.Whole, "dj.tx")
		set(t.Body, "body")
		if t.Body.Kind == cborx.Map {
			set(t.Body.MapGet(1), "outputs")
		}
		for _, o := range t.Outputs {
			set(o, "output")
			inner(o, "output-inner")
		}
		inner(t.Body, "body-inner")
		set(t.Witness, "witset")
		wp := WitnessParts(t.Witness)
		for k, n := range wp.Lists {
			switch {
			case k == 4:
				set(n, "wit.datums")
			case k == 5:
				set(n, "wit.redeemers")
				if n.Kind == cborx.Array {
					for _, e := range n.Items {
						set(e, "wit.redeemer")
					}
				} else if n.Kind == cborx.Map {
					for i := 1; i < len(n.Items); i += 2 {
						set(n.Items[i], "wit.redeemer")
					}
				}
			default:
				set(n, "wit.scripts")
			}
		}
		if t.Witness.Kind == cborx.Map {
			for _, k := range []int{0, 2} {
				if v := t.Witness.MapGet(uint64(k)); v != nil {
					if v.Kind == cborx.Tag {
						v = v.Items[0]
					}
					if k == 0 {
						set(v, "wit.vkeys")
					} else {
						set(v, "wit.bootstrap")
					}
				}
			}
		}
		inner(t.Witness, "witset-inner")
		set(t.Aux, "aux")
		inner(t.Aux, "aux-inner")
	}
	switch {
	case l.Split:
		set(l.Bodies, "bodies")
		set(l.Witnesses, "witsets")
		set(l.AuxMap, "auxmap")
		set(l.Invalid, "invalid")
	case l.Type == corpus.TypeByronMain:
		set(l.ByronBody, "byron.body")
		set(l.ByronTxPayload, "byron.txpayload")
		set(l.ByronSsc, "byron.ssc")
		inner(l.ByronSsc, "byron.ssc-inner")
		set(l.ByronDlg, "byron.dlg")
		inner(l.ByronDlg, "byron.dlg-inner")
		set(l.ByronUpd, "byron.upd")
		inner(l.ByronUpd, "byron.upd-inner")
	case l.Type == corpus.TypeDijkstra:
		set(l.DjBody, "dj.body")
		set(l.DjInvalid, "dj.invalid")
		set(l.DjTxs, "dj.txs")
	}
	for i := range l.Txs {
		markTx(&l.Txs[i])
	}
	var out []Classified
	for ord, n := range l.Root.Nodes() {
		if !n.IsContainer() {
			continue
		}
		c, ok := cls[n]
		if !ok {
			c = "other"
		}
		out = append(out, Classified{Node: n, Ord: ord, Class: c})
	}
	return out
}

// Path returns the chain of nodes from root down to target (inclusive), or nil.
func Path(root, target *cborx.Node) []*cborx.Node {
	if root == target {
		return []*cborx.Node{root}
	}
	if root.Kind == cborx.Bytes || root.Kind == cborx.Text {
		return nil
	}
	// offsets make the search linear in depth
	for _, c := range root.Items {
		if c.Start <= target.Start && target.End <= c.End {
			if p := Path(c, target); p != nil {
				return append([]*cborx.Node{root}, p...)
			}
		}
	}
	return nil
}

// ------------------------------------------------------------ policies

// ContainerForms are the header forms a definite/indefinite container can take.
var ContainerForms = []cborx.Form{cborx.FormDirect, cborx.Form1, cborx.Form2, cborx.Form4, cborx.Form8, cborx.FormIndef}

// OtherForms returns the header forms (of ContainerForms for arrays/maps, of
// the width forms for everything else) that are applicable to n and differ
// from its current one.
func OtherForms(n *cborx.Node) []cborx.Form {
	var out []cborx.Form
	cur := n.CurrentForm()
	forms := cborx.AllWidthForms
	if n.IsContainer() {
		forms = ContainerForms
	}
	for _, f := range forms {
		if f == cur {
			continue
		}
		c := *n
		if (&c).SetForm(f) {
			out = append(out, f)
		}
	}
	return out
}

// SetAll switches every node accepted by filter to form f (where applicable)
// and returns how many nodes changed form.
func SetAll(root *cborx.Node, f cborx.Form, filter func(*cborx.Node) bool) int {
	n := 0
	root.Walk(func(x *cborx.Node) {
		if filter != nil && !filter(x) {
			return
		}
		before := x.CurrentForm()
		if x.SetForm(f) && x.CurrentForm() != before {
			n++
		}
	})
	return n
}

func IsContainer(n *cborx.Node) bool { return n.IsContainer() }

// RandOpts selects which node kinds Randomize may touch. Num/Den is the
// per-node probability of a change.
type RandOpts struct {
	Containers   bool
	Ints         bool
	Strings      bool // wider length headers of byte/text strings
	IndefStrings bool // byte/text strings as indefinite-length chunk sequences
	Tags         bool // wider tag numbers
	Num, Den     int
}

// Randomize gives each eligible node, with probability Num/Den, another
// applicable header form chosen uniformly. Returns the number of changed
// nodes. The meaning of the item is unchanged.
func Randomize(root *cborx.Node, r *core.Rand, o RandOpts) int {
	if o.Den == 0 {
		o.Num, o.Den = 1, 4
	}
	changed := 0
	root.Walk(func(x *cborx.Node) {
		var ok bool
		switch x.Kind {
		case cborx.Array, cborx.Map:
			ok = o.Containers
		case cborx.Uint, cborx.Nint:
			ok = o.Ints
		case cborx.Bytes, cborx.Text:
			ok = o.Strings || o.IndefStrings
		case cborx.Tag:
			ok = o.Tags
		}
		if !ok || !r.Chance(o.Num, o.Den) {
			return
		}
		if x.Kind == cborx.Bytes || x.Kind == cborx.Text {
			if x.Form == cborx.FormIndef {
				return
			}
			if o.IndefStrings && (!o.Strings || r.Chance(1, 3)) {
				if x.SetFormChunks(cborx.FormIndef, r.Range(1, 3)) {
					changed++
				}
				return
			}
			if !o.Strings {
				return
			}
		}
		forms := OtherForms(x)
		if len(forms) == 0 {
			return
		}
		if x.SetForm(core.Pick(r, forms)) {
			changed++
		}
	})
	return changed
}

// NonMinimalAncestors returns, outermost first, the containers on the path
// from root to target (target included) whose header is not in minimal form.
func NonMinimalAncestors(root, target *cborx.Node) []*cborx.Node {
	var out []*cborx.Node
	for _, n := range Path(root, target) {
		if n.IsContainer() && !n.IsMinimal() {
			out = append(out, n)
		}
	}
	return out
}

// NonMinimalPath is NonMinimalAncestors extended by tags: it returns,
// outermost first, the containers and tags on the path from root to target
// (target included) whose own head is not in minimal form.
func NonMinimalPath(root, target *cborx.Node) []*cborx.Node {
	var out []*cborx.Node
	for _, n := range Path(root, target) {
		if (n.IsContainer() || n.Kind == cborx.Tag) && !n.IsMinimal() {
			out = append(out, n)
		}
	}
	return out
}

// TagClasses returns every tag node of the block with a low-cardinality class:
// "<class of the tagged container>.tag" when the tag wraps an array/map that
// Classes() knows (e.g. "wit.scripts.tag" for a #6.258 script set), otherwise
// "<class of the nearest enclosing container>.tag<number>" (e.g.
// "output-inner.tag24").
func (l *Layout) TagClasses() []Classified {
	cls := map[*cborx.Node]string{}
	for _, c := range l.Classes() {
		cls[c.Node] = c.Class
	}
	ord := map[*cborx.Node]int{}
	for i, n := range l.Root.Nodes() {
		ord[n] = i
	}
	var out []Classified
	var walk func(n *cborx.Node, enclosing string)
	walk = func(n *cborx.Node, enclosing string) {
		if n.Kind == cborx.Bytes || n.Kind == cborx.Text {
			return
		}
		if n.Kind == cborx.Tag {
			name := fmt.Sprintf("%s.tag%d", enclosing, n.Arg)
			if c, ok := cls[n.Items[0]]; ok && n.Items[0].IsContainer() {
				name = c + ".tag"
			}
			out = append(out, Classified{Node: n, Ord: ord[n], Class: name})
		}
		if c, ok := cls[n]; ok && n.IsContainer() {
			enclosing = c
		}
		for _, ch := range n.Items {
			walk(ch, enclosing)
		}
	}
	walk(l.Root, "block")
	return out
}
