// Package cborx is an independent CBOR reader / writer used by the monitors.
// It shares no code with fxamacker/cbor or gouroboros/cbor. A parsed item is a
// tree of Nodes that remember the exact header form they were read with and
// their byte range in the source, so that a tree can be written back as read
// (identity), or under another encoding policy (non-minimal headers,
// indefinite lengths) without changing its meaning.
package cborx

import (
	"bytes"
	"encoding/binary"
	"errors"
	"fmt"
	"math/big"
)

type Kind int

const (
	Uint Kind = iota
	Nint
	Bytes
	Text
	Array
	Map
	Tag
	Simple // simple values and floats (major 7)
)

func (k Kind) String() string {
	return [...]string{"uint", "nint", "bytes", "text", "array", "map", "tag", "simple"}[k]
}

// Form is the way an argument (length / value / tag number) is written.
type Form int

const (
	FormMinimal Form = iota
	FormDirect       // in the initial byte (only values < 24)
	Form1            // ai 24
	Form2            // ai 25
	Form4            // ai 26
	Form8            // ai 27
	FormIndef        // ai 31, containers and strings only
)

func (f Form) String() string {
	return [...]string{"min", "direct", "w1", "w2", "w4", "w8", "indef"}[f]
}

var AllWidthForms = []Form{FormDirect, Form1, Form2, Form4, Form8}

type Node struct {
	Kind  Kind
	Arg   uint64 // uint value, nint: value is -1-Arg, tag number, simple/float bits, or length as read
	Form  Form   // how the argument was/should be written (never FormMinimal after Parse)
	Data  []byte // content of a definite byte/text string
	Items []*Node
	// Items: array elements; map: k0,v0,k1,v1,...; tag: exactly one child;
	// indefinite string: the definite chunks.
	Start, End int // byte range [Start,End) in the parsed source
}

var ErrTruncated = errors.New("cborx: truncated")

type parser struct {
	b     []byte
	depth int
}

const maxDepth = 2000

// Parse reads exactly one data item from b (offset 0) and returns it together
// with the number of bytes consumed.
func Parse(b []byte) (*Node, int, error) {
	p := &parser{b: b}
	n, end, err := p.item(0)
	if err != nil {
		return nil, 0, err
	}
	return n, end, nil
}

// ParseExact parses b and fails if there are trailing bytes.
func ParseExact(b []byte) (*Node, error) {
	n, used, err := Parse(b)
	if err != nil {
		return nil, err
	}
	if used != len(b) {
		return nil, fmt.Errorf("cborx: %d trailing bytes", len(b)-used)
	}
	return n, nil
}

func (p *parser) head(off int) (major byte, ai byte, arg uint64, form Form, next int, err error) {
	if off >= len(p.b) {
		return 0, 0, 0, 0, 0, ErrTruncated
	}
	ib := p.b[off]
	major = ib >> 5
	ai = ib & 0x1f
	next = off + 1
	switch {
	case ai < 24:
		return major, ai, uint64(ai), FormDirect, next, nil
	case ai == 24:
		if next+1 > len(p.b) {
			return 0, 0, 0, 0, 0, ErrTruncated
		}
		return major, ai, uint64(p.b[next]), Form1, next + 1, nil
	case ai == 25:
		if next+2 > len(p.b) {
			return 0, 0, 0, 0, 0, ErrTruncated
		}
		return major, ai, uint64(binary.BigEndian.Uint16(p.b[next:])), Form2, next + 2, nil
	case ai == 26:
		if next+4 > len(p.b) {
			return 0, 0, 0, 0, 0, ErrTruncated
		}
		return major, ai, uint64(binary.BigEndian.Uint32(p.b[next:])), Form4, next + 4, nil
	case ai == 27:
		if next+8 > len(p.b) {
			return 0, 0, 0, 0, 0, ErrTruncated
		}
		return major, ai, binary.BigEndian.Uint64(p.b[next:]), Form8, next + 8, nil
	case ai == 31:
		return major, ai, 0, FormIndef, next, nil
	}
	return 0, 0, 0, 0, 0, fmt.Errorf("cborx: reserved additional info %d at %d", ai, off)
}

func (p *parser) item(off int) (*Node, int, error) {
	p.depth++
	defer func() { p.depth-- }()
	if p.depth > maxDepth {
		return nil, 0, errors.New("cborx: too deep")
	}
	major, _, arg, form, next, err := p.head(off)
	if err != nil {
		return nil, 0, err
	}
	n := &Node{Start: off, Arg: arg, Form: form}
	switch major {
	case 0:
		n.Kind = Uint
		if form == FormIndef {
			return nil, 0, errors.New("cborx: indefinite integer")
		}
	case 1:
		n.Kind = Nint
		if form == FormIndef {
			return nil, 0, errors.New("cborx: indefinite integer")
		}
	case 2, 3:
		n.Kind = Bytes
		if major == 3 {
			n.Kind = Text
		}
		if form == FormIndef {
			for {
				if next >= len(p.b) {
					return nil, 0, ErrTruncated
				}
				if p.b[next] == 0xff {
					next++
					break
				}
				if p.b[next]>>5 != major || p.b[next]&0x1f == 31 {
					return nil, 0, errors.New("cborx: bad chunk in indefinite string")
				}
				c, e, err := p.item(next)
				if err != nil {
					return nil, 0, err
				}
				n.Items = append(n.Items, c)
				next = e
			}
		} else {
			if arg > uint64(len(p.b)-next) {
				return nil, 0, ErrTruncated
			}
			n.Data = p.b[next : next+int(arg)]
			next += int(arg)
		}
	case 4, 5:
		n.Kind = Array
		mult := uint64(1)
		if major == 5 {
			n.Kind = Map
			mult = 2
		}
		if form == FormIndef {
			for {
				if next >= len(p.b) {
					return nil, 0, ErrTruncated
				}
				if p.b[next] == 0xff {
					next++
					break
				}
				c, e, err := p.item(next)
				if err != nil {
					return nil, 0, err
				}
				n.Items = append(n.Items, c)
				next = e
			}
			if major == 5 && len(n.Items)%2 != 0 {
				return nil, 0, errors.New("cborx: odd item count in indefinite map")
			}
		} else {
			if arg > uint64(len(p.b)) { // each item needs at least one byte
				return nil, 0, ErrTruncated
			}
			cnt := arg * mult
			for i := uint64(0); i < cnt; i++ {
				c, e, err := p.item(next)
				if err != nil {
					return nil, 0, err
				}
				n.Items = append(n.Items, c)
				next = e
			}
		}
	case 6:
		n.Kind = Tag
		if form == FormIndef {
			return nil, 0, errors.New("cborx: indefinite tag")
		}
		c, e, err := p.item(next)
		if err != nil {
			return nil, 0, err
		}
		n.Items = []*Node{c}
		next = e
	case 7:
		n.Kind = Simple
		if form == FormIndef {
			return nil, 0, errors.New("cborx: unexpected break")
		}
	}
	n.End = next
	return n, next, nil
}

// ---------------------------------------------------------------- writing

func minimalForm(v uint64) Form {
	switch {
	case v < 24:
		return FormDirect
	case v <= 0xff:
		return Form1
	case v <= 0xffff:
		return Form2
	case v <= 0xffffffff:
		return Form4
	}
	return Form8
}

// FormFits reports whether value v can be written in form f.
func FormFits(f Form, v uint64) bool {
	switch f {
	case FormMinimal:
		return true
	case FormDirect:
		return v < 24
	case Form1:
		return v <= 0xff
	case Form2:
		return v <= 0xffff
	case Form4:
		return v <= 0xffffffff
	case Form8:
		return true
	}
	return false
}

func writeHead(w *bytes.Buffer, major byte, v uint64, f Form) {
	if f == FormMinimal || !FormFits(f, v) {
		f = minimalForm(v)
	}
	switch f {
	case FormDirect:
		w.WriteByte(major<<5 | byte(v))
	case Form1:
		w.WriteByte(major<<5 | 24)
		w.WriteByte(byte(v))
	case Form2:
		w.WriteByte(major<<5 | 25)
		var t [2]byte
		binary.BigEndian.PutUint16(t[:], uint16(v))
		w.Write(t[:])
	case Form4:
		w.WriteByte(major<<5 | 26)
		var t [4]byte
		binary.BigEndian.PutUint32(t[:], uint32(v))
		w.Write(t[:])
	case Form8:
		w.WriteByte(major<<5 | 27)
		var t [8]byte
		binary.BigEndian.PutUint64(t[:], v)
		w.Write(t[:])
	}
}

// Encode returns the bytes of the tree, every node in its own Form.
func (n *Node) Encode() []byte {
	var w bytes.Buffer
	n.write(&w)
	return w.Bytes()
}

func (n *Node) write(w *bytes.Buffer) {
	switch n.Kind {
	case Uint:
		writeHead(w, 0, n.Arg, n.Form)
	case Nint:
		writeHead(w, 1, n.Arg, n.Form)
	case Bytes, Text:
		major := byte(2)
		if n.Kind == Text {
			major = 3
		}
		if n.Form == FormIndef {
			w.WriteByte(major<<5 | 31)
			for _, c := range n.Items {
				c.write(w)
			}
			w.WriteByte(0xff)
		} else {
			writeHead(w, major, uint64(len(n.Data)), n.Form)
			w.Write(n.Data)
		}
	case Array, Map:
		major := byte(4)
		cnt := uint64(len(n.Items))
		if n.Kind == Map {
			major = 5
			cnt /= 2
		}
		if n.Form == FormIndef {
			w.WriteByte(major<<5 | 31)
			for _, c := range n.Items {
				c.write(w)
			}
			w.WriteByte(0xff)
		} else {
			writeHead(w, major, cnt, n.Form)
			for _, c := range n.Items {
				c.write(w)
			}
		}
	case Tag:
		writeHead(w, 6, n.Arg, n.Form)
		n.Items[0].write(w)
	case Simple:
		// floats keep their width; simple values use Form as read
		writeHead(w, 7, n.Arg, n.Form)
	}
}

// Reparse encodes the tree and parses it again so that Start/End describe the
// new byte string. It returns the new bytes and the new tree.
func (n *Node) Reparse() ([]byte, *Node) {
	b := n.Encode()
	m, err := ParseExact(b)
	if err != nil {
		panic("cborx: reparse of own output failed: " + err.Error())
	}
	return b, m
}

// Clone returns a deep copy (Data slices are shared, they are never mutated).
func (n *Node) Clone() *Node {
	c := *n
	if n.Items != nil {
		c.Items = make([]*Node, len(n.Items))
		for i, it := range n.Items {
			c.Items[i] = it.Clone()
		}
	}
	return &c
}

// Walk visits n and all descendants in document order. The chunks of an
// indefinite-length string are part of the string and are not visited.
func (n *Node) Walk(f func(*Node)) {
	f(n)
	if n.Kind == Bytes || n.Kind == Text {
		return
	}
	for _, c := range n.Items {
		c.Walk(f)
	}
}

// Nodes returns all nodes in document order.
func (n *Node) Nodes() []*Node {
	var out []*Node
	n.Walk(func(x *Node) { out = append(out, x) })
	return out
}

// IsContainer reports array or map.
func (n *Node) IsContainer() bool { return n.Kind == Array || n.Kind == Map }

// Len returns the logical element count (pairs for maps).
func (n *Node) Len() int {
	if n.Kind == Map {
		return len(n.Items) / 2
	}
	return len(n.Items)
}

// StringData returns the full content of a byte/text string (joining chunks).
func (n *Node) StringData() []byte {
	if n.Form != FormIndef {
		return n.Data
	}
	var out []byte
	for _, c := range n.Items {
		out = append(out, c.Data...)
	}
	return out
}

// At follows a path of element indexes (for maps: index into Items, i.e.
// 2*i is key i and 2*i+1 is value i). Returns nil when the path leaves the tree.
func (n *Node) At(path ...int) *Node {
	cur := n
	for _, i := range path {
		if cur == nil || i < 0 || i >= len(cur.Items) {
			return nil
		}
		cur = cur.Items[i]
	}
	return cur
}

// MapGet returns the value for an unsigned-integer key of a map node.
func (n *Node) MapGet(key uint64) *Node {
	if n == nil || n.Kind != Map {
		return nil
	}
	for i := 0; i+1 < len(n.Items); i += 2 {
		if n.Items[i].Kind == Uint && n.Items[i].Arg == key {
			return n.Items[i+1]
		}
	}
	return nil
}

// Slice returns src[n.Start:n.End].
func (n *Node) Slice(src []byte) []byte { return src[n.Start:n.End] }

// Int returns the integer value of a Uint/Nint node (and bignum tags 2/3).
func (n *Node) Int() (*big.Int, bool) {
	switch n.Kind {
	case Uint:
		return new(big.Int).SetUint64(n.Arg), true
	case Nint:
		v := new(big.Int).SetUint64(n.Arg)
		v.Add(v, big.NewInt(1))
		return v.Neg(v), true
	case Tag:
		if (n.Arg == 2 || n.Arg == 3) && n.Items[0].Kind == Bytes {
			v := new(big.Int).SetBytes(n.Items[0].StringData())
			if n.Arg == 3 {
				v.Add(v, big.NewInt(1))
				v.Neg(v)
			}
			return v, true
		}
	}
	return nil, false
}

// ---------------------------------------------------------------- builders

func U(v uint64) *Node { return &Node{Kind: Uint, Arg: v, Form: FormMinimal} }

// I builds an integer node from a signed value.
func I(v int64) *Node {
	if v >= 0 {
		return U(uint64(v))
	}
	return &Node{Kind: Nint, Arg: uint64(-1 - v), Form: FormMinimal}
}

// NegArg builds the negative integer -1-arg.
func NegArg(arg uint64) *Node { return &Node{Kind: Nint, Arg: arg, Form: FormMinimal} }

// Big builds an integer node, using bignum tags outside the 64-bit range.
func Big(v *big.Int) *Node {
	if v.Sign() >= 0 {
		if v.IsUint64() {
			return U(v.Uint64())
		}
		return T(2, B(v.Bytes()))
	}
	m := new(big.Int).Neg(v)
	m.Sub(m, big.NewInt(1))
	if m.IsUint64() {
		return NegArg(m.Uint64())
	}
	return T(3, B(m.Bytes()))
}

func B(b []byte) *Node   { return &Node{Kind: Bytes, Data: b, Form: FormMinimal} }
func S(s string) *Node   { return &Node{Kind: Text, Data: []byte(s), Form: FormMinimal} }
func A(it ...*Node) *Node { return &Node{Kind: Array, Items: it, Form: FormMinimal} }

// AIndef builds an indefinite-length array.
func AIndef(it ...*Node) *Node { return &Node{Kind: Array, Items: it, Form: FormIndef} }

// M builds a map from alternating keys and values.
func M(kv ...*Node) *Node {
	if len(kv)%2 != 0 {
		panic("cborx.M: odd argument count")
	}
	return &Node{Kind: Map, Items: kv, Form: FormMinimal}
}
func T(tag uint64, c *Node) *Node {
	return &Node{Kind: Tag, Arg: tag, Items: []*Node{c}, Form: FormMinimal}
}
func Null() *Node  { return &Node{Kind: Simple, Arg: 22, Form: FormDirect} }
func Undef() *Node { return &Node{Kind: Simple, Arg: 23, Form: FormDirect} }
func Bool(v bool) *Node {
	if v {
		return &Node{Kind: Simple, Arg: 21, Form: FormDirect}
	}
	return &Node{Kind: Simple, Arg: 20, Form: FormDirect}
}

// Raw parses b (which must be exactly one item) into a node; panics on error.
func Raw(b []byte) *Node {
	n, err := ParseExact(b)
	if err != nil {
		panic("cborx.Raw: " + err.Error())
	}
	return n
}

// ---------------------------------------------------------------- policies

// SetForm changes the header form of a node if the form is applicable
// (width forms need the value to fit; FormIndef only for containers and
// strings). For a string switched to indefinite the content becomes one chunk
// (or `chunks` pieces when chunks > 1). Returns false if not applicable.
func (n *Node) SetForm(f Form) bool {
	return n.SetFormChunks(f, 1)
}

func (n *Node) argValue() uint64 {
	switch n.Kind {
	case Bytes, Text:
		return uint64(len(n.StringData()))
	case Array:
		return uint64(len(n.Items))
	case Map:
		return uint64(len(n.Items) / 2)
	}
	return n.Arg
}

func (n *Node) SetFormChunks(f Form, chunks int) bool {
	if n.Kind == Simple {
		return false
	}
	if f == FormIndef {
		switch n.Kind {
		case Array, Map:
			n.Form = FormIndef
			return true
		case Bytes, Text:
			data := n.StringData()
			n.Items = nil
			if chunks < 1 {
				chunks = 1
			}
			if len(data) == 0 {
				chunks = 0
			}
			for i := 0; i < chunks; i++ {
				lo := len(data) * i / chunks
				hi := len(data) * (i + 1) / chunks
				n.Items = append(n.Items, &Node{Kind: n.Kind, Data: data[lo:hi], Form: FormMinimal})
			}
			n.Data = nil
			n.Form = FormIndef
			return true
		}
		return false
	}
	v := n.argValue()
	if f != FormMinimal && !FormFits(f, v) {
		return false
	}
	if (n.Kind == Bytes || n.Kind == Text) && n.Form == FormIndef {
		n.Data = n.StringData()
		n.Items = nil
	}
	if f == FormMinimal {
		f = minimalForm(v)
	}
	n.Form = f
	return true
}

// CurrentForm returns the concrete form the node will be written with.
func (n *Node) CurrentForm() Form {
	if n.Form == FormMinimal {
		return minimalForm(n.argValue())
	}
	return n.Form
}

// IsMinimal reports whether the node's own header is in the shortest form.
func (n *Node) IsMinimal() bool {
	if n.Kind == Simple {
		return true
	}
	if n.Form == FormIndef {
		return false
	}
	return n.CurrentForm() == minimalForm(n.argValue())
}

// Diag renders a short diagnostic string (for evidence samples).
func (n *Node) Diag() string {
	var w bytes.Buffer
	n.diag(&w, 0)
	return w.String()
}

func (n *Node) diag(w *bytes.Buffer, depth int) {
	if w.Len() > 400 {
		return
	}
	switch n.Kind {
	case Uint:
		fmt.Fprintf(w, "%d", n.Arg)
	case Nint:
		v, _ := n.Int()
		w.WriteString(v.String())
	case Bytes:
		d := n.StringData()
		if len(d) > 8 {
			fmt.Fprintf(w, "h'%x..'(%d)", d[:8], len(d))
		} else {
			fmt.Fprintf(w, "h'%x'", d)
		}
	case Text:
		fmt.Fprintf(w, "%q", string(n.StringData()))
	case Array, Map:
		o, c := "[", "]"
		if n.Kind == Map {
			o, c = "{", "}"
		}
		w.WriteString(o)
		if n.Form == FormIndef {
			w.WriteString("_ ")
		}
		for i, it := range n.Items {
			if i > 0 {
				if n.Kind == Map && i%2 == 1 {
					w.WriteString(": ")
				} else {
					w.WriteString(", ")
				}
			}
			if i > 12 {
				w.WriteString("...")
				break
			}
			it.diag(w, depth+1)
		}
		w.WriteString(c)
	case Tag:
		fmt.Fprintf(w, "%d(", n.Arg)
		n.Items[0].diag(w, depth+1)
		w.WriteString(")")
	case Simple:
		switch {
		case n.Form == FormDirect && n.Arg == 20:
			w.WriteString("false")
		case n.Form == FormDirect && n.Arg == 21:
			w.WriteString("true")
		case n.Form == FormDirect && n.Arg == 22:
			w.WriteString("null")
		case n.Form == FormDirect && n.Arg == 23:
			w.WriteString("undefined")
		default:
			fmt.Fprintf(w, "simple/float(%s,%#x)", n.Form, n.Arg)
		}
	}
}
