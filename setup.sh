#!/bin/bash
# Run once after a fresh restore, offline. Warms the Go build cache for the
# harness (the checks themselves rebuild their monitor from /repo's working
# tree on every invocation; nothing built here is required for correctness).
set -u
cd "$(dirname "$0")/harness" || exit 1
GO=/root/go/pkg/mod/golang.org/toolchain@v0.0.1-go1.25.8.linux-amd64/bin/go
[ -x "$GO" ] || GO=/opt/veriftools/go1.26.8/bin/go
export GOTOOLCHAIN=local GOFLAGS=-mod=mod GOPROXY=off GOSUMDB=off
"$GO" build -tags verif ./core/... ./cborx/... ./corpus/... || exit 1
"$GO" build -tags verif github.com/blinklabs-io/gouroboros/... || exit 1
# warm the -race variant too (used by the monitors that start library goroutines)
"$GO" build -race -tags verif github.com/blinklabs-io/gouroboros/... ./core/... ./netsim/... ./rawpeer/... ./protorig/... || exit 1
"$GO" build -tags verif ./ledgergen/... ./blockx/... ./specfsm/... || exit 1
echo setup ok
